//! Cluster-level searches on the simulator: C02 (fault-free discovery / zero false suspicion),
//! C03 (completeness), C04 (single lost datagram), C05 (healed partition), C18 (reply cascades).
use std::collections::{BTreeMap, HashMap, HashSet};

use foca::{Header, Member, Message, OwnedNotification, State};

use crate::codec::CodecKind;
use crate::ident::{Policy, VId};
use crate::oracle::Finding;
use crate::proto::{Cfg, Op};
use crate::run::fnv;
use crate::search::{SearchCase, SearchOut};
use crate::sim::{node_setup, Ev, Sim};
use crate::util::Sm;
use crate::wire::build_datagram;

fn f(clause: &str, sig: &str, detail: String) -> Finding {
    Finding { clause: clause.into(), signature: sig.into(), detail }
}

pub type Params = BTreeMap<String, String>;

pub fn params_text(p: &Params) -> String {
    p.iter().map(|(k, v)| format!("{}={}", k, v)).collect::<Vec<_>>().join(",")
}

pub fn parse_params(s: &str) -> Params {
    s.split(',').filter_map(|kv| kv.split_once('=')).map(|(k, v)| (k.to_string(), v.to_string())).collect()
}

fn pu(p: &Params, k: &str, d: u64) -> u64 {
    p.get(k).and_then(|v| v.parse().ok()).unwrap_or(d)
}

fn codec_of(p: &Params) -> CodecKind {
    CodecKind::parse(p.get("codec").map(|s| s.as_str()).unwrap_or("fixed")).unwrap_or(CodecKind::Fixed)
}

fn policy_of(p: &Params) -> Policy {
    Policy::parse(p.get("pol").map(|s| s.as_str()).unwrap_or("none")).unwrap_or(Policy::None)
}

fn cfg_of(p: &Params) -> Cfg {
    let period = pu(p, "period", 1000);
    let per = |k: &str| -> Option<(u64, usize)> {
        let v = pu(p, k, 0);
        if v == 0 {
            None
        } else {
            Some((v, pu(p, &format!("{}n", k), 2) as usize))
        }
    };
    Cfg {
        probe_period: period,
        probe_rtt: pu(p, "rtt", 400),
        k: pu(p, "k", 3) as usize,
        max_tx: pu(p, "maxtx", 4) as u8,
        s2d: pu(p, "s2d", 3000),
        rda: pu(p, "rda", 600_000),
        mps: pu(p, "mps", 1400) as usize,
        notify_down: pu(p, "notify", 0) == 1,
        pa: per("pa"),
        pad: per("pad"),
        pg: per("pg"),
    }
}

fn new_sim(p: &Params) -> Sim {
    let cfg = cfg_of(p);
    let n = pu(p, "n", 3) as u16;
    let lat_hi = (cfg.probe_rtt / 4).max(2) - 1;
    let mut sim = Sim::new(pu(p, "seed", 1), (1, lat_hi));
    for a in 1..=n {
        sim.add_node(&node_setup(a, 0, policy_of(p), codec_of(p), &cfg, pu(p, "seed", 1).wrapping_mul(31).wrapping_add(a as u64)));
    }
    sim
}

fn live_member_misjudged(sim: &Sim) -> Option<String> {
    let live = sim.live_ids();
    for (a, n) in &sim.nodes {
        if !sim.alive(*a) {
            continue;
        }
        for m in n.members() {
            if live.contains(m.id()) && m.state() != State::Alive {
                return Some(format!("node {} records live {} as {:?} at t={}", a, m.id().text(), m.state(), sim.now));
            }
        }
    }
    None
}

// ------------------------------------------------------------------------------------------------
// C02

pub fn run_c02(p: &Params) -> Option<Finding> {
    let cfg = cfg_of(p);
    let n = pu(p, "n", 3) as u16;
    let mut sim = new_sim(p);
    let mode = p.get("mode").cloned().unwrap_or_else(|| "settled".into());
    let gap = pu(p, "gap", 0);
    let mut r = Sm::new(pu(p, "seed", 1) ^ 0xC02);
    // join schedule
    let mut t = 0u64;
    let mut joins: Vec<(u64, u16, u16)> = Vec::new();
    for a in 2..=n {
        let seed_node = match mode.as_str() {
            "common" => 1,
            _ => r.range(1, (a - 1) as u64) as u16,
        };
        t += match mode.as_str() {
            "settled" => (2 * n as u64 + 4) * cfg.probe_period,
            "common" => r.below(50),
            _ => gap.max(1) + r.below(cfg.probe_period),
        };
        joins.push((t, a, seed_node));
    }
    let t_last = t;
    let mut all_settled = true;
    let mut ji = 0;
    let bound = (3 * n as u64 + 6) * cfg.probe_period;
    let end = t_last + bound;
    loop {
        let next_join = joins.get(ji).map(|j| j.0).unwrap_or(u64::MAX);
        let until = next_join.min(end);
        // step event by event so that safety is checked after each one
        while sim.step(until) {
            if let Some(d) = live_member_misjudged(&sim) {
                return Some(f("no instance ever records a live member as Suspect or Down", "C02:false-suspicion", d));
            }
        }
        if next_join <= end && ji < joins.len() {
            sim.now = sim.now.max(next_join);
            let (_, a, s) = joins[ji];
            ji += 1;
            // is the seed's view settled (lists every node that joined before)?
            let joined: Vec<VId> = (1..a).filter(|x| *x != s).map(|x| sim.nodes[&x].identity()).collect();
            let seed_view: Vec<VId> = sim.nodes[&s].active_members().iter().map(|m| *m.id()).collect();
            if !joined.iter().all(|j| seed_view.contains(j)) {
                all_settled = false;
            }
            let dst = sim.nodes[&s].identity();
            sim.call(a, &Op::Announce(dst));
        } else {
            break;
        }
    }
    sim.run_until(end);
    if let Some(e) = sim.errors.first() {
        return Some(f("no call returns an error", &format!("C02:error:{}", e.2.split(' ').next().unwrap_or("")), format!("t={} node {} `{}` -> {}", e.0, e.1, e.3, e.2)));
    }
    for nt in &sim.notes {
        if matches!(nt.what, OwnedNotification::MemberDown(_) | OwnedNotification::Idle | OwnedNotification::Defunct) {
            return Some(f("no MemberDown, Idle or Defunct in a fault-free run", &format!("C02:notification:{}", crate::proto::notif_text(&nt.what).split(' ').next().unwrap_or("")), format!("t={} node {}: {}", nt.time, nt.at, crate::proto::notif_text(&nt.what))));
        }
    }
    // discovery only when the packet can feed the whole cluster
    if pu(p, "feedfits", 1) == 1 && !sim.fully_discovered() {
        let missing: Vec<String> = sim.nodes.iter().map(|(a, nd)| format!("{}:{}", a, nd.active_members().len())).collect();
        let sig = if all_settled || mode == "common" { "C02:discovery:settled-seeds" } else { "C02:discovery:unsettled-seed" };
        return Some(f("every instance lists every other live member within a linear number of probe periods", sig, format!("n={} mode={} after {} ms: active counts {:?}", n, mode, bound, missing)));
    }
    None
}

// ------------------------------------------------------------------------------------------------
// C03

pub fn run_c03(p: &Params) -> Option<Finding> {
    let cfg = cfg_of(p);
    let n = pu(p, "n", 3) as u16;
    let mut sim = new_sim(p);
    sim.form_directly();
    let mask = pu(p, "fail", 1);
    let leave = pu(p, "leave", 0) == 1;
    let warm_events = pu(p, "at", 10);
    for _ in 0..warm_events {
        if !sim.step(u64::MAX) {
            break;
        }
    }
    let t_fail = sim.now;
    let failing: Vec<u16> = (1..=n).filter(|a| (mask >> (a - 1)) & 1 == 1).collect();
    if failing.is_empty() || failing.len() as u16 >= n {
        return None;
    }
    let failing_ids: Vec<VId> = failing.iter().map(|a| sim.nodes[a].identity()).collect();
    // who listed whom as active at the moment of the failure
    let listed: HashMap<u16, Vec<VId>> = sim.nodes.iter().map(|(a, nd)| (*a, nd.active_members().iter().map(|m| *m.id()).collect())).collect();
    for a in &failing {
        if leave {
            sim.call(*a, &Op::Leave);
            sim.left.push(*a);
        } else {
            sim.crashed.push(*a);
        }
    }
    let bound = (2 * n as u64 + 1) * cfg.probe_period + cfg.s2d + cfg.probe_period;
    let sent_before = sim.sent_kinds.clone();
    sim.run_until(t_fail + bound);
    if std::env::var("VERIF_DEBUG").is_ok() {
        eprintln!("t_fail={} failing={:?}", t_fail, failing);
        for nt in &sim.notes {
            eprintln!("  t={} node {}: {}", nt.time, nt.at, crate::proto::notif_text(&nt.what));
        }
        for e in &sim.errors {
            eprintln!("  ERR t={} node {} {} on {}", e.0, e.1, e.2, e.3);
        }
        for (a, nd) in &sim.nodes {
            eprintln!("  node {}: {}", a, nd.obs_line());
        }
    }
    for (a, _) in sim.nodes.iter() {
        if failing.contains(a) {
            continue;
        }
        for x in &failing_ids {
            if !listed[a].contains(x) {
                continue;
            }
            let t = sim.notes.iter().find(|nt| nt.at == *a && nt.time >= t_fail && matches!(&nt.what, OwnedNotification::MemberDown(y) if y == x)).map(|nt| nt.time);
            match t {
                None => {
                    return Some(f("every survivor reports the failed member Down within (2n+1) periods + suspect_to_down_after", &format!("C03:not-reported:{}", if leave { "leave" } else { "crash" }), format!("n={} node {} never reported {} down within {} ms of t={}", n, a, x.text(), bound, t_fail)));
                }
                Some(_) => {}
            }
        }
        for nt in sim.notes.iter().filter(|nt| nt.at == *a && nt.time >= t_fail) {
            if let OwnedNotification::MemberDown(y) = &nt.what {
                if !failing_ids.contains(y) {
                    return Some(f("no surviving member is declared Down in the process", "C03:survivor-down", format!("n={} node {} declared live {} down at t={}", n, a, y.text(), nt.time)));
                }
            }
            if matches!(nt.what, OwnedNotification::Defunct | OwnedNotification::Rejoin(_)) {
                return Some(f("no surviving member is told it is down", "C03:survivor-told-down", format!("node {} at t={}", a, nt.time)));
            }
        }
    }
    if leave {
        // a member that left stops answering probes: no Ack / IndirectAck / Feed from it afterwards
        let _ = sent_before;
    }
    None
}

// ------------------------------------------------------------------------------------------------
// C04

pub fn run_c04(p: &Params) -> Option<Finding> {
    let cfg = cfg_of(p);
    let n = pu(p, "n", 3) as u16;
    let mut sim = new_sim(p);
    sim.form_directly();
    let warm = pu(p, "warm", 2) * cfg.probe_period + pu(p, "seed", 1) % 700;
    sim.run_until(warm);
    let drop = sim.datagrams_sent + 1 + pu(p, "drop", 0);
    sim.drop_serials.push(drop);
    let notes_before = sim.notes.len();
    let window = (2 * n as u64 + 2) * cfg.probe_period;
    let horizon = warm + window + (2 * n as u64 + 6) * cfg.probe_period + cfg.s2d;
    sim.run_until(horizon);
    let what = sim.dropped.first().map(|d| d.1.clone()).unwrap_or_else(|| "none".into());
    if sim.dropped.is_empty() {
        return None;
    }
    for nt in &sim.notes[notes_before..] {
        if matches!(nt.what, OwnedNotification::MemberDown(_) | OwnedNotification::Defunct | OwnedNotification::Rejoin(_)) {
            return Some(f("a single lost datagram never gets a live member declared or told Down", &format!("C04:{}:{}", crate::proto::notif_text(&nt.what).split(' ').next().unwrap_or(""), what), format!("n={} dropped datagram #{} ({}): node {} notified {} at t={}", n, drop, what, nt.at, crate::proto::notif_text(&nt.what), nt.time)));
        }
    }
    if !sim.all_alive_state() {
        return Some(f("within a bounded number of periods everyone again lists everyone as Alive", &format!("C04:not-reconverged:{}", what), format!("n={} dropped #{} ({}) at t={}: {:?}", n, drop, what, sim.now, live_member_misjudged(&sim))));
    }
    None
}

// ------------------------------------------------------------------------------------------------
// C05

pub fn run_c05(p: &Params) -> Option<Finding> {
    let cfg = cfg_of(p);
    let n = pu(p, "n", 3) as u16;
    let mut sim = new_sim(p);
    sim.form_directly();
    let mask = pu(p, "side", 1);
    let side_a: Vec<u16> = (1..=n).filter(|a| (mask >> (a - 1)) & 1 == 1).collect();
    if side_a.is_empty() || side_a.len() as u16 >= n {
        return None;
    }
    let other = n as usize - side_a.len();
    if side_a.len().max(other) < 2 {
        return None;
    }
    let t0 = pu(p, "t0", 1500);
    sim.run_until(t0);
    sim.partition = Some(side_a.clone());
    let dur = (2 * n as u64 + 3) * cfg.probe_period + cfg.s2d + pu(p, "extra", 0);
    sim.run_until(t0 + dur);
    // both sides must have declared each other Down (otherwise the scenario is not the one of the property)
    let mutual = sim.nodes.iter().all(|(a, nd)| {
        let mine = side_a.contains(a);
        nd.members().iter().all(|m| (side_a.contains(&m.id().addr) == mine) || m.state() == State::Down)
    });
    if !mutual {
        return None;
    }
    let old_ids: HashMap<u16, VId> = sim.nodes.iter().map(|(a, nd)| (*a, nd.identity())).collect();
    let notes_before = sim.notes.len();
    sim.partition = None;
    let pad = cfg.pad.map(|x| x.0).unwrap_or(4000);
    // "a bounded number of announce-to-down periods": the renewed identities spread by gossip with fan-out
    // `num_indirect_probes`, so the number of periods grows with the cluster (fan-out 1, eleven members: about a
    // dozen); a fixed 8 was this check's invention, not the property's
    let bound = pu(p, "bound", 8.max(2 * n as u64)) * pad + 4 * cfg.probe_period;
    sim.run_until(t0 + dur + bound);
    let after = &sim.notes[notes_before..];
    if std::env::var("VERIF_DEBUG").is_ok() {
        eprintln!("split={:?} t0={} heal={} end={}", side_a, t0, t0 + dur, t0 + dur + bound);
        for nt in &sim.notes {
            if nt.time >= t0 {
                eprintln!("  t={} node {}: {}", nt.time, nt.at, crate::proto::notif_text(&nt.what));
            }
        }
        for e in &sim.errors {
            eprintln!("  ERR t={} node {} {} on {}", e.0, e.1, e.2, e.3);
        }
        for (a, nd) in &sim.nodes {
            eprintln!("  node {}: {} | {}", a, nd.obs_line(), nd.hid_line());
        }
    }
    // the known deadlock (finding F9): every live node renewed its identity at about the same time, each one's
    // "I changed identity" gossip reached peers that had just renewed too (and ignore datagrams addressed to
    // their previous identity), so all of them sit Disconnected with no timer running
    let all_disconnected = sim.nodes.iter().filter(|(a, _)| sim.alive(**a)).all(|(_, nd)| nd.foca.verif_snapshot().connection_state == 0);
    let all_renewed = sim.nodes.iter().all(|(a, nd)| nd.identity() != old_ids[a]);
    if all_disconnected && all_renewed {
        return Some(f("after the partition heals every live instance again lists every other under its current identity", "C05:deadlock:all-renewed-all-disconnected", format!("n={} split={:?}: every node renewed its identity within one latency of the others and none ever became Active again", n, side_a)));
    }
    for nt in after {
        if matches!(nt.what, OwnedNotification::Defunct) {
            return Some(f("every instance told it is down reports Rejoin, never Defunct", "C05:defunct", format!("node {} at t={}", nt.at, nt.time)));
        }
        if let OwnedNotification::Rejoin(id) = &nt.what {
            let old = old_ids[&nt.at];
            if !(id.addr == old.addr && id.gen > old.gen) {
                return Some(f("the renewed identity wins the address conflict against the previous one", "C05:rejoin-not-winning", format!("{} -> {}", old.text(), id.text())));
            }
            let later_active = after.iter().any(|x| x.at == nt.at && x.time >= nt.time && matches!(x.what, OwnedNotification::Active));
            if !later_active {
                return Some(f("a rejoined instance reports Active afterwards", "C05:no-active-after-rejoin", format!("node {} rejoined at t={}", nt.at, nt.time)));
            }
        }
    }
    if !sim.fully_discovered() {
        let views: Vec<String> = sim.nodes.iter().map(|(a, nd)| format!("{}({}):[{}]", a, nd.identity().text(), nd.active_members().iter().map(|m| m.id().text()).collect::<Vec<_>>().join(" "))).collect();
        return Some(f("after the partition heals every live instance again lists every other under its current identity", "C05:not-converged", format!("n={} split={:?} after {} ms: {}", n, side_a, bound, views.join(" "))));
    }
    None
}

// ------------------------------------------------------------------------------------------------
// C18

pub fn run_c18(p: &Params) -> Option<Finding> {
    let cfg = cfg_of(p);
    let n = pu(p, "n", 2) as u16;
    let mut r = Sm::new(pu(p, "seed", 1) ^ 0xC18);
    let cfgc = cfg.clone();
    let mut sim = Sim::new(pu(p, "seed", 1), (1, 5));
    sim.hold_timers = true;
    let pols = [Policy::None, Policy::Bump, Policy::Same, Policy::Lose, Policy::SameEq, Policy::Tie];
    for a in 1..=n {
        let pol = if pu(p, "pol_all", 9) < 4 { pols[pu(p, "pol_all", 0) as usize] } else { *r.pick(&pols) };
        sim.add_node(&node_setup(a, r.below(2) as u16, pol, codec_of(p), &cfgc, r.next()));
    }
    // arbitrary mutual knowledge: alive / suspect / down / superseded identities; some nodes idle or defunct
    let ids: Vec<VId> = sim.nodes.values().map(|nd| nd.identity()).collect();
    for a in 1..=n {
        let mut ups = Vec::new();
        for id in &ids {
            if id.addr == a {
                continue;
            }
            match r.below(6) {
                0 => {}
                1 => ups.push(Member::new(*id, 0, State::Alive)),
                2 => ups.push(Member::new(*id, r.below(2) as u16, State::Suspect)),
                3 => ups.push(Member::new(*id, 0, State::Down)),
                4 => ups.push(Member::new(VId::new(id.addr, id.gen + 1), 0, *r.pick(&[State::Alive, State::Down]))),
                _ => ups.push(Member::new(VId::new(id.addr, id.gen.saturating_sub(1)), 0, State::Alive)),
            }
        }
        if !ups.is_empty() {
            sim.call(a, &Op::Apply(false, ups));
        }
        if r.chance(20) {
            sim.call(a, &Op::Leave);
        }
        if r.chance(15) {
            sim.call(a, &Op::AddB(vec![1, 1, 9]));
        }
    }
    // forget what the set-up itself sent
    while sim.step(u64::MAX) {
        if sim.events_processed > 2000 {
            break;
        }
    }
    let base_events = sim.events_processed;
    // the single datagram that starts the exchange
    let from = r.range(1, n as u64) as u16;
    let mut to = r.range(1, n as u64) as u16;
    if to == from {
        to = if from == n { 1 } else { from + 1 };
    }
    let src = sim.nodes[&from].identity();
    let dst = sim.nodes[&to].identity();
    let third = ids[(r.below(ids.len() as u64)) as usize];
    let pn = sim.nodes[&to].foca.verif_snapshot().probe_number;
    let message = match pu(p, "kind", 0) % 11 {
        0 => Message::Ping(3),
        1 => Message::Ack(pn),
        2 => Message::PingReq { target: third, probe_number: 1 },
        3 => Message::IndirectPing { origin: third, probe_number: 1 },
        4 => Message::IndirectAck { target: third, probe_number: 1 },
        5 => Message::ForwardedAck { origin: third, probe_number: pn },
        6 => Message::Announce,
        7 => Message::Feed,
        8 => Message::Gossip,
        9 => Message::Broadcast,
        _ => Message::TurnUndead,
    };
    let inc = sim.nodes[&from].foca.verif_snapshot().incarnation;
    let header = Header { src, src_incarnation: inc, dst, message: message.clone() };
    let sec: Option<Vec<Member<VId>>> = if crate::wire::carries_updates(&message) && r.chance(60) {
        Some((0..r.below(3)).map(|_| Member::new(ids[r.below(ids.len() as u64) as usize], r.below(3) as u16, *r.pick(&[State::Alive, State::Suspect, State::Down]))).collect())
    } else {
        None
    };
    let data = build_datagram(codec_of(p), &header, sec.as_deref(), &[]);
    sim.schedule(sim.now + 1, Ev::Deliver { to, from, data, serial: 0 });
    let cap = 300;
    let mut deliveries = 0u64;
    let mut last_kinds: Vec<String> = Vec::new();
    let k = cfg.k as u64;
    loop {
        let before_sent = sim.datagrams_sent;
        let kinds_before = sim.sent_kinds.clone();
        if !sim.step(u64::MAX) {
            break;
        }
        deliveries += 1;
        let new = sim.datagrams_sent - before_sent;
        // one delivered datagram causes a bounded number of new datagrams
        if new > 3 + 4 * k + k * 6 {
            return Some(f("every delivered datagram causes at most a bounded number of new datagrams", "C18:fanout", format!("{} datagrams from one delivery", new)));
        }
        for (kd, v) in &sim.sent_kinds {
            if kinds_before.get(kd).copied().unwrap_or(0) < *v {
                last_kinds.push(kd.clone());
            }
        }
        if deliveries >= cap {
            let tail: Vec<String> = last_kinds.iter().rev().take(12).cloned().collect();
            let pingpong = tail.iter().all(|x| x == "TurnUndead");
            let sig = if pingpong { "C18:turnundead-pingpong" } else { "C18:storm" };
            return Some(f("the exchange triggered by any single datagram terminates", sig, format!("still exchanging after {} deliveries (n={}, first {}); last kinds {:?}", deliveries, n, crate::wire::kind_name(&message), tail)));
        }
    }
    let _ = base_events;
    None
}

// ------------------------------------------------------------------------------------------------
// generators

fn base_params(r: &mut Sm, n_max: u64, seed: u64, ci: u64) -> Params {
    let mut p = Params::new();
    p.insert("n".into(), r.range(2, n_max).to_string());
    p.insert("seed".into(), (seed.wrapping_mul(7919).wrapping_add(ci)).to_string());
    p.insert("codec".into(), r.pick(&["fixed", "postcard", "bincode"]).to_string());
    p.insert("k".into(), r.range(1, 3).to_string());
    p.insert("maxtx".into(), r.pick(&[1u64, 2, 3, 4, 6, 10]).to_string());
    p
}

pub fn gen_params(prop: &str, r: &mut Sm, seed: u64, ci: u64, thorough: bool) -> Params {
    let n_max = if thorough { 12 } else { 6 };
    let mut p = base_params(r, n_max, seed, ci);
    let n = pu(&p, "n", 3);
    match prop {
        "C02" => {
            p.insert("mode".into(), r.pick(&["settled", "settled", "common", "rapid"]).to_string());
            p.insert("gap".into(), r.pick(&[10u64, 500, 2000]).to_string());
            if r.chance(40) {
                p.insert("pg".into(), "700".into());
            }
            if r.chance(30) {
                p.insert("pa".into(), "5000".into());
            }
            // packet sizes: just enough to feed the whole cluster .. 1400; sometimes too small (safety only)
            let member = match p["codec"].as_str() {
                "fixed" => 7,
                _ => 4,
            };
            let need = 20 + member * n + 4;
            match r.below(4) {
                0 => {
                    p.insert("mps".into(), need.to_string());
                }
                1 => {
                    p.insert("mps".into(), (24 + member * (n / 2).max(1)).min(need - 1).max(22).to_string());
                    p.insert("feedfits".into(), "0".into());
                }
                _ => {}
            }
        }
        "C03" => {
            let mask = r.range(1, (1u64 << n) - 2);
            p.insert("fail".into(), mask.to_string());
            p.insert("leave".into(), if r.chance(35) { "1" } else { "0" }.to_string());
            p.insert("at".into(), r.below(60).to_string());
        }
        "C04" => {
            p.insert("warm".into(), r.range(1, 3).to_string());
            p.insert("drop".into(), r.below(12 * n).to_string());
            p.insert("notify".into(), r.below(2).to_string());
            p.insert("pol".into(), r.pick(&["none", "bump"]).to_string());
        }
        "C05" => {
            let n = pu(&p, "n", 3).max(3);
            p.insert("n".into(), n.to_string());
            p.insert("side".into(), r.range(1, (1u64 << n) - 2).to_string());
            p.insert("notify".into(), "1".into());
            p.insert("pol".into(), "bump".into());
            p.insert("pad".into(), "3000".into());
            p.insert("padn".into(), "2".into());
            p.insert("t0".into(), r.range(500, 3000).to_string());
            p.insert("extra".into(), r.below(4000).to_string());
        }
        _ => {
            p.insert("n".into(), r.range(2, 3).to_string());
            p.insert("kind".into(), r.below(11).to_string());
            p.insert("notify".into(), r.below(2).to_string());
            if r.chance(30) {
                p.insert("pol_all".into(), r.below(4).to_string());
            }
        }
    }
    p
}

pub fn run_sim_prop(prop: &str, p: &Params) -> Option<Finding> {
    match prop {
        "C02" => run_c02(p),
        "C03" => run_c03(p),
        "C04" => run_c04(p),
        "C05" => run_c05(p),
        "C18" => run_c18(p),
        _ => None,
    }
}

pub fn case_of(prop: &str, p: &Params) -> SearchCase {
    let cfg = cfg_of(p);
    SearchCase { check: format!("sim:{}:{}", prop, params_text(p)), instances: vec![(node_setup(1, 0, policy_of(p), codec_of(p), &cfg, 0), vec![])] }
}

pub fn replay_sim(case: &SearchCase) -> Option<Finding> {
    let mut it = case.check.splitn(3, ':');
    let _ = it.next();
    let prop = it.next()?.to_string();
    let p = parse_params(it.next()?);
    run_sim_prop(&prop, &p)
}

pub fn search_sim(prop: &str, seed: u64, first: u64, n_evals: u64, thorough: bool) -> SearchOut {
    let mut out = SearchOut::default();
    let mut sigs: HashSet<String> = HashSet::new();
    for ci in first..first + n_evals {
        let mut r = Sm::new(seed.wrapping_mul(0x3C6EF372).wrapping_add(ci).wrapping_add(fnv(prop)));
        let p = gen_params(prop, &mut r, seed, ci, thorough);
        out.evaluations += 1;
        out.bump(&format!("n.{}", pu(&p, "n", 0)));
        if let Some(m) = p.get("mode") {
            out.bump(&format!("mode.{}", m));
        }
        let case = case_of(prop, &p);
        let h = fnv(&case.check);
        out.distinct.insert(h);
        if pu(&p, "n", 0) >= 3 || prop == "C18" {
            out.nontrivial.insert(h);
        }
        if out.samples.len() < 2 {
            out.samples.push(case.check.clone());
        }
        let res = std::panic::catch_unwind(|| run_sim_prop(prop, &p));
        let fd = match res {
            Ok(x) => x,
            Err(_) => Some(f("the simulation itself must not crash", &format!("{}:sim-panic", prop), case.check.clone())),
        };
        if let Some(fd) = fd {
            out.bump(&format!("finding.{}", fd.signature));
            if sigs.insert(fd.signature.clone()) {
                out.violations.push((fd, case));
            }
        }
    }
    out
}

// ------------------------------------------------------------------------------------------------
// model correspondence on simulator histories

/// Runs simulated cluster scenarios of `prop` and replays every instance's call history (its setup and
/// every datagram, timer and API call it processed, in order) through the Lean model, comparing results,
/// effects, observable state, hidden state and RNG use call by call.
pub fn sim_corr(prop: &str, seed: u64, first: u64, ops_budget: u64, thorough: bool) -> crate::run::CorrResult {
    use crate::run::{run_case, Case, CorrResult, Stats};
    let mut drv = crate::driver::Driver::spawn().expect("cannot start the Lean driver");
    let mut stats = Stats::default();
    let mut failures = Vec::new();
    let mut ci = first;
    while stats.ops < ops_budget && ci < first + 1_000_000 {
        let mut r = Sm::new(seed.wrapping_mul(0x51C0FFEE).wrapping_add(ci).wrapping_add(fnv(prop)));
        let p = gen_params(prop, &mut r, seed, ci, thorough);
        ci += 1;
        crate::sim::HIST_SINK.with(|h| *h.borrow_mut() = Some(Vec::new()));
        let _ = std::panic::catch_unwind(|| run_sim_prop(prop, &p));
        let hs = crate::sim::HIST_SINK.with(|h| h.borrow_mut().take()).unwrap_or_default();
        stats.bump(&format!("scenario.n.{}", pu(&p, "n", 0)));
        for (setup, ops) in hs {
            stats.cases += 1;
            stats.ops += ops.len() as u64;
            for o in &ops {
                stats.bump(&format!("op.{}", o.kind()));
            }
            stats.bump(&format!("history.len.{}", match ops.len() { 0..=9 => "<10", 10..=99 => "<100", 100..=999 => "<1000", _ => ">=1000" }));
            let case = Case { setup, ops };
            let h = fnv(&case.text());
            stats.distinct.insert(h);
            if case.ops.len() >= 10 {
                stats.nontrivial_distinct.insert(h);
            }
            if let Some(m) = run_case(&mut drv, &case) {
                let mut small = case.clone();
                small.ops.truncate(m.op_index + 1);
                failures.push((small, m));
                if failures.len() >= 2 {
                    stats.draws = drv.draws_answered;
                    return CorrResult { stats, failures };
                }
            }
        }
    }
    stats.draws = drv.draws_answered;
    CorrResult { stats, failures }
}
