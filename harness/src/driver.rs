//! The Lean model as a child process (lean/.lake/build/bin/focadriver).
use std::io::{BufRead, BufReader, Write};
use std::process::{Child, ChildStdin, ChildStdout, Command, Stdio};

use rand::rngs::SmallRng;
use rand::seq::{IteratorRandom, SliceRandom};
use rand::Rng;

use crate::proto::hex;

pub struct Driver {
    child: Child,
    inp: ChildStdin,
    out: BufReader<ChildStdout>,
    pub draws_answered: u64,
}

pub fn driver_path() -> String {
    std::env::var("FOCA_DRIVER").unwrap_or_else(|_| "/verif/lean/.lake/build/bin/focadriver".to_string())
}

/// picks for one op: per emitted datagram the member-section blobs and the custom items
pub fn picks_text(picks: &[(Vec<Vec<u8>>, Vec<Vec<u8>>)]) -> String {
    if picks.is_empty() {
        return "-".into();
    }
    picks
        .iter()
        .map(|(u, c)| {
            let f = |l: &Vec<Vec<u8>>| l.iter().map(|b| hex(b)).collect::<Vec<_>>().join(";");
            format!("{}|{}", f(u), f(c))
        })
        .collect::<Vec<_>>()
        .join("/")
}

impl Driver {
    pub fn spawn() -> std::io::Result<Driver> {
        let mut child = Command::new(driver_path()).stdin(Stdio::piped()).stdout(Stdio::piped()).spawn()?;
        let inp = child.stdin.take().unwrap();
        let out = BufReader::new(child.stdout.take().unwrap());
        Ok(Driver { child, inp, out, draws_answered: 0 })
    }

    fn read_block(&mut self, mut mirror: Option<&mut SmallRng>) -> Vec<String> {
        let mut lines = Vec::new();
        loop {
            let mut l = String::new();
            let n = self.out.read_line(&mut l).unwrap_or(0);
            if n == 0 {
                lines.push("driver-eof".into());
                return lines;
            }
            let l = l.trim_end().to_string();
            if l == "end" {
                return lines;
            }
            if let Some(q) = l.strip_prefix('?') {
                let p: Vec<&str> = q.split_whitespace().collect();
                let n: usize = p.get(1).and_then(|x| x.parse().ok()).unwrap_or(0);
                let ans = match (p.first().copied(), mirror.as_deref_mut()) {
                    (Some("shuffle"), Some(rng)) => {
                        let mut v: Vec<usize> = (0..n).collect();
                        v.shuffle(rng);
                        if v.is_empty() {
                            "perm -".to_string()
                        } else {
                            format!("perm {}", v.iter().map(|x| x.to_string()).collect::<Vec<_>>().join(","))
                        }
                    }
                    (Some("choose"), Some(rng)) => match (0..n).choose(rng) {
                        Some(k) => format!("idx {}", k),
                        None => "idx 0".to_string(),
                    },
                    (Some("range"), Some(rng)) => {
                        if n == 0 {
                            "idx 0".to_string()
                        } else {
                            format!("idx {}", rng.random_range(0..n))
                        }
                    }
                    _ => "nodraw".to_string(),
                };
                self.draws_answered += 1;
                let _ = writeln!(self.inp, "{}", ans);
                let _ = self.inp.flush();
                continue;
            }
            lines.push(l);
        }
    }

    /// a stateless query (codec commands)
    pub fn raw(&mut self, line: &str) -> Vec<String> {
        let _ = writeln!(self.inp, "{}", line);
        let _ = self.inp.flush();
        self.read_block(None)
    }

    pub fn new_instance(&mut self, line: &str) -> Vec<String> {
        let _ = writeln!(self.inp, "{}", line);
        let _ = self.inp.flush();
        self.read_block(None)
    }

    /// Executes one op on model instance `k`; `mirror` answers the model's draw requests.
    pub fn op(&mut self, k: usize, picks: &str, op_text: &str, mirror: &mut SmallRng) -> Vec<String> {
        let _ = writeln!(self.inp, "op k={} picks={} {}", k, picks, op_text);
        let _ = self.inp.flush();
        self.read_block(Some(mirror))
    }
}

impl Drop for Driver {
    fn drop(&mut self) {
        let _ = self.child.kill();
        let _ = self.child.wait();
    }
}
