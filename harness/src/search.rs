//! Search for concrete failing inputs on the real crate: trace oracles over generated histories
//! and bespoke searches; shrinking; replay of stored cases.
use std::collections::{BTreeMap, HashSet};

use foca::{Member, State};

use crate::gen::{gen_member, gen_op, gen_setup, profile, Ctx};
use crate::ident::VId;
use crate::inst::{Instance, Res};
use crate::json::J;
use crate::oracle::{make_oracle, sends_of, snap, Finding, StepRec};
use crate::proto::{member_text, Op, Setup};
use crate::run::fnv;
use crate::util::{json_list, json_str, Sm};
use crate::wire::parse_prefix;

#[derive(Clone, Debug)]
pub struct SearchCase {
    pub check: String,
    pub instances: Vec<(Setup, Vec<Op>)>,
}

impl SearchCase {
    pub fn to_json(&self) -> String {
        let inst: Vec<String> = self
            .instances
            .iter()
            .map(|(s, ops)| {
                format!(
                    "{{\"setup\":{},\"ops\":{}}}",
                    json_str(&s.text()),
                    json_list(&ops.iter().map(|o| o.text()).collect::<Vec<_>>())
                )
            })
            .collect();
        format!("{{\"check\":{},\"instances\":[{}]}}", json_str(&self.check), inst.join(","))
    }
    pub fn from_json(j: &J) -> Option<SearchCase> {
        let check = j.get("check")?.str()?.to_string();
        let mut instances = Vec::new();
        for i in j.get("instances")?.arr()? {
            let setup = Setup::parse(i.get("setup")?.str()?)?;
            let mut ops = Vec::new();
            for o in i.get("ops")?.arr()? {
                ops.push(Op::parse(o.str()?)?);
            }
            instances.push((setup, ops));
        }
        Some(SearchCase { check, instances })
    }
    pub fn text(&self) -> String {
        let mut s = self.check.clone();
        for (st, ops) in &self.instances {
            s.push_str(" || ");
            s.push_str(&st.text());
            for o in ops {
                s.push_str(" ; ");
                s.push_str(&o.text());
            }
        }
        s
    }
}

#[derive(Default)]
pub struct SearchOut {
    pub evaluations: u64,
    pub distinct: HashSet<u64>,
    pub nontrivial: HashSet<u64>,
    pub violations: Vec<(Finding, SearchCase)>,
    pub hist: BTreeMap<String, u64>,
    pub samples: Vec<String>,
}

impl SearchOut {
    pub fn bump(&mut self, k: &str) {
        *self.hist.entry(k.to_string()).or_insert(0) += 1;
    }
    pub fn merge(&mut self, o: SearchOut) {
        self.evaluations += o.evaluations;
        self.distinct.extend(o.distinct);
        self.nontrivial.extend(o.nontrivial);
        for v in o.violations {
            if !self.violations.iter().any(|(f, _)| f.signature == v.0.signature) {
                self.violations.push(v);
            }
        }
        for (k, v) in o.hist {
            *self.hist.entry(k).or_insert(0) += v;
        }
        for s in o.samples {
            if self.samples.len() < 3 {
                self.samples.push(s);
            }
        }
    }
    pub fn to_json(&self, prop: &str, seed: u64, wall: f64) -> String {
        let viol: Vec<String> = self
            .violations
            .iter()
            .map(|(f, c)| {
                format!(
                    "{{\"clause\":{},\"signature\":{},\"detail\":{},\"case\":{}}}",
                    json_str(&f.clause),
                    json_str(&f.signature),
                    json_str(&f.detail),
                    c.to_json()
                )
            })
            .collect();
        format!(
            "{{\"kind\":\"search\",\"prop\":{},\"seed\":{},\"evaluations\":{},\"distinct\":{},\"distinct_nontrivial\":{},\"wall_s\":{:.2},\"hist\":{{{}}},\"samples\":{},\"violations\":[{}]}}",
            json_str(prop),
            seed,
            self.evaluations,
            self.distinct.len(),
            self.nontrivial.len(),
            wall,
            self.hist.iter().map(|(k, v)| format!("{}:{}", json_str(k), v)).collect::<Vec<_>>().join(","),
            json_list(&self.samples),
            viol.join(",")
        )
    }
}

// ------------------------------------------------------------------------------------------------
// trace oracles

/// `change_identity` to an address that is currently listed is outside the documented use of the API
/// (DESIGN.md, C09): the history stops being judged there.
pub fn tainting(_prop: &str, op: &Op, before: &crate::oracle::Snap) -> bool {
    match op {
        Op::ChId(id, _) => before.members.iter().any(|m| m.id().addr == id.addr),
        _ => false,
    }
}

/// Runs the oracle of `prop` over a concrete single-instance history.
pub fn run_trace(prop: &str, setup: &Setup, ops: &[Op]) -> Vec<(usize, Finding)> {
    let mut inst = Instance::new(setup);
    let mut oracle = match make_oracle(prop, setup) {
        Some(o) => o,
        None => return vec![],
    };
    let mut ctx = Ctx::default();
    let mut out_f = Vec::new();
    for (i, op) in ops.iter().enumerate() {
        let before = snap(&inst);
        if tainting(prop, op, &before) {
            break;
        }
        let out = inst.apply(op);
        let after = if inst.poisoned { before.clone() } else { snap(&inst) };
        let input = match op {
            Op::Data(d) => parse_prefix(setup.codec, d),
            _ => None,
        };
        let rec = StepRec { idx: i, op, out: &out, before: &before, after: &after, inst: &inst, ctx: &ctx, sends: sends_of(&inst, &out), input };
        for f in oracle.step(&rec) {
            out_f.push((i, f));
        }
        ctx.absorb(&out.effs);
        if inst.poisoned || encode_taint(prop, &out.res) {
            break;
        }
    }
    out_f
}

/// Standing hypothesis `FitsAllHeaders` (the crate's own NEEDSWORK in probe_random_member): every
/// header the instance emits fits max_packet_size. A call that fails with an Encode error leaves the
/// hypothesis; what follows is judged only for the properties that do not assume it.
pub fn encode_taint(prop: &str, res: &Res) -> bool {
    matches!(res, Res::Err(k) if k == "Encode") && !matches!(prop, "C06" | "C07" | "C17" | "C20")
}

fn shrink_trace(prop: &str, setup: &Setup, ops: &[Op], sig: &str) -> Vec<Op> {
    let mut cur: Vec<Op> = ops.to_vec();
    let still = |ops: &[Op]| -> Option<usize> { run_trace(prop, setup, ops).iter().find(|(_, f)| f.signature == sig).map(|(i, _)| *i) };
    if let Some(i) = still(&cur) {
        cur.truncate(i + 1);
    }
    let mut i = cur.len();
    while i > 0 {
        i -= 1;
        if cur.len() <= 1 {
            break;
        }
        let mut cand = cur.clone();
        cand.remove(i);
        if let Some(k) = still(&cand) {
            cand.truncate(k + 1);
            cur = cand;
            i = i.min(cur.len());
        }
    }
    cur
}

pub fn search_trace(prop: &str, seed: u64, first: u64, n: u64) -> SearchOut {
    let prof = profile(prop);
    let mut out = SearchOut::default();
    let mut ops_budget = n;
    let mut ci = first;
    while ops_budget > 0 {
        let mut r = Sm::new(seed.wrapping_mul(0x9E3779B1).wrapping_add(ci).wrapping_add(0x5EA7C4));
        ci += 1;
        let setup = gen_setup(&mut r, &prof);
        let nops = r.range(prof.ops_per_case.0, prof.ops_per_case.1).min(ops_budget.max(1));
        let mut inst = Instance::new(&setup);
        let mut oracle = match make_oracle(prop, &setup) {
            Some(o) => o,
            None => return out,
        };
        let mut ctx = Ctx::default();
        let mut ops = Vec::new();
        let mut kinds = HashSet::new();
        let mut any = false;
        let mut found: Vec<Finding> = Vec::new();
        for i in 0..nops {
            let op = gen_op(&mut r, &prof, &inst, &ctx);
            let before = snap(&inst);
            if tainting(prop, &op, &before) {
                break;
            }
            ops.push(op.clone());
            let o = inst.apply(&op);
            let after = if inst.poisoned { before.clone() } else { snap(&inst) };
            let input = match &op {
                Op::Data(d) => parse_prefix(setup.codec, d),
                _ => None,
            };
            out.evaluations += 1;
            out.bump(&format!("op.{}", op.kind()));
            match &o.res {
                Res::Err(k) => out.bump(&format!("err.{}", k)),
                Res::Panic(_) => out.bump("res.panic"),
                _ => out.bump("res.ok"),
            }
            kinds.insert(op.kind());
            any |= !o.effs.is_empty();
            let rec = StepRec { idx: i as usize, op: &op, out: &o, before: &before, after: &after, inst: &inst, ctx: &ctx, sends: sends_of(&inst, &o), input };
            let fs = oracle.step(&rec);
            ctx.absorb(&o.effs);
            if !fs.is_empty() {
                found = fs;
                break;
            }
            if inst.poisoned || encode_taint(prop, &o.res) {
                break;
            }
        }
        ops_budget = ops_budget.saturating_sub(ops.len() as u64);
        let h = fnv(&format!("{} {:?}", setup.text(), ops.iter().map(|o| o.text()).collect::<Vec<_>>()));
        out.distinct.insert(h);
        if any && kinds.len() >= 2 {
            out.nontrivial.insert(h);
        }
        if out.samples.len() < 2 && ops.len() < 25 {
            out.samples.push(format!("{} ; {}", setup.text(), ops.iter().map(|o| o.text()).collect::<Vec<_>>().join(" ; ")));
        }
        for f in found {
            if out.violations.iter().any(|(g, _)| g.signature == f.signature) {
                continue;
            }
            let small = shrink_trace(prop, &setup, &ops, &f.signature);
            let f2 = run_trace(prop, &setup, &small).into_iter().map(|(_, f)| f).find(|g| g.signature == f.signature).unwrap_or(f);
            out.violations.push((f2, SearchCase { check: "trace".into(), instances: vec![(setup.clone(), small)] }));
        }
        if out.violations.len() >= 12 {
            break;
        }
    }
    out
}

// ------------------------------------------------------------------------------------------------
// C01: order / multiplicity independence, self re-application, two-way exchange

/// canonical third-party view: per address the identity, state and (unless Down) incarnation
pub fn view_of(inst: &Instance, exclude: &[u16]) -> Vec<String> {
    let mut v: Vec<String> = inst
        .members()
        .iter()
        .filter(|m| !exclude.contains(&m.id().addr))
        .map(|m| {
            if m.state() == State::Down {
                format!("{}:D", m.id().text())
            } else {
                member_text(m)
            }
        })
        .collect();
    v.sort();
    v
}

fn apply_all(inst: &mut Instance, ops: &[Op]) {
    for op in ops {
        let _ = inst.apply(op);
        if inst.poisoned {
            break;
        }
    }
}

pub fn check_c01(case: &SearchCase) -> Option<Finding> {
    match case.check.as_str() {
        "same-view" => {
            let (s1, o1) = &case.instances[0];
            let (s2, o2) = &case.instances[1];
            let mut a = Instance::new(s1);
            let mut b = Instance::new(s2);
            apply_all(&mut a, o1);
            apply_all(&mut b, o2);
            let (va, vb) = (view_of(&a, &[s1.id.addr]), view_of(&b, &[s2.id.addr]));
            if va != vb {
                return Some(Finding { clause: "view independent of order and multiplicity of delivery".into(), signature: "C01:order".into(), detail: format!("{:?} vs {:?}", va, vb) });
            }
            None
        }
        "self-reapply" => {
            let (s1, o1) = &case.instances[0];
            let mut a = Instance::new(s1);
            apply_all(&mut a, o1);
            let before = (a.obs_line(), a.hid_line());
            let state = a.members();
            // scope: "identities other than its own" — a state that lists the instance's own current
            // identity (learned about before it renewed into it) is outside this clause
            if state.iter().any(|m| *m.id() == a.identity()) {
                return None;
            }
            let out = a.apply(&Op::Apply(true, state));
            let after = (a.obs_line(), a.hid_line());
            if before != after || !out.effs.is_empty() || out.res != Res::Ok {
                return Some(Finding { clause: "re-applying an instance's own full state changes nothing".into(), signature: "C01:self-reapply".into(), detail: format!("{} -> {} effects={}", before.0, after.0, out.effs.len()) });
            }
            None
        }
        "exchange" => {
            let (s1, o1) = &case.instances[0];
            let (s2, o2) = &case.instances[1];
            let mut a = Instance::new(s1);
            let mut b = Instance::new(s2);
            apply_all(&mut a, o1);
            apply_all(&mut b, o2);
            let (ma, mb) = (a.members(), b.members());
            let _ = a.apply(&Op::Apply(true, mb));
            let _ = b.apply(&Op::Apply(true, ma));
            let ex = [s1.id.addr, s2.id.addr];
            let (va, vb) = (view_of(&a, &ex), view_of(&b, &ex));
            if va != vb {
                return Some(Finding { clause: "after a two-way exchange of full states both agree on every third-party address".into(), signature: "C01:exchange".into(), detail: format!("{:?} vs {:?}", va, vb) });
            }
            None
        }
        _ => None,
    }
}

fn split_batches(r: &mut Sm, ms: &[Member<VId>]) -> Vec<Op> {
    let mut ops = Vec::new();
    let mut i = 0;
    while i < ms.len() {
        let n = r.range(1, 3) as usize;
        let j = (i + n).min(ms.len());
        ops.push(Op::Apply(r.chance(80), ms[i..j].to_vec()));
        i = j;
    }
    ops
}

pub fn search_c01(seed: u64, first: u64, n: u64) -> SearchOut {
    let mut prof = profile("C01");
    prof.own_addr_pct = 8;
    let mut out = SearchOut::default();
    for ci in first..first + n {
        let mut r = Sm::new(seed.wrapping_mul(0x2545F491).wrapping_add(ci).wrapping_add(0xC01));
        let mut setup = gen_setup(&mut r, &prof);
        setup.cfg.mps = 1400;
        let scratch = Instance::new(&setup);
        let k = r.range(2, 7);
        let ms: Vec<Member<VId>> = (0..k)
            .map(|_| {
                let mut m = gen_member(&mut r, &prof, &scratch);
                if r.chance(50) {
                    // force collisions: few addresses, few generations
                    m = Member::new(VId::new(r.range(2, 3) as u16, r.below(3) as u16), *r.pick(&[0u16, 1, 65534, 65535]), m.state());
                }
                m
            })
            .collect();
        let case = match r.below(3) {
            0 => {
                let mut p = ms.clone();
                for i in (1..p.len()).rev() {
                    p.swap(i, r.below(i as u64 + 1) as usize);
                }
                for _ in 0..r.below(4) {
                    let x = r.pick(&ms).clone();
                    let at = r.below(p.len() as u64 + 1) as usize;
                    p.insert(at, x);
                }
                let mut s2 = setup.clone();
                s2.rng_seed = r.next();
                SearchCase { check: "same-view".into(), instances: vec![(setup.clone(), split_batches(&mut r, &ms)), (s2, split_batches(&mut r, &p))] }
            }
            1 => SearchCase { check: "self-reapply".into(), instances: vec![(setup.clone(), split_batches(&mut r, &ms))] },
            _ => {
                let mut s2 = setup.clone();
                s2.id = VId::new(2, s2.id.gen);
                s2.rng_seed = r.next();
                let ms2: Vec<Member<VId>> = (0..r.range(1, 6))
                    .map(|_| Member::new(VId::new(r.range(1, 5) as u16, r.below(3) as u16), *r.pick(&[0u16, 1, 2, 65535]), *r.pick(&[State::Alive, State::Suspect, State::Down])))
                    .collect();
                SearchCase { check: "exchange".into(), instances: vec![(setup.clone(), split_batches(&mut r, &ms)), (s2, split_batches(&mut r, &ms2))] }
            }
        };
        out.evaluations += 1;
        out.bump(&format!("check.{}", case.check));
        let mut key: Vec<String> = ms.iter().map(member_text).collect();
        key.sort();
        let h = fnv(&format!("{} {:?}", case.check, key));
        out.distinct.insert(h);
        let addrs: HashSet<u16> = ms.iter().map(|m| m.id().addr).collect();
        if addrs.len() < ms.len() {
            out.nontrivial.insert(h);
            out.bump("multiset.repeated-address");
        }
        let ids: HashSet<(u16, u16)> = ms.iter().map(|m| (m.id().addr, m.id().gen)).collect();
        if ids.len() > addrs.len() {
            out.bump("multiset.address-conflict");
        }
        if out.samples.len() < 2 {
            out.samples.push(case.text());
        }
        if let Some(f) = check_c01(&case) {
            if !out.violations.iter().any(|(g, _)| g.signature == f.signature) {
                // shrink: drop ops from each instance while the finding persists
                let mut cur = case.clone();
                let mut changed = true;
                while changed {
                    changed = false;
                    for ii in 0..cur.instances.len() {
                        let mut j = cur.instances[ii].1.len();
                        while j > 0 {
                            j -= 1;
                            let mut cand = cur.clone();
                            cand.instances[ii].1.remove(j);
                            if check_c01(&cand).map(|g| g.signature == f.signature).unwrap_or(false) {
                                cur = cand;
                                changed = true;
                            }
                        }
                    }
                }
                let f2 = check_c01(&cur).unwrap_or(f);
                out.violations.push((f2, cur));
            }
        }
    }
    out
}

pub fn search(prop: &str, seed: u64, first: u64, n: u64, thorough: bool) -> SearchOut {
    match prop {
        "C01" => search_c01(seed, first, n),
        "C13" => crate::search2::search_c13(seed, first, n),
        "C14" => crate::search2::search_c14(seed, first, (n / 40).max(20), thorough),
        "C17" => crate::search2::search_c17(seed, first, n),
        "C20" => crate::search2::search_c20(seed, first, n / 4),
        "C02" | "C03" | "C04" | "C05" => crate::search3::search_sim(prop, seed, first, (n / 200).max(8), thorough),
        "C18" => crate::search3::search_sim(prop, seed, first, (n / 40).max(50), thorough),
        _ => search_trace(prop, seed, first, n),
    }
}

pub fn replay(prop: &str, case: &SearchCase) -> Vec<Finding> {
    match case.check.as_str() {
        "trace" => {
            let (s, ops) = &case.instances[0];
            run_trace(prop, s, ops).into_iter().map(|(_, f)| f).collect()
        }
        "same-view" | "self-reapply" | "exchange" => check_c01(case).into_iter().collect(),
        "c14-rounds" => crate::search2::check_c14(case).into_iter().collect(),
        c if c.starts_with("sim:") => crate::search3::replay_sim(case).into_iter().collect(),
        "c20" => crate::search2::check_c20(case, &mut crate::driver::Driver::spawn().ok()).into_iter().collect(),
        "c20w" => crate::search2::check_c20_wide(case).into_iter().collect(),
        "c13-inorder" | "c13-random" => crate::search2::check_c13(case).into_iter().collect(),
        c if c.starts_with("c17-twin") => crate::search2::check_c17(case).into_iter().collect(),
        _ => vec![],
    }
}
