//! Correspondence: run the same op on the real crate and on the Lean model, compare canonical output.
use crate::driver::{picks_text, Driver};
use crate::inst::{Instance, Outcome, Res};
use crate::proto::{Op, Setup};
use crate::rt::Eff;
use crate::wire::parse_datagram;

pub struct Pair {
    pub inst: Instance,
    pub k: usize,
    pub debug: bool,
}

#[derive(Debug, Clone)]
pub struct Mismatch {
    pub op_index: usize,
    pub op: String,
    pub line: usize,
    pub implementation: String,
    pub model: String,
}

pub fn picks_of(inst: &Instance, out: &Outcome) -> Vec<(Vec<Vec<u8>>, Vec<Vec<u8>>)> {
    let mut v = Vec::new();
    for e in &out.effs {
        if let Eff::Send(_, data) = e {
            match parse_datagram(inst.setup.codec, data) {
                Ok(p) => {
                    let u = p.section.map(|s| s.into_iter().map(|(_, b)| b).collect()).unwrap_or_default();
                    v.push((u, p.items));
                }
                Err(_) => v.push((vec![], vec![])),
            }
        }
    }
    v
}

pub fn debug_build() -> bool {
    cfg!(debug_assertions)
}

impl Pair {
    pub fn new(drv: &mut Driver, k: usize, setup: &Setup) -> Result<Pair, Mismatch> {
        let inst = Instance::new(setup);
        let debug = debug_build();
        let lines = drv.new_instance(&setup.new_line(k, debug));
        let want = vec![inst.obs_line(), inst.hid_line()];
        if let Some(m) = first_diff(0, "new", &want, &lines) {
            return Err(m);
        }
        Ok(Pair { inst, k, debug })
    }

    /// Runs `op` on both sides. Returns the implementation outcome and the first differing line, if any.
    pub fn exec(&mut self, drv: &mut Driver, idx: usize, op: &Op) -> (Outcome, Vec<String>, Option<Mismatch>) {
        let out = self.inst.apply(op);
        let mut want = self.inst.lines(&out);
        let picks = picks_text(&picks_of(&self.inst, &out));
        let mut mirror = out.rng_before.clone();
        let mut got = drv.op(self.k, &picks, &op.text(), &mut mirror);
        if let Res::Panic(_) = out.res {
            // compare only the fact that both panic
            got = got.into_iter().map(|l| if l.starts_with("res panic") { "res panic".to_string() } else { l }).collect();
        } else {
            want.push("rng same".into());
            let same = mirror == *self.inst.rng.borrow();
            got.push(if same { "rng same".into() } else { "rng diff".into() });
        }
        let mm = first_diff(idx, &op.text(), &want, &got);
        (out, want, mm)
    }
}

pub fn first_diff(idx: usize, op: &str, want: &[String], got: &[String]) -> Option<Mismatch> {
    let n = want.len().max(got.len());
    for i in 0..n {
        let a = want.get(i).cloned().unwrap_or_else(|| "<none>".into());
        let b = got.get(i).cloned().unwrap_or_else(|| "<none>".into());
        if a != b {
            return Some(Mismatch { op_index: idx, op: op.to_string(), line: i, implementation: a, model: b });
        }
    }
    None
}
