//! Textual line protocol shared with the Lean driver (lean/Driver.lean). Canonical, no floats, no addresses.
use std::num::{NonZeroU8, NonZeroUsize};
use std::time::Duration;

use foca::{Config, Member, OwnedNotification, PeriodicParams, State, Timer};

use crate::codec::CodecKind;
use crate::handler::HandlerKind;
use crate::ident::{Policy, VId};
use crate::rt::Eff;

pub fn hex(b: &[u8]) -> String {
    if b.is_empty() {
        return "-".into();
    }
    let mut s = String::with_capacity(b.len() * 2);
    for x in b {
        s.push_str(&format!("{:02x}", x));
    }
    s
}

pub fn unhex(s: &str) -> Option<Vec<u8>> {
    if s == "-" || s.is_empty() {
        return Some(vec![]);
    }
    if s.len() % 2 != 0 {
        return None;
    }
    (0..s.len()).step_by(2).map(|i| u8::from_str_radix(&s[i..i + 2], 16).ok()).collect()
}

pub fn st_text(s: State) -> &'static str {
    match s {
        State::Alive => "A",
        State::Suspect => "S",
        State::Down => "D",
    }
}

pub fn member_text(m: &Member<VId>) -> String {
    format!("{}:{}:{}", m.id().text(), m.incarnation(), st_text(m.state()))
}

pub fn parse_member(s: &str) -> Option<Member<VId>> {
    let p: Vec<&str> = s.split(':').collect();
    if p.len() != 4 {
        return None;
    }
    let st = match p[3] {
        "A" => State::Alive,
        "S" => State::Suspect,
        "D" => State::Down,
        _ => return None,
    };
    Some(Member::new(VId::new(p[0].parse().ok()?, p[1].parse().ok()?), p[2].parse().ok()?, st))
}

pub fn timer_text(t: &Timer<VId>) -> String {
    match t {
        Timer::ProbeRandomMember(t) => format!("probe {}", t),
        Timer::SendIndirectProbe { probed_id, token } => format!("indirect {} {}", probed_id.text(), token),
        Timer::ChangeSuspectToDown { member_id, incarnation, token } => {
            format!("s2d {} {} {}", member_id.text(), incarnation, token)
        }
        Timer::PeriodicAnnounce(t) => format!("pa {}", t),
        Timer::PeriodicAnnounceDown(t) => format!("pad {}", t),
        Timer::PeriodicGossip(t) => format!("pg {}", t),
        Timer::RemoveDown(m) => format!("rm {}", m.text()),
    }
}

pub fn parse_timer(p: &[&str]) -> Option<Timer<VId>> {
    Some(match p {
        ["probe", t] => Timer::ProbeRandomMember(t.parse().ok()?),
        ["indirect", i, t] => Timer::SendIndirectProbe { probed_id: VId::parse(i)?, token: t.parse().ok()? },
        ["s2d", m, i, t] => Timer::ChangeSuspectToDown {
            member_id: VId::parse(m)?,
            incarnation: i.parse().ok()?,
            token: t.parse().ok()?,
        },
        ["pa", t] => Timer::PeriodicAnnounce(t.parse().ok()?),
        ["pad", t] => Timer::PeriodicAnnounceDown(t.parse().ok()?),
        ["pg", t] => Timer::PeriodicGossip(t.parse().ok()?),
        ["rm", m] => Timer::RemoveDown(VId::parse(m)?),
        _ => return None,
    })
}

pub fn notif_text(n: &OwnedNotification<VId>) -> String {
    match n {
        OwnedNotification::MemberUp(a) => format!("up {}", a.text()),
        OwnedNotification::MemberDown(a) => format!("down {}", a.text()),
        OwnedNotification::Rename(a, b) => format!("rename {} {}", a.text(), b.text()),
        OwnedNotification::Active => "active".into(),
        OwnedNotification::Idle => "idle".into(),
        OwnedNotification::Defunct => "defunct".into(),
        OwnedNotification::Rejoin(a) => format!("rejoin {}", a.text()),
    }
}

pub fn eff_text(e: &Eff) -> String {
    match e {
        Eff::Send(d, b) => format!("eff send {} {}", d.text(), hex(b)),
        Eff::Timer(d, t) => format!("eff timer {} {}", d.as_millis(), timer_text(t)),
        Eff::Notify(n) => format!("eff notify {}", notif_text(n)),
    }
}

/// Configuration in protocol form (milliseconds).
#[derive(Clone, Debug, PartialEq, Eq, Hash)]
pub struct Cfg {
    pub probe_period: u64,
    pub probe_rtt: u64,
    pub k: usize,
    pub max_tx: u8,
    pub s2d: u64,
    pub rda: u64,
    pub mps: usize,
    pub notify_down: bool,
    pub pa: Option<(u64, usize)>,
    pub pad: Option<(u64, usize)>,
    pub pg: Option<(u64, usize)>,
}

fn per_text(p: &Option<(u64, usize)>) -> String {
    match p {
        None => "-".into(),
        Some((f, n)) => format!("{}/{}", f, n),
    }
}

fn parse_per(s: &str) -> Option<Option<(u64, usize)>> {
    if s == "-" {
        return Some(None);
    }
    let mut it = s.split('/');
    let f = it.next()?.parse().ok()?;
    let n = it.next()?.parse().ok()?;
    Some(Some((f, n)))
}

impl Cfg {
    pub fn text(&self) -> String {
        format!(
            "{},{},{},{},{},{},{},{},{},{},{}",
            self.probe_period,
            self.probe_rtt,
            self.k,
            self.max_tx,
            self.s2d,
            self.rda,
            self.mps,
            if self.notify_down { 1 } else { 0 },
            per_text(&self.pa),
            per_text(&self.pad),
            per_text(&self.pg)
        )
    }
    pub fn parse(s: &str) -> Option<Cfg> {
        let p: Vec<&str> = s.split(',').collect();
        if p.len() != 11 {
            return None;
        }
        Some(Cfg {
            probe_period: p[0].parse().ok()?,
            probe_rtt: p[1].parse().ok()?,
            k: p[2].parse().ok()?,
            max_tx: p[3].parse().ok()?,
            s2d: p[4].parse().ok()?,
            rda: p[5].parse().ok()?,
            mps: p[6].parse().ok()?,
            notify_down: p[7] == "1",
            pa: parse_per(p[8])?,
            pad: parse_per(p[9])?,
            pg: parse_per(p[10])?,
        })
    }
    pub fn to_foca(&self) -> Config {
        let per = |p: &Option<(u64, usize)>| {
            p.map(|(f, n)| PeriodicParams {
                frequency: Duration::from_millis(f),
                num_members: NonZeroUsize::new(n.max(1)).unwrap(),
            })
        };
        Config {
            probe_period: Duration::from_millis(self.probe_period),
            probe_rtt: Duration::from_millis(self.probe_rtt),
            num_indirect_probes: NonZeroUsize::new(self.k.max(1)).unwrap(),
            max_transmissions: NonZeroU8::new(self.max_tx.max(1)).unwrap(),
            suspect_to_down_after: Duration::from_millis(self.s2d),
            remove_down_after: Duration::from_millis(self.rda),
            max_packet_size: NonZeroUsize::new(self.mps.max(1)).unwrap(),
            notify_down_members: self.notify_down,
            periodic_announce: per(&self.pa),
            periodic_announce_to_down_members: per(&self.pad),
            periodic_gossip: per(&self.pg),
        }
    }
    pub fn simple() -> Cfg {
        Cfg {
            probe_period: 1000,
            probe_rtt: 300,
            k: 3,
            max_tx: 4,
            s2d: 3000,
            rda: 60000,
            mps: 1400,
            notify_down: false,
            pa: None,
            pad: None,
            pg: None,
        }
    }
}

/// How an instance is created.
#[derive(Clone, Debug, PartialEq, Eq, Hash)]
pub struct Setup {
    pub id: VId,
    pub policy: Policy,
    pub codec: CodecKind,
    pub handler: HandlerKind,
    pub cfg: Cfg,
    pub rng_seed: u64,
}

impl Setup {
    pub fn new_line(&self, k: usize, debug: bool) -> String {
        format!(
            "new k={} id={} pol={} codec={} dbg={} h={} cfg={}",
            k,
            self.id.text(),
            self.policy.name(),
            self.codec.name(),
            if debug { 1 } else { 0 },
            self.handler.text(),
            self.cfg.text()
        )
    }
    pub fn text(&self) -> String {
        format!("{} seed={}", self.new_line(0, false), self.rng_seed)
    }
    pub fn parse(line: &str) -> Option<Setup> {
        let mut id = None;
        let mut policy = None;
        let mut codec = None;
        let mut handler = None;
        let mut cfg = None;
        let mut seed = 0;
        for tok in line.split_whitespace() {
            if let Some((k, v)) = tok.split_once('=') {
                match k {
                    "id" => id = VId::parse(v),
                    "pol" => policy = Policy::parse(v),
                    "codec" => codec = CodecKind::parse(v),
                    "h" => handler = HandlerKind::parse(v),
                    "cfg" => cfg = Cfg::parse(v),
                    "seed" => seed = v.parse().ok()?,
                    _ => {}
                }
            }
        }
        Some(Setup { id: id?, policy: policy?, codec: codec?, handler: handler?, cfg: cfg?, rng_seed: seed })
    }
}

/// One public call.
#[derive(Clone, Debug, PartialEq, Eq)]
pub enum Op {
    Apply(bool, Vec<Member<VId>>),
    Data(Vec<u8>),
    Timer(Timer<VId>),
    Announce(VId),
    Gossip,
    Broadcast,
    Leave,
    Reuse,
    AddB(Vec<u8>),
    ChId(VId, Policy),
    SetCfg(Cfg),
}

impl Op {
    pub fn text(&self) -> String {
        match self {
            Op::Apply(b, ms) => {
                let mut s = format!("apply {}", if *b { 1 } else { 0 });
                for m in ms {
                    s.push(' ');
                    s.push_str(&member_text(m));
                }
                s
            }
            Op::Data(d) => format!("data {}", hex(d)),
            Op::Timer(t) => format!("timer {}", timer_text(t)),
            Op::Announce(d) => format!("announce {}", d.text()),
            Op::Gossip => "gossip".into(),
            Op::Broadcast => "broadcast".into(),
            Op::Leave => "leave".into(),
            Op::Reuse => "reuse".into(),
            Op::AddB(d) => format!("addb {}", hex(d)),
            Op::ChId(i, p) => format!("chid {} {}", i.text(), p.name()),
            Op::SetCfg(c) => format!("setcfg {}", c.text()),
        }
    }
    pub fn parse(s: &str) -> Option<Op> {
        let p: Vec<&str> = s.split_whitespace().collect();
        Some(match p.as_slice() {
            ["apply", b, rest @ ..] => {
                Op::Apply(*b == "1", rest.iter().map(|m| parse_member(m)).collect::<Option<Vec<_>>>()?)
            }
            ["data", h] => Op::Data(unhex(h)?),
            ["timer", rest @ ..] => Op::Timer(parse_timer(rest)?),
            ["announce", d] => Op::Announce(VId::parse(d)?),
            ["gossip"] => Op::Gossip,
            ["broadcast"] => Op::Broadcast,
            ["leave"] => Op::Leave,
            ["reuse"] => Op::Reuse,
            ["addb", h] => Op::AddB(unhex(h)?),
            ["chid", i, pol] => Op::ChId(VId::parse(i)?, Policy::parse(pol)?),
            ["setcfg", c] => Op::SetCfg(Cfg::parse(c)?),
            _ => return None,
        })
    }
    pub fn kind(&self) -> &'static str {
        match self {
            Op::Apply(..) => "apply",
            Op::Data(..) => "data",
            Op::Timer(..) => "timer",
            Op::Announce(..) => "announce",
            Op::Gossip => "gossip",
            Op::Broadcast => "broadcast",
            Op::Leave => "leave",
            Op::Reuse => "reuse",
            Op::AddB(..) => "addb",
            Op::ChId(..) => "chid",
            Op::SetCfg(..) => "setcfg",
        }
    }
}
