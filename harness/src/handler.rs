//! Table-driven broadcast handler; the Lean driver implements the same functions (Driver.lean, `kvHandler`).
//! item = [key, version, ...payload]; handler state = per key the highest version seen and who sent it.
use std::cell::RefCell;
use std::rc::Rc;

use foca::{BroadcastHandler, Invalidates};

use crate::ident::VId;

#[derive(Clone, Copy, Debug, PartialEq, Eq, Hash)]
pub enum HandlerKind {
    /// behaves like `foca::NoCustomBroadcast`
    None,
    /// deny mask over `addr % 16`, invalidation mode 0..=3
    Kv { deny: u16, mode: u8 },
}

impl HandlerKind {
    pub fn text(&self) -> String {
        match self {
            HandlerKind::None => "none".into(),
            HandlerKind::Kv { deny, mode } => format!("kv:{}:{}", deny, mode),
        }
    }
    pub fn parse(s: &str) -> Option<Self> {
        let p: Vec<&str> = s.split(':').collect();
        match p.as_slice() {
            ["none"] => Some(HandlerKind::None),
            ["kv", d, m] => Some(HandlerKind::Kv { deny: d.parse().ok()?, mode: m.parse().ok()? }),
            _ => None,
        }
    }
}

#[derive(Debug, Clone, PartialEq, Eq)]
pub struct KvKey {
    pub mode: u8,
    pub key: u8,
    pub ver: u8,
}

impl Invalidates for KvKey {
    fn invalidates(&self, other: &Self) -> bool {
        match self.mode {
            0 => self.key == other.key,
            1 => self.key == other.key && self.ver > other.ver,
            2 => false,
            3 => true,
            // key 0 clears everything pending, other keys replace themselves
            4 => self.key == 0 || self.key == other.key,
            _ => false,
        }
    }
}

#[derive(Debug)]
pub struct HandlerErr;
impl std::fmt::Display for HandlerErr {
    fn fmt(&self, f: &mut std::fmt::Formatter<'_>) -> std::fmt::Result {
        f.write_str("handler rejected item")
    }
}
impl std::error::Error for HandlerErr {}

/// one record: key, version, sender addr + 1 (0 = local), sender gen
pub type Seen = Vec<[u32; 4]>;

#[derive(Default, Debug, Clone)]
pub struct Received {
    /// every call of receive_item in order: (data, sender)
    pub calls: Vec<(Vec<u8>, Option<VId>)>,
}

pub struct KvHandler {
    pub kind: HandlerKind,
    pub seen: Rc<RefCell<Seen>>,
    pub log: Rc<RefCell<Received>>,
}

impl BroadcastHandler<VId> for KvHandler {
    type Key = KvKey;
    type Error = HandlerErr;

    fn receive_item(&mut self, data: &[u8], sender: Option<&VId>) -> Result<Option<KvKey>, HandlerErr> {
        self.log.borrow_mut().calls.push((data.to_vec(), sender.copied()));
        let mode = match self.kind {
            HandlerKind::None => return Err(HandlerErr),
            HandlerKind::Kv { mode, .. } => mode,
        };
        if data.len() < 2 {
            return Err(HandlerErr);
        }
        let (k, v) = (data[0], data[1]);
        let mut seen = self.seen.borrow_mut();
        if seen.iter().any(|e| e[0] == k as u32 && e[1] >= v as u32) {
            return Ok(None);
        }
        seen.retain(|e| e[0] != k as u32);
        let tag = match sender {
            Some(s) => [s.addr as u32 + 1, s.gen as u32],
            None => [0, 0],
        };
        seen.push([k as u32, v as u32, tag[0], tag[1]]);
        Ok(Some(KvKey { mode, key: k, ver: v }))
    }

    fn should_add_broadcast_data(&self, member: &VId) -> bool {
        match self.kind {
            HandlerKind::None => true,
            HandlerKind::Kv { deny, .. } => (deny >> (member.addr % 16)) & 1 == 0,
        }
    }
}
