//! Discrete-event cluster simulator over real `Foca` instances: network with latency, drops,
//! partitions; crashes and graceful leaves; timers fired on time (or held).
use std::collections::{BTreeMap, BinaryHeap, HashMap};
use std::cmp::Reverse;

use foca::{Member, Message, OwnedNotification, State, Timer};

use crate::codec::CodecKind;
use crate::handler::HandlerKind;
use crate::ident::{Policy, VId};
use crate::inst::{Instance, Res};
use crate::proto::{Cfg, Op, Setup};
use crate::rt::Eff;
use crate::util::Sm;
use crate::wire::{kind_name, parse_datagram};

thread_local! {
    /// when set, every simulation on this thread hands over the per-instance call histories it produced
    /// (setup + every public call in order), for the model correspondence of realistic cluster histories
    pub static HIST_SINK: std::cell::RefCell<Option<Vec<(Setup, Vec<Op>)>>> = std::cell::RefCell::new(None);
}

#[derive(Clone, Debug)]
pub enum Ev {
    Deliver { to: u16, from: u16, data: Vec<u8>, serial: u64 },
    Timer { at: u16, timer: Timer<VId> },
    /// API call scheduled by the scenario
    Call { at: u16, op: Op },
    Crash { at: u16 },
    Heal,
    Split { side_a: Vec<u16> },
}

#[derive(Clone, Debug)]
pub struct Note {
    pub time: u64,
    pub at: u16,
    pub what: OwnedNotification<VId>,
}

pub struct Sim {
    pub now: u64,
    seq: u64,
    queue: BinaryHeap<Reverse<(u64, u64, usize)>>,
    events: Vec<Option<Ev>>,
    pub nodes: BTreeMap<u16, Instance>,
    pub crashed: Vec<u16>,
    pub left: Vec<u16>,
    pub rng: Sm,
    pub lat: (u64, u64),
    pub notes: Vec<Note>,
    pub errors: Vec<(u64, u16, String, String)>,
    pub datagrams_sent: u64,
    pub datagrams_delivered: u64,
    /// serial numbers of datagrams to drop
    pub drop_serials: Vec<u64>,
    pub dropped: Vec<(u64, String)>,
    pub partition: Option<Vec<u16>>,
    pub hold_timers: bool,
    /// per node: the calls it processed (for model correspondence of realistic histories)
    pub histories: HashMap<u16, Vec<Op>>,
    pub record_histories: bool,
    hist_setups: HashMap<u16, Setup>,
    pub sent_kinds: BTreeMap<String, u64>,
    pub events_processed: u64,
}

pub fn node_setup(addr: u16, gen: u16, policy: Policy, codec: CodecKind, cfg: &Cfg, seed: u64) -> Setup {
    Setup { id: VId::new(addr, gen), policy, codec, handler: HandlerKind::None, cfg: cfg.clone(), rng_seed: seed }
}

impl Drop for Sim {
    fn drop(&mut self) {
        if self.record_histories {
            let addrs: Vec<u16> = self.hist_setups.keys().copied().collect();
            for a in addrs {
                self.flush_history(a);
            }
        }
    }
}

impl Sim {
    pub fn new(seed: u64, lat: (u64, u64)) -> Sim {
        Sim {
            now: 0,
            seq: 0,
            queue: BinaryHeap::new(),
            events: Vec::new(),
            nodes: BTreeMap::new(),
            crashed: vec![],
            left: vec![],
            rng: Sm::new(seed),
            lat,
            notes: vec![],
            errors: vec![],
            datagrams_sent: 0,
            datagrams_delivered: 0,
            drop_serials: vec![],
            dropped: vec![],
            partition: None,
            hold_timers: false,
            histories: HashMap::new(),
            record_histories: HIST_SINK.with(|h| h.borrow().is_some()),
            hist_setups: HashMap::new(),
            sent_kinds: BTreeMap::new(),
            events_processed: 0,
        }
    }

    pub fn add_node(&mut self, setup: &Setup) {
        if self.record_histories {
            self.flush_history(setup.id.addr);
            self.hist_setups.insert(setup.id.addr, setup.clone());
        }
        self.nodes.insert(setup.id.addr, Instance::new(setup));
    }

    fn flush_history(&mut self, addr: u16) {
        if let (Some(setup), Some(ops)) = (self.hist_setups.remove(&addr), self.histories.remove(&addr)) {
            if !ops.is_empty() {
                HIST_SINK.with(|h| {
                    if let Some(v) = h.borrow_mut().as_mut() {
                        v.push((setup, ops));
                    }
                });
            }
        }
    }

    pub fn schedule(&mut self, at_time: u64, ev: Ev) {
        self.seq += 1;
        self.events.push(Some(ev));
        self.queue.push(Reverse((at_time, self.seq, self.events.len() - 1)));
    }

    pub fn alive(&self, addr: u16) -> bool {
        !self.crashed.contains(&addr) && !self.left.contains(&addr)
    }

    fn absorb(&mut self, at: u16, op: &Op, res: Res, effs: Vec<Eff>) {
        if self.record_histories {
            self.histories.entry(at).or_default().push(op.clone());
        }
        if let Res::Err(k) = &res {
            self.errors.push((self.now, at, k.clone(), op.text()));
        }
        if let Res::Panic(m) = &res {
            self.errors.push((self.now, at, format!("PANIC {}", m), op.text()));
        }
        let codec = self.nodes[&at].setup.codec;
        for e in effs {
            match e {
                Eff::Send(dst, data) => {
                    self.datagrams_sent += 1;
                    let serial = self.datagrams_sent;
                    let kind = parse_datagram(codec, &data).map(|p| kind_name(&p.header.message)).unwrap_or("?");
                    *self.sent_kinds.entry(kind.to_string()).or_insert(0) += 1;
                    let l = self.rng.range(self.lat.0, self.lat.1);
                    let t = self.now + l;
                    self.schedule(t, Ev::Deliver { to: dst.addr, from: at, data, serial });
                }
                Eff::Timer(d, t) => {
                    if !self.hold_timers {
                        let when = self.now + d.as_millis() as u64;
                        self.schedule(when, Ev::Timer { at, timer: t });
                    }
                }
                Eff::Notify(n) => self.notes.push(Note { time: self.now, at, what: n }),
            }
        }
    }

    pub fn call(&mut self, at: u16, op: &Op) {
        if self.crashed.contains(&at) {
            return;
        }
        let out = match self.nodes.get_mut(&at) {
            Some(n) => n.apply(op),
            None => return,
        };
        self.absorb(at, op, out.res, out.effs);
    }

    /// Processes one event; returns false when the queue is empty or `until` is reached.
    pub fn step(&mut self, until: u64) -> bool {
        let Reverse((t, _, idx)) = match self.queue.peek() {
            Some(x) => x.clone(),
            None => return false,
        };
        if t > until {
            return false;
        }
        self.queue.pop();
        self.now = self.now.max(t);
        self.events_processed += 1;
        let ev = self.events[idx].take().unwrap();
        match ev {
            Ev::Deliver { to, from, data, serial } => {
                if self.drop_serials.contains(&serial) {
                    let codec = self.nodes.values().next().map(|n| n.setup.codec).unwrap_or(CodecKind::Fixed);
                    let kind = parse_datagram(codec, &data).map(|p| kind_name(&p.header.message).to_string()).unwrap_or_default();
                    self.dropped.push((serial, kind));
                    return true;
                }
                if let Some(side) = &self.partition {
                    if side.contains(&to) != side.contains(&from) {
                        return true;
                    }
                }
                if self.nodes.contains_key(&to) && !self.crashed.contains(&to) {
                    self.datagrams_delivered += 1;
                    self.call(to, &Op::Data(data));
                }
            }
            Ev::Timer { at, timer } => {
                if !self.crashed.contains(&at) {
                    self.call(at, &Op::Timer(timer));
                }
            }
            Ev::Call { at, op } => {
                let leaving = matches!(op, Op::Leave);
                self.call(at, &op);
                if leaving {
                    self.left.push(at);
                }
            }
            Ev::Crash { at } => self.crashed.push(at),
            Ev::Heal => self.partition = None,
            Ev::Split { side_a } => self.partition = Some(side_a),
        }
        true
    }

    pub fn run_until(&mut self, until: u64) {
        while self.step(until) {}
        self.now = self.now.max(until);
    }

    /// Runs until no datagram is in flight any more (timers held) or `max_events` were processed.
    pub fn drain(&mut self, max_events: u64) -> u64 {
        let mut n = 0;
        while n < max_events && self.step(u64::MAX) {
            n += 1;
        }
        n
    }

    pub fn live_ids(&self) -> Vec<VId> {
        self.nodes.iter().filter(|(a, _)| self.alive(**a)).map(|(_, n)| n.identity()).collect()
    }

    /// every live node lists exactly every other live node (current identity) as active
    pub fn fully_discovered(&self) -> bool {
        let live = self.live_ids();
        for (a, n) in &self.nodes {
            if !self.alive(*a) {
                continue;
            }
            let mut want: Vec<VId> = live.iter().filter(|i| i.addr != *a).copied().collect();
            let mut got: Vec<VId> = n.active_members().iter().map(|m| *m.id()).collect();
            want.sort();
            got.sort();
            if want != got {
                return false;
            }
        }
        true
    }

    pub fn all_alive_state(&self) -> bool {
        let live = self.live_ids();
        for (a, n) in &self.nodes {
            if !self.alive(*a) {
                continue;
            }
            for m in n.members() {
                if live.contains(m.id()) && m.state() != State::Alive {
                    return false;
                }
            }
        }
        self.fully_discovered()
    }

    /// a fully formed cluster: everybody already lists everybody (state restored without broadcasting)
    pub fn form_directly(&mut self) {
        let ids: Vec<VId> = self.nodes.values().map(|n| n.identity()).collect();
        let addrs: Vec<u16> = self.nodes.keys().copied().collect();
        for a in addrs {
            let others: Vec<Member<VId>> = ids.iter().filter(|i| i.addr != a).map(|i| Member::new(*i, 0, State::Alive)).collect();
            self.call(a, &Op::Apply(false, others));
        }
    }

    pub fn message_of(&self, data: &[u8]) -> Option<Message<VId>> {
        let codec = self.nodes.values().next()?.setup.codec;
        parse_datagram(codec, data).ok().map(|p| p.header.message)
    }
}
