//! A real `Foca` instance plus everything needed to observe it and to mirror its RNG.
use std::cell::RefCell;
use std::panic::{catch_unwind, AssertUnwindSafe};
use std::rc::Rc;

use foca::{Foca, Member};
use rand::rngs::SmallRng;
use rand::{RngCore, SeedableRng};

use crate::codec::AnyCodec;
use crate::handler::{KvHandler, Received, Seen};
use crate::ident::VId;
use crate::proto::{hex, member_text, Op, Setup};
use crate::rt::{Eff, RecRuntime};

pub struct SharedRng(pub Rc<RefCell<SmallRng>>);

impl RngCore for SharedRng {
    fn next_u32(&mut self) -> u32 {
        self.0.borrow_mut().next_u32()
    }
    fn next_u64(&mut self) -> u64 {
        self.0.borrow_mut().next_u64()
    }
    fn fill_bytes(&mut self, dst: &mut [u8]) {
        self.0.borrow_mut().fill_bytes(dst)
    }
}

pub type F = Foca<VId, AnyCodec, SharedRng, KvHandler>;

#[derive(Clone, Debug, PartialEq, Eq)]
pub enum Res {
    Ok,
    Bool(bool),
    Err(String),
    Panic(String),
}

impl Res {
    pub fn text(&self) -> String {
        match self {
            Res::Ok => "res ok".into(),
            Res::Bool(b) => format!("res {}", b),
            Res::Err(k) => format!("res err {}", k),
            Res::Panic(_) => "res panic".into(),
        }
    }
    pub fn is_err(&self) -> bool {
        matches!(self, Res::Err(_))
    }
}

pub fn err_kind(e: &foca::Error) -> &'static str {
    use foca::Error::*;
    match e {
        DataTooBig => "DataTooBig",
        NotUndead => "NotUndead",
        SameIdentity => "SameIdentity",
        NotConnected => "NotConnected",
        IncompleteProbeCycle => "IncompleteProbeCycle",
        DataFromOurselves => "DataFromOurselves",
        IndirectForOurselves => "IndirectForOurselves",
        MalformedPacket => "MalformedPacket",
        Encode(_) => "Encode",
        Decode(_) => "Decode",
        CustomBroadcast(_) => "CustomBroadcast",
        InvalidConfig => "InvalidConfig",
    }
}

pub struct Outcome {
    pub res: Res,
    pub effs: Vec<Eff>,
    /// RNG state before the call (the mirror starts from here)
    pub rng_before: SmallRng,
}

pub struct Instance {
    pub setup: Setup,
    pub foca: F,
    pub rng: Rc<RefCell<SmallRng>>,
    pub seen: Rc<RefCell<Seen>>,
    pub log: Rc<RefCell<Received>>,
    pub poisoned: bool,
    /// configuration currently in force (follows successful set_config calls)
    pub cfg: crate::proto::Cfg,
}

impl Instance {
    pub fn new(setup: &Setup) -> Instance {
        let rng = Rc::new(RefCell::new(SmallRng::seed_from_u64(setup.rng_seed)));
        let seen = Rc::new(RefCell::new(Vec::new()));
        let log = Rc::new(RefCell::new(Received::default()));
        let handler = KvHandler { kind: setup.handler, seen: seen.clone(), log: log.clone() };
        let mut id = setup.id;
        id.policy = setup.policy;
        let foca = Foca::with_custom_broadcast(
            id,
            setup.cfg.to_foca(),
            SharedRng(rng.clone()),
            AnyCodec(setup.codec),
            handler,
        );
        Instance { setup: setup.clone(), foca, rng, seen, log, poisoned: false, cfg: setup.cfg.clone() }
    }

    pub fn identity(&self) -> VId {
        *self.foca.identity()
    }

    pub fn apply(&mut self, op: &Op) -> Outcome {
        let rng_before = self.rng.borrow().clone();
        let mut rt = RecRuntime::default();
        let foca = &mut self.foca;
        let r = catch_unwind(AssertUnwindSafe(|| -> Res {
            let wrap = |r: Result<(), foca::Error>| match r {
                Ok(()) => Res::Ok,
                Err(e) => Res::Err(err_kind(&e).to_string()),
            };
            match op {
                Op::Apply(b, ms) => wrap(foca.apply_many(ms.iter().cloned(), *b, &mut rt)),
                Op::Data(d) => wrap(foca.handle_data(d, &mut rt)),
                Op::Timer(t) => wrap(foca.handle_timer(t.clone(), &mut rt)),
                Op::Announce(d) => wrap(foca.announce(*d, &mut rt)),
                Op::Gossip => wrap(foca.gossip(&mut rt)),
                Op::Broadcast => wrap(foca.broadcast(&mut rt)),
                Op::Leave => wrap(foca.leave_cluster(&mut rt)),
                Op::Reuse => wrap(foca.reuse_down_identity()),
                Op::AddB(d) => match foca.add_broadcast(d) {
                    Ok(b) => Res::Bool(b),
                    Err(e) => Res::Err(err_kind(&e).to_string()),
                },
                Op::ChId(i, p) => {
                    let mut id = *i;
                    id.policy = *p;
                    wrap(foca.change_identity(id, &mut rt))
                }
                Op::SetCfg(c) => wrap(foca.set_config(c.to_foca())),
            }
        }));
        let res = match r {
            Ok(r) => r,
            Err(p) => {
                self.poisoned = true;
                let msg = if let Some(s) = p.downcast_ref::<String>() {
                    s.clone()
                } else if let Some(s) = p.downcast_ref::<&str>() {
                    s.to_string()
                } else {
                    "panic".to_string()
                };
                Res::Panic(msg)
            }
        };
        if let (Op::SetCfg(c), Res::Ok) = (op, &res) {
            self.cfg = c.clone();
        }
        Outcome { res, effs: rt.effs, rng_before }
    }

    /// Same call through `AccumulatingRuntime`, drained afterwards (sends, timers, notifications).
    pub fn apply_acc(&mut self, op: &Op) -> (Res, Vec<Eff>, Vec<Eff>, Vec<Eff>) {
        let mut rt = foca::AccumulatingRuntime::new();
        let foca = &mut self.foca;
        let r = catch_unwind(AssertUnwindSafe(|| -> Res {
            let wrap = |r: Result<(), foca::Error>| match r {
                Ok(()) => Res::Ok,
                Err(e) => Res::Err(err_kind(&e).to_string()),
            };
            match op {
                Op::Apply(b, ms) => wrap(foca.apply_many(ms.iter().cloned(), *b, &mut rt)),
                Op::Data(d) => wrap(foca.handle_data(d, &mut rt)),
                Op::Timer(t) => wrap(foca.handle_timer(t.clone(), &mut rt)),
                Op::Announce(d) => wrap(foca.announce(*d, &mut rt)),
                Op::Gossip => wrap(foca.gossip(&mut rt)),
                Op::Broadcast => wrap(foca.broadcast(&mut rt)),
                Op::Leave => wrap(foca.leave_cluster(&mut rt)),
                Op::Reuse => wrap(foca.reuse_down_identity()),
                Op::AddB(d) => match foca.add_broadcast(d) {
                    Ok(b) => Res::Bool(b),
                    Err(e) => Res::Err(err_kind(&e).to_string()),
                },
                Op::ChId(i, p) => {
                    let mut id = *i;
                    id.policy = *p;
                    wrap(foca.change_identity(id, &mut rt))
                }
                Op::SetCfg(c) => wrap(foca.set_config(c.to_foca())),
            }
        }));
        let res = match r {
            Ok(r) => r,
            Err(_) => {
                self.poisoned = true;
                Res::Panic("panic".into())
            }
        };
        if let (Op::SetCfg(c), Res::Ok) = (op, &res) {
            self.cfg = c.clone();
        }
        let mut sends = Vec::new();
        while let Some((to, data)) = rt.to_send() {
            sends.push(Eff::Send(to, data.to_vec()));
        }
        let mut timers = Vec::new();
        while let Some((after, t)) = rt.to_schedule() {
            timers.push(Eff::Timer(after, t));
        }
        let mut notes = Vec::new();
        while let Some(n) = rt.to_notify() {
            notes.push(Eff::Notify(n));
        }
        (res, sends, timers, notes)
    }

    pub fn members(&self) -> Vec<Member<VId>> {
        self.foca.iter_membership_state().cloned().collect()
    }

    pub fn active_members(&self) -> Vec<Member<VId>> {
        self.foca.iter_members().cloned().collect()
    }

    pub fn obs_line(&self) -> String {
        let ms: Vec<String> = self.foca.iter_membership_state().map(member_text).collect();
        format!(
            "obs id={} n={} ub={} cb={} ms={}",
            self.foca.identity().text(),
            self.foca.num_members(),
            self.foca.updates_backlog(),
            self.foca.custom_broadcast_backlog(),
            if ms.is_empty() { "-".to_string() } else { ms.join(",") }
        )
    }

    pub fn hid_line(&self) -> String {
        let s = self.foca.verif_snapshot();
        let entries = |v: &Vec<(usize, Vec<u8>)>| {
            let mut l: Vec<String> = v.iter().map(|(tx, d)| format!("{}/{}", tx, hex(d))).collect();
            l.sort();
            if l.is_empty() {
                "-".to_string()
            } else {
                l.join(",")
            }
        };
        let d = match &s.probe_direct {
            Some(m) => member_text(m),
            None => "-".into(),
        };
        let ind = if s.probe_indirect.is_empty() {
            "-".to_string()
        } else {
            s.probe_indirect.iter().map(|i| i.text()).collect::<Vec<_>>().join(";")
        };
        let seen = self.seen.borrow();
        let h = if seen.is_empty() {
            "-".to_string()
        } else {
            seen.iter()
                .map(|e| e.iter().map(|x| x.to_string()).collect::<Vec<_>>().join("."))
                .collect::<Vec<_>>()
                .join(",")
        };
        format!(
            "hid inc={} tok={} conn={} cur={} probe={},{},{},{},{},{} upd={} cus={} hst={} cfg={}",
            s.incarnation,
            s.timer_token,
            ["disconnected", "connected", "undead"][s.connection_state as usize],
            if s.cursor == usize::MAX { "max".to_string() } else { s.cursor.to_string() },
            d,
            ind,
            s.probe_number,
            if s.direct_ack_ok { 1 } else { 0 },
            s.indirect_ack_count,
            if s.reached_indirect_probe_stage { 1 } else { 0 },
            entries(&s.updates),
            entries(&s.custom_broadcasts),
            h,
            cfg_of_foca(&s.config).text()
        )
    }

    /// Everything the driver prints for one op, from the implementation side.
    pub fn lines(&self, out: &Outcome) -> Vec<String> {
        let mut v = vec![out.res.text()];
        if matches!(out.res, Res::Panic(_)) {
            return v;
        }
        for e in &out.effs {
            v.push(crate::proto::eff_text(e));
        }
        v.push(self.obs_line());
        v.push(self.hid_line());
        v
    }
}

/// the configuration as foca holds it, in protocol form
pub fn cfg_of_foca(c: &foca::Config) -> crate::proto::Cfg {
    let per = |p: &Option<foca::PeriodicParams>| p.as_ref().map(|x| (x.frequency.as_millis() as u64, x.num_members.get()));
    crate::proto::Cfg {
        probe_period: c.probe_period.as_millis() as u64,
        probe_rtt: c.probe_rtt.as_millis() as u64,
        k: c.num_indirect_probes.get(),
        max_tx: c.max_transmissions.get(),
        s2d: c.suspect_to_down_after.as_millis() as u64,
        rda: c.remove_down_after.as_millis() as u64,
        mps: c.max_packet_size.get(),
        notify_down: c.notify_down_members,
        pa: per(&c.periodic_announce),
        pad: per(&c.periodic_announce_to_down_members),
        pg: per(&c.periodic_gossip),
    }
}
