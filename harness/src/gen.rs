//! Generators: structured, mostly-valid histories over small colliding domains, plus a malformed stream.
use foca::{Header, Member, Message, State, Timer};

use crate::codec::CodecKind;
use crate::handler::HandlerKind;
use crate::ident::{Policy, VId};
use crate::inst::Instance;
use crate::proto::{Cfg, Op, Setup};
use crate::rt::Eff;
use crate::util::Sm;
use crate::wire::build_datagram;

#[derive(Clone, Debug)]
pub struct Profile {
    pub name: &'static str,
    /// weights: apply, data, timer, announce, gossip, broadcast, leave, reuse, addb, chid, setcfg
    pub w: [u32; 11],
    pub malformed_pct: u64,
    pub tight_mps_pct: u64,
    pub handler_pct: u64,
    pub own_addr_pct: u64,
    pub periodic_pct: u64,
    pub ops_per_case: (u64, u64),
    pub setcfg_mps_pct: u64,
}

pub const FULL: Profile = Profile {
    name: "full",
    w: [22, 30, 26, 3, 4, 3, 1, 2, 5, 2, 2],
    malformed_pct: 12,
    tight_mps_pct: 35,
    handler_pct: 60,
    own_addr_pct: 10,
    periodic_pct: 40,
    ops_per_case: (20, 60),
    setcfg_mps_pct: 5,
};

pub fn profile(name: &str) -> Profile {
    let mut p = FULL.clone();
    match name {
        // membership lattice: updates, datagrams with updates, suspicion/removal timers
        "C01" | "C09" => {
            p.name = "members";
            p.w = [40, 25, 25, 1, 1, 0, 1, 1, 0, 4, 0];
            p.own_addr_pct = 20;
            p.handler_pct = 10;
        }
        "C10" => {
            p.name = "incarnation";
            p.w = [40, 30, 15, 1, 3, 0, 2, 3, 0, 4, 0];
            p.own_addr_pct = 35;
            p.handler_pct = 10;
        }
        "C11" | "C12" | "C13" | "C14" => {
            p.name = "probe-timers";
            p.w = [20, 30, 40, 1, 1, 0, 1, 2, 0, 2, 3];
            p.handler_pct = 10;
            p.malformed_pct = 5;
        }
        "C15" | "C07" | "C20" => {
            p.name = "wire";
            p.w = [25, 25, 20, 6, 10, 4, 1, 1, 6, 1, 1];
            p.tight_mps_pct = 70;
        }
        "C16" => {
            p.name = "custom";
            p.w = [10, 30, 12, 3, 8, 12, 0, 1, 22, 1, 1];
            p.handler_pct = 95;
            p.tight_mps_pct = 50;
        }
        "C06" | "C17" => {
            p.name = "hostile";
            p.malformed_pct = 40;
            p.setcfg_mps_pct = 6;
            p.w = [15, 35, 25, 3, 3, 3, 1, 3, 5, 3, 4];
        }
        "C19" => {
            p.name = "own-address";
            p.w = [30, 25, 30, 2, 3, 2, 1, 2, 1, 4, 0];
            p.own_addr_pct = 40;
            p.periodic_pct = 90;
        }
        _ => {}
    }
    p
}

pub const INCS: [u16; 6] = [0, 1, 2, 3, 65534, 65535];

#[derive(Default, Clone)]
pub struct Ctx {
    pub timers: Vec<Timer<VId>>,
    pub sent: Vec<(VId, Vec<u8>)>,
}

impl Ctx {
    pub fn absorb(&mut self, effs: &[Eff]) {
        for e in effs {
            match e {
                Eff::Timer(_, t) => {
                    if self.timers.len() > 64 {
                        self.timers.remove(0);
                    }
                    self.timers.push(t.clone());
                }
                Eff::Send(d, b) => {
                    if self.sent.len() > 32 {
                        self.sent.remove(0);
                    }
                    self.sent.push((*d, b.clone()));
                }
                _ => {}
            }
        }
    }
}

pub fn gen_cfg(r: &mut Sm, p: &Profile, codec: CodecKind) -> Cfg {
    let per = |r: &mut Sm, base: u64| -> Option<(u64, usize)> {
        if r.chance(p.periodic_pct) {
            Some((base + r.below(3) * 1000, r.range(1, 3) as usize))
        } else {
            None
        }
    };
    let hdr = match codec {
        CodecKind::Fixed => 11,
        CodecKind::Postcard => 6,
        CodecKind::Bincode => 6,
        CodecKind::Packed => 4,
    };
    let mps = if r.chance(p.tight_mps_pct) {
        (hdr + r.below(40)) as usize
    } else if r.chance(30) {
        r.range(48, 200) as usize
    } else if r.chance(10) {
        *r.pick(&[65535usize, 65536, 70000])
    } else {
        1400
    };
    Cfg {
        probe_period: 1000,
        probe_rtt: 300,
        k: r.range(1, 3) as usize,
        max_tx: *r.pick(&[1u8, 2, 3, 4, 255]),
        s2d: 3000,
        rda: 60000,
        mps,
        notify_down: r.chance(50),
        pa: per(r, 5000),
        pad: per(r, 7000),
        pg: per(r, 2000),
    }
}

pub fn gen_setup(r: &mut Sm, p: &Profile) -> Setup {
    let codec = *r.pick(&CodecKind::ALL);
    let handler = if r.chance(p.handler_pct) {
        HandlerKind::Kv { deny: if r.chance(40) { r.below(64) as u16 } else { 0 }, mode: r.below(5) as u8 }
    } else {
        HandlerKind::None
    };
    Setup {
        id: VId::new(1, *r.pick(&[0u16, 1, 1, 2])),
        policy: *r.pick(&[Policy::None, Policy::Bump, Policy::Bump, Policy::Same, Policy::Lose, Policy::SameEq, Policy::Tie]),
        codec,
        handler,
        cfg: gen_cfg(r, p, codec),
        rng_seed: r.next(),
    }
}

pub fn gen_id(r: &mut Sm, p: &Profile, own: VId) -> VId {
    let addr = if r.chance(p.own_addr_pct) { own.addr } else { r.range(2, 5) as u16 };
    let gen = if r.chance(3) { *r.pick(&[200u16, 300, 20000]) } else { r.below(3) as u16 };
    VId::new(addr, gen)
}

pub fn gen_known_id(r: &mut Sm, p: &Profile, inst: &Instance) -> VId {
    let ms = inst.members();
    if !ms.is_empty() && r.chance(60) {
        let m = r.pick(&ms);
        if r.chance(80) {
            *m.id()
        } else {
            VId::new(m.id().addr, m.id().gen.wrapping_add(r.range(0, 2) as u16).wrapping_sub(1) % 4)
        }
    } else {
        gen_id(r, p, inst.identity())
    }
}

pub fn gen_inc(r: &mut Sm, inst: &Instance, id: &VId) -> u16 {
    if r.chance(45) {
        if let Some(m) = inst.members().iter().find(|m| m.id() == id) {
            let k = m.incarnation();
            return *r.pick(&[k, k.saturating_add(1), k.saturating_sub(1)]);
        }
    }
    if r.chance(2) {
        *r.pick(&[130u16, 250, 251, 252, 16383, 16384, 300, 32767, 32768, 40000])
    } else {
        *r.pick(&INCS)
    }
}

pub fn gen_state(r: &mut Sm) -> State {
    *r.pick(&[State::Alive, State::Alive, State::Suspect, State::Down])
}

pub fn gen_member(r: &mut Sm, p: &Profile, inst: &Instance) -> Member<VId> {
    let own = inst.identity();
    if r.chance(p.own_addr_pct / 2 + 3) {
        // about our own identity
        let snap = inst.foca.verif_snapshot();
        let k = snap.incarnation;
        let inc = *r.pick(&[k, k, k.saturating_add(1), k.saturating_sub(1), 65535, 0]);
        return Member::new(own, inc, gen_state(r));
    }
    let id = gen_known_id(r, p, inst);
    let inc = gen_inc(r, inst, &id);
    Member::new(id, inc, gen_state(r))
}

fn probe_numbers(r: &mut Sm, inst: &Instance) -> u8 {
    let n = inst.foca.verif_snapshot().probe_number;
    *r.pick(&[n, n, n, n.wrapping_add(1), n.wrapping_sub(1)])
}

pub fn gen_item(r: &mut Sm) -> Vec<u8> {
    if r.chance(6) {
        return vec![r.below(4) as u8];
    }
    let mut v = vec![r.below(4) as u8, r.below(4) as u8];
    for _ in 0..r.below(5) {
        v.push(r.below(256) as u8);
    }
    v
}

pub fn gen_message(r: &mut Sm, p: &Profile, inst: &Instance) -> Message<VId> {
    let snap = inst.foca.verif_snapshot();
    let own = inst.identity();
    let some_id = |r: &mut Sm| -> VId {
        if r.chance(10) {
            own
        } else if let (Some(d), true) = (&snap.probe_direct, r.chance(30)) {
            *d.id()
        } else {
            gen_known_id(r, p, inst)
        }
    };
    let n = probe_numbers(r, inst);
    match r.weighted(&[14, 16, 8, 8, 8, 12, 8, 6, 10, 5, 6]) {
        0 => Message::Ping(n),
        1 => Message::Ack(n),
        2 => Message::PingReq { target: some_id(r), probe_number: n },
        3 => Message::IndirectPing { origin: some_id(r), probe_number: n },
        4 => Message::IndirectAck { target: some_id(r), probe_number: n },
        5 => Message::ForwardedAck { origin: some_id(r), probe_number: n },
        6 => Message::Announce,
        7 => Message::Feed,
        8 => Message::Gossip,
        9 => Message::Broadcast,
        _ => Message::TurnUndead,
    }
}

pub fn gen_data(r: &mut Sm, p: &Profile, inst: &Instance, ctx: &Ctx) -> Vec<u8> {
    let own = inst.identity();
    let snap = inst.foca.verif_snapshot();
    // sender: often the member being probed or one asked for an indirect probe
    let downs: Vec<VId> = inst.members().iter().filter(|m| m.state() == State::Down && m.id().addr != own.addr).map(|m| *m.id()).collect();
    let src = if !downs.is_empty() && r.chance(12) {
        *r.pick(&downs)
    } else if let (Some(d), true) = (&snap.probe_direct, r.chance(25)) {
        *d.id()
    } else if !snap.probe_indirect.is_empty() && r.chance(20) {
        *r.pick(&snap.probe_indirect)
    } else if r.chance(4) {
        own
    } else {
        gen_known_id(r, p, inst)
    };
    let src_inc = gen_inc(r, inst, &src);
    let dst = if r.chance(85) {
        own
    } else if r.chance(50) {
        VId::new(own.addr, own.gen.wrapping_add(1) % 3)
    } else {
        gen_id(r, p, own)
    };
    let message = gen_message(r, p, inst);
    let header = Header { src, src_incarnation: src_inc, dst, message: message.clone() };
    let carries_updates = crate::wire::carries_updates(&message);
    let carries_custom = crate::wire::carries_custom(&message);
    // (a TurnUndead with a member section is not something foca sends, but the receiver reads one)
    let odd_section = matches!(message, Message::TurnUndead) && r.chance(35);
    let section: Option<Vec<Member<VId>>> = if (carries_updates && r.chance(75)) || odd_section {
        let n = r.weighted(&[20, 30, 25, 15, 10]);
        Some((0..n).map(|_| gen_member(r, p, inst)).collect())
    } else {
        None
    };
    let items: Vec<Vec<u8>> = if (carries_custom || odd_section) && (section.is_some() || !carries_updates) && r.chance(35) {
        (0..r.range(1, 2)).map(|_| gen_item(r)).collect()
    } else {
        vec![]
    };
    let mut d = build_datagram(inst.setup.codec, &header, section.as_deref(), &items);
    if r.chance(p.malformed_pct) {
        match r.below(7) {
            0 if !d.is_empty() => {
                let n = r.below(d.len() as u64) as usize;
                d.truncate(n);
            }
            1 if !d.is_empty() => {
                let i = r.below(d.len() as u64) as usize;
                d[i] ^= 1 << r.below(8);
            }
            2 => d.push(r.below(256) as u8),
            3 => {
                let extra = r.range(1, 6);
                for _ in 0..extra {
                    d.push(r.below(256) as u8);
                }
            }
            4 => {
                // oversized
                let want = inst.setup.cfg.mps + 1 + r.below(4) as usize;
                if want < 4096 {
                    while d.len() < want {
                        d.push(0);
                    }
                }
            }
            5 => {
                d = (0..r.below(24)).map(|_| r.below(256) as u8).collect();
            }
            _ => {
                if let Some((_, b)) = ctx.sent.last() {
                    d = b.clone();
                }
            }
        }
    }
    d
}

pub fn gen_timer(r: &mut Sm, p: &Profile, inst: &Instance, ctx: &Ctx) -> Timer<VId> {
    if !ctx.timers.is_empty() && r.chance(70) {
        // mostly recent ones
        let n = ctx.timers.len();
        let i = if r.chance(70) { n - 1 - r.below(n.min(6) as u64) as usize } else { r.below(n as u64) as usize };
        return ctx.timers[i].clone();
    }
    let snap = inst.foca.verif_snapshot();
    let tok = *r.pick(&[snap.timer_token, snap.timer_token, snap.timer_token.wrapping_sub(1), snap.timer_token.wrapping_add(1)]);
    match r.weighted(&[20, 20, 20, 8, 8, 8, 16]) {
        0 => Timer::ProbeRandomMember(tok),
        1 => {
            let id = match (&snap.probe_direct, r.chance(70)) {
                (Some(d), true) => *d.id(),
                _ => gen_known_id(r, p, inst),
            };
            Timer::SendIndirectProbe { probed_id: id, token: tok }
        }
        2 => {
            let id = gen_known_id(r, p, inst);
            let inc = gen_inc(r, inst, &id);
            Timer::ChangeSuspectToDown { member_id: id, incarnation: inc, token: tok }
        }
        3 => Timer::PeriodicAnnounce(tok),
        4 => Timer::PeriodicAnnounceDown(tok),
        5 => Timer::PeriodicGossip(tok),
        _ => Timer::RemoveDown(gen_known_id(r, p, inst)),
    }
}

pub fn gen_op(r: &mut Sm, p: &Profile, inst: &Instance, ctx: &Ctx) -> Op {
    match r.weighted(&p.w) {
        0 => {
            let n = r.range(1, 4);
            Op::Apply(r.chance(85), (0..n).map(|_| gen_member(r, p, inst)).collect())
        }
        1 => Op::Data(gen_data(r, p, inst, ctx)),
        2 => Op::Timer(gen_timer(r, p, inst, ctx)),
        3 => Op::Announce(gen_known_id(r, p, inst)),
        4 => Op::Gossip,
        5 => Op::Broadcast,
        6 => Op::Leave,
        7 => Op::Reuse,
        8 => {
            if r.chance(5) {
                Op::AddB(vec![])
            } else if inst.cfg.mps > 65600 && r.chance(40) {
                // items around the 16-bit framing limit (only reachable with packets above 64 KiB)
                let len = *r.pick(&[65534usize, 65535, 65536, 65600]);
                let mut v = vec![r.below(4) as u8, r.below(4) as u8];
                v.resize(len, 0xab);
                Op::AddB(v)
            } else if r.chance(5) {
                Op::AddB(vec![7u8; inst.setup.cfg.mps.min(3000) + 1])
            } else {
                Op::AddB(gen_item(r))
            }
        }
        9 => {
            let own = inst.identity();
            let id = match r.below(5) {
                0 => own,
                1 => VId::new(own.addr, own.gen + 1),
                2 => VId::new(own.addr, own.gen.saturating_sub(1)),
                3 => VId::new(6, 0),
                _ => gen_id(r, p, own),
            };
            Op::ChId(id, *r.pick(&[Policy::None, Policy::Bump, Policy::Same, Policy::Lose, Policy::SameEq, Policy::Tie]))
        }
        _ => {
            let mut c = inst.setup.cfg.clone();
            // current config may differ after earlier setcfg; regenerate from the setup and vary
            match r.below(6) {
                0 => c.max_tx = *r.pick(&[1u8, 2, 5, 255]),
                1 => c.k = r.range(1, 4) as usize,
                2 => c.notify_down = !c.notify_down,
                3 => {
                    c.probe_period += 1;
                    // an invalid configuration must leave every parameter alone
                    if r.chance(60) {
                        c.mps = *r.pick(&[40usize, 64, 700, 3000]);
                        c.max_tx = 9;
                        c.notify_down = !c.notify_down;
                    }
                }
                4 => {
                    c.pa = Some((4000, 1));
                    c.pg = None;
                }
                _ => {
                    if r.chance(p.setcfg_mps_pct * 10) {
                        c.mps = c.mps + 1 + r.below(50) as usize;
                    } else {
                        c.s2d += 500;
                    }
                }
            }
            Op::SetCfg(c)
        }
    }
}
