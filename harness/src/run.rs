//! Case execution, shrinking, statistics.
use std::collections::{BTreeMap, HashSet};

use crate::corr::{Mismatch, Pair};
use crate::driver::Driver;
use crate::gen::{gen_op, gen_setup, Ctx, Profile};
use crate::inst::{Outcome, Res};
use crate::proto::{Op, Setup};
use crate::rt::Eff;
use crate::util::{json_list, json_str, Sm};
use crate::wire::{kind_name, parse_datagram};

#[derive(Default, Clone)]
pub struct Stats {
    pub cases: u64,
    pub ops: u64,
    pub hist: BTreeMap<String, u64>,
    pub distinct: HashSet<u64>,
    pub nontrivial_distinct: HashSet<u64>,
    pub samples: Vec<String>,
    pub draws: u64,
}

impl Stats {
    pub fn bump(&mut self, k: &str) {
        *self.hist.entry(k.to_string()).or_insert(0) += 1;
    }
    pub fn merge(&mut self, o: Stats) {
        self.cases += o.cases;
        self.ops += o.ops;
        self.draws += o.draws;
        for (k, v) in o.hist {
            *self.hist.entry(k).or_insert(0) += v;
        }
        self.distinct.extend(o.distinct);
        self.nontrivial_distinct.extend(o.nontrivial_distinct);
        for s in o.samples {
            if self.samples.len() < 4 {
                self.samples.push(s);
            }
        }
    }
    pub fn record_outcome(&mut self, op: &Op, setup: &Setup, out: &Outcome) {
        self.ops += 1;
        self.bump(&format!("op.{}", op.kind()));
        match &out.res {
            Res::Ok => self.bump("res.ok"),
            Res::Bool(b) => self.bump(&format!("res.{}", b)),
            Res::Err(k) => self.bump(&format!("err.{}", k)),
            Res::Panic(_) => self.bump("res.panic"),
        }
        for e in &out.effs {
            match e {
                Eff::Send(_, d) => match parse_datagram(setup.codec, d) {
                    Ok(p) => {
                        self.bump(&format!("send.{}", kind_name(&p.header.message)));
                        if let Some(s) = &p.section {
                            self.bump(if s.is_empty() { "send.section.empty" } else { "send.section.members" });
                        }
                        if !p.items.is_empty() {
                            self.bump("send.custom");
                        }
                    }
                    Err(_) => self.bump("send.unparseable"),
                },
                Eff::Timer(_, t) => {
                    let n = crate::proto::timer_text(t);
                    self.bump(&format!("timer.{}", n.split(' ').next().unwrap_or("")));
                }
                Eff::Notify(n) => {
                    let t = crate::proto::notif_text(n);
                    self.bump(&format!("notify.{}", t.split(' ').next().unwrap_or("")));
                }
            }
        }
    }
    pub fn hist_json(&self) -> String {
        format!(
            "{{{}}}",
            self.hist.iter().map(|(k, v)| format!("{}:{}", json_str(k), v)).collect::<Vec<_>>().join(",")
        )
    }
}

pub fn fnv(s: &str) -> u64 {
    let mut h: u64 = 0xcbf29ce484222325;
    for b in s.bytes() {
        h ^= b as u64;
        h = h.wrapping_mul(0x100000001b3);
    }
    h
}

#[derive(Clone, Debug)]
pub struct Case {
    pub setup: Setup,
    pub ops: Vec<Op>,
}

impl Case {
    pub fn to_json(&self) -> String {
        format!(
            "{{\"setup\":{},\"ops\":{}}}",
            json_str(&self.setup.text()),
            json_list(&self.ops.iter().map(|o| o.text()).collect::<Vec<_>>())
        )
    }
    pub fn text(&self) -> String {
        let mut s = self.setup.text();
        for o in &self.ops {
            s.push_str(" ; ");
            s.push_str(&o.text());
        }
        s
    }
}

/// Re-executes a concrete case on both sides; returns the first mismatch.
pub fn run_case(drv: &mut Driver, case: &Case) -> Option<Mismatch> {
    let mut pair = match Pair::new(drv, 0, &case.setup) {
        Ok(p) => p,
        Err(m) => return Some(m),
    };
    for (i, op) in case.ops.iter().enumerate() {
        let (out, _, mm) = pair.exec(drv, i, op);
        if mm.is_some() {
            return mm;
        }
        if matches!(out.res, Res::Panic(_)) {
            return None;
        }
    }
    None
}

/// Greedy delta debugging on the op list.
pub fn shrink(drv: &mut Driver, case: &Case) -> Case {
    let mut cur = case.clone();
    // cut after the failing op first
    if let Some(m) = run_case(drv, &cur) {
        cur.ops.truncate(m.op_index + 1);
    }
    if cur.ops.len() > 200 {
        // marathon cases: quadratic shrinking is not worth the time, the truncated history replays as it is
        return cur;
    }
    let mut i = cur.ops.len();
    while i > 0 {
        i -= 1;
        if cur.ops.len() <= 1 {
            break;
        }
        let mut cand = cur.clone();
        cand.ops.remove(i);
        if let Some(m) = run_case(drv, &cand) {
            cand.ops.truncate(m.op_index + 1);
            cur = cand;
            if i > cur.ops.len() {
                i = cur.ops.len();
            }
        }
    }
    cur
}

pub struct CorrResult {
    pub stats: Stats,
    pub failures: Vec<(Case, Mismatch)>,
}

/// Generates and runs `cases` random cases for `profile`, starting at case index `first`.
pub fn corr_run(profile: &Profile, seed: u64, first: u64, cases: u64, max_failures: usize) -> CorrResult {
    let mut drv = Driver::spawn().expect("cannot start the Lean driver");
    let mut stats = Stats::default();
    let mut failures = Vec::new();
    for ci in first..first + cases {
        let mut r = Sm::new(seed.wrapping_mul(0x1000193).wrapping_add(ci));
        let mut setup = gen_setup(&mut r, profile);
        // one case in 150 is a marathon of probe rounds (wrap-around of the u8 probe number and timer token)
        let marathon = ci % 150 == 7 && ci % 300 != 157;
        let mut marathon_profile = profile.clone();
        if marathon {
            marathon_profile.w = [3, 6, 88, 0, 0, 0, 0, 1, 0, 1, 1];
            marathon_profile.malformed_pct = 2;
            if setup.cfg.mps < 64 {
                setup.cfg.mps = 300;
            }
        }
        // one case in 300 is a marathon of connection epochs (wrap-around of the u8 timer token through every
        // path that bumps it: going idle, changing identity, leaving)
        let epochs = ci % 300 == 157;
        let profile = if marathon { &marathon_profile } else { profile };
        let nops = if marathon { 1400 } else if epochs { 760 } else { r.range(profile.ops_per_case.0, profile.ops_per_case.1) };
        let mut pair = match Pair::new(&mut drv, 0, &setup) {
            Ok(p) => p,
            Err(m) => {
                failures.push((Case { setup, ops: vec![] }, m));
                continue;
            }
        };
        let mut ctx = Ctx::default();
        let mut ops = Vec::new();
        let mut kinds = HashSet::new();
        let mut any_effect = false;
        let mut failed = None;
        for i in 0..nops {
            let mut op = gen_op(&mut r, profile, &pair.inst, &ctx);
            if marathon {
                // keep the probe loop of the current epoch turning
                let tok = pair.inst.foca.verif_snapshot().timer_token;
                let pick = r.below(100);
                if pick < 70 {
                    if let Some(t) = ctx.timers.iter().rev().find(|t| matches!(t, foca::Timer::ProbeRandomMember(k) if *k == tok)) {
                        op = Op::Timer(t.clone());
                    }
                } else if pick < 82 {
                    // the probed member answers with the Ack of the current round (including round number 0 after the wrap)
                    let snap = pair.inst.foca.verif_snapshot();
                    if let Some(m) = snap.probe_direct {
                        let h = foca::Header { src: *m.id(), src_incarnation: m.incarnation(), dst: pair.inst.identity(), message: foca::Message::Ack(snap.probe_number) };
                        op = Op::Data(crate::wire::build_datagram(setup.codec, &h, None, &[]));
                    }
                } else if pick < 92 {
                    if let Some(t) = ctx.timers.iter().rev().find(|t| matches!(t, foca::Timer::SendIndirectProbe { token, .. } if *token == tok)) {
                        op = Op::Timer(t.clone());
                    }
                }
            }
            if epochs {
                let own = pair.inst.identity();
                let a = 100 + ((i / 2) % 3000) as u16;
                let a = if a == own.addr { a + 3001 } else { a };
                let pick = r.below(100);
                if i % 2 == 0 {
                    op = Op::Apply(false, vec![foca::Member::new(crate::ident::VId::new(a, 0), 0, foca::State::Alive)]);
                } else if pick < 72 {
                    // everybody that is active goes down: the instance becomes idle and the epoch ends
                    let downs: Vec<_> = pair.inst.active_members().iter().map(|m| foca::Member::new(*m.id(), m.incarnation(), foca::State::Down)).collect();
                    op = Op::Apply(false, downs);
                } else if pick < 84 {
                    op = Op::ChId(crate::ident::VId::new(own.addr, own.gen.wrapping_add(1)), setup.policy);
                } else if pick < 90 {
                    // a timer of the epoch that just ended, and one of the current epoch
                    let tok = pair.inst.foca.verif_snapshot().timer_token;
                    op = Op::Timer(foca::Timer::ProbeRandomMember(if pick % 2 == 0 { tok } else { tok.wrapping_sub(1) }));
                }
            }
            ops.push(op.clone());
            let (out, _, mm) = pair.exec(&mut drv, i as usize, &op);
            stats.record_outcome(&op, &setup, &out);
            kinds.insert(op.kind());
            any_effect |= !out.effs.is_empty();
            ctx.absorb(&out.effs);
            if let Some(m) = mm {
                failed = Some(m);
                break;
            }
            if matches!(out.res, Res::Panic(_)) {
                break;
            }
        }
        stats.cases += 1;
        let case = Case { setup, ops };
        let h = fnv(&case.text());
        stats.distinct.insert(h);
        if any_effect && kinds.len() >= 2 {
            stats.nontrivial_distinct.insert(h);
        }
        if stats.samples.len() < 3 && case.ops.len() <= 30 {
            stats.samples.push(case.text());
        }
        if let Some(m) = failed {
            if failures.len() < max_failures {
                let small = shrink(&mut drv, &case);
                let m2 = run_case(&mut drv, &small).unwrap_or(m);
                failures.push((small, m2));
            } else {
                failures.push((case, m));
            }
            if failures.len() >= max_failures {
                break;
            }
        }
    }
    stats.draws = drv.draws_answered;
    CorrResult { stats, failures }
}

pub fn mismatch_json(m: &Mismatch) -> String {
    format!(
        "{{\"op_index\":{},\"op\":{},\"line\":{},\"implementation\":{},\"model\":{}}}",
        m.op_index,
        json_str(&m.op),
        m.line,
        json_str(&m.implementation),
        json_str(&m.model)
    )
}
