//! Minimal JSON reader (objects, arrays, strings, numbers, literals) for replay files.
#[derive(Debug, Clone, PartialEq)]
pub enum J {
    Null,
    Bool(bool),
    Num(f64),
    Str(String),
    Arr(Vec<J>),
    Obj(Vec<(String, J)>),
}

impl J {
    pub fn get(&self, k: &str) -> Option<&J> {
        match self {
            J::Obj(v) => v.iter().find(|(n, _)| n == k).map(|(_, v)| v),
            _ => None,
        }
    }
    pub fn str(&self) -> Option<&str> {
        match self {
            J::Str(s) => Some(s),
            _ => None,
        }
    }
    pub fn arr(&self) -> Option<&Vec<J>> {
        match self {
            J::Arr(v) => Some(v),
            _ => None,
        }
    }
}

struct P<'a> {
    s: &'a [u8],
    i: usize,
}

impl<'a> P<'a> {
    fn ws(&mut self) {
        while self.i < self.s.len() && (self.s[self.i] as char).is_whitespace() {
            self.i += 1;
        }
    }
    fn val(&mut self) -> Option<J> {
        self.ws();
        let c = *self.s.get(self.i)?;
        match c {
            b'{' => {
                self.i += 1;
                let mut v = Vec::new();
                loop {
                    self.ws();
                    if *self.s.get(self.i)? == b'}' {
                        self.i += 1;
                        break;
                    }
                    let k = match self.val()? {
                        J::Str(s) => s,
                        _ => return None,
                    };
                    self.ws();
                    if *self.s.get(self.i)? != b':' {
                        return None;
                    }
                    self.i += 1;
                    let x = self.val()?;
                    v.push((k, x));
                    self.ws();
                    if *self.s.get(self.i)? == b',' {
                        self.i += 1;
                    }
                }
                Some(J::Obj(v))
            }
            b'[' => {
                self.i += 1;
                let mut v = Vec::new();
                loop {
                    self.ws();
                    if *self.s.get(self.i)? == b']' {
                        self.i += 1;
                        break;
                    }
                    v.push(self.val()?);
                    self.ws();
                    if *self.s.get(self.i)? == b',' {
                        self.i += 1;
                    }
                }
                Some(J::Arr(v))
            }
            b'"' => {
                self.i += 1;
                let mut out = Vec::new();
                loop {
                    let c = *self.s.get(self.i)?;
                    self.i += 1;
                    match c {
                        b'"' => break,
                        b'\\' => {
                            let e = *self.s.get(self.i)?;
                            self.i += 1;
                            match e {
                                b'n' => out.push(b'\n'),
                                b't' => out.push(b'\t'),
                                b'u' => {
                                    let h = std::str::from_utf8(self.s.get(self.i..self.i + 4)?).ok()?;
                                    let cp = u32::from_str_radix(h, 16).ok()?;
                                    self.i += 4;
                                    let ch = char::from_u32(cp).unwrap_or('?');
                                    let mut b = [0u8; 4];
                                    out.extend_from_slice(ch.encode_utf8(&mut b).as_bytes());
                                }
                                x => out.push(x),
                            }
                        }
                        x => out.push(x),
                    }
                }
                Some(J::Str(String::from_utf8_lossy(&out).into_owned()))
            }
            b't' => {
                self.i += 4;
                Some(J::Bool(true))
            }
            b'f' => {
                self.i += 5;
                Some(J::Bool(false))
            }
            b'n' => {
                self.i += 4;
                Some(J::Null)
            }
            _ => {
                let st = self.i;
                while self.i < self.s.len() && (self.s[self.i] as char).is_ascii_digit()
                    || self.i < self.s.len() && matches!(self.s[self.i], b'-' | b'+' | b'.' | b'e' | b'E')
                {
                    self.i += 1;
                }
                std::str::from_utf8(&self.s[st..self.i]).ok()?.parse().ok().map(J::Num)
            }
        }
    }
}

pub fn parse(s: &str) -> Option<J> {
    let mut p = P { s: s.as_bytes(), i: 0 };
    p.val()
}
