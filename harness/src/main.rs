mod codec;
mod corr;
mod driver;
mod gen;
mod handler;
mod ident;
mod inst;
mod json;
mod oracle;
mod oracle2;
mod search;
mod search2;
mod search3;
mod sim;
mod proto;
mod rt;
mod run;
mod util;
mod wire;

use std::collections::HashMap;

use run::{corr_run, mismatch_json, Case, Stats};
use util::{json_list, json_str};

fn args_map(args: &[String]) -> HashMap<String, String> {
    let mut m = HashMap::new();
    let mut i = 0;
    while i < args.len() {
        if let Some(k) = args[i].strip_prefix("--") {
            if i + 1 < args.len() && !args[i + 1].starts_with("--") {
                m.insert(k.to_string(), args[i + 1].clone());
                i += 2;
                continue;
            }
            m.insert(k.to_string(), "1".into());
        }
        i += 1;
    }
    m
}

fn parse_case_file(path: &str) -> Option<Case> {
    // {"setup": "...", "ops": ["...", ...]} — tiny ad-hoc reader: one string per line is also accepted
    let text = std::fs::read_to_string(path).ok()?;
    let mut strings = Vec::new();
    let mut cur = String::new();
    let mut in_str = false;
    let mut esc = false;
    for c in text.chars() {
        if in_str {
            if esc {
                cur.push(match c {
                    'n' => '\n',
                    't' => '\t',
                    c => c,
                });
                esc = false;
            } else if c == '\\' {
                esc = true;
            } else if c == '"' {
                in_str = false;
                strings.push(std::mem::take(&mut cur));
            } else {
                cur.push(c);
            }
        } else if c == '"' {
            in_str = true;
        }
    }
    // find "setup" then its value, "ops" then values until end
    let si = strings.iter().position(|s| s == "setup")?;
    let setup = proto::Setup::parse(strings.get(si + 1)?)?;
    let oi = strings.iter().position(|s| s == "ops")?;
    let mut ops = Vec::new();
    for s in &strings[oi + 1..] {
        match proto::Op::parse(s) {
            Some(o) => ops.push(o),
            None => break,
        }
    }
    Some(Case { setup, ops })
}

fn main() {
    std::panic::set_hook(Box::new(|_| {}));
    let args: Vec<String> = std::env::args().collect();
    let cmd = args.get(1).cloned().unwrap_or_default();
    let a = args_map(&args[2.min(args.len())..]);
    let seed: u64 = a.get("seed").and_then(|s| s.parse().ok()).unwrap_or(1);
    match cmd.as_str() {
        "corr" => {
            let prof = gen::profile(a.get("profile").map(|s| s.as_str()).unwrap_or("full"));
            let cases: u64 = a.get("cases").and_then(|s| s.parse().ok()).unwrap_or(200);
            let threads: u64 = a.get("threads").and_then(|s| s.parse().ok()).unwrap_or(8);
            let per = (cases + threads - 1) / threads;
            let t0 = std::time::Instant::now();
            let handles: Vec<_> = (0..threads)
                .map(|t| {
                    let prof = prof.clone();
                    std::thread::spawn(move || {
                        std::panic::catch_unwind(|| corr_run(&prof, seed, t * per, per, 3)).ok()
                    })
                })
                .collect();
            let mut stats = Stats::default();
            let mut failures = Vec::new();
            let mut crashed = 0;
            for h in handles {
                match h.join() {
                    Ok(Some(r)) => {
                        stats.merge(r.stats);
                        failures.extend(r.failures);
                    }
                    _ => crashed += 1,
                }
            }
            let fj: Vec<String> = failures
                .iter()
                .take(5)
                .map(|(c, m)| format!("{{\"case\":{},\"mismatch\":{}}}", c.to_json(), mismatch_json(m)))
                .collect();
            println!(
                "{{\"kind\":\"corr\",\"profile\":{},\"debug_build\":{},\"seed\":{},\"cases\":{},\"ops\":{},\"draws\":{},\"distinct\":{},\"distinct_nontrivial\":{},\"failures\":{},\"crashed_workers\":{},\"wall_s\":{:.2},\"hist\":{},\"samples\":{},\"failing\":[{}]}}",
                json_str(prof.name),
                corr::debug_build(),
                seed,
                stats.cases,
                stats.ops,
                stats.draws,
                stats.distinct.len(),
                stats.nontrivial_distinct.len(),
                failures.len(),
                crashed,
                t0.elapsed().as_secs_f64(),
                stats.hist_json(),
                json_list(&stats.samples),
                fj.join(",")
            );
            if !failures.is_empty() || crashed > 0 {
                std::process::exit(3);
            }
        }
        "simcorr" => {
            let prop = a.get("prop").cloned().unwrap_or_default();
            let budget: u64 = a.get("budget").and_then(|s| s.parse().ok()).unwrap_or(100_000);
            let threads: u64 = a.get("threads").and_then(|s| s.parse().ok()).unwrap_or(8).max(1);
            let thorough = a.contains_key("thorough");
            let per = (budget + threads - 1) / threads;
            let t0 = std::time::Instant::now();
            let handles: Vec<_> = (0..threads)
                .map(|t| {
                    let prop = prop.clone();
                    std::thread::spawn(move || std::panic::catch_unwind(|| search3::sim_corr(&prop, seed, t * 10_000_000, per, thorough)).ok())
                })
                .collect();
            let mut stats = Stats::default();
            let mut failures = Vec::new();
            let mut crashed = 0;
            for h in handles {
                match h.join() {
                    Ok(Some(r)) => {
                        stats.merge(r.stats);
                        failures.extend(r.failures);
                    }
                    _ => crashed += 1,
                }
            }
            let fj: Vec<String> = failures
                .iter()
                .take(3)
                .map(|(c, m)| format!("{{\"case\":{},\"mismatch\":{}}}", c.to_json(), mismatch_json(m)))
                .collect();
            println!(
                "{{\"kind\":\"simcorr\",\"profile\":{},\"debug_build\":{},\"seed\":{},\"cases\":{},\"ops\":{},\"draws\":{},\"distinct\":{},\"distinct_nontrivial\":{},\"failures\":{},\"crashed_workers\":{},\"wall_s\":{:.2},\"hist\":{},\"samples\":{},\"failing\":[{}]}}",
                json_str(&format!("sim-histories-{}", prop)),
                corr::debug_build(),
                seed,
                stats.cases,
                stats.ops,
                stats.draws,
                stats.distinct.len(),
                stats.nontrivial_distinct.len(),
                failures.len(),
                crashed,
                t0.elapsed().as_secs_f64(),
                stats.hist_json(),
                json_list(&stats.samples),
                fj.join(",")
            );
            if !failures.is_empty() || crashed > 0 {
                std::process::exit(3);
            }
        }
        "replay" => {
            let path = a.get("file").cloned().unwrap_or_default();
            let case = match parse_case_file(&path) {
                Some(c) => c,
                None => {
                    eprintln!("cannot read case file {}", path);
                    std::process::exit(2);
                }
            };
            let mut drv = driver::Driver::spawn().expect("driver");
            let verbose = a.contains_key("verbose");
            if verbose {
                let mut pair = corr::Pair::new(&mut drv, 0, &case.setup).ok().expect("new");
                for (i, op) in case.ops.iter().enumerate() {
                    let (_, want, mm) = pair.exec(&mut drv, i, op);
                    println!("#{} {}", i, op.text());
                    for l in want {
                        println!("    {}", l);
                    }
                    if let Some(m) = mm {
                        println!("MISMATCH line {}:\n  impl : {}\n  model: {}", m.line, m.implementation, m.model);
                        std::process::exit(3);
                    }
                }
                println!("agree");
            } else {
                match run::run_case(&mut drv, &case) {
                    Some(m) => {
                        println!("{}", mismatch_json(&m));
                        std::process::exit(3);
                    }
                    None => println!("{{\"agree\":true,\"ops\":{}}}", case.ops.len()),
                }
            }
        }
        "search" => {
            let prop = a.get("prop").cloned().unwrap_or_default();
            let budget: u64 = a.get("budget").and_then(|s| s.parse().ok()).unwrap_or(1000);
            let threads: u64 = a.get("threads").and_then(|s| s.parse().ok()).unwrap_or(8).max(1);
            let thorough = a.contains_key("thorough");
            let per = (budget + threads - 1) / threads;
            let t0 = std::time::Instant::now();
            let handles: Vec<_> = (0..threads)
                .map(|t| {
                    let prop = prop.clone();
                    std::thread::spawn(move || {
                        std::panic::catch_unwind(|| search::search(&prop, seed, t * 10_000_000, per, thorough)).ok()
                    })
                })
                .collect();
            let mut out = search::SearchOut::default();
            let mut crashed = 0;
            for h in handles {
                match h.join() {
                    Ok(Some(r)) => out.merge(r),
                    _ => crashed += 1,
                }
            }
            println!("{}", out.to_json(&prop, seed, t0.elapsed().as_secs_f64()));
            if crashed > 0 {
                eprintln!("{} search workers crashed", crashed);
                std::process::exit(4);
            }
            if !out.violations.is_empty() {
                std::process::exit(3);
            }
        }
        "search-replay" => {
            let prop = a.get("prop").cloned().unwrap_or_default();
            let path = a.get("file").cloned().unwrap_or_default();
            let text = std::fs::read_to_string(&path).unwrap_or_default();
            let j = json::parse(&text);
            let case = j.as_ref().and_then(|j| search::SearchCase::from_json(j).or_else(|| j.get("case").and_then(search::SearchCase::from_json)));
            match case {
                None => {
                    eprintln!("cannot read search case {}", path);
                    std::process::exit(2);
                }
                Some(c) => {
                    let fs = search::replay(&prop, &c);
                    println!("case: {}", c.text());
                    if fs.is_empty() {
                        println!("property holds on this case");
                    } else {
                        for f in &fs {
                            println!("FAILS clause=`{}` signature={} detail={}", f.clause, f.signature, f.detail);
                        }
                        std::process::exit(3);
                    }
                }
            }
        }
        _ => {
            eprintln!("usage: harness corr|simcorr|replay|search|search-replay ...");
            std::process::exit(2);
        }
    }
}
