//! Bespoke searches: C14 (round-robin window), C13 (timer epochs under exactly-once delivery),
//! C17 (rejected input leaves no trace; determinism).
use std::collections::{BTreeMap, HashSet};
use std::time::Duration;

use foca::{Header, Member, Message, State, Timer};

use crate::gen::{gen_op, gen_setup, profile, Ctx};
use crate::ident::{Policy, VId};
use crate::inst::{Instance, Res};
use crate::oracle::Finding;
use crate::proto::{Cfg, Op, Setup};
use crate::rt::Eff;
use crate::run::fnv;
use crate::search::{SearchCase, SearchOut};
use crate::util::Sm;
use crate::wire::{build_datagram, parse_datagram};

fn f(clause: &str, sig: &str, detail: String) -> Finding {
    Finding { clause: clause.into(), signature: sig.into(), detail }
}

// ------------------------------------------------------------------------------------------------
// C14

/// Judges the trailing run of probe-timer calls of the history.
pub fn check_c14(case: &SearchCase) -> Option<Finding> {
    let (setup, ops) = &case.instances[0];
    let mut inst = Instance::new(setup);
    // index where the trailing probe run starts
    let mut start = ops.len();
    while start > 0 && matches!(ops[start - 1], Op::Timer(Timer::ProbeRandomMember(_)) | Op::Timer(Timer::SendIndirectProbe { .. })) {
        start -= 1;
    }
    let mut dsts: Vec<VId> = Vec::new();
    let mut active: Vec<VId> = Vec::new();
    for (i, op) in ops.iter().enumerate() {
        if i == start {
            active = inst.active_members().iter().map(|m| *m.id()).collect();
        }
        let tok = inst.foca.verif_snapshot().timer_token;
        let conn = inst.foca.verif_snapshot().connection_state;
        let out = inst.apply(op);
        if inst.poisoned {
            return None;
        }
        if i >= start {
            if let Op::Timer(Timer::ProbeRandomMember(t)) = op {
                if *t != tok || conn != 1 {
                    continue;
                }
                if matches!(&out.res, Res::Err(k) if k == "Encode") {
                    return None;
                }
                let now_active: Vec<VId> = inst.active_members().iter().map(|m| *m.id()).collect();
                let mut a = active.clone();
                let mut b = now_active.clone();
                a.sort();
                b.sort();
                if a != b {
                    return None; // the set of members did not stay stable: outside the quantifier
                }
                let pings: Vec<VId> = out
                    .effs
                    .iter()
                    .filter_map(|e| match e {
                        Eff::Send(d, b) => match parse_datagram(setup.codec, b) {
                            Ok(p) if matches!(p.header.message, Message::Ping(_)) => Some(*d),
                            _ => None,
                        },
                        _ => None,
                    })
                    .collect();
                if active.is_empty() {
                    continue;
                }
                if pings.len() != 1 {
                    return Some(f("each probe round pings exactly one member", &format!("C14:pings-{}", pings.len()), format!("round at op #{}", i)));
                }
                let d = pings[0];
                if !active.contains(&d) {
                    return Some(f("never a Down member", "C14:ping-inactive", format!("{} at op #{}", d.text(), i)));
                }
                if d.addr == inst.identity().addr {
                    return Some(f("never the instance itself", "C14:ping-self", format!("{} at op #{}", d.text(), i)));
                }
                dsts.push(d);
            }
        }
    }
    let n = active.len();
    if n == 0 {
        return None;
    }
    let w = 2 * n - 1;
    if dsts.len() >= w {
        for s in 0..=dsts.len() - w {
            let win: HashSet<&VId> = dsts[s..s + w].iter().collect();
            for a in &active {
                if !win.contains(a) {
                    return Some(f(
                        "every window of 2n-1 consecutive rounds pings each active member",
                        "C14:window",
                        format!("n={} member {} not pinged in rounds {}..{}: {:?}", n, a.text(), s, s + w, dsts[s..s + w].iter().map(|d| d.text()).collect::<Vec<_>>()),
                    ));
                }
            }
        }
    }
    None
}

pub fn search_c14(seed: u64, first: u64, n_evals: u64, thorough: bool) -> SearchOut {
    let mut out = SearchOut::default();
    let max_n = if thorough { 12 } else { 8 };
    for ci in first..first + n_evals {
        let mut r = Sm::new(seed.wrapping_mul(0x51ED270B).wrapping_add(ci).wrapping_add(0xC14));
        let mut setup = gen_setup(&mut r, &profile("C14"));
        setup.cfg.mps = 1400;
        setup.id = VId::new(1, 1);
        let n = r.range(1, max_n) as u16;
        let d = r.range(0, 4) as u16;
        let mut ops: Vec<Op> = Vec::new();
        // joins in batches, some members turned Down, some forgotten again (moves the cursor around)
        let mut members: Vec<Member<VId>> = (0..n + d).map(|i| Member::new(VId::new(2 + i, r.below(2) as u16), r.below(3) as u16, State::Alive)).collect();
        for i in (1..members.len()).rev() {
            members.swap(i, r.below(i as u64 + 1) as usize);
        }
        let mut i = 0;
        let mut tok_guess_rounds = 0;
        while i < members.len() {
            let k = (r.range(1, 3) as usize).min(members.len() - i);
            ops.push(Op::Apply(true, members[i..i + k].to_vec()));
            i += k;
            if r.chance(30) {
                // a few rounds in between joins, so that the cursor is somewhere in the middle
                for _ in 0..r.range(1, 3) {
                    ops.push(Op::Timer(Timer::ProbeRandomMember(0)));
                    ops.push(Op::Timer(Timer::SendIndirectProbe { probed_id: VId::new(0, 0), token: 0 }));
                    tok_guess_rounds += 1;
                }
            }
        }
        let _ = tok_guess_rounds;
        // turn d of them Down
        let downs: Vec<Member<VId>> = members.iter().take(d as usize).map(|m| Member::new(*m.id(), m.incarnation(), State::Down)).collect();
        if !downs.is_empty() {
            ops.push(Op::Apply(true, downs.clone()));
        }
        if r.chance(30) && !downs.is_empty() {
            ops.push(Op::Timer(Timer::RemoveDown(*downs[0].id())));
        }
        // separator: a no-op call so that the trailing probe run starts here
        ops.push(Op::Gossip);
        // fix the probe tokens by running a scratch copy
        let mut scratch = Instance::new(&setup);
        let mut fixed: Vec<Op> = Vec::new();
        for op in &ops {
            let tok = scratch.foca.verif_snapshot().timer_token;
            let op2 = match op {
                Op::Timer(Timer::ProbeRandomMember(_)) => Op::Timer(Timer::ProbeRandomMember(tok)),
                Op::Timer(Timer::SendIndirectProbe { .. }) => match scratch.foca.verif_snapshot().probe_direct {
                    Some(m) => Op::Timer(Timer::SendIndirectProbe { probed_id: *m.id(), token: tok }),
                    None => Op::Timer(Timer::SendIndirectProbe { probed_id: VId::new(0, 0), token: tok }),
                },
                o => o.clone(),
            };
            let _ = scratch.apply(&op2);
            fixed.push(op2);
        }
        let tok = scratch.foca.verif_snapshot().timer_token;
        let rounds = 5 * (n as usize) + 3;
        for _ in 0..rounds {
            fixed.push(Op::Timer(Timer::ProbeRandomMember(tok)));
            if r.chance(70) {
                let t = scratch.foca.verif_snapshot().probe_direct.map(|m| *m.id()).unwrap_or(VId::new(0, 0));
                let _ = t;
            }
        }
        let case = SearchCase { check: "c14-rounds".into(), instances: vec![(setup.clone(), fixed)] };
        out.evaluations += 1;
        out.bump(&format!("n.{}", n));
        out.bump(&format!("down.{}", d));
        let h = fnv(&case.text());
        out.distinct.insert(h);
        if n >= 2 {
            out.nontrivial.insert(h);
        }
        if out.samples.len() < 1 {
            out.samples.push(case.text());
        }
        if let Some(fd) = check_c14(&case) {
            if !out.violations.iter().any(|(g, _)| g.signature == fd.signature) {
                out.violations.push((fd, case));
            }
        }
    }
    out
}

// ------------------------------------------------------------------------------------------------
// C13

fn timer_token(t: &Timer<VId>) -> Option<u8> {
    match t {
        Timer::ProbeRandomMember(k) | Timer::PeriodicAnnounce(k) | Timer::PeriodicAnnounceDown(k) | Timer::PeriodicGossip(k) => Some(*k),
        Timer::SendIndirectProbe { token, .. } | Timer::ChangeSuspectToDown { token, .. } => Some(*token),
        Timer::RemoveDown(_) => None,
    }
}

fn timer_rank(t: &Timer<VId>) -> u8 {
    match t {
        Timer::SendIndirectProbe { .. } => 0,
        Timer::ProbeRandomMember(_) => 1,
        Timer::ChangeSuspectToDown { .. } => 2,
        Timer::PeriodicAnnounce(_) => 3,
        Timer::PeriodicGossip(_) => 4,
        Timer::RemoveDown(_) => 5,
        Timer::PeriodicAnnounceDown(_) => 6,
    }
}

/// Re-simulates the history with an exactly-once timer queue rebuilt from the effects.
/// `in_order`: the history claims to deliver timers in deadline order.
pub fn check_c13(case: &SearchCase) -> Option<Finding> {
    let (setup, ops) = &case.instances[0];
    let in_order = case.check == "c13-inorder";
    let mut inst = Instance::new(setup);
    let mut pending: Vec<(u64, u64, Timer<VId>)> = Vec::new();
    let mut now: u64 = 0;
    let mut seq: u64 = 0;
    for (i, op) in ops.iter().enumerate() {
        let before = (inst.obs_line(), inst.hid_line());
        let snap = inst.foca.verif_snapshot();
        let mut delivered_self_scheduled = false;
        let mut was_first = false;
        if let Op::Timer(t) = op {
            if let Some(pos) = pending.iter().position(|(_, _, p)| p == t) {
                let min = pending.iter().map(|(d, s, p)| (*d, timer_rank(p), *s)).min().unwrap();
                let me = (pending[pos].0, timer_rank(&pending[pos].2), pending[pos].1);
                was_first = me.0 == min.0 && me.1 <= min.1;
                now = now.max(pending[pos].0);
                pending.remove(pos);
                delivered_self_scheduled = true;
            }
        }
        let out = inst.apply(op);
        if inst.poisoned {
            return None;
        }
        if matches!(&out.res, Res::Err(k) if k == "Encode") {
            return None; // FitsAllHeaders left
        }
        for e in &out.effs {
            if let Eff::Timer(d, t) = e {
                seq += 1;
                pending.push((now + d.as_millis() as u64, seq, t.clone()));
            }
        }
        let after = (inst.obs_line(), inst.hid_line());
        if let Op::Timer(t) = op {
            if delivered_self_scheduled {
                // stale epoch: ignored without any effect
                if let Some(k) = timer_token(t) {
                    if k != snap.timer_token {
                        if !out.effs.is_empty() || before != after || out.res != Res::Ok {
                            return Some(f("timers issued before the latest Idle/Defunct/identity change are ignored without any effect", &format!("C13:stale-effect:{}", crate::proto::timer_text(t).split(' ').next().unwrap_or("")), format!("op #{} `{}` -> {:?}, {} effects", i, op.text(), out.res, out.effs.len())));
                        }
                    }
                }
                match &out.res {
                    Res::Err(k) => {
                        if in_order && was_first {
                            return Some(f("with timers delivered in deadline order handle_timer never returns an error", &format!("C13:inorder-error:{}", k), format!("op #{} `{}`", i, op.text())));
                        }
                        if k != "IncompleteProbeCycle" {
                            return Some(f("out-of-order delivery yields at most IncompleteProbeCycle", &format!("C13:error:{}", k), format!("op #{} `{}`", i, op.text())));
                        }
                    }
                    _ => {}
                }
            }
        }
        // loops: exactly one outstanding probe timer and one per enabled periodic task while active, none effective otherwise
        let s = inst.foca.verif_snapshot();
        let tok = s.timer_token;
        let count = |pred: &dyn Fn(&Timer<VId>) -> bool| pending.iter().filter(|(_, _, t)| pred(t)).count();
        let probe = count(&|t| matches!(t, Timer::ProbeRandomMember(k) if *k == tok));
        let pa = count(&|t| matches!(t, Timer::PeriodicAnnounce(k) if *k == tok));
        let pad = count(&|t| matches!(t, Timer::PeriodicAnnounceDown(k) if *k == tok));
        let pg = count(&|t| matches!(t, Timer::PeriodicGossip(k) if *k == tok));
        let cfg = &inst.cfg;
        if s.connection_state == 1 {
            if probe != 1 {
                return Some(f("an active instance has exactly one outstanding probe timer", &format!("C13:probe-timers-{}", probe), format!("after op #{} `{}`", i, op.text())));
            }
            for (name, n, enabled) in [("pa", pa, cfg.pa.is_some()), ("pad", pad, cfg.pad.is_some()), ("pg", pg, cfg.pg.is_some())] {
                if (enabled && n != 1) || n > 1 {
                    return Some(f("exactly one outstanding timer per enabled periodic task", &format!("C13:{}-timers-{}", name, n), format!("after op #{} `{}`", i, op.text())));
                }
            }
        } else if probe + pa + pad + pg != 0 {
            return Some(f("an instance that is not active has no outstanding timer that is still effective", "C13:effective-while-inactive", format!("after op #{} `{}`", i, op.text())));
        }
    }
    None
}

pub fn search_c13(seed: u64, first: u64, n_evals: u64) -> SearchOut {
    let mut out = SearchOut::default();
    let mut prof = profile("C13");
    prof.w = [22, 26, 0, 2, 3, 1, 2, 3, 1, 3, 4];
    prof.malformed_pct = 5;
    prof.tight_mps_pct = 5;
    let mut budget = n_evals;
    let mut ci = first;
    while budget > 0 {
        let mut r = Sm::new(seed.wrapping_mul(0x7F4A7C15).wrapping_add(ci).wrapping_add(0xC13));
        ci += 1;
        let mut setup = gen_setup(&mut r, &prof);
        if setup.cfg.mps < 64 {
            setup.cfg.mps = 200;
        }
        let in_order = r.chance(50);
        let mut inst = Instance::new(&setup);
        let mut ctx = Ctx::default();
        let mut pending: Vec<(u64, u64, Timer<VId>)> = Vec::new();
        let mut now = 0u64;
        let mut seq = 0u64;
        let mut ops: Vec<Op> = Vec::new();
        let nops = r.range(20, 90).min(budget.max(1));
        for _ in 0..nops {
            let op = if !pending.is_empty() && r.chance(55) {
                let pos = if in_order {
                    (0..pending.len()).min_by_key(|i| (pending[*i].0, timer_rank(&pending[*i].2), pending[*i].1)).unwrap()
                } else {
                    r.below(pending.len() as u64) as usize
                };
                now = now.max(pending[pos].0);
                let t = pending.remove(pos).2;
                Op::Timer(t)
            } else {
                let o = gen_op(&mut r, &prof, &inst, &ctx);
                if let Op::ChId(id, _) = &o {
                    if inst.members().iter().any(|m| m.id().addr == id.addr) {
                        continue;
                    }
                }
                o
            };
            ops.push(op.clone());
            let o = inst.apply(&op);
            out.evaluations += 1;
            out.bump(&format!("op.{}", op.kind()));
            ctx.absorb(&o.effs);
            for e in &o.effs {
                if let Eff::Timer(d, t) = e {
                    seq += 1;
                    pending.push((now + d.as_millis() as u64, seq, t.clone()));
                }
            }
            if inst.poisoned || matches!(&o.res, Res::Err(k) if k == "Encode") {
                break;
            }
        }
        budget = budget.saturating_sub(ops.len().max(1) as u64);
        let case = SearchCase { check: if in_order { "c13-inorder".into() } else { "c13-random".into() }, instances: vec![(setup.clone(), ops)] };
        let h = fnv(&case.text());
        out.distinct.insert(h);
        if case.instances[0].1.iter().filter(|o| matches!(o, Op::Timer(_))).count() >= 3 {
            out.nontrivial.insert(h);
        }
        if out.samples.len() < 1 && case.instances[0].1.len() < 30 {
            out.samples.push(case.text());
        }
        if let Some(fd) = check_c13(&case) {
            if !out.violations.iter().any(|(g, _)| g.signature == fd.signature) {
                // shrink from the end and greedily
                let mut cur = case.clone();
                let mut j = cur.instances[0].1.len();
                while j > 0 {
                    j -= 1;
                    let mut cand = cur.clone();
                    cand.instances[0].1.remove(j);
                    if check_c13(&cand).map(|g| g.signature == fd.signature).unwrap_or(false) {
                        cur = cand;
                    }
                }
                let f2 = check_c13(&cur).unwrap_or(fd);
                out.violations.push((f2, cur));
            }
        }
    }
    out
}

// ------------------------------------------------------------------------------------------------
// C17

/// A rejected input of one of the classes of the property, built for the instance's current state.
pub fn gen_rejected(r: &mut Sm, inst: &Instance) -> (String, Op) {
    let own = inst.identity();
    let codec = inst.setup.codec;
    let cfg = inst.cfg.clone();
    let snap = inst.foca.verif_snapshot();
    let other = VId::new(r.range(2, 5) as u16, r.below(3) as u16);
    let some_msg = |r: &mut Sm| -> Message<VId> {
        match r.below(6) {
            0 => Message::Ping(r.below(4) as u8),
            1 => Message::Ack(snap.probe_number),
            2 => Message::Gossip,
            3 => Message::Feed,
            4 => Message::TurnUndead,
            _ => Message::PingReq { target: VId::new(3, 0), probe_number: 1 },
        }
    };
    let members = |r: &mut Sm, n: u64| -> Vec<Member<VId>> {
        (0..n).map(|_| Member::new(VId::new(r.range(2, 5) as u16, r.below(3) as u16), *r.pick(&[0u16, 1, 65535]), *r.pick(&[State::Alive, State::Suspect, State::Down]))).collect()
    };
    loop {
        match r.below(12) {
            0 => {
                let n = cfg.mps + 1 + r.below(8) as usize;
                if n > 4000 {
                    continue;
                }
                let h = Header { src: other, src_incarnation: 1, dst: own, message: Message::Gossip };
                let mut d = build_datagram(codec, &h, Some(&members(r, 2)), &[]);
                while d.len() < n {
                    d.push(0);
                }
                return ("oversized".into(), Op::Data(d));
            }
            1 => {
                // undecodable header: random bytes that the codec refuses
                for _ in 0..20 {
                    let d: Vec<u8> = (0..r.below(12)).map(|_| r.below(256) as u8).collect();
                    if d.len() <= cfg.mps && crate::wire::parse_prefix(codec, &d).is_none() {
                        return ("undecodable-header".into(), Op::Data(d));
                    }
                }
                continue;
            }
            2 => {
                let src = if r.chance(50) { own } else { VId::new(own.addr, own.gen.wrapping_add(1) % 5) };
                let h = Header { src, src_incarnation: r.below(3) as u16, dst: own, message: some_msg(r) };
                let sec = if crate::wire::carries_updates(&h.message) { Some(members(r, 2)) } else { None };
                let d = build_datagram(codec, &h, sec.as_deref(), &[]);
                if d.len() > cfg.mps {
                    continue;
                }
                return ("own-source".into(), Op::Data(d));
            }
            3 => {
                let h = Header { src: other, src_incarnation: 0, dst: own, message: some_msg(r) };
                let mut d = build_datagram(codec, &h, None, &[]);
                d.push(r.below(256) as u8);
                if d.len() > cfg.mps {
                    continue;
                }
                return ("one-trailing-byte".into(), Op::Data(d));
            }
            4 => {
                let h = Header { src: other, src_incarnation: 0, dst: own, message: Message::Announce };
                let mut d = build_datagram(codec, &h, None, &[]);
                for _ in 0..r.range(1, 5) {
                    d.push(r.below(256) as u8);
                }
                if d.len() > cfg.mps {
                    continue;
                }
                return ("announce-with-data".into(), Op::Data(d));
            }
            5 => {
                let dst = if r.chance(50) { VId::new(own.addr, own.gen.wrapping_add(1) % 7) } else { VId::new(if own.addr == 6 { 7 } else { 6 }, 0) };
                if dst == own {
                    continue;
                }
                let mut msg = some_msg(r);
                if dst.addr == own.addr && matches!(msg, Message::Announce) {
                    msg = Message::Gossip;
                }
                let h = Header { src: other, src_incarnation: 2, dst, message: msg };
                let sec = if crate::wire::carries_updates(&h.message) { Some(members(r, 3)) } else { None };
                let d = build_datagram(codec, &h, sec.as_deref(), &[]);
                if d.len() > cfg.mps || d.len() == h_len(codec, &h) + 1 {
                    continue;
                }
                return ("wrong-destination".into(), Op::Data(d));
            }
            6 => {
                // member list cut short: the count promises more members than there are
                let h = Header { src: other, src_incarnation: 1, dst: own, message: Message::Gossip };
                let nm = r.range(0, 2);
                let ms = members(r, nm);
                let mut d = crate::codec::enc_header(codec, &h);
                d.extend_from_slice(&((ms.len() + 1) as u16).to_be_bytes());
                for m in &ms {
                    d.extend_from_slice(&crate::codec::enc_member(codec, m));
                }
                if d.len() > cfg.mps {
                    continue;
                }
                return ("undecodable-members".into(), Op::Data(d));
            }
            7 => {
                let tok = snap.timer_token.wrapping_add(r.range(1, 200) as u8);
                let t = match r.below(6) {
                    0 => Timer::ProbeRandomMember(tok),
                    1 => Timer::SendIndirectProbe { probed_id: other, token: tok },
                    2 => Timer::ChangeSuspectToDown { member_id: other, incarnation: 0, token: tok },
                    3 => Timer::PeriodicAnnounce(tok),
                    4 => Timer::PeriodicAnnounceDown(tok),
                    _ => Timer::PeriodicGossip(tok),
                };
                return ("stale-timer".into(), Op::Timer(t));
            }
            8 => {
                if snap.connection_state == 2 {
                    continue;
                }
                return ("reuse-not-undead".into(), Op::Reuse);
            }
            9 => return ("same-identity".into(), Op::ChId(own, Policy::Bump)),
            10 => {
                let mut c = cfg.clone();
                match r.below(4) {
                    0 => c.probe_period += 1,
                    1 => c.probe_rtt += 1,
                    2 if c.pa.is_none() => c.pa = Some((1000, 1)),
                    _ if c.pg.is_none() => c.pg = Some((1000, 1)),
                    _ => c.probe_period += 7,
                }
                if r.chance(60) {
                    c.mps = *r.pick(&[40usize, 64, 700, 3000]);
                    c.max_tx = 9;
                    c.k = 1 + r.below(4) as usize;
                    c.notify_down = !c.notify_down;
                }
                return ("invalid-config".into(), Op::SetCfg(c));
            }
            _ => {
                if r.chance(50) {
                    return ("addb-empty".into(), Op::AddB(vec![]));
                }
                if cfg.mps > 3000 {
                    continue;
                }
                return ("addb-too-big".into(), Op::AddB(vec![1u8; cfg.mps + 1 + r.below(4) as usize]));
            }
        }
    }
}

fn h_len(codec: crate::codec::CodecKind, h: &Header<VId>) -> usize {
    crate::codec::enc_header(codec, h).len()
}

/// instances[0] = base history, instances[1] = the rejected inputs; the check name carries, for each
/// rejected input, the index of the base op it is inserted before ("c17-twin:0,0,3,...").
pub fn check_c17(case: &SearchCase) -> Option<Finding> {
    let (sa, base) = &case.instances[0];
    let (_, rejected) = &case.instances[1];
    let positions: Vec<usize> = case.check.split(':').nth(1).unwrap_or("").split(',').filter_map(|x| x.parse().ok()).collect();
    let mut a = Instance::new(sa);
    let mut b = Instance::new(sa);
    // determinism: a second run of the base history must reproduce the first exactly
    let mut a2 = Instance::new(sa);
    let mut ri = 0;
    for (i, op) in base.iter().enumerate() {
        while ri < rejected.len() && positions.get(ri).copied().unwrap_or(usize::MAX) <= i {
            let before = (b.obs_line(), b.hid_line());
            let o = b.apply(&rejected[ri]);
            let after = (b.obs_line(), b.hid_line());
            if !o.effs.is_empty() || before != after || matches!(o.res, Res::Panic(_)) {
                return Some(f("a rejected input changes nothing", &format!("C17:trace:{}", rejected[ri].kind()), format!("inserted `{}` before op #{} -> {:?}, {} effects, state {}", rejected[ri].text(), i, o.res, o.effs.len(), if before != after { "changed" } else { "same" })));
            }
            ri += 1;
        }
        let oa = a.apply(op);
        let oa2 = a2.apply(op);
        let la = a.lines(&oa);
        if la != a2.lines(&oa2) {
            return Some(f("effects are a deterministic function of the call history and RNG seed", "C17:nondeterministic", format!("op #{} `{}`", i, op.text())));
        }
        let ob = b.apply(op);
        let lb = b.lines(&ob);
        if la != lb {
            let k = la.iter().zip(lb.iter()).position(|(x, y)| x != y).unwrap_or(la.len().min(lb.len()));
            return Some(f("inserting rejected inputs alters none of the sends, timers, notifications and results of the rest", &format!("C17:diverged:{}", op.kind()), format!("op #{} `{}`: `{}` vs `{}`", i, op.text(), la.get(k).cloned().unwrap_or_default(), lb.get(k).cloned().unwrap_or_default())));
        }
        if a.poisoned || b.poisoned {
            return None;
        }
    }
    None
}

pub fn search_c17(seed: u64, first: u64, n_evals: u64) -> SearchOut {
    let mut out = SearchOut::default();
    let prof = profile("C17");
    let mut budget = n_evals;
    let mut ci = first;
    while budget > 0 {
        let mut r = Sm::new(seed.wrapping_mul(0x2C1B3C6D).wrapping_add(ci).wrapping_add(0xC17));
        ci += 1;
        let setup = gen_setup(&mut r, &prof);
        let mut a = Instance::new(&setup);
        let mut ctx = Ctx::default();
        let mut base = Vec::new();
        let mut rejected = Vec::new();
        let mut positions: Vec<String> = Vec::new();
        let nops = r.range(10, 40).min(budget.max(1));
        for _ in 0..nops {
            // 0..2 rejected inputs built for the current state, inserted before the next base op
            while r.chance(40) {
                let (class, rej) = gen_rejected(&mut r, &a);
                out.bump(&format!("class.{}", class));
                rejected.push(rej);
                positions.push(base.len().to_string());
            }
            let op = gen_op(&mut r, &prof, &a, &ctx);
            base.push(op.clone());
            let o = a.apply(&op);
            ctx.absorb(&o.effs);
            out.evaluations += 1;
            if a.poisoned {
                break;
            }
        }
        budget = budget.saturating_sub(base.len().max(1) as u64);
        let nrej = rejected.len();
        let case = SearchCase { check: format!("c17-twin:{}", positions.join(",")), instances: vec![(setup.clone(), base), (setup.clone(), rejected)] };
        let h = fnv(&case.text());
        out.distinct.insert(h);
        if nrej > 0 {
            out.nontrivial.insert(h);
        }
        if out.samples.len() < 1 && case.instances[0].1.len() < 20 {
            out.samples.push(case.text());
        }
        if let Some(fd) = check_c17(&case) {
            if !out.violations.iter().any(|(g, _)| g.signature == fd.signature) {
                out.violations.push((fd, case));
            }
        }
    }
    out
}

// ------------------------------------------------------------------------------------------------
// C20: the real codecs (and the Lean byte-level models of them, through the driver)

fn msg_text(m: &Message<VId>) -> String {
    match m {
        Message::Ping(n) => format!("ping:{}", n),
        Message::Ack(n) => format!("ack:{}", n),
        Message::PingReq { target, probe_number } => format!("pingreq:{}:{}", target.text(), probe_number),
        Message::IndirectPing { origin, probe_number } => format!("indirectping:{}:{}", origin.text(), probe_number),
        Message::IndirectAck { target, probe_number } => format!("indirectack:{}:{}", target.text(), probe_number),
        Message::ForwardedAck { origin, probe_number } => format!("forwardedack:{}:{}", origin.text(), probe_number),
        Message::Announce => "announce".into(),
        Message::Feed => "feed".into(),
        Message::Gossip => "gossip".into(),
        Message::Broadcast => "broadcast".into(),
        Message::TurnUndead => "turnundead".into(),
    }
}

fn real_dech(k: crate::codec::CodecKind, b: &[u8]) -> String {
    use foca::Codec;
    let mut buf: &[u8] = b;
    match crate::codec::AnyCodec(k).decode_header(&mut buf) {
        Ok(h) => format!("header {} {} {} {} rest={}", h.src.text(), h.src_incarnation, h.dst.text(), msg_text(&h.message), buf.len()),
        Err(_) => "none".into(),
    }
}

fn real_decm(k: crate::codec::CodecKind, b: &[u8]) -> String {
    use foca::Codec;
    let mut buf: &[u8] = b;
    match crate::codec::AnyCodec(k).decode_member(&mut buf) {
        Ok(m) => format!("member {} rest={}", crate::proto::member_text(&m), buf.len()),
        Err(_) => "none".into(),
    }
}

/// check name "c20"; instances[0].ops = [Data(bytes)] with the setup's codec; judged: round trip,
/// clean failure on short buffers / truncations, and agreement of the Lean model with the real decoder.
pub fn check_c20(case: &SearchCase, drv: &mut Option<crate::driver::Driver>) -> Option<Finding> {
    use bytes::BufMut;
    use foca::Codec;
    let (setup, ops) = &case.instances[0];
    let k = setup.codec;
    for op in ops {
        let bytes = match op {
            Op::Data(b) => b.clone(),
            _ => continue,
        };
        let r = std::panic::catch_unwind(|| {
            let h = real_dech(k, &bytes);
            let m = real_decm(k, &bytes);
            // a decoded value re-encodes and round-trips with any suffix
            let mut problems: Vec<String> = Vec::new();
            let mut buf: &[u8] = &bytes;
            if let Ok(hd) = crate::codec::AnyCodec(k).decode_header(&mut buf) {
                let enc = crate::codec::enc_header(k, &hd);
                let mut with = enc.clone();
                with.extend_from_slice(&[0xAA, 0x55, 0x01]);
                let mut b2: &[u8] = &with;
                match crate::codec::AnyCodec(k).decode_header(&mut b2) {
                    Ok(h2) if h2 == hd && b2.len() == 3 => {}
                    other => problems.push(format!("header round trip: {:?}", other.map(|x| msg_text(&x.message)))),
                }
                for sz in 0..enc.len() {
                    let lim = Vec::new().limit(sz);
                    let mut lim = lim;
                    if crate::codec::AnyCodec(k).encode_header(&hd, &mut lim).is_ok() {
                        problems.push(format!("header encoded into {} < {} bytes", sz, enc.len()));
                    }
                    let mut t: &[u8] = &enc[..sz];
                    if let Ok(hx) = crate::codec::AnyCodec(k).decode_header(&mut t) {
                        if hx == hd {
                            problems.push(format!("truncated header ({} of {}) decoded to the same value", sz, enc.len()));
                        }
                    }
                }
            }
            let mut buf: &[u8] = &bytes;
            if let Ok(md) = crate::codec::AnyCodec(k).decode_member(&mut buf) {
                let enc = crate::codec::enc_member(k, &md);
                let mut with = enc.clone();
                with.extend_from_slice(&[0xAA, 0x55]);
                let mut b2: &[u8] = &with;
                match crate::codec::AnyCodec(k).decode_member(&mut b2) {
                    Ok(m2) if m2 == md && b2.len() == 2 => {}
                    _ => problems.push("member round trip".into()),
                }
                for sz in 0..enc.len() {
                    let mut lim = Vec::new().limit(sz);
                    if crate::codec::AnyCodec(k).encode_member(&md, &mut lim).is_ok() {
                        problems.push(format!("member encoded into {} < {} bytes", sz, enc.len()));
                    }
                }
            }
            (h, m, problems)
        });
        let (h, m, problems) = match r {
            Ok(x) => x,
            Err(_) => return Some(f("decoding or encoding never panics", &format!("C20:panic:{}", k.name()), crate::proto::hex(&bytes))),
        };
        if let Some(p) = problems.first() {
            return Some(f("values round-trip exactly; short buffers are an error", &format!("C20:{}:{}", k.name(), p.split(' ').next().unwrap_or("")), format!("{} on {}", p, crate::proto::hex(&bytes))));
        }
        if let Some(d) = drv.as_mut() {
            let mh = d.raw(&format!("codec dech {} {}", k.name(), crate::proto::hex(&bytes)));
            let mm = d.raw(&format!("codec decm {} {}", k.name(), crate::proto::hex(&bytes)));
            if mh.first() != Some(&h) {
                return Some(f("the Lean byte-level model agrees with the real decoder", &format!("C20:model-header:{}", k.name()), format!("{}: real `{}` model `{:?}`", crate::proto::hex(&bytes), h, mh.first())));
            }
            if mm.first() != Some(&m) {
                return Some(f("the Lean byte-level model agrees with the real decoder", &format!("C20:model-member:{}", k.name()), format!("{}: real `{}` model `{:?}`", crate::proto::hex(&bytes), m, mm.first())));
            }
        }
    }
    None
}

/// check name "c20w": the bundled serde codecs with an identity type that has single-byte, bool, signed and
/// string fields. `Data(bytes)` is the entropy the values are built from. Judged on the real codecs only: values
/// round-trip exactly with any suffix, encoding into every shorter buffer is an error (never a panic, never a
/// silent truncation), decoding every truncation is an error or a different value, nothing panics.
pub fn check_c20_wide(case: &SearchCase) -> Option<Finding> {
    use bytes::BufMut;
    use foca::Codec;
    use crate::ident::WideId;
    let (setup, ops) = &case.instances[0];
    let k = setup.codec;
    if !k.is_bundled() {
        return None;
    }
    for op in ops {
        let bytes = match op {
            Op::Data(b) => b.clone(),
            _ => continue,
        };
        let mut r = Sm::new(fnv(&crate::proto::hex(&bytes)));
        let mut wid = |r: &mut Sm| WideId {
            octets: [r.below(256) as u8, *r.pick(&[0u8, 1, 127, 128, 255]), r.below(256) as u8, r.below(3) as u8],
            up: r.chance(50),
            port: *r.pick(&[0u16, 1, 127, 128, 16383, 16384, 65535, 8080]),
            tag: *r.pick(&[0i8, 1, -1, 127, -128, 64]),
            name: (0..r.below(6)).map(|_| *r.pick(&['a', 'z', '0', 'é', '-'])).collect(),
            bump: *r.pick(&[0u64, 1, 127, 128, 300, u32::MAX as u64, u64::MAX]),
        };
        let n8 = r.below(256) as u8;
        let msg: Message<WideId> = match r.below(8) {
            0 => Message::Ping(n8),
            1 => Message::Ack(n8),
            2 => Message::PingReq { target: wid(&mut r), probe_number: n8 },
            3 => Message::IndirectPing { origin: wid(&mut r), probe_number: n8 },
            4 => Message::IndirectAck { target: wid(&mut r), probe_number: n8 },
            5 => Message::ForwardedAck { origin: wid(&mut r), probe_number: n8 },
            6 => Message::Gossip,
            _ => Message::TurnUndead,
        };
        let header = Header { src: wid(&mut r), src_incarnation: r.below(65536) as u16, dst: wid(&mut r), message: msg };
        let member = Member::new(wid(&mut r), r.below(65536) as u16, *r.pick(&[State::Alive, State::Suspect, State::Down]));
        let res = std::panic::catch_unwind(|| {
            let mut problems: Vec<String> = Vec::new();
            macro_rules! run {
                ($codec:expr) => {{
                    let mut c = $codec;
                    let mut enc: Vec<u8> = Vec::new();
                    if c.encode_header(&header, &mut enc).is_err() {
                        problems.push("header does not encode into a growable buffer".into());
                    }
                    let mut with = enc.clone();
                    with.extend_from_slice(&[0xAA, 0x55, 0x01]);
                    let mut b2: &[u8] = &with;
                    match c.decode_header(&mut b2) {
                        Ok(h2) if h2 == header && b2.len() == 3 => {}
                        _ => problems.push("header round trip".into()),
                    }
                    for sz in 0..enc.len() {
                        let mut lim = Vec::new().limit(sz);
                        if c.encode_header(&header, &mut lim).is_ok() {
                            problems.push(format!("header encoded into {} < {} bytes", sz, enc.len()));
                        }
                        if lim.get_ref().len() > sz {
                            problems.push(format!("header wrote past a {}-byte limit", sz));
                        }
                        let mut t: &[u8] = &enc[..sz];
                        if let Ok(hx) = c.decode_header(&mut t) {
                            if hx == header {
                                problems.push(format!("truncated header ({} of {}) decoded to the same value", sz, enc.len()));
                            }
                        }
                    }
                    let mut encm: Vec<u8> = Vec::new();
                    if c.encode_member(&member, &mut encm).is_err() {
                        problems.push("member does not encode into a growable buffer".into());
                    }
                    let mut with = encm.clone();
                    with.extend_from_slice(&[0xAA, 0x55]);
                    let mut b2: &[u8] = &with;
                    match c.decode_member(&mut b2) {
                        Ok(m2) if m2 == member && b2.len() == 2 => {}
                        _ => problems.push("member round trip".into()),
                    }
                    for sz in 0..encm.len() {
                        let mut lim = Vec::new().limit(sz);
                        if c.encode_member(&member, &mut lim).is_ok() {
                            problems.push(format!("member encoded into {} < {} bytes", sz, encm.len()));
                        }
                        if lim.get_ref().len() > sz {
                            problems.push(format!("member wrote past a {}-byte limit", sz));
                        }
                    }
                    // what foca's send path does: several members into one limited buffer until one does not fit
                    for sz in [encm.len(), encm.len() + 1, 2 * encm.len() + 1, 3 * encm.len() - 1] {
                        let mut lim = Vec::new().limit(sz);
                        let mut n = 0;
                        while n < 6 && c.encode_member(&member, &mut lim).is_ok() {
                            n += 1;
                        }
                        if lim.get_ref().len() > sz {
                            problems.push(format!("members wrote past a {}-byte limit", sz));
                        }
                    }
                }};
            }
            match k {
                crate::codec::CodecKind::Postcard => run!(foca::PostcardCodec),
                _ => run!(foca::BincodeCodec(bincode::config::standard())),
            }
            problems
        });
        match res {
            Err(_) => return Some(f("decoding or encoding never panics", &format!("C20:wide-panic:{}", k.name()), format!("identity with single-byte fields, entropy {}", crate::proto::hex(&bytes)))),
            Ok(p) => {
                if let Some(p) = p.first() {
                    return Some(f("values round-trip exactly; short buffers are an error", &format!("C20:wide:{}:{}", k.name(), p.split(' ').next().unwrap_or("")), format!("{} (entropy {})", p, crate::proto::hex(&bytes))));
                }
            }
        }
    }
    None
}

pub fn search_c20(seed: u64, first: u64, n_evals: u64) -> SearchOut {
    let mut out = SearchOut::default();
    let mut drv = crate::driver::Driver::spawn().ok();
    if drv.is_none() {
        out.bump("driver-missing");
    }
    for ci in first..first + n_evals {
        let mut r = Sm::new(seed.wrapping_mul(0x6C8E9CF5).wrapping_add(ci).wrapping_add(0xC20));
        let codec = *r.pick(&crate::codec::CodecKind::ALL);
        let any_u16 = |r: &mut Sm| -> u16 { let (a, b) = (r.below(65536) as u16, r.below(300) as u16); *r.pick(&[0u16, 1, 127, 128, 250, 251, 252, 255, 256, 16383, 16384, 65534, 65535, a, b]) };
        let id = |r: &mut Sm| VId::new(any_u16(r), any_u16(r));
        let n8 = |r: &mut Sm| { let a = r.below(256) as u8; *r.pick(&[0u8, 1, 127, 128, 250, 251, 255, a]) };
        let msg = match r.below(11) {
            0 => Message::Ping(n8(&mut r)),
            1 => Message::Ack(n8(&mut r)),
            2 => Message::PingReq { target: id(&mut r), probe_number: n8(&mut r) },
            3 => Message::IndirectPing { origin: id(&mut r), probe_number: n8(&mut r) },
            4 => Message::IndirectAck { target: id(&mut r), probe_number: n8(&mut r) },
            5 => Message::ForwardedAck { origin: id(&mut r), probe_number: n8(&mut r) },
            6 => Message::Announce,
            7 => Message::Feed,
            8 => Message::Gossip,
            9 => Message::Broadcast,
            _ => Message::TurnUndead,
        };
        let mut bytes = if r.chance(50) {
            crate::codec::enc_header(codec, &Header { src: id(&mut r), src_incarnation: any_u16(&mut r), dst: id(&mut r), message: msg })
        } else {
            crate::codec::enc_member(codec, &Member::new(id(&mut r), any_u16(&mut r), *r.pick(&[State::Alive, State::Suspect, State::Down])))
        };
        let mode = r.below(6);
        match mode {
            0 => {}
            1 => {
                let n = r.below(bytes.len() as u64 + 1) as usize;
                bytes.truncate(n);
            }
            2 if !bytes.is_empty() => {
                let i = r.below(bytes.len() as u64) as usize;
                bytes[i] = r.below(256) as u8;
            }
            3 => {
                for _ in 0..r.range(1, 4) {
                    bytes.push(r.below(256) as u8);
                }
            }
            4 => bytes = (0..r.below(14)).map(|_| { let a = r.below(256) as u8; *r.pick(&[0u8, 1, 0x7f, 0x80, 0xfb, 0xfc, 0xfd, 0xff, a]) }).collect(),
            _ => {
                if !bytes.is_empty() {
                    let i = r.below(bytes.len() as u64) as usize;
                    bytes[i] ^= 1 << r.below(8);
                }
            }
        }
        let mut setup = Setup { id: VId::new(1, 0), policy: Policy::None, codec, handler: crate::handler::HandlerKind::None, cfg: Cfg::simple(), rng_seed: 0 };
        setup.cfg.mps = 1400;
        let case = SearchCase { check: "c20".into(), instances: vec![(setup, vec![Op::Data(bytes.clone())])] };
        out.evaluations += 1;
        out.bump(&format!("codec.{}", codec.name()));
        out.bump(&format!("mode.{}", mode));
        let h = fnv(&case.text());
        out.distinct.insert(h);
        if bytes.len() >= 2 {
            out.nontrivial.insert(h);
        }
        if out.samples.len() < 2 {
            out.samples.push(case.text());
        }
        if let Some(fd) = check_c20(&case, &mut drv) {
            if !out.violations.iter().any(|(g, _)| g.signature == fd.signature) {
                out.violations.push((fd, case.clone()));
            }
        }
        if ci % 4 == 0 && codec.is_bundled() {
            let wcase = SearchCase { check: "c20w".into(), instances: case.instances.clone() };
            out.bump("wide-identity");
            if let Some(fd) = check_c20_wide(&wcase) {
                if !out.violations.iter().any(|(g, _)| g.signature == fd.signature) {
                    out.violations.push((fd, wcase));
                }
            }
        }
    }
    out
}

#[allow(dead_code)]
fn unused(_: Cfg, _: Setup, _: BTreeMap<u8, u8>, _: Duration) {}
