//! Independent datagram grammar, written against the doc comment of `foca::Header`:
//! header, then (for kinds that carry updates) a u16 count and that many members, then
//! length-prefixed custom broadcast items, and nothing else.
use bytes::Buf;
use foca::{Codec, Header, Member, Message};

use crate::codec::{enc_header, enc_member, AnyCodec, CodecKind};
use crate::ident::VId;

#[derive(Debug, Clone)]
pub struct Parsed {
    pub header: Header<VId>,
    pub header_len: usize,
    /// members with the exact bytes each one occupied
    pub section: Option<Vec<(Member<VId>, Vec<u8>)>>,
    pub items: Vec<Vec<u8>>,
}

pub fn carries_updates(m: &Message<VId>) -> bool {
    !matches!(m, Message::Announce | Message::TurnUndead | Message::Broadcast)
}

pub fn carries_custom(m: &Message<VId>) -> bool {
    !matches!(m, Message::Announce | Message::TurnUndead)
}

pub fn kind_name(m: &Message<VId>) -> &'static str {
    match m {
        Message::Ping(_) => "Ping",
        Message::Ack(_) => "Ack",
        Message::PingReq { .. } => "PingReq",
        Message::IndirectPing { .. } => "IndirectPing",
        Message::IndirectAck { .. } => "IndirectAck",
        Message::ForwardedAck { .. } => "ForwardedAck",
        Message::Announce => "Announce",
        Message::Feed => "Feed",
        Message::Gossip => "Gossip",
        Message::Broadcast => "Broadcast",
        Message::TurnUndead => "TurnUndead",
    }
}

/// Lenient variant for *inputs*: whatever prefix of the grammar could be read (header, as many
/// members and items as decode), ignoring trailing garbage. `None` if not even the header decodes.
pub fn parse_prefix(kind: CodecKind, data: &[u8]) -> Option<Parsed> {
    let mut c = AnyCodec(kind);
    let mut buf: &[u8] = data;
    let header = c.decode_header(&mut buf).ok()?;
    let header_len = data.len() - buf.remaining();
    let mut p = Parsed { header, header_len, section: None, items: vec![] };
    if matches!(p.header.message, Message::Announce) {
        return Some(p);
    }
    // the receiver reads a member section off every kind but Broadcast (even TurnUndead, which never carries one when foca sends it)
    if !matches!(p.header.message, Message::Broadcast) && buf.remaining() >= 2 {
        let n = buf.get_u16();
        let mut ms = Vec::new();
        for _ in 0..n {
            let before = buf;
            match c.decode_member(&mut buf) {
                Ok(m) => {
                    let used = before.len() - buf.len();
                    ms.push((m, before[..used].to_vec()));
                }
                Err(_) => {
                    p.section = Some(ms);
                    return Some(p);
                }
            }
        }
        p.section = Some(ms);
    }
    while buf.remaining() >= 3 {
        let len = buf.get_u16() as usize;
        if len == 0 || buf.remaining() < len {
            break;
        }
        p.items.push(buf[..len].to_vec());
        buf.advance(len);
    }
    Some(p)
}

pub fn parse_datagram(kind: CodecKind, data: &[u8]) -> Result<Parsed, String> {
    let mut c = AnyCodec(kind);
    let mut buf: &[u8] = data;
    let header = c.decode_header(&mut buf).map_err(|e| format!("header: {}", e))?;
    let header_len = data.len() - buf.remaining();
    let mut section = None;
    if !carries_custom(&header.message) {
        if buf.has_remaining() {
            return Err(format!("{} carries {} extra bytes", kind_name(&header.message), buf.remaining()));
        }
        return Ok(Parsed { header, header_len, section, items: vec![] });
    }
    if carries_updates(&header.message) && buf.has_remaining() {
        if buf.remaining() < 2 {
            return Err("truncated count".into());
        }
        let n = buf.get_u16();
        let mut ms = Vec::new();
        for i in 0..n {
            let before = buf;
            let m = c.decode_member(&mut buf).map_err(|e| format!("member {} of {}: {}", i, n, e))?;
            let used = before.len() - buf.len();
            ms.push((m, before[..used].to_vec()));
        }
        section = Some(ms);
    }
    let mut items = Vec::new();
    while buf.has_remaining() {
        if buf.remaining() < 3 {
            return Err(format!("{} stray bytes in custom tail", buf.remaining()));
        }
        let len = buf.get_u16() as usize;
        if len == 0 {
            return Err("empty custom item".into());
        }
        if buf.remaining() < len {
            return Err("custom item longer than datagram".into());
        }
        items.push(buf[..len].to_vec());
        buf.advance(len);
    }
    Ok(Parsed { header, header_len, section, items })
}

pub fn build_datagram(
    kind: CodecKind,
    header: &Header<VId>,
    section: Option<&[Member<VId>]>,
    items: &[Vec<u8>],
) -> Vec<u8> {
    let mut v = enc_header(kind, header);
    if let Some(ms) = section {
        v.extend_from_slice(&(ms.len() as u16).to_be_bytes());
        for m in ms {
            v.extend_from_slice(&enc_member(kind, m));
        }
    }
    for it in items {
        v.extend_from_slice(&(it.len() as u16).to_be_bytes());
        v.extend_from_slice(it);
    }
    v
}

pub fn decode_member_blob(kind: CodecKind, blob: &[u8]) -> Result<Member<VId>, String> {
    let mut c = AnyCodec(kind);
    let mut buf: &[u8] = blob;
    let m = c.decode_member(&mut buf).map_err(|e| e.to_string())?;
    if buf.has_remaining() {
        return Err("trailing bytes".into());
    }
    Ok(m)
}
