//! Recording runtime: one merged, ordered list of everything foca asked for.
use std::time::Duration;

use foca::{Notification, OwnedNotification, Runtime, Timer};

use crate::ident::VId;

#[derive(Debug, Clone, PartialEq, Eq)]
pub enum Eff {
    Send(VId, Vec<u8>),
    Timer(Duration, Timer<VId>),
    Notify(OwnedNotification<VId>),
}

#[derive(Default)]
pub struct RecRuntime {
    pub effs: Vec<Eff>,
}

impl Runtime<VId> for RecRuntime {
    fn notify(&mut self, notification: Notification<'_, VId>) {
        self.effs.push(Eff::Notify(notification.to_owned()));
    }
    fn send_to(&mut self, to: VId, data: &[u8]) {
        self.effs.push(Eff::Send(to, data.to_vec()));
    }
    fn submit_after(&mut self, event: Timer<VId>, after: Duration) {
        self.effs.push(Eff::Timer(after, event));
    }
}
