//! Oracles for C12 (probe evidence and routing), C15/C16 (dissemination accounting, custom broadcasts).
use std::collections::{BTreeMap, HashMap, HashSet};

use foca::{Member, Message, OwnedNotification, State, Timer};

use crate::codec::enc_member;
use crate::ident::VId;
use crate::inst::Res;
use crate::oracle::{finding, Finding, StepRec, TraceOracle};
use crate::proto::{hex, Op};
use crate::rt::Eff;
use crate::wire::{carries_custom, carries_updates, kind_name};

fn find_member<'a>(ms: &'a [Member<VId>], addr: u16) -> Option<&'a Member<VId>> {
    ms.iter().find(|m| m.id().addr == addr)
}

/// Is the sender listed as active right after its header was applied (before the rest of the datagram)?
pub fn sender_active_at_header(before: &[Member<VId>], src: &VId) -> bool {
    match find_member(before, src.addr) {
        None => true,
        Some(m) if m.id() == src => m.state() != State::Down,
        Some(m) => !(m.id().gen > src.gen),
    }
}

// ---------------------------------------------------------------------------------------------
// C12

struct Round {
    target: Member<VId>,
    number: u8,
    token: u8,
    asked: Vec<VId>,
    evidence: bool,
    aborted: bool,
}

pub struct C12 {
    round: Option<Round>,
}
impl C12 {
    pub fn new() -> Self {
        C12 { round: None }
    }
}

fn msg_of(p: &Result<crate::wire::Parsed, String>) -> Option<&Message<VId>> {
    p.as_ref().ok().map(|p| &p.header.message)
}

impl TraceOracle for C12 {
    fn step(&mut self, r: &StepRec) -> Vec<Finding> {
        let mut f = Vec::new();
        if matches!(r.out.res, Res::Panic(_)) {
            return f;
        }
        let tok = r.before.hid.timer_token;
        let connected = r.before.hid.connection_state == 1;
        // anything that ends the epoch aborts the round
        let epoch_change = r.before.hid.timer_token != r.after.hid.timer_token || r.before.id != r.after.id;
        match r.op {
            Op::Timer(Timer::ProbeRandomMember(t)) if *t == tok && connected => {
                // end of the previous round
                if let Some(rd) = self.round.take() {
                    let incomplete = r.out.res != Res::Ok;
                    if !rd.aborted && rd.token == tok && !incomplete {
                        let rec_before = find_member(&r.before.members, rd.target.id().addr);
                        let rec_after = find_member(&r.after.members, rd.target.id().addr);
                        let s2d: Vec<&Eff> = r.out.effs.iter().filter(|e| matches!(e, Eff::Timer(_, Timer::ChangeSuspectToDown { member_id, .. }) if member_id == rd.target.id())).collect();
                        if rd.evidence {
                            if !s2d.is_empty() {
                                f.push(finding("a round with genuine evidence ends without suspicion", "C12:suspected-despite-ack".into(), format!("target {} probe #{} at op #{}", rd.target.id().text(), rd.number, r.idx)));
                            }
                            if let (Some(b), Some(a)) = (rec_before, rec_after) {
                                if b.id() == a.id() && b.state() == State::Alive && a.state() == State::Suspect && b.id() == rd.target.id() {
                                    f.push(finding("a round with genuine evidence ends without suspicion", "C12:suspect-state-despite-ack".into(), format!("target {} at op #{}", rd.target.id().text(), r.idx)));
                                }
                            }
                        } else {
                            // no evidence: the probed member, if still active and not known at a higher incarnation, becomes Suspect
                            if let Some(b) = rec_before {
                                if b.id() == rd.target.id() && b.state() != State::Down {
                                    let expect_suspect = b.incarnation() <= rd.target.incarnation() && !(b.state() == State::Suspect && b.incarnation() == rd.target.incarnation()) && b.incarnation() == rd.target.incarnation();
                                    let a = rec_after;
                                    if expect_suspect {
                                        if !a.map(|a| a.id() == b.id() && a.state() == State::Suspect && a.incarnation() == rd.target.incarnation()).unwrap_or(false) {
                                            f.push(finding("without evidence the probed member becomes Suspect", "C12:not-suspected".into(), format!("target {} probe #{} at op #{} `{}`", rd.target.id().text(), rd.number, r.idx, r.op.text())));
                                        }
                                    }
                                    // still active afterwards: exactly one suspicion timeout
                                    if a.map(|a| a.id() == b.id() && a.state() != State::Down).unwrap_or(false) && s2d.len() != 1 {
                                        f.push(finding("exactly one suspicion timeout is scheduled", format!("C12:s2d-count-{}", s2d.len()), format!("target {} at op #{}", rd.target.id().text(), r.idx)));
                                    }
                                    for e in &s2d {
                                        if let Eff::Timer(d, Timer::ChangeSuspectToDown { incarnation, token, .. }) = e {
                                            if *incarnation != rd.target.incarnation() || *token != r.after.hid.timer_token || d.as_millis() as u64 != r.before.cfg.s2d {
                                                f.push(finding("the suspicion timeout names the probed incarnation and current epoch", "C12:s2d-fields".into(), format!("{:?}", e)));
                                            }
                                        }
                                    }
                                }
                            }
                        }
                    }
                }
                // start of the next round: exactly one Ping to an active member
                let pings: Vec<(VId, u8)> = r.sends.iter().filter_map(|(d, _, p)| match msg_of(p) { Some(Message::Ping(n)) => Some((*d, *n)), _ => None }).collect();
                if pings.len() > 1 {
                    f.push(finding("one Ping per round", "C12:two-pings".into(), format!("op #{}", r.idx)));
                }
                if let Some((d, n)) = pings.first() {
                    if let Some(m) = r.after.members.iter().find(|m| m.id() == d) {
                        if r.after.hid.timer_token == tok {
                            self.round = Some(Round { target: r.after.hid.probe_direct.clone().unwrap_or_else(|| m.clone()), number: *n, token: tok, asked: vec![], evidence: false, aborted: false });
                        }
                    }
                }
            }
            Op::Timer(Timer::SendIndirectProbe { probed_id, token }) => {
                let reqs: Vec<(VId, VId, u8)> = r.sends.iter().filter_map(|(d, _, p)| match msg_of(p) { Some(Message::PingReq { target, probe_number }) => Some((*d, *target, *probe_number)), _ => None }).collect();
                let allowed = match &self.round {
                    Some(rd) => *token == tok && rd.token == tok && !rd.aborted && rd.target.id() == probed_id && !rd.evidence && r.before.active.contains(probed_id),
                    None => false,
                };
                if !reqs.is_empty() && !allowed {
                    // a crafted timer may legitimately match the hidden probe state; trust the hook for that
                    let probing = r.before.hid.probe_direct.as_ref().map(|m| m.id() == probed_id).unwrap_or(false);
                    if !(probing && *token == tok && !r.before.hid.direct_ack_ok && r.before.hid.indirect_ack_count == 0 && r.before.active.contains(probed_id)) {
                        f.push(finding("indirect requests only when no Ack arrived and the target is still active", "C12:pingreq-unwarranted".into(), format!("op #{} `{}`", r.idx, r.op.text())));
                    }
                }
                if reqs.len() > r.before.cfg.k {
                    f.push(finding("at most num_indirect_probes requests", "C12:pingreq-too-many".into(), format!("{} > {}", reqs.len(), r.before.cfg.k)));
                }
                let mut seen = HashSet::new();
                for (d, t, n) in &reqs {
                    if !seen.insert(*d) {
                        f.push(finding("indirect requests go to distinct members", "C12:pingreq-dup".into(), d.text()));
                    }
                    if d == probed_id {
                        f.push(finding("indirect requests never go to the target", "C12:pingreq-to-target".into(), d.text()));
                    }
                    if !r.before.active.contains(d) {
                        f.push(finding("indirect requests go to active members", "C12:pingreq-inactive".into(), d.text()));
                    }
                    if t != probed_id || *n != r.before.hid.probe_number {
                        f.push(finding("PingReq names the probed member and current probe number", "C12:pingreq-fields".into(), format!("{} #{}", t.text(), n)));
                    }
                }
                if let Some(rd) = self.round.as_mut() {
                    if rd.target.id() == probed_id && *token == tok {
                        rd.asked.extend(reqs.iter().map(|x| x.0));
                    }
                }
            }
            Op::Data(_) => {
                if let Some(p) = &r.input {
                    let processed = matches!(r.out.res, Res::Ok) || matches!(&r.out.res, Res::Err(k) if k == "CustomBroadcast" || k == "MalformedPacket" || k == "IndirectForOurselves");
                    let addressed = p.header.dst == r.before.id;
                    let sender_active_after = sender_active_at_header(&r.before.members, &p.header.src);
                    let reached_reply = processed && addressed && sender_active_after && r.after.hid.connection_state == 1 && r.before.id == r.after.id
                        && !matches!(&r.out.res, Res::Err(k) if k == "MalformedPacket" && p.section.is_none());
                    let src = p.header.src;
                    let own = r.before.id;
                    // evidence bookkeeping
                    if let Some(rd) = self.round.as_mut() {
                        if reached_reply && !rd.aborted {
                            match &p.header.message {
                                Message::Ack(n) if *n == rd.number && src == *rd.target.id() => rd.evidence = true,
                                Message::ForwardedAck { probe_number, origin } if *probe_number == rd.number && *origin != own => {
                                    if let Some(pos) = rd.asked.iter().position(|a| *a == src) {
                                        rd.asked.remove(pos);
                                        rd.evidence = true;
                                    }
                                }
                                _ => {}
                            }
                        }
                    }
                    // reply table
                    if reached_reply {
                        let replies: Vec<(VId, &Message<VId>)> = r.sends.iter().filter_map(|(d, _, q)| msg_of(q).map(|m| (*d, m))).collect();
                        let has = |d: VId, want: &Message<VId>| replies.iter().any(|(x, m)| *x == d && *m == want);
                        match &p.header.message {
                            Message::Ping(n) => {
                                if !has(src, &Message::Ack(*n)) {
                                    f.push(finding("Ping is answered with an Ack of the same number", "C12:no-ack".into(), format!("op #{} `{}`", r.idx, r.op.text())));
                                }
                            }
                            Message::PingReq { target, probe_number } => {
                                if *target == own {
                                    if !matches!(&r.out.res, Res::Err(k) if k == "IndirectForOurselves") {
                                        f.push(finding("requests naming the instance itself are rejected", "C12:pingreq-self-accepted".into(), r.op.text()));
                                    }
                                } else if !has(*target, &Message::IndirectPing { origin: src, probe_number: *probe_number }) {
                                    f.push(finding("PingReq is relayed as IndirectPing(origin = sender) to the target", "C12:relay-pingreq".into(), r.op.text()));
                                }
                            }
                            Message::IndirectPing { origin, probe_number } => {
                                if *origin == own {
                                    if !matches!(&r.out.res, Res::Err(k) if k == "IndirectForOurselves") {
                                        f.push(finding("requests naming the instance itself are rejected", "C12:indirectping-self-accepted".into(), r.op.text()));
                                    }
                                } else if !has(src, &Message::IndirectAck { target: *origin, probe_number: *probe_number }) {
                                    f.push(finding("IndirectPing is answered with IndirectAck(target = origin) to the sender", "C12:relay-indirectping".into(), r.op.text()));
                                }
                            }
                            Message::IndirectAck { target, probe_number } => {
                                if *target == own {
                                    if !matches!(&r.out.res, Res::Err(k) if k == "IndirectForOurselves") {
                                        f.push(finding("requests naming the instance itself are rejected", "C12:indirectack-self-accepted".into(), r.op.text()));
                                    }
                                } else if !has(*target, &Message::ForwardedAck { origin: src, probe_number: *probe_number }) {
                                    f.push(finding("IndirectAck is relayed as ForwardedAck(origin = sender) to the target", "C12:relay-indirectack".into(), r.op.text()));
                                }
                            }
                            Message::ForwardedAck { origin, .. } => {
                                if *origin == own && !matches!(&r.out.res, Res::Err(k) if k == "IndirectForOurselves") {
                                    f.push(finding("requests naming the instance itself are rejected", "C12:forwardedack-self-accepted".into(), r.op.text()));
                                }
                            }
                            _ => {}
                        }
                    }
                }
            }
            _ => {}
        }
        if epoch_change || notif_ends_epoch(r) {
            if let Some(rd) = self.round.as_mut() {
                rd.aborted = true;
            }
        }
        // the hidden probe state must agree with the evidence we saw (success only on genuine evidence)
        if let Some(rd) = &self.round {
            if !rd.aborted && r.after.hid.timer_token == rd.token && r.after.hid.probe_number == rd.number {
                let claimed = r.after.hid.direct_ack_ok || r.after.hid.indirect_ack_count > 0;
                if claimed && !rd.evidence {
                    f.push(finding("a probe succeeds only on genuine evidence", "C12:success-without-evidence".into(), format!("after op #{} `{}`", r.idx, r.op.text())));
                }
            }
        }
        f
    }
}

fn notif_ends_epoch(r: &StepRec) -> bool {
    r.out.effs.iter().any(|e| matches!(e, Eff::Notify(OwnedNotification::Idle) | Eff::Notify(OwnedNotification::Defunct) | Eff::Notify(OwnedNotification::Rejoin(_))))
}

// ---------------------------------------------------------------------------------------------
// C15 / C16: accounting on the two backlogs, using the hook snapshot (remaining transmissions)

fn multiset(v: &[(usize, Vec<u8>)]) -> BTreeMap<Vec<u8>, Vec<usize>> {
    let mut m: BTreeMap<Vec<u8>, Vec<usize>> = BTreeMap::new();
    for (tx, d) in v {
        m.entry(d.clone()).or_default().push(*tx);
    }
    for x in m.values_mut() {
        x.sort();
    }
    m
}

pub struct C15 {
    max_tx_ever: usize,
}
impl C15 {
    pub fn new() -> Self {
        C15 { max_tx_ever: 0 }
    }
}

fn may_enqueue(op: &Op) -> bool {
    matches!(op, Op::Apply(..) | Op::Data(_) | Op::Leave | Op::ChId(..) | Op::Timer(Timer::ProbeRandomMember(_)) | Op::Timer(Timer::ChangeSuspectToDown { .. }))
}

impl TraceOracle for C15 {
    fn step(&mut self, r: &StepRec) -> Vec<Finding> {
        let mut f = Vec::new();
        if matches!(r.out.res, Res::Panic(_)) {
            return f;
        }
        let codec = r.inst.setup.codec;
        self.max_tx_ever = self.max_tx_ever.max(r.before.cfg.max_tx as usize).max(r.after.cfg.max_tx as usize);
        let max_tx = self.max_tx_ever;
        let before = multiset(&r.before.hid.updates);
        let after = multiset(&r.after.hid.updates);
        // one update per address
        let mut addrs = HashSet::new();
        for (_, d) in &r.after.hid.updates {
            if let Ok(p) = crate::wire::decode_member_blob(codec, d) {
                if !addrs.insert(p.id().addr) {
                    f.push(finding("the backlog never holds more than one update per address", "C15:two-per-addr".into(), format!("address {} after op #{} `{}`", p.id().addr, r.idx, r.op.text())));
                }
            }
        }
        for (tx, d) in &r.after.hid.updates {
            if *tx == 0 || *tx > max_tx {
                f.push(finding("remaining transmissions stay within 1..=max_transmissions", "C15:tx-range".into(), format!("{} for {}", tx, hex(d))));
            }
        }
        let pure_send = !may_enqueue(r.op);
        let mut appear: HashMap<Vec<u8>, usize> = HashMap::new();
        let piggy: Vec<&crate::wire::Parsed> = r.sends.iter().filter_map(|(_, _, p)| p.as_ref().ok()).filter(|p| carries_updates(&p.header.message) && !matches!(p.header.message, Message::Feed) && p.section.is_some()).collect();
        // replay the datagrams of a pure-send op against the backlog as it was before the op
        let mut left: BTreeMap<Vec<u8>, usize> = r.before.hid.updates.iter().map(|(tx, d)| (d.clone(), *tx)).collect();
        for p in &piggy {
            let kind = kind_name(&p.header.message);
            let sec = p.section.as_ref().unwrap();
            let mut in_this: HashSet<Vec<u8>> = HashSet::new();
            let mut used = p.header_len + 2;
            for (_, blob) in sec {
                if !in_this.insert(blob.clone()) {
                    f.push(finding("an update appears at most once per datagram", "C15:twice-in-datagram".into(), hex(blob)));
                }
                *appear.entry(blob.clone()).or_insert(0) += 1;
                if pure_send {
                    match left.get(blob).copied() {
                        None => f.push(finding("only pending updates are piggybacked", "C15:not-pending".into(), format!("{} in a {} (op #{} `{}`)", hex(blob), kind, r.idx, r.op.text()))),
                        Some(tw) => {
                            // precedence: an omitted update with more transmissions left did not fit at this one's turn
                            for (d, te) in &left {
                                if !sec.iter().any(|(_, b)| b == d) && *te > tw && d.len() <= r.before.cfg.mps.saturating_sub(used) {
                                    f.push(finding("updates with more transmissions remaining take precedence", format!("C15:precedence:{}", kind), format!("{} (tx {}) omitted although it fitted when {} (tx {}) was written, op #{} `{}`", hex(d), te, hex(blob), tw, r.idx, r.op.text())));
                                }
                            }
                        }
                    }
                }
                used += blob.len();
            }
            if pure_send {
                // nothing that still fits is left out
                let space_left = r.before.cfg.mps.saturating_sub(used);
                for (d, _) in &left {
                    if !in_this.contains(d) && d.len() <= space_left && sec.len() < 65535 {
                        f.push(finding("a piggybacking datagram never omits a pending update that would still fit", format!("C15:omitted:{}", kind), format!("{} ({} bytes) left out with {} bytes free, op #{} `{}`", hex(d), d.len(), space_left, r.idx, r.op.text())));
                    }
                }
                for b in &in_this {
                    if let Some(t) = left.get_mut(b) {
                        *t -= 1;
                        if *t == 0 {
                            left.remove(b);
                        }
                    }
                }
            }
        }
        for (d, n) in &appear {
            let had = before.get(d).and_then(|v| v.last().copied()).unwrap_or(0);
            // (an op that can accept updates may re-enqueue the very same update between two datagrams)
            if pure_send && *n > had {
                f.push(finding("an update is piggybacked at most max_transmissions times", "C15:too-many".into(), format!("{} appeared {} times with {} left (op #{} `{}`)", hex(d), n, had, r.idx, r.op.text())));
            }
        }
        if pure_send {
            // exact accounting: every appearance consumed one transmission, entries left exactly at zero, nothing else moved
            let want: BTreeMap<Vec<u8>, Vec<usize>> = left.iter().map(|(d, t)| (d.clone(), vec![*t])).collect();
            if before.values().all(|v| v.len() == 1) && want != after {
                f.push(finding("each appearance consumes exactly one transmission and an update leaves after exactly that many", format!("C15:accounting:{}", r.op.kind()), format!("op #{} `{}`: expected {:?}, backlog is {:?}", r.idx, r.op.text(), want.iter().map(|(d, t)| (hex(d), t[0])).collect::<Vec<_>>(), after.iter().map(|(d, t)| (hex(d), t.clone())).collect::<Vec<_>>())));
            }
        }
        // applying with broadcasting disabled leaves the backlog untouched (unless the batch is about the instance itself)
        if let Op::Apply(false, ms) = r.op {
            let own_involved = ms.iter().any(|m| m.id().addr == r.before.id.addr);
            if !own_involved && before != after {
                f.push(finding("applying updates with broadcasting disabled leaves the backlog untouched", "C15:nobroadcast-touched".into(), format!("op #{} `{}`", r.idx, r.op.text())));
            }
            // a batch that says something about the instance itself (known finding F10): the refutation gossip
            // consumes transmissions, a renewal enqueues Down(previous identity) — whatever the flag says
            if own_involved && before != after {
                f.push(finding("applying updates with broadcasting disabled leaves the backlog untouched", "C15:nobroadcast-touched:self".into(), format!("op #{} `{}`", r.idx, r.op.text())));
            }
        }
        // the queued update for an address is the most recently accepted one
        if let Op::Apply(true, ms) = r.op {
            if r.out.res == Res::Ok && r.sends.is_empty() {
                for m in ms {
                    if m.id().addr == r.before.id.addr {
                        continue;
                    }
                    let b = find_member(&r.before.members, m.id().addr);
                    let a = find_member(&r.after.members, m.id().addr);
                    let last_for_addr = ms.iter().rev().find(|x| x.id().addr == m.id().addr).unwrap();
                    if std::ptr::eq(last_for_addr, m) && a != b {
                        if let Some(a) = a {
                            let queued: Vec<&Vec<u8>> = r.after.hid.updates.iter().map(|(_, d)| d).filter(|d| crate::wire::decode_member_blob(codec, d).ok().map(|x| x.id().addr == m.id().addr).unwrap_or(false)).collect();
                            let want = enc_member(codec, a);
                            if queued.len() == 1 && *queued[0] != want && a.id() == m.id() && a.state() == m.state() && a.incarnation() == m.incarnation() {
                                f.push(finding("the queued update for an address is the most recently accepted one", "C15:stale-queued".into(), format!("{} queued, record is {:?}", hex(queued[0]), a)));
                            }
                        }
                    }
                }
            }
        }
        f
    }
}

pub struct C16 {
    pub max_tx_ever: usize,
}

impl TraceOracle for C16 {
    fn step(&mut self, r: &StepRec) -> Vec<Finding> {
        let mut f = Vec::new();
        if matches!(r.out.res, Res::Panic(_)) {
            return f;
        }
        let before = multiset(&r.before.hid.custom_broadcasts);
        let after = multiset(&r.after.hid.custom_broadcasts);
        let deny = match r.inst.setup.handler {
            crate::handler::HandlerKind::Kv { deny, .. } => deny,
            _ => 0,
        };
        let eligible = |d: &VId| (deny >> (d.addr % 16)) & 1 == 0;
        let mut appear: HashMap<Vec<u8>, usize> = HashMap::new();
        for (dst, _, p) in &r.sends {
            if let Ok(p) = p {
                let kind = kind_name(&p.header.message);
                if !p.items.is_empty() {
                    if !carries_custom(&p.header.message) {
                        f.push(finding("custom items only on message kinds that may carry them", format!("C16:kind:{}", kind), "".into()));
                    }
                    if !eligible(dst) {
                        f.push(finding("custom items only to members for which should_add_broadcast_data is true", format!("C16:ineligible:{}", kind), dst.text()));
                    }
                }
                let mut in_this = HashSet::new();
                for it in &p.items {
                    if it.is_empty() {
                        f.push(finding("items are non-empty", "C16:empty-item".into(), "".into()));
                    }
                    if !before.contains_key(it) && !after.contains_key(it) && !matches!(r.op, Op::Data(_)) {
                        f.push(finding("every transmitted item is a whole accepted item, byte for byte", "C16:unknown-item".into(), hex(it)));
                    }
                    if !in_this.insert(it.clone()) && before.get(it).map(|v| v.len()).unwrap_or(0) < 2 {
                        f.push(finding("an item appears at most once per datagram", "C16:twice".into(), hex(it)));
                    }
                    *appear.entry(it.clone()).or_insert(0) += 1;
                }
            }
        }
        self.max_tx_ever = self.max_tx_ever.max(r.before.cfg.max_tx as usize).max(r.after.cfg.max_tx as usize);
        let max_tx = self.max_tx_ever;
        for (tx, d) in &r.after.hid.custom_broadcasts {
            if *tx == 0 || *tx > max_tx {
                f.push(finding("remaining transmissions stay within 1..=max_transmissions", "C16:tx-range".into(), format!("{} for {}", tx, hex(d))));
            }
        }
        for (d, txs) in &before {
            if txs.len() != 1 {
                continue;
            }
            let n = appear.get(d).copied().unwrap_or(0);
            if n > txs[0] {
                f.push(finding("an item is retransmitted on at most max_transmissions datagrams", "C16:too-many".into(), format!("{} appeared {} times with {} left", hex(d), n, txs[0])));
            }
            if let Some(a) = after.get(d) {
                if a.len() == 1 && a[0] + n != txs[0] && a[0] != r.after.cfg.max_tx as usize {
                    f.push(finding("each appearance consumes exactly one transmission", "C16:tx-accounting".into(), format!("{}: {} -> {} with {} appearances", hex(d), txs[0], a[0], n)));
                }
            }
        }
        // broadcast(): only Broadcast datagrams, no member section, <= k eligible active destinations, nothing when empty
        if let Op::Broadcast = r.op {
            if r.before.cb == 0 && !r.sends.is_empty() {
                f.push(finding("broadcast() sends nothing when the backlog is empty", "C16:broadcast-empty".into(), "".into()));
            }
            if r.sends.len() > r.before.cfg.k {
                f.push(finding("broadcast() reaches at most num_indirect_probes members", "C16:broadcast-fanout".into(), format!("{}", r.sends.len())));
            }
            let mut drained_at: Option<usize> = None;
            let mut left: HashMap<Vec<u8>, usize> = r.before.hid.custom_broadcasts.iter().map(|(tx, d)| (d.clone(), *tx)).collect();
            for (i, (dst, _, p)) in r.sends.iter().enumerate() {
                if let Ok(p) = p {
                    if !matches!(p.header.message, Message::Broadcast) || p.section.is_some() {
                        f.push(finding("broadcast() sends only Broadcast datagrams without member updates", "C16:broadcast-kind".into(), kind_name(&p.header.message).into()));
                    }
                    if !r.before.active.contains(dst) || !eligible(dst) {
                        f.push(finding("broadcast() targets eligible active members", "C16:broadcast-target".into(), dst.text()));
                    }
                    if drained_at.is_some() {
                        f.push(finding("broadcast() stops once the backlog is drained", "C16:broadcast-after-drain".into(), format!("datagram #{}", i)));
                    }
                    for it in &p.items {
                        if let Some(t) = left.get_mut(it) {
                            *t = t.saturating_sub(1);
                        }
                    }
                    left.retain(|_, t| *t > 0);
                    if left.is_empty() && before.values().all(|v| v.len() == 1) {
                        drained_at = Some(i);
                    }
                }
            }
        }
        // the receiving handler sees exactly the items sent, once each, with the sender's identity
        if let (Op::Data(_), Some(p)) = (r.op, &r.input) {
            let calls = &r.inst.log.borrow().calls[r.before.handler_calls..];
            let sender_ok = sender_active_at_header(&r.before.members, &p.header.src);
            let processed = matches!(r.out.res, Res::Ok) && p.header.dst == r.before.id && sender_ok;
            if processed {
                let got: Vec<(Vec<u8>, Option<VId>)> = calls.to_vec();
                let want: Vec<(Vec<u8>, Option<VId>)> = p.items.iter().map(|i| (i.clone(), Some(p.header.src))).collect();
                if got != want && !matches!(r.inst.setup.handler, crate::handler::HandlerKind::None) {
                    f.push(finding("the receiving handler sees exactly the items sent, once each, with the sender's identity", "C16:receive-mismatch".into(), format!("handler saw {} calls, datagram has {} items (op #{} `{}`)", got.len(), want.len(), r.idx, r.op.text())));
                }
            }
            if !sender_ok && !calls.is_empty() {
                f.push(finding("items of an inactive sender never reach the handler", "C16:inactive-sender-items".into(), r.op.text()));
            }
        }
        // an item invalidated by a newly accepted key is never transmitted again
        if let crate::handler::HandlerKind::Kv { mode, .. } = r.inst.setup.handler {
            let inval = |a: &[u8], b: &[u8]| -> bool {
                if a.len() < 2 || b.len() < 2 {
                    return false;
                }
                match mode {
                    0 => a[0] == b[0],
                    1 => a[0] == b[0] && a[1] > b[1],
                    3 => true,
                    4 => a[0] == 0 || a[0] == b[0],
                    _ => false,
                }
            };
            // accepted in this op: entries at full transmissions that were not there before
            let newly: Vec<&Vec<u8>> = after.keys().filter(|d| !before.contains_key(*d)).collect();
            if let Some(last) = newly.last() {
                if newly.len() == 1 {
                    for d in after.keys() {
                        if d != *last && inval(last, d) && before.contains_key(d) && appear.is_empty() {
                            f.push(finding("an item invalidated by a newly accepted key leaves the backlog", "C16:invalidated-kept".into(), format!("{} survives {}", hex(d), hex(last))));
                        }
                    }
                }
            }
        }
        f
    }
}
