//! Codecs the harness runs foca with: a hand-written fixed-width codec and the two bundled serde codecs.
use bytes::{Buf, BufMut};
use foca::{Codec, Header, Member, Message, State};

use crate::ident::VId;

#[derive(Debug)]
pub struct CodecErr(pub String);
impl std::fmt::Display for CodecErr {
    fn fmt(&self, f: &mut std::fmt::Formatter<'_>) -> std::fmt::Result {
        f.write_str(&self.0)
    }
}
impl std::error::Error for CodecErr {}

fn err<T>(s: &str) -> Result<T, CodecErr> {
    Err(CodecErr(s.to_string()))
}

#[derive(Clone, Copy, Debug, PartialEq, Eq, Hash)]
pub enum CodecKind {
    Fixed,
    Postcard,
    Bincode,
    /// hand-written, variable width, shortest possible headers (a Feed header is 4 bytes)
    Packed,
}

impl CodecKind {
    pub fn name(self) -> &'static str {
        match self {
            CodecKind::Fixed => "fixed",
            CodecKind::Postcard => "postcard",
            CodecKind::Bincode => "bincode",
            CodecKind::Packed => "packed",
        }
    }
    pub fn parse(s: &str) -> Option<Self> {
        Some(match s {
            "fixed" => CodecKind::Fixed,
            "postcard" => CodecKind::Postcard,
            "bincode" => CodecKind::Bincode,
            "packed" => CodecKind::Packed,
            _ => return None,
        })
    }
    pub const ALL: [CodecKind; 4] = [CodecKind::Fixed, CodecKind::Postcard, CodecKind::Bincode, CodecKind::Packed];
    /// one of the codecs bundled with the crate (the subject of C20)
    pub fn is_bundled(self) -> bool {
        matches!(self, CodecKind::Postcard | CodecKind::Bincode)
    }
}

/// Fixed-width: ids are `addr:u16be gen:u16be`, incarnation u16be, tags one byte.
pub struct FixedCodec;

fn put_id(id: &VId, buf: &mut impl BufMut) {
    buf.put_u16(id.addr);
    buf.put_u16(id.gen);
}
fn get_id(buf: &mut impl Buf) -> Result<VId, CodecErr> {
    if buf.remaining() < 4 {
        return err("short id");
    }
    let a = buf.get_u16();
    let g = buf.get_u16();
    Ok(VId::new(a, g))
}

fn msg_len(m: &Message<VId>) -> usize {
    match m {
        Message::Ping(_) | Message::Ack(_) => 2,
        Message::PingReq { .. }
        | Message::IndirectPing { .. }
        | Message::IndirectAck { .. }
        | Message::ForwardedAck { .. } => 6,
        _ => 1,
    }
}

impl Codec<VId> for FixedCodec {
    type Error = CodecErr;

    fn encode_header(&mut self, h: &Header<VId>, mut buf: impl BufMut) -> Result<(), CodecErr> {
        if buf.remaining_mut() < 10 + msg_len(&h.message) {
            return err("no space for header");
        }
        put_id(&h.src, &mut buf);
        buf.put_u16(h.src_incarnation);
        put_id(&h.dst, &mut buf);
        match &h.message {
            Message::Ping(n) => {
                buf.put_u8(0);
                buf.put_u8(*n);
            }
            Message::Ack(n) => {
                buf.put_u8(1);
                buf.put_u8(*n);
            }
            Message::PingReq { target, probe_number } => {
                buf.put_u8(2);
                put_id(target, &mut buf);
                buf.put_u8(*probe_number);
            }
            Message::IndirectPing { origin, probe_number } => {
                buf.put_u8(3);
                put_id(origin, &mut buf);
                buf.put_u8(*probe_number);
            }
            Message::IndirectAck { target, probe_number } => {
                buf.put_u8(4);
                put_id(target, &mut buf);
                buf.put_u8(*probe_number);
            }
            Message::ForwardedAck { origin, probe_number } => {
                buf.put_u8(5);
                put_id(origin, &mut buf);
                buf.put_u8(*probe_number);
            }
            Message::Announce => buf.put_u8(6),
            Message::Feed => buf.put_u8(7),
            Message::Gossip => buf.put_u8(8),
            Message::Broadcast => buf.put_u8(9),
            Message::TurnUndead => buf.put_u8(10),
        }
        Ok(())
    }

    fn decode_header(&mut self, mut buf: impl Buf) -> Result<Header<VId>, CodecErr> {
        let src = get_id(&mut buf)?;
        if buf.remaining() < 2 {
            return err("short inc");
        }
        let src_incarnation = buf.get_u16();
        let dst = get_id(&mut buf)?;
        if buf.remaining() < 1 {
            return err("short tag");
        }
        let tag = buf.get_u8();
        let message = match tag {
            0 | 1 => {
                if buf.remaining() < 1 {
                    return err("short probe number");
                }
                let n = buf.get_u8();
                if tag == 0 {
                    Message::Ping(n)
                } else {
                    Message::Ack(n)
                }
            }
            2..=5 => {
                let id = get_id(&mut buf)?;
                if buf.remaining() < 1 {
                    return err("short probe number");
                }
                let n = buf.get_u8();
                match tag {
                    2 => Message::PingReq { target: id, probe_number: n },
                    3 => Message::IndirectPing { origin: id, probe_number: n },
                    4 => Message::IndirectAck { target: id, probe_number: n },
                    _ => Message::ForwardedAck { origin: id, probe_number: n },
                }
            }
            6 => Message::Announce,
            7 => Message::Feed,
            8 => Message::Gossip,
            9 => Message::Broadcast,
            10 => Message::TurnUndead,
            _ => return err("bad tag"),
        };
        Ok(Header { src, src_incarnation, dst, message })
    }

    fn encode_member(&mut self, m: &Member<VId>, mut buf: impl BufMut) -> Result<(), CodecErr> {
        if buf.remaining_mut() < 7 {
            return err("no space for member");
        }
        put_id(m.id(), &mut buf);
        buf.put_u16(m.incarnation());
        buf.put_u8(match m.state() {
            State::Alive => 0,
            State::Suspect => 1,
            State::Down => 2,
        });
        Ok(())
    }

    fn decode_member(&mut self, mut buf: impl Buf) -> Result<Member<VId>, CodecErr> {
        let id = get_id(&mut buf)?;
        if buf.remaining() < 3 {
            return err("short member");
        }
        let inc = buf.get_u16();
        let st = match buf.get_u8() {
            0 => State::Alive,
            1 => State::Suspect,
            2 => State::Down,
            _ => return err("bad state"),
        };
        Ok(Member::new(id, inc, st))
    }
}

/// Variable width, as short as it gets: an identity with `addr < 15, gen < 16` is one byte (`addr * 16 + gen`),
/// any other `0xFF addr:u16be gen:u16be`; an incarnation `< 255` is one byte, any other `0xFF u16be`; tags one
/// byte. Encoding checks the space up front and writes nothing on failure.
pub struct PackedCodec;

fn packed_id(id: &VId, v: &mut Vec<u8>) {
    if id.addr < 15 && id.gen < 16 {
        v.push((id.addr * 16 + id.gen) as u8);
    } else {
        v.push(255);
        v.extend_from_slice(&id.addr.to_be_bytes());
        v.extend_from_slice(&id.gen.to_be_bytes());
    }
}
fn packed_inc(n: u16, v: &mut Vec<u8>) {
    if n < 255 {
        v.push(n as u8);
    } else {
        v.push(255);
        v.extend_from_slice(&n.to_be_bytes());
    }
}
fn unpack_id(buf: &mut impl Buf) -> Result<VId, CodecErr> {
    if buf.remaining() < 1 {
        return err("short id");
    }
    let a = buf.get_u8();
    if a == 255 {
        if buf.remaining() < 4 {
            return err("short id");
        }
        let x = buf.get_u16();
        let y = buf.get_u16();
        Ok(VId::new(x, y))
    } else {
        Ok(VId::new((a / 16) as u16, (a % 16) as u16))
    }
}
fn unpack_inc(buf: &mut impl Buf) -> Result<u16, CodecErr> {
    if buf.remaining() < 1 {
        return err("short inc");
    }
    let a = buf.get_u8();
    if a == 255 {
        if buf.remaining() < 2 {
            return err("short inc");
        }
        Ok(buf.get_u16())
    } else {
        Ok(a as u16)
    }
}

impl Codec<VId> for PackedCodec {
    type Error = CodecErr;

    fn encode_header(&mut self, h: &Header<VId>, mut buf: impl BufMut) -> Result<(), CodecErr> {
        let mut v = Vec::with_capacity(16);
        packed_id(&h.src, &mut v);
        packed_inc(h.src_incarnation, &mut v);
        packed_id(&h.dst, &mut v);
        match &h.message {
            Message::Ping(n) => v.extend_from_slice(&[0, *n]),
            Message::Ack(n) => v.extend_from_slice(&[1, *n]),
            Message::PingReq { target, probe_number } => {
                v.push(2);
                packed_id(target, &mut v);
                v.push(*probe_number);
            }
            Message::IndirectPing { origin, probe_number } => {
                v.push(3);
                packed_id(origin, &mut v);
                v.push(*probe_number);
            }
            Message::IndirectAck { target, probe_number } => {
                v.push(4);
                packed_id(target, &mut v);
                v.push(*probe_number);
            }
            Message::ForwardedAck { origin, probe_number } => {
                v.push(5);
                packed_id(origin, &mut v);
                v.push(*probe_number);
            }
            Message::Announce => v.push(6),
            Message::Feed => v.push(7),
            Message::Gossip => v.push(8),
            Message::Broadcast => v.push(9),
            Message::TurnUndead => v.push(10),
        }
        if buf.remaining_mut() < v.len() {
            return err("no space for header");
        }
        buf.put_slice(&v);
        Ok(())
    }

    fn decode_header(&mut self, mut buf: impl Buf) -> Result<Header<VId>, CodecErr> {
        let src = unpack_id(&mut buf)?;
        let src_incarnation = unpack_inc(&mut buf)?;
        let dst = unpack_id(&mut buf)?;
        if buf.remaining() < 1 {
            return err("short tag");
        }
        let tag = buf.get_u8();
        let message = match tag {
            0 | 1 => {
                if buf.remaining() < 1 {
                    return err("short probe number");
                }
                let n = buf.get_u8();
                if tag == 0 {
                    Message::Ping(n)
                } else {
                    Message::Ack(n)
                }
            }
            2..=5 => {
                let id = unpack_id(&mut buf)?;
                if buf.remaining() < 1 {
                    return err("short probe number");
                }
                let n = buf.get_u8();
                match tag {
                    2 => Message::PingReq { target: id, probe_number: n },
                    3 => Message::IndirectPing { origin: id, probe_number: n },
                    4 => Message::IndirectAck { target: id, probe_number: n },
                    _ => Message::ForwardedAck { origin: id, probe_number: n },
                }
            }
            6 => Message::Announce,
            7 => Message::Feed,
            8 => Message::Gossip,
            9 => Message::Broadcast,
            10 => Message::TurnUndead,
            _ => return err("bad tag"),
        };
        Ok(Header { src, src_incarnation, dst, message })
    }

    fn encode_member(&mut self, m: &Member<VId>, mut buf: impl BufMut) -> Result<(), CodecErr> {
        let mut v = Vec::with_capacity(9);
        packed_id(m.id(), &mut v);
        packed_inc(m.incarnation(), &mut v);
        v.push(match m.state() {
            State::Alive => 0,
            State::Suspect => 1,
            State::Down => 2,
        });
        if buf.remaining_mut() < v.len() {
            return err("no space for member");
        }
        buf.put_slice(&v);
        Ok(())
    }

    fn decode_member(&mut self, mut buf: impl Buf) -> Result<Member<VId>, CodecErr> {
        let id = unpack_id(&mut buf)?;
        let inc = unpack_inc(&mut buf)?;
        if buf.remaining() < 1 {
            return err("short member");
        }
        let st = match buf.get_u8() {
            0 => State::Alive,
            1 => State::Suspect,
            2 => State::Down,
            _ => return err("bad state"),
        };
        Ok(Member::new(id, inc, st))
    }
}

/// One type for all three so that a single `Foca<..>` instantiation covers them.
pub struct AnyCodec(pub CodecKind);

type Bc = foca::BincodeCodec<bincode::config::Configuration>;

fn bc() -> Bc {
    foca::BincodeCodec(bincode::config::standard())
}

impl Codec<VId> for AnyCodec {
    type Error = CodecErr;

    fn encode_header(&mut self, h: &Header<VId>, buf: impl BufMut) -> Result<(), CodecErr> {
        match self.0 {
            CodecKind::Fixed => FixedCodec.encode_header(h, buf),
            CodecKind::Packed => PackedCodec.encode_header(h, buf),
            CodecKind::Postcard => foca::PostcardCodec.encode_header(h, buf).map_err(|e| CodecErr(e.to_string())),
            CodecKind::Bincode => bc().encode_header(h, buf).map_err(|e| CodecErr(e.to_string())),
        }
    }
    fn decode_header(&mut self, buf: impl Buf) -> Result<Header<VId>, CodecErr> {
        match self.0 {
            CodecKind::Fixed => FixedCodec.decode_header(buf),
            CodecKind::Packed => PackedCodec.decode_header(buf),
            CodecKind::Postcard => foca::PostcardCodec.decode_header(buf).map_err(|e| CodecErr(e.to_string())),
            CodecKind::Bincode => bc().decode_header(buf).map_err(|e| CodecErr(e.to_string())),
        }
    }
    fn encode_member(&mut self, m: &Member<VId>, buf: impl BufMut) -> Result<(), CodecErr> {
        match self.0 {
            CodecKind::Fixed => FixedCodec.encode_member(m, buf),
            CodecKind::Packed => PackedCodec.encode_member(m, buf),
            CodecKind::Postcard => foca::PostcardCodec.encode_member(m, buf).map_err(|e| CodecErr(e.to_string())),
            CodecKind::Bincode => bc().encode_member(m, buf).map_err(|e| CodecErr(e.to_string())),
        }
    }
    fn decode_member(&mut self, buf: impl Buf) -> Result<Member<VId>, CodecErr> {
        match self.0 {
            CodecKind::Fixed => FixedCodec.decode_member(buf),
            CodecKind::Packed => PackedCodec.decode_member(buf),
            CodecKind::Postcard => foca::PostcardCodec.decode_member(buf).map_err(|e| CodecErr(e.to_string())),
            CodecKind::Bincode => bc().decode_member(buf).map_err(|e| CodecErr(e.to_string())),
        }
    }
}

/// Helpers used by generators, parsers and oracles.
pub fn enc_header(k: CodecKind, h: &Header<VId>) -> Vec<u8> {
    let mut v = Vec::new();
    AnyCodec(k).encode_header(h, &mut v).expect("unbounded encode");
    v
}
pub fn enc_member(k: CodecKind, m: &Member<VId>) -> Vec<u8> {
    let mut v = Vec::new();
    AnyCodec(k).encode_member(m, &mut v).expect("unbounded encode");
    v
}
