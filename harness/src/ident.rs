//! The identity type used by the harness: `(addr, gen)` plus a renew policy that is neither
//! compared nor serialised (exactly like the crate's own test `ID` ignores `rejoinable`).
use serde::{Deserialize, Serialize};

#[derive(Clone, Copy, Debug, PartialEq, Eq, Default, Hash)]
pub enum Policy {
    #[default]
    None,
    Bump,
    Same,
    Lose,
    /// renew() returns the identity itself and win_addr_conflict is non-strict (`>=`)
    SameEq,
    /// renew() bumps the generation; win_addr_conflict compares half the generation, so a renewed identity can
    /// differ from the old one while neither wins
    Tie,
}

impl Policy {
    pub fn name(self) -> &'static str {
        match self {
            Policy::None => "none",
            Policy::Bump => "bump",
            Policy::Same => "same",
            Policy::Lose => "lose",
            Policy::SameEq => "sameeq",
            Policy::Tie => "tie",
        }
    }
    pub fn parse(s: &str) -> Option<Policy> {
        Some(match s {
            "none" => Policy::None,
            "bump" => Policy::Bump,
            "same" => Policy::Same,
            "lose" => Policy::Lose,
            "sameeq" => Policy::SameEq,
            "tie" => Policy::Tie,
            _ => return None,
        })
    }
}

#[derive(Clone, Copy, Debug, Serialize, Deserialize)]
pub struct VId {
    pub addr: u16,
    pub gen: u16,
    #[serde(skip)]
    pub policy: Policy,
}

impl VId {
    pub fn new(addr: u16, gen: u16) -> Self {
        VId { addr, gen, policy: Policy::None }
    }
    pub fn with_policy(addr: u16, gen: u16, policy: Policy) -> Self {
        VId { addr, gen, policy }
    }
    pub fn text(&self) -> String {
        format!("{}:{}", self.addr, self.gen)
    }
    pub fn parse(s: &str) -> Option<VId> {
        let mut it = s.split(':');
        let a = it.next()?.parse().ok()?;
        let g = it.next()?.parse().ok()?;
        if it.next().is_some() {
            return None;
        }
        Some(VId::new(a, g))
    }
}

impl PartialEq for VId {
    fn eq(&self, other: &Self) -> bool {
        self.addr == other.addr && self.gen == other.gen
    }
}
impl Eq for VId {}
impl std::hash::Hash for VId {
    fn hash<H: std::hash::Hasher>(&self, h: &mut H) {
        self.addr.hash(h);
        self.gen.hash(h);
    }
}
impl PartialOrd for VId {
    fn partial_cmp(&self, o: &Self) -> Option<std::cmp::Ordering> {
        Some(self.cmp(o))
    }
}
impl Ord for VId {
    fn cmp(&self, o: &Self) -> std::cmp::Ordering {
        (self.addr, self.gen).cmp(&(o.addr, o.gen))
    }
}

impl foca::Identity for VId {
    type Addr = u16;

    fn renew(&self) -> Option<Self> {
        match self.policy {
            Policy::None => None,
            Policy::Bump | Policy::Tie => Some(VId { addr: self.addr, gen: self.gen.wrapping_add(1), policy: self.policy }),
            Policy::Same | Policy::SameEq => Some(*self),
            Policy::Lose => Some(VId { addr: self.addr, gen: self.gen.saturating_sub(1), policy: self.policy }),
        }
    }

    fn addr(&self) -> u16 {
        self.addr
    }

    fn win_addr_conflict(&self, adversary: &Self) -> bool {
        // nothing obliges an Identity to lose against an identity equal to itself
        if self.policy == Policy::SameEq {
            self.gen >= adversary.gen
        } else if self.policy == Policy::Tie && adversary.policy == Policy::Tie {
            // only between the instance's identity and its renewal: records of members never both carry the
            // flavour (identities read from input or the wire have none)
            self.gen / 2 > adversary.gen / 2
        } else {
            self.gen > adversary.gen
        }
    }
}

/// A second identity type, used only by the codec checks (C20): it has the field shapes `VId` lacks — single
/// bytes, a bool, a signed byte, a string — so that every output path of the serde codecs is exercised
/// (postcard emits `u8`/`i8`/`bool` through a different call than varints and slices).
#[derive(Clone, Debug, PartialEq, Eq, Serialize, Deserialize)]
pub struct WideId {
    pub octets: [u8; 4],
    pub up: bool,
    pub port: u16,
    pub tag: i8,
    pub name: String,
    pub bump: u64,
}

impl foca::Identity for WideId {
    type Addr = ([u8; 4], u16);
    fn renew(&self) -> Option<Self> {
        None
    }
    fn addr(&self) -> Self::Addr {
        (self.octets, self.port)
    }
    fn win_addr_conflict(&self, adversary: &Self) -> bool {
        self.bump > adversary.bump
    }
}
