//! Property oracles evaluated on traces of the real crate (the "search" of DESIGN.md section 5).
//! Written against the property text, not against the Lean model.
use std::collections::{BTreeMap, BTreeSet, HashMap};

use foca::{Member, Message, OwnedNotification, State, Timer, VerifSnapshot};

use crate::gen::Ctx;
use crate::ident::{Policy, VId};
use crate::inst::{Instance, Outcome, Res};
use crate::proto::{Cfg, Op, Setup};
use crate::rt::Eff;
use crate::wire::{carries_custom, carries_updates, kind_name, parse_datagram, Parsed};

#[derive(Clone, Debug)]
pub struct Finding {
    pub clause: String,
    pub signature: String,
    pub detail: String,
}

pub fn finding(clause: &str, signature: String, detail: String) -> Finding {
    Finding { clause: clause.to_string(), signature, detail }
}

/// Observable (and hooked) state around one call.
#[derive(Clone)]
pub struct Snap {
    pub id: VId,
    pub members: Vec<Member<VId>>,
    pub active: BTreeSet<VId>,
    pub num: usize,
    pub ub: usize,
    pub cb: usize,
    pub hid: VerifSnapshot<VId>,
    pub cfg: Cfg,
    pub handler_calls: usize,
    pub lines: (String, String),
}

pub fn snap(inst: &Instance) -> Snap {
    Snap {
        id: inst.identity(),
        members: inst.members(),
        active: inst.active_members().iter().map(|m| *m.id()).collect(),
        num: inst.foca.num_members(),
        ub: inst.foca.updates_backlog(),
        cb: inst.foca.custom_broadcast_backlog(),
        hid: inst.foca.verif_snapshot(),
        cfg: inst.cfg.clone(),
        handler_calls: inst.log.borrow().calls.len(),
        lines: (inst.obs_line(), inst.hid_line()),
    }
}

pub struct StepRec<'a> {
    pub idx: usize,
    pub op: &'a Op,
    pub out: &'a Outcome,
    pub before: &'a Snap,
    pub after: &'a Snap,
    pub inst: &'a Instance,
    pub ctx: &'a Ctx,
    /// sends of this op, parsed with the grammar parser
    pub sends: Vec<(VId, Vec<u8>, Result<Parsed, String>)>,
    /// the op's datagram, if it is one and parses
    pub input: Option<Parsed>,
}

pub trait TraceOracle {
    fn step(&mut self, r: &StepRec) -> Vec<Finding>;
}

pub fn sends_of(inst: &Instance, out: &Outcome) -> Vec<(VId, Vec<u8>, Result<Parsed, String>)> {
    out.effs
        .iter()
        .filter_map(|e| match e {
            Eff::Send(d, b) => Some((*d, b.clone(), parse_datagram(inst.setup.codec, b))),
            _ => None,
        })
        .collect()
}

fn notifs(out: &Outcome) -> Vec<&OwnedNotification<VId>> {
    out.effs.iter().filter_map(|e| if let Eff::Notify(n) = e { Some(n) } else { None }).collect()
}

fn find_member<'a>(ms: &'a [Member<VId>], addr: u16) -> Option<&'a Member<VId>> {
    ms.iter().find(|m| m.id().addr == addr)
}

fn is_active(m: &Member<VId>) -> bool {
    m.state() != State::Down
}

// ---------------------------------------------------------------------------------------------
// C06 — never panics

pub struct C06;
impl TraceOracle for C06 {
    fn step(&mut self, r: &StepRec) -> Vec<Finding> {
        if let Res::Panic(msg) = &r.out.res {
            let short: String = msg.chars().take(60).collect::<String>().replace(['\n', '"'], " ");
            let key = if msg.contains("send_buf lost capacity") {
                "send_buf-capacity".to_string()
            } else if msg.contains("overflow") {
                "arith-overflow".to_string()
            } else {
                short.split(':').next().unwrap_or("").trim().replace(' ', "_")
            };
            return vec![finding(
                "no panic",
                format!("C06:panic:{}:{}", key, r.op.kind()),
                format!("op #{} `{}` panicked: {}", r.idx, r.op.text(), short),
            )];
        }
        vec![]
    }
}

// ---------------------------------------------------------------------------------------------
// C07 — datagrams well-formed, bounded, accepted by the peer

pub struct C07;
impl TraceOracle for C07 {
    fn step(&mut self, r: &StepRec) -> Vec<Finding> {
        let mut f = Vec::new();
        let mps = r.before.cfg.mps;
        for (dst, data, parsed) in &r.sends {
            if data.len() > mps {
                f.push(finding("bounded", "C07:too-long".into(), format!("{} bytes > max_packet_size {}", data.len(), mps)));
                continue;
            }
            let p = match parsed {
                Ok(p) => p,
                Err(e) => {
                    f.push(finding("well-formed", format!("C07:grammar:{}", e.split(' ').next().unwrap_or("")), format!("datagram to {} does not parse: {}", dst.text(), e)));
                    continue;
                }
            };
            let kind = kind_name(&p.header.message);
            let renewed_to = notifs(r.out).iter().any(|n| matches!(n, OwnedNotification::Rejoin(x) if *x == p.header.src));
            if p.header.src != r.before.id && p.header.src != r.after.id && !renewed_to {
                f.push(finding("header source", format!("C07:src:{}", kind), format!("src {} is neither {} nor {}", p.header.src.text(), r.before.id.text(), r.after.id.text())));
            }
            if p.header.dst != *dst {
                f.push(finding("header destination", format!("C07:dst:{}", kind), format!("dst {} handed over for {}", p.header.dst.text(), dst.text())));
            }
            let lo = r.before.hid.incarnation.min(r.after.hid.incarnation);
            let hi = r.before.hid.incarnation.max(r.after.hid.incarnation);
            if p.header.src == r.before.id && r.before.id == r.after.id && (p.header.src_incarnation < lo || p.header.src_incarnation > hi) {
                f.push(finding("header incarnation", format!("C07:inc:{}", kind), format!("src_incarnation {} outside [{}, {}]", p.header.src_incarnation, lo, hi)));
            }
            if matches!(p.header.message, Message::Broadcast) && p.section.is_some() {
                f.push(finding("Broadcast carries no member section", "C07:broadcast-section".into(), "".into()));
            }
            if matches!(p.header.message, Message::Feed) {
                if let Some(sec) = &p.section {
                    for (m, _) in sec {
                        let known_active = r.before.active.contains(m.id()) || r.after.active.contains(m.id());
                        if !known_active || !is_active(m) {
                            f.push(finding("Feed lists only active members", "C07:feed-inactive".into(), format!("{:?}", m)));
                        }
                        if m.id() == dst {
                            f.push(finding("Feed excludes the receiver", "C07:feed-receiver".into(), format!("{:?}", m)));
                        }
                        if m.id().addr == p.header.src.addr {
                            f.push(finding("Feed excludes the sender", "C07:feed-sender".into(), format!("{:?}", m)));
                        }
                    }
                }
            }
            // the count must equal the number of members (the parser reads exactly `count`; anything else is in `items` or an error)
            // a peer with the same codec and packet size accepts it
            if dst.addr != p.header.src.addr {
                let mut ps = r.inst.setup.clone();
                ps.id = *dst;
                ps.policy = Policy::None;
                ps.cfg = r.before.cfg.clone();
                ps.rng_seed = 7;
                let mut peer = Instance::new(&ps);
                let o = peer.apply(&Op::Data(data.clone()));
                match &o.res {
                    Res::Err(k) if k == "Decode" || k == "MalformedPacket" || k == "DataTooBig" => {
                        f.push(finding("peer accepts", format!("C07:peer:{}:{}", k, kind), format!("peer {} answered {} to {}", dst.text(), k, crate::proto::hex(data))));
                    }
                    Res::Panic(m) => f.push(finding("peer accepts", format!("C07:peer:panic:{}", kind), m.clone())),
                    _ => {}
                }
            }
        }
        f
    }
}

// ---------------------------------------------------------------------------------------------
// C08 — notifications mirror membership and connection state

#[derive(PartialEq, Clone, Copy, Debug)]
enum ConnSt {
    Idle,
    Active,
    Defunct,
}

pub struct C08 {
    mirror: BTreeSet<VId>,
    conn: ConnSt,
    twin: Option<Instance>,
}
impl C08 {
    pub fn new(setup: &Setup) -> Self {
        C08 { mirror: BTreeSet::new(), conn: ConnSt::Idle, twin: Some(Instance::new(setup)) }
    }
}
impl TraceOracle for C08 {
    fn step(&mut self, r: &StepRec) -> Vec<Finding> {
        let mut f = Vec::new();
        if matches!(r.out.res, Res::Panic(_)) {
            return f;
        }
        let mut learned_down = false;
        for n in notifs(r.out) {
            match n {
                OwnedNotification::MemberUp(a) => {
                    if !self.mirror.insert(*a) {
                        f.push(finding("MemberUp only for a member that is not up", "C08:up-twice".into(), format!("{} at op #{} `{}`", a.text(), r.idx, r.op.text())));
                    }
                }
                OwnedNotification::MemberDown(a) => {
                    if !self.mirror.remove(a) {
                        f.push(finding("MemberDown only for a member that is up", "C08:down-absent".into(), format!("{} at op #{} `{}`", a.text(), r.idx, r.op.text())));
                    }
                }
                OwnedNotification::Rename(a, b) => {
                    if self.mirror.remove(a) {
                        self.mirror.insert(*b);
                    }
                }
                OwnedNotification::Active => {
                    if self.conn != ConnSt::Idle {
                        f.push(finding("Active only from idle", format!("C08:active-from-{:?}", self.conn), format!("op #{} `{}`", r.idx, r.op.text())));
                    }
                    if self.mirror.is_empty() {
                        f.push(finding("Active only with an active member", "C08:active-empty".into(), format!("op #{} `{}`", r.idx, r.op.text())));
                    }
                    self.conn = ConnSt::Active;
                }
                OwnedNotification::Idle => {
                    if self.conn != ConnSt::Active {
                        f.push(finding("Idle only while active", format!("C08:idle-from-{:?}", self.conn), format!("op #{} `{}`", r.idx, r.op.text())));
                    }
                    if !self.mirror.is_empty() {
                        f.push(finding("Idle only when the last active member disappeared", "C08:idle-nonempty".into(), format!("op #{} `{}`", r.idx, r.op.text())));
                    }
                    self.conn = ConnSt::Idle;
                }
                OwnedNotification::Defunct => {
                    self.conn = ConnSt::Defunct;
                    learned_down = true;
                }
                OwnedNotification::Rejoin(a) => {
                    self.conn = ConnSt::Idle;
                    learned_down = true;
                    if r.after.id != *a && !matches!(r.op, Op::Data(_) | Op::Apply(..)) {
                        f.push(finding("Rejoin names the new identity", "C08:rejoin-id".into(), format!("{} vs {}", a.text(), r.after.id.text())));
                    }
                }
            }
        }
        // explicit API transitions that reset the connection state without a notification
        let reset = matches!((r.op, &r.out.res), (Op::Reuse, Res::Ok)) || (matches!(r.op, Op::ChId(..)) && r.before.id != r.after.id);
        if reset {
            // reset() makes the instance idle without a notification
            self.conn = ConnSt::Idle;
        }
        // causes of Defunct / Rejoin
        if learned_down {
            let own = r.before.id;
            let cause = match r.op {
                Op::Leave => true,
                Op::Apply(_, ms) => ms.iter().any(|m| m.id().addr == own.addr && (m.state() == State::Down || m.state() == State::Suspect)),
                Op::Data(_) => match &r.input {
                    Some(p) => {
                        matches!(p.header.message, Message::TurnUndead)
                            || p.section.as_ref().map(|s| s.iter().any(|(m, _)| m.id().addr == own.addr)).unwrap_or(false)
                    }
                    None => false,
                },
                _ => false,
            };
            if !cause {
                f.push(finding("Defunct/Rejoin only when the instance learns or declares its own identity down", format!("C08:defunct-cause:{}", r.op.kind()), format!("op #{} `{}`", r.idx, r.op.text())));
            }
        }
        // mirror == iter_members, num_members == size
        if self.mirror != r.after.active {
            f.push(finding("replayed notifications equal iter_members", format!("C08:mirror:{}", r.op.kind()), format!("after op #{} `{}`: replay {:?} vs members {:?}", r.idx, r.op.text(), self.mirror.iter().map(|i| i.text()).collect::<Vec<_>>(), r.after.active.iter().map(|i| i.text()).collect::<Vec<_>>())));
            self.mirror = r.after.active.clone();
        }
        if r.after.num != r.after.active.len() {
            f.push(finding("num_members is the size of iter_members", "C08:num".into(), format!("{} vs {}", r.after.num, r.after.active.len())));
        }
        if self.conn == ConnSt::Active && r.after.active.is_empty() {
            f.push(finding("Idle exactly when the last active member disappears", format!("C08:no-idle:{}", r.op.kind()), format!("after op #{} `{}`", r.idx, r.op.text())));
        }
        // AccumulatingRuntime yields the same effects per kind, in order
        if let Some(twin) = self.twin.as_mut() {
            let (res, sends, timers, notes) = twin.apply_acc(r.op);
            let pick = |k: u8| -> Vec<Eff> {
                r.out.effs.iter().filter(|e| matches!((k, e), (0, Eff::Send(..)) | (1, Eff::Timer(..)) | (2, Eff::Notify(..)))).cloned().collect()
            };
            if res != r.out.res || sends != pick(0) || timers != pick(1) || notes != pick(2) {
                f.push(finding("AccumulatingRuntime yields the same effects", format!("C08:accumulating:{}", r.op.kind()), format!("op #{} `{}`", r.idx, r.op.text())));
                self.twin = None;
            }
        }
        f
    }
}

// ---------------------------------------------------------------------------------------------
// C09 — one record per address; identities move forward; own address never active

pub struct C09 {
    told: BTreeSet<u16>,
    max_gen: HashMap<u16, u16>,
}
impl C09 {
    pub fn new() -> Self {
        C09 { told: BTreeSet::new(), max_gen: HashMap::new() }
    }
}
impl TraceOracle for C09 {
    fn step(&mut self, r: &StepRec) -> Vec<Finding> {
        let mut f = Vec::new();
        if matches!(r.out.res, Res::Panic(_)) {
            return f;
        }
        // addresses told about by this input
        match r.op {
            Op::Apply(_, ms) => {
                for m in ms {
                    self.told.insert(m.id().addr);
                }
            }
            Op::Data(_) => {
                if let Some(p) = &r.input {
                    self.told.insert(p.header.src.addr);
                    if let Some(s) = &p.section {
                        for (m, _) in s {
                            self.told.insert(m.id().addr);
                        }
                    }
                }
            }
            Op::Timer(Timer::ChangeSuspectToDown { member_id, .. }) => {
                self.told.insert(member_id.addr);
            }
            _ => {}
        }
        let mut seen = BTreeSet::new();
        for m in &r.after.members {
            if !seen.insert(m.id().addr) {
                f.push(finding("one record per address", "C09:dup-addr".into(), format!("address {} twice after op #{} `{}`", m.id().addr, r.idx, r.op.text())));
            }
            if m.id().addr == r.after.id.addr && is_active(m) {
                f.push(finding("own address never active", format!("C09:own-active:{}", r.op.kind()), format!("{:?} after op #{} `{}`", m, r.idx, r.op.text())));
            }
        }
        if r.after.members.len() > self.told.len() && r.input.is_some() | !matches!(r.op, Op::Data(_)) {
            f.push(finding("never grows beyond the addresses it was told about", "C09:size".into(), format!("{} records, told about {} addresses", r.after.members.len(), self.told.len())));
        }
        // identity replacement only by a winner, reported as Rename
        for m in &r.after.members {
            if let Some(b) = find_member(&r.before.members, m.id().addr) {
                if b.id() != m.id() {
                    if !(m.id().gen > b.id().gen) {
                        f.push(finding("identity replaced only by a conflict winner", "C09:replaced-by-loser".into(), format!("{} -> {} at op #{} `{}`", b.id().text(), m.id().text(), r.idx, r.op.text())));
                    }
                    let renamed = notifs(r.out).iter().any(|n| matches!(n, OwnedNotification::Rename(x, y) if x == b.id() && y == m.id()));
                    // several replacements of one address inside one call show up as a chain
                    let chained = notifs(r.out).iter().any(|n| matches!(n, OwnedNotification::Rename(_, y) if y == m.id()));
                    if !renamed && !chained {
                        f.push(finding("replacement is reported as Rename", "C09:no-rename".into(), format!("{} -> {} at op #{} `{}`", b.id().text(), m.id().text(), r.idx, r.op.text())));
                    }
                }
            }
        }
        // never falls back to a superseded identity until the address is forgotten
        if let Op::Timer(Timer::RemoveDown(x)) = r.op {
            if find_member(&r.after.members, x.addr).is_none() {
                self.max_gen.remove(&x.addr);
            }
        }
        for m in &r.after.members {
            let e = self.max_gen.entry(m.id().addr).or_insert(m.id().gen);
            if m.id().gen < *e {
                f.push(finding("never falls back to a superseded identity", "C09:fallback".into(), format!("address {} went back to generation {} (had {}) at op #{} `{}`", m.id().addr, m.id().gen, *e, r.idx, r.op.text())));
            }
            *e = (*e).max(m.id().gen);
        }
        // payload of a superseded or Down sender is discarded
        if let (Op::Data(_), Some(p)) = (r.op, &r.input) {
            let accepted = r.out.res == Res::Ok || matches!(&r.out.res, Res::Err(k) if k != "DataTooBig" && k != "Decode" && k != "DataFromOurselves" && k != "MalformedPacket");
            let addressed = p.header.dst == r.before.id || (matches!(p.header.message, Message::Announce) && p.header.dst.addr == r.before.id.addr);
            let sender_rec = find_member(&r.before.members, p.header.src.addr);
            // definitely dead before the datagram: same identity already Down, or a newer identity is listed
            let sender_dead = sender_rec.map(|m| (m.id() == &p.header.src && !is_active(m)) || m.id().gen > p.header.src.gen).unwrap_or(false);
            if accepted && addressed && sender_dead && p.header.src.addr != r.before.id.addr {
                let others_before: Vec<_> = r.before.members.iter().filter(|m| m.id().addr != p.header.src.addr).cloned().collect();
                let others_after: Vec<_> = r.after.members.iter().filter(|m| m.id().addr != p.header.src.addr).cloned().collect();
                let mut a = others_before.clone();
                let mut b = others_after.clone();
                a.sort_by_key(|m| (m.id().addr, m.id().gen));
                b.sort_by_key(|m| (m.id().addr, m.id().gen));
                if a != b || r.after.handler_calls != r.before.handler_calls {
                    f.push(finding("payload of a superseded or Down sender is discarded", "C09:payload-used".into(), format!("op #{} `{}`", r.idx, r.op.text())));
                }
            }
        }
        f
    }
}

// ---------------------------------------------------------------------------------------------
// C19 — never chooses its own address as a destination

pub struct C19;
impl TraceOracle for C19 {
    fn step(&mut self, r: &StepRec) -> Vec<Finding> {
        let mut f = Vec::new();
        for (dst, _, parsed) in &r.sends {
            if dst.addr != r.before.id.addr && dst.addr != r.after.id.addr {
                continue;
            }
            let kind = parsed.as_ref().map(|p| kind_name(&p.header.message)).unwrap_or("?");
            // relays towards a target named by a peer are outside the guarantee
            if kind == "IndirectPing" || kind == "ForwardedAck" {
                continue;
            }
            // an explicit announce(dst) names its destination: the caller chose it, not foca
            if let Op::Announce(_) = r.op {
                continue;
            }
            // a suspicion timeout the instance never scheduled (crafted timer) names its own target
            if let Op::Timer(t @ Timer::ChangeSuspectToDown { .. }) = r.op {
                if !r.ctx.timers.contains(t) {
                    continue;
                }
            }
            if dst.addr == r.after.id.addr || dst.addr == r.before.id.addr {
                let via = match r.op {
                    Op::Timer(t) => crate::proto::timer_text(t).split(' ').next().unwrap_or("").to_string(),
                    o => o.kind().to_string(),
                };
                f.push(finding("destination never bears the own address", format!("C19:{}:{}", kind, via), format!("{} sent to {} by {} at op #{} `{}`", kind, dst.text(), r.after.id.text(), r.idx, r.op.text())));
            }
        }
        f
    }
}

// ---------------------------------------------------------------------------------------------
// C10 — incarnation discipline

pub struct C10 {
    told: HashMap<VId, u16>,
}
impl C10 {
    pub fn new() -> Self {
        C10 { told: HashMap::new() }
    }
    fn tell(&mut self, id: VId, inc: u16) {
        let e = self.told.entry(id).or_insert(0);
        *e = (*e).max(inc);
    }
}
impl TraceOracle for C10 {
    fn step(&mut self, r: &StepRec) -> Vec<Finding> {
        let mut f = Vec::new();
        if matches!(r.out.res, Res::Panic(_)) {
            return f;
        }
        let own = r.before.id;
        let mut suspicions: Vec<u16> = Vec::new();
        let mut own_down = false;
        let mut note = |this: &mut C10, m: &Member<VId>| {
            this.tell(*m.id(), m.incarnation());
            if *m.id() == own {
                match m.state() {
                    State::Suspect => suspicions.push(m.incarnation()),
                    State::Down => own_down = true,
                    _ => {}
                }
            }
        };
        match r.op {
            Op::Apply(_, ms) => {
                for m in ms {
                    note(self, m);
                }
            }
            Op::Data(_) => {
                if let Some(p) = &r.input {
                    self.tell(p.header.src, p.header.src_incarnation);
                    if let Some(s) = &p.section {
                        for (m, _) in s {
                            note(self, m);
                        }
                    }
                    // (only the TurnUndead foca itself can send: nothing after the header — one that carries
                    //  updates may make the instance idle before the message is looked at)
                    if matches!(p.header.message, Message::TurnUndead) && p.section.is_none() && p.items.is_empty() {
                        own_down = true;
                    }
                }
            }
            Op::Timer(Timer::ChangeSuspectToDown { member_id, incarnation, .. }) => self.tell(*member_id, *incarnation),
            _ => {}
        }
        let (ib, ia) = (r.before.hid.incarnation, r.after.hid.incarnation);
        let same_identity = r.before.id == r.after.id;
        let reused = matches!((r.op, &r.out.res), (Op::Reuse, Res::Ok));
        let about_new = match r.op {
            Op::Apply(_, ms) => ms.iter().any(|m| *m.id() == r.after.id),
            Op::Data(_) => r.input.as_ref().and_then(|p| p.section.as_ref()).map(|s| s.iter().any(|(m, _)| *m.id() == r.after.id)).unwrap_or(false),
            _ => false,
        };
        if !same_identity && ia != 0 && !about_new {
            f.push(finding("incarnation starts at 0 for each identity", "C10:new-id-inc".into(), format!("{} after switching to {}", ia, r.after.id.text())));
        }
        if same_identity && !reused && ia < ib {
            f.push(finding("incarnation never decreases while the identity is in use", format!("C10:decrease:{}", r.op.kind()), format!("{} -> {} at op #{} `{}`", ib, ia, r.idx, r.op.text())));
        }
        if same_identity && ia > ib && !suspicions.iter().any(|k| *k >= ib) {
            f.push(finding("incarnation grows only in reaction to a suspicion at an incarnation not lower than its own", format!("C10:growth:{}", r.op.kind()), format!("{} -> {} at op #{} `{}`", ib, ia, r.idx, r.op.text())));
        }
        // a processed suspicion k >= own incarnation is refuted (or identity renewed / defunct at MAX)
        let processed = r.out.res == Res::Ok;
        if processed && same_identity && r.after.hid.connection_state != 2 {
            for k in &suspicions {
                if *k >= ib && !(ia > *k) && !matches!(r.op, Op::Data(_)) {
                    f.push(finding("after a suspicion every later datagram carries a strictly greater incarnation", format!("C10:not-refuted:{}", r.op.kind()), format!("suspected at {} (own {}), incarnation now {} at op #{} `{}`", k, ib, ia, r.idx, r.op.text())));
                }
            }
        }
        // headers carry the current identity and an incarnation between before and after
        for (_, _, parsed) in &r.sends {
            if let Ok(p) = parsed {
                if p.header.src == r.after.id && same_identity && !reused && p.header.src_incarnation < ib {
                    f.push(finding("headers never carry an older incarnation", "C10:header-old-inc".into(), format!("{} < {}", p.header.src_incarnation, ib)));
                }
                // never tells about another member at an incarnation higher than told
                if let Some(s) = &p.section {
                    for (m, _) in s {
                        if m.id().addr == own.addr || m.id().addr == r.after.id.addr {
                            continue;
                        }
                        let told = self.told.get(m.id()).copied().unwrap_or(0);
                        if m.incarnation() > told {
                            f.push(finding("never tells about another member at an incarnation higher than it was told", "C10:fabricated".into(), format!("{:?} but told at most {} (op #{} `{}`)", m, told, r.idx, r.op.text())));
                        }
                    }
                }
            }
        }
        // reaction to own death
        // `SameIdentity` is not a rejection of the input: only change_identity may legitimately return it, so a
        // batch or datagram that ends with it was processed (and must have dealt with the news of its death)
        let death_processed = processed || matches!(&r.out.res, Res::Err(k) if k == "SameIdentity");
        if own_down && death_processed {
            let rejoined = notifs(r.out).iter().any(|n| matches!(n, OwnedNotification::Rejoin(_)));
            let defunct = notifs(r.out).iter().any(|n| matches!(n, OwnedNotification::Defunct));
            let was_undead = r.before.hid.connection_state == 2;
            let data_ignored = match (&r.input, r.op) {
                (Some(p), Op::Data(_)) => {
                    // not addressed to us, or the section was never applied because the sender is inactive
                    let addressed = p.header.dst == r.before.id;
                    let sender_active = find_member(&r.after.members, p.header.src.addr).map(|m| m.id() == &p.header.src && is_active(m)).unwrap_or(false);
                    !addressed || (!sender_active && !matches!(p.header.message, Message::TurnUndead))
                }
                (None, Op::Data(_)) => true,
                _ => false,
            };
            if !data_ignored {
                if rejoined {
                    if !(r.after.id != r.before.id && r.after.id.addr == r.before.id.addr && foca::Identity::win_addr_conflict(&r.after.id, &r.before.id)) {
                        f.push(finding("renewed identity differs from and wins against the old one", "C10:rejoin-not-winning".into(), format!("{} -> {}", r.before.id.text(), r.after.id.text())));
                    }
                } else if !(defunct || was_undead) || r.after.hid.connection_state != 2 {
                    if r.after.id == r.before.id {
                        f.push(finding("on learning it is Down it renews its identity or becomes Defunct", format!("C10:carries-on:{}", r.op.kind()), format!("op #{} `{}` conn={}", r.idx, r.op.text(), r.after.hid.connection_state)));
                    }
                }
            }
        }
        f
    }
}

// ---------------------------------------------------------------------------------------------
// C11 — suspicion timeout iff unrefuted; Down final until forgotten

pub struct C11 {
    down: BTreeMap<u16, VId>,
}
impl C11 {
    pub fn new() -> Self {
        C11 { down: BTreeMap::new() }
    }
}
impl TraceOracle for C11 {
    fn step(&mut self, r: &StepRec) -> Vec<Finding> {
        let mut f = Vec::new();
        if matches!(r.out.res, Res::Panic(_)) {
            return f;
        }
        if let Op::Timer(Timer::ChangeSuspectToDown { member_id, incarnation, token }) = r.op {
            let scheduled = r.ctx.timers.iter().any(|t| matches!(t, Timer::ChangeSuspectToDown { member_id: m, incarnation: i, token: k } if m == member_id && i == incarnation && k == token));
            let rec = find_member(&r.before.members, member_id.addr);
            let effective = *token == r.before.hid.timer_token
                && rec.map(|m| m.id() == member_id && m.incarnation() == *incarnation && is_active(m)).unwrap_or(false);
            if scheduled {
                if effective {
                    let now = find_member(&r.after.members, member_id.addr);
                    if !now.map(|m| m.id() == member_id && m.state() == State::Down).unwrap_or(false) {
                        f.push(finding("an unrefuted timeout turns the member Down", "C11:not-down".into(), format!("op #{} `{}`", r.idx, r.op.text())));
                    }
                    if !notifs(r.out).iter().any(|n| matches!(n, OwnedNotification::MemberDown(x) if x == member_id)) {
                        f.push(finding("effective timeout notifies MemberDown", "C11:no-memberdown".into(), format!("op #{} `{}`", r.idx, r.op.text())));
                    }
                    if !r.out.effs.iter().any(|e| matches!(e, Eff::Timer(d, Timer::RemoveDown(x)) if x == member_id && d.as_millis() as u64 == r.before.cfg.rda)) {
                        f.push(finding("effective timeout schedules forgetting after remove_down_after", "C11:no-forget-timer".into(), format!("op #{} `{}`", r.idx, r.op.text())));
                    }
                    let tu = r.sends.iter().any(|(d, _, p)| d == member_id && p.as_ref().map(|p| matches!(p.header.message, Message::TurnUndead)).unwrap_or(false));
                    if r.before.cfg.notify_down && !tu && r.out.res == Res::Ok {
                        f.push(finding("effective timeout sends TurnUndead when configured", "C11:no-turnundead".into(), format!("op #{} `{}`", r.idx, r.op.text())));
                    }
                    if r.after.ub == 0 && r.before.cfg.max_tx > 0 {
                        // the Down update must have been queued (it may already have been consumed only if something piggybacked it)
                        let piggy = r.sends.iter().any(|(_, _, p)| p.as_ref().map(|p| p.section.as_ref().map(|s| !s.is_empty()).unwrap_or(false)).unwrap_or(false));
                        if !piggy {
                            f.push(finding("effective timeout gossips the Down update", "C11:no-gossip".into(), format!("op #{} `{}`", r.idx, r.op.text())));
                        }
                    }
                } else if rec.map(|m| member_id.gen > m.id().gen).unwrap_or(false) && *token == r.before.hid.timer_token {
                    // duplicate delivery after the record was forgotten and an *older* identity of the
                    // address reappeared: the timer's identity wins the conflict (excluded point, DESIGN.md C11)
                } else {
                    // cancelled or stale: no effect at all
                    let what = if *token != r.before.hid.timer_token { "stale" } else { "cancelled" };
                    if !r.out.effs.is_empty() {
                        let kinds: Vec<String> = r.out.effs.iter().map(|e| crate::proto::eff_text(e).split(' ').take(2).collect::<Vec<_>>().join("-")).collect();
                        let sends_tu = r.sends.iter().any(|(_, _, p)| p.as_ref().map(|p| matches!(p.header.message, Message::TurnUndead)).unwrap_or(false));
                        f.push(finding("a cancelled or stale timeout has no effect at all", format!("C11:{}-effects:{}", what, if sends_tu { "TurnUndead" } else { "other" }), format!("op #{} `{}` produced {:?}", r.idx, r.op.text(), kinds)));
                    }
                    if r.before.lines != r.after.lines {
                        f.push(finding("a cancelled or stale timeout changes no state", format!("C11:{}-state", what), format!("op #{} `{}`", r.idx, r.op.text())));
                    }
                }
            }
        }
        // Down is final until forgotten (RemoveDown for exactly that identity) or superseded by a newer identity
        for (addr, id) in self.down.clone() {
            let now = find_member(&r.after.members, addr);
            match now {
                Some(m) if m.id() == &id => {
                    if m.state() != State::Down {
                        f.push(finding("a Down identity never becomes active again", format!("C11:resurrected:{}", r.op.kind()), format!("{} at op #{} `{}`", id.text(), r.idx, r.op.text())));
                        self.down.remove(&addr);
                    }
                }
                Some(m) => {
                    if !(m.id().gen > id.gen) {
                        f.push(finding("a Down record is superseded only by a newer identity", "C11:superseded-by-older".into(), format!("{} -> {}", id.text(), m.id().text())));
                    }
                    self.down.remove(&addr);
                }
                None => {
                    if !matches!(r.op, Op::Timer(Timer::RemoveDown(x)) if *x == id) {
                        f.push(finding("a Down record is removed only by its forget-timer", format!("C11:removed-by:{}", r.op.kind()), format!("{} vanished at op #{} `{}`", id.text(), r.idx, r.op.text())));
                    }
                    self.down.remove(&addr);
                }
            }
        }
        // a forget-timer removes only a Down record of exactly that identity
        if let Op::Timer(Timer::RemoveDown(x)) = r.op {
            for m in &r.before.members {
                let still = r.after.members.iter().any(|n| n.id() == m.id());
                if !still && !(m.id() == x && m.state() == State::Down) {
                    f.push(finding("forget-timer removes exactly that Down identity", "C11:rm-wrong".into(), format!("{:?} removed by `{}`", m, r.op.text())));
                }
            }
        }
        for m in &r.after.members {
            if m.state() == State::Down {
                self.down.insert(m.id().addr, *m.id());
            }
        }
        f
    }
}

pub fn make_oracle(prop: &str, setup: &Setup) -> Option<Box<dyn TraceOracle>> {
    Some(match prop {
        "C06" => Box::new(C06),
        "C07" => Box::new(C07),
        "C08" => Box::new(C08::new(setup)),
        "C09" => Box::new(C09::new()),
        "C10" => Box::new(C10::new()),
        "C11" => Box::new(C11::new()),
        "C19" => Box::new(C19),
        "C12" => Box::new(crate::oracle2::C12::new()),
        "C15" => Box::new(crate::oracle2::C15::new()),
        "C16" => Box::new(crate::oracle2::C16 { max_tx_ever: 0 }),
        _ => return None,
    })
}

#[allow(dead_code)]
pub fn unused(_: &dyn Fn(&Message<VId>) -> bool) {
    let _ = carries_custom;
    let _ = carries_updates;
}
