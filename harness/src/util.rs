//! One PRNG for every random choice of the harness (splitmix64), so that a case replays from (seed, index).
#[derive(Clone, Debug)]
pub struct Sm(pub u64);

impl Sm {
    pub fn new(seed: u64) -> Sm {
        Sm(seed ^ 0x9E37_79B9_7F4A_7C15)
    }
    pub fn next(&mut self) -> u64 {
        self.0 = self.0.wrapping_add(0x9E37_79B9_7F4A_7C15);
        let mut z = self.0;
        z = (z ^ (z >> 30)).wrapping_mul(0xBF58_476D_1CE4_E5B9);
        z = (z ^ (z >> 27)).wrapping_mul(0x94D0_49BB_1331_11EB);
        z ^ (z >> 31)
    }
    pub fn below(&mut self, n: u64) -> u64 {
        if n == 0 {
            0
        } else {
            self.next() % n
        }
    }
    pub fn range(&mut self, lo: u64, hi_incl: u64) -> u64 {
        lo + self.below(hi_incl - lo + 1)
    }
    pub fn chance(&mut self, percent: u64) -> bool {
        self.below(100) < percent
    }
    pub fn pick<'a, T>(&mut self, v: &'a [T]) -> &'a T {
        &v[self.below(v.len() as u64) as usize]
    }
    pub fn weighted(&mut self, w: &[u32]) -> usize {
        let total: u64 = w.iter().map(|x| *x as u64).sum();
        let mut r = self.below(total.max(1));
        for (i, x) in w.iter().enumerate() {
            if r < *x as u64 {
                return i;
            }
            r -= *x as u64;
        }
        w.len() - 1
    }
    pub fn fork(&mut self) -> Sm {
        Sm(self.next())
    }
}

pub fn json_str(s: &str) -> String {
    let mut o = String::from("\"");
    for c in s.chars() {
        match c {
            '"' => o.push_str("\\\""),
            '\\' => o.push_str("\\\\"),
            '\n' => o.push_str("\\n"),
            '\t' => o.push_str("\\t"),
            c if (c as u32) < 0x20 => o.push_str(&format!("\\u{:04x}", c as u32)),
            c => o.push(c),
        }
    }
    o.push('"');
    o
}

pub fn json_list(v: &[String]) -> String {
    format!("[{}]", v.iter().map(|s| json_str(s)).collect::<Vec<_>>().join(","))
}
