/-
  Line-protocol driver: executes the very definitions the theorems are about.
  See DESIGN.md 4.2 for the protocol. One instance table, one op per line.
-/
import FocaModel.Foca
import FocaModel.Codec
open Foca

/-! ### text helpers -/

def hexDigit (n : Nat) : Char :=
  if n < 10 then Char.ofNat (48 + n) else Char.ofNat (87 + n)

def hexOfBytes (b : Bytes) : String :=
  if b.isEmpty then "-" else
  String.ofList (b.foldr (fun x acc => hexDigit (x / 16 % 16) :: hexDigit (x % 16) :: acc) [])

def hexVal (c : Char) : Option Nat :=
  if '0' ≤ c && c ≤ '9' then some (c.toNat - 48)
  else if 'a' ≤ c && c ≤ 'f' then some (c.toNat - 87)
  else none

def bytesOfHexAux : List Char → Option Bytes
  | [] => some []
  | a :: b :: rest =>
    match hexVal a, hexVal b, bytesOfHexAux rest with
    | some x, some y, some r => some ((x * 16 + y) :: r)
    | _, _, _ => none
  | _ => none

def bytesOfHex (s : String) : Option Bytes :=
  if s == "-" || s == "" then some [] else bytesOfHexAux s.toList

def idStr (i : Id) : String := s!"{i.addr}:{i.gen}"

def parseId (s : String) : Option Id :=
  match s.splitOn ":" with
  | [a, g] => match a.toNat?, g.toNat? with
    | some a, some g => some ⟨a, g⟩
    | _, _ => none
  | _ => none

def stStr : St → String
  | .alive => "A" | .suspect => "S" | .down => "D"

def parseSt : String → Option St
  | "A" => some .alive | "S" => some .suspect | "D" => some .down | _ => none

def memberStr (m : Member) : String := s!"{idStr m.id}:{m.inc}:{stStr m.st}"

def parseMember (s : String) : Option Member :=
  match s.splitOn ":" with
  | [a, g, i, st] => match a.toNat?, g.toNat?, i.toNat?, parseSt st with
    | some a, some g, some i, some st => some ⟨⟨a, g⟩, i, st⟩
    | _, _, _, _ => none
  | _ => none

def parsePolicy : String → Option Policy
  | "none" => some .none | "bump" => some .bump | "same" => some .same | "lose" => some .lose | "sameeq" => some .sameEq
  | "tie" => some .tie | _ => none

def timerStr : Timer → String
  | .probe t => s!"probe {t}"
  | .indirect p t => s!"indirect {idStr p} {t}"
  | .s2d m i t => s!"s2d {idStr m} {i} {t}"
  | .pa t => s!"pa {t}"
  | .pad t => s!"pad {t}"
  | .pg t => s!"pg {t}"
  | .rm m => s!"rm {idStr m}"

def parseTimer : List String → Option Timer
  | ["probe", t] => t.toNat?.map .probe
  | ["indirect", p, t] => match parseId p, t.toNat? with
    | some p, some t => some (.indirect p t) | _, _ => none
  | ["s2d", m, i, t] => match parseId m, i.toNat?, t.toNat? with
    | some m, some i, some t => some (.s2d m i t) | _, _, _ => none
  | ["pa", t] => t.toNat?.map .pa
  | ["pad", t] => t.toNat?.map .pad
  | ["pg", t] => t.toNat?.map .pg
  | ["rm", m] => (parseId m).map .rm
  | _ => none

def notifStr : Notif → String
  | .up a => s!"up {idStr a}"
  | .down a => s!"down {idStr a}"
  | .rename a b => s!"rename {idStr a} {idStr b}"
  | .active => "active" | .idle => "idle" | .defunct => "defunct"
  | .rejoin a => s!"rejoin {idStr a}"

def msgStr : Msg → String
  | .ping n => s!"ping:{n}" | .ack n => s!"ack:{n}"
  | .pingReq t n => s!"pingreq:{idStr t}:{n}" | .indirectPing t n => s!"indirectping:{idStr t}:{n}"
  | .indirectAck t n => s!"indirectack:{idStr t}:{n}" | .forwardedAck t n => s!"forwardedack:{idStr t}:{n}"
  | .announce => "announce" | .feed => "feed" | .gossip => "gossip" | .broadcast => "broadcast"
  | .turnUndead => "turnundead"

def effStr : Effect → String
  | .send d b => s!"eff send {idStr d} {hexOfBytes b}"
  | .timer ms t => s!"eff timer {ms} {timerStr t}"
  | .notify n => s!"eff notify {notifStr n}"

def errStr : ErrKind → String
  | .dataTooBig => "DataTooBig" | .notUndead => "NotUndead" | .sameIdentity => "SameIdentity"
  | .notConnected => "NotConnected" | .incompleteProbe => "IncompleteProbeCycle"
  | .fromOurselves => "DataFromOurselves" | .indirectForOurselves => "IndirectForOurselves"
  | .malformed => "MalformedPacket" | .encode => "Encode" | .decode => "Decode"
  | .custom => "CustomBroadcast" | .invalidConfig => "InvalidConfig"

def siteStr : PanicSite → String
  | .sendBufCap => "sendBufCap" | .applySelf => "applySelf" | .reservoirIndex => "reservoirIndex"
  | .feedCount => "feedCount" | .itemLenU16 => "itemLenU16" | .fillCount => "fillCount"
  | .txZero => "txZero" | .expectIndirect => "expectIndirect"
  | .connectedNoMembers => "connectedNoMembers" | .disconnectedMembers => "disconnectedMembers"
  | .probeNotConnected => "probeNotConnected" | .feedEstimateDiv => "feedEstimateDiv"

def parsePeriodic (s : String) : Option (Option Periodic) :=
  if s == "-" then some none else
  match s.splitOn "/" with
  | [f, n] => match f.toNat?, n.toNat? with
    | some f, some n => some (some ⟨f, n⟩) | _, _ => none
  | _ => none

def parseCfg (s : String) : Option Config :=
  match s.splitOn "," with
  | [pp, rtt, k, mtx, s2d, rda, mps, nd, pa, pad, pg] =>
    match pp.toNat?, rtt.toNat?, k.toNat?, mtx.toNat?, s2d.toNat?, rda.toNat?, mps.toNat?, nd.toNat?,
          parsePeriodic pa, parsePeriodic pad, parsePeriodic pg with
    | some pp, some rtt, some k, some mtx, some s2d, some rda, some mps, some nd, some pa, some pad, some pg =>
      some ⟨pp, rtt, k, mtx, s2d, rda, mps, nd != 0, pa, pad, pg⟩
    | _, _, _, _, _, _, _, _, _, _, _ => none
  | _ => none

/-! ### the harness's table-driven broadcast handler (see harness/src/handler.rs) -/

/-- item = [key, version, ...]; state = list of [key, version, sender addr + 1 | 0, sender gen] -/
def kvReceive (hst : HSt) (data : Bytes) (sender : Option Id) : Option (Option Key × HSt) :=
  match data with
  | k :: v :: _ =>
    let seen := hst.any (fun e => match e with | k' :: v' :: _ => k' == k && v' ≥ v | _ => false)
    if seen then some (none, hst)
    else
      let tag := match sender with | some i => [i.addr + 1, i.gen] | none => [0, 0]
      some (some [k, v], hst.filter (fun e => match e with | k' :: _ => k' != k | _ => true) ++ [[k, v] ++ tag])
  | _ => none

def kvInvalidates (mode : Nat) (a b : Key) : Bool :=
  match mode, a, b with
  | 0, ka :: _, kb :: _ => ka == kb
  | 1, [ka, va], [kb, vb] => ka == kb && va > vb
  | 2, _, _ => false
  | 3, _, _ => true
  | 4, ka :: _, kb :: _ => ka == 0 || ka == kb
  | _, _, _ => false

def kvHandler (deny mode : Nat) : Handler :=
  { receive := kvReceive, invalidates := kvInvalidates mode,
    shouldAdd := fun _ dst => (deny / 2 ^ (dst.addr % 16)) % 2 == 0 }

def noHandler : Handler :=
  { receive := fun _ _ _ => none, invalidates := fun a b => a == b, shouldAdd := fun _ _ => true }

def parseHandler (s : String) : Option Handler :=
  match s.splitOn ":" with
  | ["none"] => some noHandler
  | ["kv", d, m] => match d.toNat?, m.toNat? with
    | some d, some m => some (kvHandler d m) | _, _ => none
  | _ => none

def parseCodec : String → Option Codec
  | "fixed" => some fixedCodec | "postcard" => some postcardCodec | "bincode" => some bincodeCodec
  | "packed" => some packedCodec | _ => none

/-! ### state printing -/

def insertSorted (s : String) : List String → List String
  | [] => [s]
  | x :: xs => if s ≤ x then s :: x :: xs else x :: insertSorted s xs

def sortStrs (l : List String) : List String := l.foldr insertSorted []

def entriesStr (es : List (Entry κ)) : String :=
  let l := sortStrs (es.map fun e => s!"{e.tx}/{hexOfBytes e.data}")
  if l.isEmpty then "-" else ",".intercalate l

def listStr (l : List String) : String := if l.isEmpty then "-" else ",".intercalate l

def connStr : Conn → String
  | .disconnected => "disconnected" | .connected => "connected" | .undead => "undead"

def cursorStr : Cursor → String
  | .at i => toString i | .max => "max"

def perStr : Option Periodic → String
  | none => "-"
  | some p => s!"{p.freq}/{p.num}"

def cfgStr (c : Config) : String :=
  s!"{c.probePeriod},{c.probeRtt},{c.k},{c.maxTx},{c.s2d},{c.rda},{c.mps},{if c.notifyDown then 1 else 0},{perStr c.pa},{perStr c.pad},{perStr c.pg}"

def obsStr (s : State) : String :=
  s!"obs id={idStr s.id} n={s.numActive} ub={s.updates.length} cb={s.custom.length} ms={listStr (s.ms.map memberStr)}"

def hidStr (s : State) : String :=
  let p := s.probe
  let d := match p.direct with | some m => memberStr m | none => "-"
  let ind := if p.indirect.isEmpty then "-" else ";".intercalate (p.indirect.map idStr)
  let h := if s.hst.isEmpty then "-" else ",".intercalate (s.hst.map fun e => ".".intercalate (e.map toString))
  s!"hid inc={s.inc} tok={s.token} conn={connStr s.conn} cur={cursorStr s.cursor} probe={d},{ind},{p.number},{if p.directAckOk then 1 else 0},{p.indirectAckCount},{if p.reached then 1 else 0} upd={entriesStr s.updates} cus={entriesStr s.custom} hst={h} cfg={cfgStr s.cfg}"

/-! ### sessions -/

structure Inst where
  env : Env
  st : State

def parseKV (toks : List String) : List (String × String) :=
  toks.filterMap fun t => match t.splitOn "=" with
    | [k, v] => some (k, v)
    | _ => none

def lookup (kv : List (String × String)) (k : String) : Option String :=
  (kv.find? (·.1 == k)).map (·.2)

def parseHexList (s : String) : Option (List Bytes) :=
  if s == "" then some [] else (s.splitOn ";").mapM bytesOfHex

def parsePick (s : String) : Option Pick :=
  match s.splitOn "|" with
  | [u, c] => match parseHexList u, parseHexList c with
    | some u, some c => some ⟨u, c⟩ | _, _ => none
  | _ => none

def parsePicks (s : String) : Option (List Pick) :=
  if s == "-" then some [] else (s.splitOn "/").mapM parsePick

def parseOp : List String → Option Op
  | "apply" :: b :: ms => match b.toNat?, ms.mapM parseMember with
    | some b, some ms => some (.applyMany ms (b != 0)) | _, _ => none
  | ["data", h] => (bytesOfHex h).map .data
  | "timer" :: rest => (parseTimer rest).map .timer
  | ["announce", d] => (parseId d).map .announce
  | ["gossip"] => some .gossip
  | ["broadcast"] => some .broadcast
  | ["leave"] => some .leave
  | ["reuse"] => some .reuseDown
  | ["addb", h] => (bytesOfHex h).map .addBroadcast
  | ["chid", i, p] => match parseId i, parsePolicy p with
    | some i, some p => some (.changeIdentity i p) | _, _ => none
  | ["setcfg", c] => (parseCfg c).map .setConfig
  | _ => none

def parseDraw (line : String) : Option Draw :=
  match line.trimAscii.toString.splitOn " " with
  | ["perm"] => some (.perm [])
  | ["perm", l] => if l == "-" then some (.perm []) else ((l.splitOn ",").mapM String.toNat?).map .perm
  | ["idx", k] => k.toNat?.map .idx
  | _ => none

def kindStr : DrawKind → String
  | .shuffle => "shuffle" | .choose => "choose" | .range => "range"

/-- Runs one op, asking the peer for random draws as they are needed. -/
partial def runStep (inp : IO.FS.Stream) (out : IO.FS.Stream) (inst : Inst) (op : Op) (picks : List Pick)
    (draws : List Draw) : IO (Inst × List String) := do
  match step inst.env inst.st op ⟨draws, picks⟩ with
  | .done s eff res left =>
    let r := match res with
      | .ok => "res ok"
      | .okBool b => if b then "res true" else "res false"
      | .err e => s!"res err {errStr e}"
    let extra := if left.picks.length > 0 || left.draws.length > 0
      then [s!"left picks={left.picks.length} draws={left.draws.length}"] else []
    pure ({ inst with st := s }, [r] ++ eff.map effStr ++ extra ++ [obsStr s, hidStr s])
  | .stuck (.needDraw k n) =>
    out.putStrLn s!"?{kindStr k} {n}"
    out.flush
    let line ← inp.getLine
    match parseDraw line with
    | some d => runStep inp out inst op picks (draws ++ [d])
    | none => pure (inst, [s!"res baddraw {line.trimAscii.toString}"])
  | .stuck .needPick => pure (inst, ["res needpick"])
  | .stuck (.badOracle why) => pure (inst, [s!"res badoracle {why}"])
  | .stuck (.panic site) => pure (inst, [s!"res panic {siteStr site}"])

def setInst (insts : List (Nat × Inst)) (k : Nat) (i : Inst) : List (Nat × Inst) :=
  (k, i) :: insts.filter (·.1 != k)

partial def loop (inp out : IO.FS.Stream) (insts : List (Nat × Inst)) : IO Unit := do
  let line ← inp.getLine
  if line.isEmpty then return ()
  let toks := (line.trimAscii.toString.splitOn " ").filter (· != "")
  match toks with
  | "new" :: rest =>
    let kv := parseKV rest
    let r : Option (Nat × Inst) := do
      let k ← (← lookup kv "k").toNat?
      let id ← parseId (← lookup kv "id")
      let pol ← parsePolicy (← lookup kv "pol")
      let codec ← parseCodec (← lookup kv "codec")
      let dbg ← (← lookup kv "dbg").toNat?
      let h ← parseHandler (← lookup kv "h")
      let cfg ← parseCfg (← lookup kv "cfg")
      pure (k, { env := ⟨codec, h, dbg != 0⟩, st := State.init id pol cfg })
    match r with
    | some (k, i) =>
      out.putStrLn (obsStr i.st); out.putStrLn (hidStr i.st); out.putStrLn "end"; out.flush
      loop inp out (setInst insts k i)
    | none => out.putStrLn "bad-op"; out.putStrLn "end"; out.flush; loop inp out insts
  | "op" :: kS :: pS :: rest =>
    let r : Option (Nat × Inst × List Pick × Op) := do
      let k ← match kS.splitOn "=" with | ["k", v] => v.toNat? | _ => none
      let picks ← match pS.splitOn "=" with | ["picks", v] => parsePicks v | _ => none
      let inst ← (insts.find? (·.1 == k)).map (·.2)
      let op ← parseOp rest
      pure (k, inst, picks, op)
    match r with
    | some (k, inst, picks, op) =>
      let (inst', lines) ← runStep inp out inst op picks []
      for l in lines do out.putStrLn l
      out.putStrLn "end"; out.flush
      loop inp out (setInst insts k inst')
    | none => out.putStrLn "bad-op"; out.putStrLn "end"; out.flush; loop inp out insts
  | ["codec", what, cname, hx] =>
    let r : Option String := do
      let c ← parseCodec cname
      let b ← bytesOfHex hx
      match what with
      | "dech" => pure (match c.decHeader b with
          | none => "none"
          | some (h, rest) => s!"header {idStr h.src} {h.srcInc} {idStr h.dst} {msgStr h.msg} rest={rest.length}")
      | "decm" => pure (match c.decMember b with
          | none => "none"
          | some (m, rest) => s!"member {memberStr m} rest={rest.length}")
      | _ => none
    out.putStrLn (r.getD "bad-op"); out.putStrLn "end"; out.flush
    loop inp out insts
  | _ => out.putStrLn "bad-op"; out.putStrLn "end"; out.flush; loop inp out insts

def main : IO Unit := do
  let inp ← IO.getStdin
  let out ← IO.getStdout
  loop inp out []
