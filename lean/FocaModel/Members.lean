/-
  L1: model of `member.rs` (`Members<T>`). Pure cores take the random draw as an argument;
  the monadic wrappers in `Foca.lean` obtain it from the oracle.
-/
import FocaModel.Basic
import FocaModel.Gen.Tables
namespace Foca

def Member.active (m : Member) : Bool := Gen.isActive m.st

/-- `member::ConflictResult` -/
inductive Conflict
  | none | replaced (old : Id) | lost | failedCondition
deriving DecidableEq, Repr, Inhabited

/-- `member::ApplySummary` -/
structure Summary where
  activeNow : Bool
  applied : Bool
  changedActive : Bool
  conflict : Conflict
deriving DecidableEq, Repr, Inhabited

/-- Body of `apply_existing_if` once the record with the update's address has been found. -/
def updateKnown (k u : Member) (cond : Member → Bool) : Member × Summary :=
  let idConflict := k.id != u.id
  if idConflict && k.id.wins u.id then
    (k, ⟨k.active, false, false, .lost⟩)
  else if !cond k then
    (k, ⟨k.active, false, false, if idConflict then .failedCondition else .none⟩)
  else
    let wasActive := k.active
    let r : Member × Bool × Conflict :=
      if idConflict then (⟨u.id, u.inc, u.st⟩, true, .replaced k.id)
      else if Gen.canChange k.st k.inc u.inc u.st then (⟨k.id, u.inc, u.st⟩, true, .none)
      else (k, false, .none)
    let activeNow := r.1.active
    (r.1, ⟨activeNow, r.2.1, activeNow != wasActive, r.2.2⟩)

/-- `Members::apply_existing_if` on the record list: first record with the update's address. -/
def applyExisting (ms : List Member) (u : Member) (cond : Member → Bool) :
    Option (List Member × Summary) :=
  match ms with
  | [] => none
  | k :: rest =>
    if k.id.addr == u.id.addr then
      let r := updateKnown k u cond
      some (r.1 :: rest, r.2)
    else
      match applyExisting rest u cond with
      | none => none
      | some (rest', s) => some (k :: rest', s)

/-- `num_active` bookkeeping of `apply_existing_if` (`saturating_sub` is truncated subtraction). -/
def adjustActive (n : Nat) (s : Summary) : Nat :=
  if s.changedActive then (if s.activeNow then n + 1 else n - 1) else n

/-- `Members::apply` for an unknown address: `push(u)` then `swap(j, len-1)` with the drawn index
    `j`: position `j` now holds `u` and the record that was there moved to the end. -/
def applyNew (ms : List Member) (u : Member) (j : Nat) : List Member × Summary :=
  (match ms[j]? with
   | some x => ms.take j ++ u :: ms.drop (j + 1) ++ [x]
   | none => ms ++ [u],
   ⟨u.active, true, u.active, .none⟩)

/-- index of the first active member at position `≥ start` -/
def findActiveFrom : List Member → Nat → Nat → Option Nat
  | [], _, _ => none
  | m :: rest, start, i =>
    if i ≥ start && m.active then some i else findActiveFrom rest start (i + 1)

/-- `Members::next` after the (possible) shuffle: `c` is the effective cursor (`< len` or `0`). -/
def nextPure (ms : List Member) (c : Nat) : Option Member × Cursor :=
  match findActiveFrom ms c 0 with
  | some p => (ms[p]?, .at (p + 1))
  | none =>
    match findActiveFrom (ms.take c) 0 0 with
    | some p => (ms[p]?, .max)
    | none => (none, .at c)

def needsShuffle (cur : Cursor) (len : Nat) : Bool :=
  match cur with
  | .max => true
  | .at i => i ≥ len

/-- `Vec::swap_remove(p)`: the last element takes the place of the removed one -/
def swapRemoveAt (l : List α) (p : Nat) : List α :=
  match l[p]? with
  | none => l
  | some _ =>
    if p + 1 == l.length then l.dropLast
    else match l.getLast? with
      | none => l
      | some last => l.take p ++ last :: (l.drop (p + 1)).dropLast

/-- `Members::remove_if_down`: `swap_remove` of the first Down record with that identity. -/
def removeIfDown (ms : List Member) (id : Id) : List Member :=
  match ms.findIdx? (fun m => m.id == id && m.st == .down) with
  | none => ms
  | some p => swapRemoveAt ms p

def isActiveId (ms : List Member) (id : Id) : Bool :=
  ms.any (fun m => m.id == id && m.active)

def countActive (ms : List Member) : Nat := (ms.filter Member.active).length

end Foca
