/-
  L2: model of `broadcast.rs` (`Broadcasts<V>`). The two `BinaryHeap`s are one list; the order in
  which equal-priority entries are popped is not specified by foca, so `fill` takes the written
  blobs of the datagram as an oracle (`picks`) and *validates* that they are a legal pop order.
-/
import FocaModel.Basic
import FocaModel.Gen.Tables
namespace Foca

/-- `Broadcasts::add_or_replace` -/
def addOrReplace (b : List (Entry κ)) (inv : κ → κ → Bool) (k : κ) (d : Bytes) (maxTx : Nat) :
    List (Entry κ) :=
  b.filter (fun e => !inv k e.key) ++ [⟨k, maxTx, d⟩]

/-- `Entry::cmp` says `a` has strictly higher priority than `b`. -/
def Entry.gt (a b : Entry κ) : Bool :=
  Gen.entryCmp a.tx a.data.length b.tx b.data.length == .gt

/-- does an entry fit in `space` (`overhead` = 0 for `fill`, `Gen.lenPrefix` for the framed variant) -/
def Entry.fits (e : Entry κ) (space overhead : Nat) : Bool :=
  decide (space ≥ e.data.length + overhead)

/-- removes the first entry with this `data` that is maximal (by `tx`) among the entries with this data -/
def takeByData : List (Entry κ) → Bytes → Option (Entry κ × List (Entry κ))
  | [], _ => none
  | e :: rest, d =>
    if e.data == d then
      match takeByData rest d with
      | some (e', rest') => if e'.tx > e.tx then some (e', e :: rest') else some (e, rest)
      | none => some (e, rest)
    else
      match takeByData rest d with
      | some (e', rest') => some (e', e :: rest')
      | none => none

structure FillResult (κ : Type) where
  pending : List (Entry κ)   -- not written in this call
  done : List (Entry κ)      -- written, transmissions decremented, dropped at zero
  written : List Bytes       -- in order
  space : Nat
  items : Nat                -- max_items left
deriving Repr

/-- One legal step of the `while` loop that writes the entry whose blob is `d`. -/
def fillStep (overhead : Nat) (r : FillResult κ) (d : Bytes) : Option (FillResult κ) :=
  if r.space == 0 || r.items == 0 then none else
  match takeByData r.pending d with
  | none => none
  | some (e, rest) =>
    if !e.fits r.space overhead then none
    -- every entry popped before `e` (strictly higher priority) was skipped: it must not fit
    else if rest.any (fun e' => e'.gt e && e'.fits r.space overhead) then none
    else if e.tx == 0 then none
    else
      some { pending := rest
             done := if e.tx - 1 > 0 then r.done ++ [{ e with tx := e.tx - 1 }] else r.done
             written := r.written ++ [d]
             space := r.space - (e.data.length + overhead)
             items := r.items - 1 }

def fillSteps (overhead : Nat) : FillResult κ → List Bytes → Option (FillResult κ)
  | r, [] => some r
  | r, d :: ds =>
    match fillStep overhead r d with
    | none => none
    | some r' => fillSteps overhead r' ds

/-- the loop may stop here: buffer full, item budget used, or nothing left fits -/
def fillFinal (overhead : Nat) (r : FillResult κ) : Bool :=
  r.space == 0 || r.items == 0 || r.pending.all (fun e => !e.fits r.space overhead)

/-- `Broadcasts::fill` / `fill_with_len_prefix`; `none` = the oracle's picks are not a legal run. -/
def fill (b : List (Entry κ)) (space maxItems overhead : Nat) (picks : List Bytes) :
    Option (FillResult κ) :=
  match fillSteps overhead ⟨b, [], [], space, maxItems⟩ picks with
  | none => none
  | some r => if fillFinal overhead r then some r else none

/-- bytes appended to the buffer by a fill -/
def frame (overhead : Nat) (d : Bytes) : Bytes :=
  if overhead == 0 then d else u16be d.length ++ d

end Foca
