/-
  C07, whole histories — every datagram of every call has the documented shape, and a peer with the same codec
  and packet size accepts it: no DataTooBig, no Decode, no Malformed.
-/
import FocaModel.Proofs.SentInv
import FocaModel.Proofs.ErrKinds
import FocaModel.Props.C07H
namespace Foca.C07H
open Foca Foca.C07

/-- **Every datagram of every call has the documented shape.** After any history of calls with wire-range inputs
    (what any `u16`-typed codec decodes, identities within the type's range), every datagram a further call
    hands to the runtime — whatever the call, its bytes, its timer, the RNG draws and the backlog tie order — is
    `header`, or `header ++ count ++ that many encoded members ++ length-prefixed items` (kinds that piggyback), or
    `header ++ length-prefixed items` (Broadcast); the header is addressed to the identity the datagram is handed
    over for; the members are within the wire range; no item is empty; and nothing else. -/
theorem every_datagram_has_the_shape (E : Env) {s s' : State} (hreach : WireHistory E s) (op : Op) (orc : Oracle)
    (hin : InputWire E op) (eff : List Effect) (r : Res) (left : Oracle)
    (hstep : Foca.step E s op orc = .done s' eff r left) (d : Id) (b : Bytes) (hsend : Effect.send d b ∈ eff) :
    ∃ h : Header, h.dst = d ∧ DatagramShape E h b := by
  have := Sent.step E s op orc (Ready.reachable E hreach) hin
  rw [hstep] at this
  exact this.2 _ hsend

theorem tailBytes_mem_length {items : List Bytes} {d : Bytes} (h : d ∈ items) : d.length + 2 ≤ (tailBytes items).length := by
  have h1 := framed_flatten_len items
  have h2 := framedLen_mem (ov := Gen.lenPrefix) h
  simp only [tailBytes, Gen.lenPrefix] at *
  omega

theorem sectionBytes_length {E : Env} (hl : CodecLaws E.codec) {us : List Member} (hw : ∀ u ∈ us, Member.Wire u) :
    us.length + 2 ≤ (sectionBytes E us).length := by
  have := flatten_length_ge (l := us.map E.codec.encMember) (by
    intro b hb
    obtain ⟨u, hu, rfl⟩ := List.mem_map.1 hb
    exact encMember_nonempty hl u (hw u hu))
  simp only [sectionBytes, List.length_append, u16be_len, List.length_map] at *
  omega

/-- **A peer accepts every such datagram.** A datagram with the documented shape, delivered to an instance with the
    same codec whose packet size (at most 65535) it does not exceed, from another address and addressed to that
    instance, passes every parsing stage: what the receiver does is `processParsed` on exactly the members and
    items the sender wrote. -/
theorem shaped_datagram_is_read_back (E : Env) (hl : CodecLaws E.codec) (h : Header) (b : Bytes) (c : Ctx)
    (hshape : DatagramShape E h b)
    (hhdr : ∀ rest, E.codec.decHeader (E.codec.encHeader h ++ rest) = some (h, rest))
    (hsize : b.length ≤ c.s.cfg.mps) (hmps : c.s.cfg.mps ≤ 65535)
    (hsrc : (h.src == c.s.id || h.src.addr == c.s.id.addr) = false)
    (hdst : Gen.acceptPayload c.s.id h.dst h.msg = true) :
    ∃ (us : List Member) (items : List Bytes), (∀ d ∈ items, 1 ≤ d.length ∧ d.length < 65536) ∧
      handleData E b c = processParsed E h us (tailBytes items) c := by
  obtain ⟨us, items, hus, hitems, hcase⟩ := hshape
  rcases hcase with hb | ⟨hk1, hk2, hb⟩ | ⟨hk, hb⟩
  · refine ⟨[], [], by simp, ?_⟩
    rw [hb]
    have := bare_datagram_is_read_back E h c hhdr (by rw [← hb]; exact hsize) hsrc hdst
    simpa [tailBytes] using this
  · have hlen : ∀ d ∈ items, 1 ≤ d.length ∧ d.length < 65536 := by
      intro d hd
      refine ⟨hitems d hd, ?_⟩
      have := tailBytes_mem_length hd
      rw [hb] at hsize
      simp only [List.length_append] at hsize
      omega
    have hn : us.length < 65536 := by
      have := sectionBytes_length hl hus
      rw [hb] at hsize
      simp only [List.length_append] at hsize
      omega
    refine ⟨us, items, hlen, ?_⟩
    rw [hb]
    exact wellformed_datagram_is_read_back E hl h us items c hhdr ⟨hk1, hk2⟩ hus hn hlen (by rw [← hb]; exact hsize) hsrc hdst
  · have hlen : ∀ d ∈ items, 1 ≤ d.length ∧ d.length < 65536 := by
      intro d hd
      refine ⟨hitems d hd, ?_⟩
      have := tailBytes_mem_length hd
      rw [hb] at hsize
      simp only [List.length_append] at hsize
      omega
    refine ⟨[], items, hlen, ?_⟩
    rw [hb]
    exact broadcast_datagram_is_read_back E h items c hhdr hk hlen (by rw [← hb]; exact hsize) hsrc hdst

/-- the errors that mean "this datagram is not acceptable" -/
def Rejection (e : ErrKind) : Prop := e = .dataTooBig ∨ e = .decode ∨ e = .malformed

theorem deliverItems_errOnly (E : Env) {K : ErrKind → Prop} (hK : K .custom) (sender : Option Id) (items : List Bytes) :
    ErrOnly K (deliverItems E sender items) := by
  induction items with
  | nil => unfold deliverItems; exact ErrOnly.pure _
  | cons d ds ih =>
    unfold deliverItems
    erronly
    all_goals first
      | exact ErrOnly.throwE _ hK
      | exact ih

/-- what happens once a datagram is parsed never ends in a rejection: the handler's own error, a failed send, a
    relay request naming the instance itself — but no DataTooBig, Decode or Malformed -/
theorem processParsed_never_rejects (E : Env) (h : Header) (us : List Member) (items : List Bytes)
    (hlen : ∀ d ∈ items, 1 ≤ d.length ∧ d.length < 65536) :
    ErrOnly (fun e => ¬ Rejection e) (processParsed E h us (tailBytes items)) := by
  have hEnc : ¬ Rejection .encode := by unfold Rejection; simp
  have hSame : ¬ Rejection .sameIdentity := by unfold Rejection; simp
  have hInd : ¬ Rejection .indirectForOurselves := by unfold Rejection; simp
  have hCus : ¬ Rejection .custom := by unfold Rejection; simp
  unfold processParsed
  rw [custom_tail_is_delivered E (some h.src) items hlen]
  refine ErrOnly.bind (ErrOnly.applyUpdate E _ _) (fun senderActive => ?_)
  split
  · exact ErrOnly.inactiveSender E hEnc hSame _
  · refine ErrOnly.bind (ErrOnly.applyMany E hEnc hSame _ _) (fun _ => ?_)
    exact ErrOnly.attempt_bind (deliverItems_errOnly E hCus _ _) (fun r hr => ErrOnly.replyStage E hEnc hSame hInd _ _ hr)

/-- **No datagram Foca sends is rejected by a peer.** In any history with wire-range inputs, a datagram handed to
    the runtime and delivered to a peer — same codec, reading back the headers it wrote; same packet size, at most
    65535; another address; the datagram addressed to it — is never answered with DataTooBig, Decode or
    MalformedPacket. -/
theorem peer_accepts_every_datagram (E : Env) (hl : CodecLaws E.codec)
    (hhdr : ∀ (h : Header) rest, E.codec.decHeader (E.codec.encHeader h ++ rest) = some (h, rest))
    {s s' : State} (hreach : WireHistory E s) (op : Op) (orc : Oracle) (hin : InputWire E op)
    (eff : List Effect) (r : Res) (left : Oracle) (hstep : Foca.step E s op orc = .done s' eff r left)
    (d : Id) (b : Bytes) (hsend : Effect.send d b ∈ eff)
    (peer : State) (porc : Oracle) (hsize : b.length ≤ peer.cfg.mps) (hmps : peer.cfg.mps ≤ 65535)
    (hdst : ∀ h : Header, h.dst = d → Gen.acceptPayload peer.id h.dst h.msg = true ∧
      (h.src == peer.id || h.src.addr == peer.id.addr) = false) :
    match Foca.step E peer (.data b) porc with
    | .done _ _ res _ => ∀ e, res = .err e → ¬ Rejection e
    | .stuck _ => True := by
  obtain ⟨h, hd, hshape⟩ := every_datagram_has_the_shape E hreach op orc hin eff r left hstep d b hsend
  obtain ⟨hacc, hsrc⟩ := hdst h hd
  obtain ⟨us, items, hlen, hread⟩ := shaped_datagram_is_read_back E hl h b ⟨peer, [], porc⟩ hshape (hhdr h) hsize hmps hsrc hacc
  have hE := processParsed_never_rejects E h us items hlen
  unfold Foca.step Foca.runOp
  simp only [bind_run]
  rw [hread]
  cases hr : processParsed E h us (tailBytes items) ⟨peer, [], porc⟩ with
  | stuck x => trivial
  | ok u c' => simp
  | err e c' =>
    simp only
    intro e' he'
    cases he'
    exact hE.run _ _ _ hr

end Foca.C07H
