/-
  C07, whole histories — every datagram of every call has the documented shape, and a peer with the same codec
  and packet size accepts it: no DataTooBig, no Decode, no Malformed.
-/
import FocaModel.Proofs.SentInv
import FocaModel.Proofs.NetInv
import FocaModel.Proofs.ErrKinds
import FocaModel.Props.C07H
import FocaModel.Props.C20
namespace Foca.C07H
open Foca Foca.C07

/-- when only the range of the wire types matters, the bound on incarnations told is the type's own -/
def wireOnly : Id → Nat := fun _ => 65535

/-- histories with wire-range inputs -/
abbrev WireHist (E : Env) (s : State) : Prop := WireHistory E s wireOnly

theorem mw_wire {u : Member} (h : MW wireOnly u) : Member.Wire u := (mwire_iff u).1 h.1

/-- **Every datagram of every call has the documented shape.** After any history of calls with wire-range inputs
    (what any `u16`-typed codec decodes, identities within the type's range), every datagram a further call
    hands to the runtime — whatever the call, its bytes, its timer, the RNG draws and the backlog tie order — is
    `header`, or `header ++ count ++ that many encoded members ++ length-prefixed items` (kinds that piggyback), or
    `header ++ length-prefixed items` (Broadcast); the header is addressed to the identity the datagram is handed
    over for and every field of it is within the wire range; the members are within the wire range; no item is
    empty; and nothing else. -/
theorem every_datagram_has_the_shape (E : Env) {s s' : State} (hreach : WireHist E s) (op : Op) (orc : Oracle)
    (hin : InputWire E wireOnly op) (eff : List Effect) (r : Res) (left : Oracle)
    (hstep : Foca.step E s op orc = .done s' eff r left) (d : Id) (b : Bytes) (hsend : Effect.send d b ∈ eff) :
    ∃ h : Header, h.dst = d ∧ HWire h ∧ DatagramShape E (MW wireOnly) h b := by
  have := Sent.step E wireOnly s op orc (Ready.reachable E hreach) hin
  rw [hstep] at this
  exact this.2 _ hsend

theorem tailBytes_mem_length {items : List Bytes} {d : Bytes} (h : d ∈ items) : d.length + 2 ≤ (tailBytes items).length := by
  have h1 := framed_flatten_len items
  have h2 := framedLen_mem (ov := Gen.lenPrefix) h
  simp only [tailBytes, Gen.lenPrefix] at *
  omega

theorem sectionBytes_length {E : Env} (hl : CodecLaws E.codec) {us : List Member} (hw : ∀ u ∈ us, Member.Wire u) :
    us.length + 2 ≤ (sectionBytes E us).length := by
  have := flatten_length_ge (l := us.map E.codec.encMember) (by
    intro b hb
    obtain ⟨u, hu, rfl⟩ := List.mem_map.1 hb
    exact encMember_nonempty hl u (hw u hu))
  simp only [sectionBytes, List.length_append, u16be_len, List.length_map] at *
  omega

/-- **A peer accepts every such datagram.** A datagram with the documented shape, delivered to an instance with the
    same codec whose packet size (at most 65535) it does not exceed, from another address and addressed to that
    instance, passes every parsing stage: what the receiver does is `processParsed` on exactly the members and
    items the sender wrote. -/
theorem shaped_datagram_is_read_back (E : Env) (hl : CodecLaws E.codec) (h : Header) (b : Bytes) (c : Ctx)
    (hshape : DatagramShape E (MW wireOnly) h b)
    (hhdr : ∀ rest, E.codec.decHeader (E.codec.encHeader h ++ rest) = some (h, rest))
    (hsize : b.length ≤ c.s.cfg.mps) (hmps : c.s.cfg.mps ≤ 65535)
    (hsrc : (h.src == c.s.id || h.src.addr == c.s.id.addr) = false)
    (hdst : Gen.acceptPayload c.s.id h.dst h.msg = true) :
    ∃ (us : List Member) (items : List Bytes), (∀ d ∈ items, 1 ≤ d.length ∧ d.length < 65536) ∧
      handleData E b c = processParsed E h us (tailBytes items) c := by
  obtain ⟨us, items, hus0, hitems, hcase⟩ := hshape
  have hus : ∀ u ∈ us, Member.Wire u := fun u hu => mw_wire (hus0 u hu)
  rcases hcase with hb | ⟨hk1, hk2, hb⟩ | ⟨hk, hb⟩
  · refine ⟨[], [], by simp, ?_⟩
    rw [hb]
    have := bare_datagram_is_read_back E h c hhdr (by rw [← hb]; exact hsize) hsrc hdst
    simpa [tailBytes] using this
  · have hlen : ∀ d ∈ items, 1 ≤ d.length ∧ d.length < 65536 := by
      intro d hd
      refine ⟨hitems d hd, ?_⟩
      have := tailBytes_mem_length hd
      rw [hb] at hsize
      simp only [List.length_append] at hsize
      omega
    have hn : us.length < 65536 := by
      have := sectionBytes_length hl hus
      rw [hb] at hsize
      simp only [List.length_append] at hsize
      omega
    refine ⟨us, items, hlen, ?_⟩
    rw [hb]
    exact wellformed_datagram_is_read_back E hl h us items c hhdr ⟨hk1, hk2⟩ hus hn hlen (by rw [← hb]; exact hsize) hsrc hdst
  · have hlen : ∀ d ∈ items, 1 ≤ d.length ∧ d.length < 65536 := by
      intro d hd
      refine ⟨hitems d hd, ?_⟩
      have := tailBytes_mem_length hd
      rw [hb] at hsize
      simp only [List.length_append] at hsize
      omega
    refine ⟨[], items, hlen, ?_⟩
    rw [hb]
    exact broadcast_datagram_is_read_back E h items c hhdr hk hlen (by rw [← hb]; exact hsize) hsrc hdst

/-- the errors that mean "this datagram is not acceptable" -/
def Rejection (e : ErrKind) : Prop := e = .dataTooBig ∨ e = .decode ∨ e = .malformed

theorem deliverItems_errOnly (E : Env) {K : ErrKind → Prop} (hK : K .custom) (sender : Option Id) (items : List Bytes) :
    ErrOnly K (deliverItems E sender items) := by
  induction items with
  | nil => unfold deliverItems; exact ErrOnly.pure _
  | cons d ds ih =>
    unfold deliverItems
    erronly
    all_goals first
      | exact ErrOnly.throwE _ hK
      | exact ih

/-- what happens once a datagram is parsed never ends in a rejection: the handler's own error, a failed send, a
    relay request naming the instance itself — but no DataTooBig, Decode or Malformed -/
theorem processParsed_never_rejects (E : Env) (h : Header) (us : List Member) (items : List Bytes)
    (hlen : ∀ d ∈ items, 1 ≤ d.length ∧ d.length < 65536) :
    ErrOnly (fun e => ¬ Rejection e) (processParsed E h us (tailBytes items)) := by
  have hEnc : ¬ Rejection .encode := by unfold Rejection; simp
  have hSame : ¬ Rejection .sameIdentity := by unfold Rejection; simp
  have hInd : ¬ Rejection .indirectForOurselves := by unfold Rejection; simp
  have hCus : ¬ Rejection .custom := by unfold Rejection; simp
  unfold processParsed
  rw [custom_tail_is_delivered E (some h.src) items hlen]
  refine ErrOnly.bind (ErrOnly.applyUpdate E _ _) (fun senderActive => ?_)
  split
  · exact ErrOnly.inactiveSender E hEnc hSame _
  · refine ErrOnly.bind (ErrOnly.applyMany E hEnc hSame _ _) (fun _ => ?_)
    exact ErrOnly.attempt_bind (deliverItems_errOnly E hCus _ _) (fun r hr => ErrOnly.replyStage E hEnc hSame hInd _ _ hr)

/-- **No datagram Foca sends is rejected by a peer.** In any history with wire-range inputs, a datagram handed to
    the runtime and delivered to a peer — same codec, reading back the headers it wrote; same packet size, at most
    65535; another address; the datagram addressed to it — is never answered with DataTooBig, Decode or
    MalformedPacket. Both codec hypotheses hold for the models of the fixed, postcard, bincode and packed codecs
    (`bundled_codec_laws`, `bundled_header_laws`). -/
theorem peer_accepts_every_datagram (E : Env) (hl : CodecLaws E.codec) (hhdr : HeaderLaw E.codec)
    {s s' : State} (hreach : WireHist E s) (op : Op) (orc : Oracle) (hin : InputWire E wireOnly op)
    (eff : List Effect) (r : Res) (left : Oracle) (hstep : Foca.step E s op orc = .done s' eff r left)
    (d : Id) (b : Bytes) (hsend : Effect.send d b ∈ eff)
    (peer : State) (porc : Oracle) (hsize : b.length ≤ peer.cfg.mps) (hmps : peer.cfg.mps ≤ 65535)
    (hdst : ∀ h : Header, h.dst = d → Gen.acceptPayload peer.id h.dst h.msg = true ∧
      (h.src == peer.id || h.src.addr == peer.id.addr) = false) :
    match Foca.step E peer (.data b) porc with
    | .done _ _ res _ => ∀ e, res = .err e → ¬ Rejection e
    | .stuck _ => True := by
  obtain ⟨h, hd, hw, hshape⟩ := every_datagram_has_the_shape E hreach op orc hin eff r left hstep d b hsend
  obtain ⟨hacc, hsrc⟩ := hdst h hd
  obtain ⟨us, items, hlen, hread⟩ := shaped_datagram_is_read_back E hl h b ⟨peer, [], porc⟩ hshape
    (fun rest => hhdr h rest hw) hsize hmps hsrc hacc
  have hE := processParsed_never_rejects E h us items hlen
  unfold Foca.step Foca.runOp
  simp only [bind_run]
  rw [hread]
  cases hr : processParsed E h us (tailBytes items) ⟨peer, [], porc⟩ with
  | stuck x => trivial
  | ok u c' => simp
  | err e c' =>
    simp only
    intro e' he'
    cases he'
    exact hE.run _ _ _ hr

/-- **In a cluster**: every datagram that is, or ever was, on the wire of any reachable cluster (`Proofs/NetInv.lean`:
    any number of instances, any delivery order, duplication or loss, timers in any order, API calls at any time)
    has the documented shape, for a header the network logged when it was sent — so whichever instance it reaches,
    if that instance is not at the sender's address, is the addressee, and has the same codec and a packet size of
    at most 65535 that the datagram does not exceed, it is read back exactly and never rejected
    (`shaped_datagram_is_read_back`, `processParsed_never_rejects`). -/
theorem cluster_datagrams_have_the_shape (E : Env) (hl : CodecLaws E.codec) (hhdr : HeaderLaw E.codec)
    {n : Net} (hreach : NetReach E n) (d : Id) (b : Bytes) (hw : (d, b) ∈ n.wire) :
    ∃ h ∈ n.sent, h.dst = d ∧ HWire h ∧ DatagramShape E (fun u => Member.Wire u) h b := by
  obtain ⟨h, hm, q1, q2, q4⟩ := (NetInv.reachable E hl hhdr hreach).2.1 d b hw
  exact ⟨h, hm, q1, q2, q4.mono (fun u hu => (mwire_iff u).1 hu.1)⟩

/-! ### the codec contract is satisfiable (and holds, on wire-range values, for the bundled codecs' models) -/

theorem natRoundtrip (n : Nat) (rest : Bytes) : decNat (encNat n ++ rest) = some (n, rest) := by
  induction n with
  | zero => simp [encNat, decNat]
  | succ k ih =>
    have : encNat (k + 1) ++ rest = 1 :: (encNat k ++ rest) := by simp [encNat, List.replicate_succ]
    rw [this, decNat]
    simp [ih]

theorem natId_roundtrip (i : Id) (rest : Bytes) : natDecId (natEncId i ++ rest) = some (i, rest) := by
  unfold natDecId natEncId
  rw [List.append_assoc, natRoundtrip]
  simp only []
  rw [natRoundtrip]

theorem natIdNum_roundtrip (i : Id) (n : Nat) (rest : Bytes) :
    natDecIdNum (natEncId i ++ encNat n ++ rest) = some (i, n, rest) := by
  unfold natDecIdNum
  rw [List.append_assoc, natId_roundtrip]
  simp only []
  rw [natRoundtrip]

theorem natMsg_roundtrip (m : Msg) (rest : Bytes) : natDecMsg (natEncMsg m ++ rest) = some (m, rest) := by
  unfold natDecMsg
  cases m with
  | ping n => simp only [natEncMsg, List.append_assoc]; rw [natRoundtrip]; simp only []; rw [natRoundtrip]; rfl
  | ack n => simp only [natEncMsg, List.append_assoc]; rw [natRoundtrip]; simp only []; rw [natRoundtrip]; rfl
  | pingReq t n =>
    simp only [natEncMsg, List.append_assoc]; rw [natRoundtrip]; simp only []
    rw [← List.append_assoc, natIdNum_roundtrip]; rfl
  | indirectPing t n =>
    simp only [natEncMsg, List.append_assoc]; rw [natRoundtrip]; simp only []
    rw [← List.append_assoc, natIdNum_roundtrip]; rfl
  | indirectAck t n =>
    simp only [natEncMsg, List.append_assoc]; rw [natRoundtrip]; simp only []
    rw [← List.append_assoc, natIdNum_roundtrip]; rfl
  | forwardedAck t n =>
    simp only [natEncMsg, List.append_assoc]; rw [natRoundtrip]; simp only []
    rw [← List.append_assoc, natIdNum_roundtrip]; rfl
  | announce => simp only [natEncMsg]; rw [natRoundtrip]; rfl
  | feed => simp only [natEncMsg]; rw [natRoundtrip]; rfl
  | gossip => simp only [natEncMsg]; rw [natRoundtrip]; rfl
  | broadcast => simp only [natEncMsg]; rw [natRoundtrip]; rfl
  | turnUndead => simp only [natEncMsg]; rw [natRoundtrip]; rfl

/-- the unbounded codec reads back every header, whatever follows -/
theorem natCodec_header_law (h : Header) (rest : Bytes) :
    natCodec.decHeader (natCodec.encHeader h ++ rest) = some (h, rest) := by
  simp only [natCodec, natEncHeader, natDecHeader, List.append_assoc]
  rw [natId_roundtrip]
  simp only []
  rw [natRoundtrip]
  simp only []
  rw [natId_roundtrip]
  simp only []
  rw [natMsg_roundtrip]

/-- … and every member: it satisfies the codec contract without any range restriction -/
theorem natCodec_laws : CodecLaws natCodec where
  member_rt := fun m rest _ => by
    simp only [natCodec, natEncMember, natDecMember, List.append_assoc]
    rw [natId_roundtrip]
    simp only []
    rw [natRoundtrip]
    simp only []
    rw [natRoundtrip]
    simp only [(C20.stTag_roundtrip m.st).1]

/-- the member law holds for the models of the hand-written and the two bundled codecs (on wire-range members) -/
theorem bundled_codec_laws : CodecLaws fixedCodec ∧ CodecLaws postcardCodec ∧ CodecLaws bincodeCodec ∧ CodecLaws packedCodec :=
  ⟨⟨fun m rest h => C20.member_roundtrip C20.fixed_laws m rest ⟨⟨h.1, h.2.1⟩, h.2.2⟩⟩,
   ⟨fun m rest h => C20.member_roundtrip C20.postcard_laws m rest ⟨⟨h.1, h.2.1⟩, h.2.2⟩⟩,
   ⟨fun m rest h => C20.member_roundtrip C20.bincode_laws m rest ⟨⟨h.1, h.2.1⟩, h.2.2⟩⟩,
   ⟨fun m rest h => C20.packed_member_roundtrip m rest ⟨⟨h.1, h.2.1⟩, h.2.2⟩⟩⟩

theorem hwire_iff (h : Header) : HWire h ↔ C20.Header.Wire h := by
  unfold HWire C20.Header.Wire IdWire C20.Id.Wire
  have hm : MsgWire h.msg ↔ C20.Msg.Wire h.msg := by
    cases h.msg <;> simp [MsgWire, C20.Msg.Wire, IdWire, C20.Id.Wire]
  rw [hm]

/-- the header law holds for the models of the hand-written and the two bundled codecs: with `bundled_codec_laws`
    the whole-history theorems of this file and of `Props/C10S.lean` apply to each of them -/
theorem bundled_header_laws : HeaderLaw fixedCodec ∧ HeaderLaw postcardCodec ∧ HeaderLaw bincodeCodec ∧ HeaderLaw packedCodec :=
  ⟨fun h rest hw => C20.header_roundtrip C20.fixed_laws h rest ((hwire_iff h).1 hw),
   fun h rest hw => C20.header_roundtrip C20.postcard_laws h rest ((hwire_iff h).1 hw),
   fun h rest hw => C20.header_roundtrip C20.bincode_laws h rest ((hwire_iff h).1 hw),
   fun h rest hw => C20.packed_header_roundtrip h rest ((hwire_iff h).1 hw)⟩

/-- non-vacuity of the two codec hypotheses of `peer_accepts_every_datagram`, `cluster_datagrams_have_the_shape`
    and of the cluster theorems of `Props/C10S.lean`: one codec satisfies both, over every model value -/
example : CodecLaws natCodec ∧ HeaderLaw natCodec :=
  ⟨natCodec_laws, fun h rest _ => natCodec_header_law h rest⟩

end Foca.C07H
