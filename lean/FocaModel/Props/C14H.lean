/-
  C14, whole windows — every window of 2n−1 consecutive probe rounds pings each active member.
-/
import FocaModel.Proofs.RoundRobin
namespace Foca.C14H
open Foca Foca.RR

/-- `Members::next` of the instance model is one round `rrStep`: with the permutation the RNG produced when a
    reshuffle was due, and nothing else of the state touched. -/
theorem members_next_is_a_round (c : Ctx) (r : Option Member) (c' : Ctx) (h : membersNext c = .ok r c') :
    ∃ perm, perm.Perm c.s.ms ∧ (r, c'.s.ms, c'.s.cursor) = rrStep c.s.ms c.s.cursor perm ∧
      c'.s = { c.s with ms := c'.s.ms, cursor := c'.s.cursor } ∧ c'.eff = c.eff := by
  unfold membersNext at h
  by_cases hs : needsShuffle c.s.cursor c.s.ms.length = true
  · simp only [hs, if_true] at h
    unfold drawShuffle at h
    cases hd : c.orc.draws with
    | nil => simp [hd] at h
    | cons d rest =>
      cases d with
      | idx k => simp [hd] at h
      | perm p =>
        simp only [hd] at h
        by_cases hperm : (p.filterMap (fun i => c.s.ms[i]?)).isPerm c.s.ms = true
        · simp only [hperm, if_true, R.ok.injEq] at h
          obtain ⟨h1, h2⟩ := h
          subst h2
          refine ⟨p.filterMap (fun i => c.s.ms[i]?), List.isPerm_iff.1 hperm, ?_, rfl, rfl⟩
          unfold rrStep
          simp only [hs, if_true, h1]
        · simp [hperm] at h
  · simp only [hs, Bool.false_eq_true, if_false, R.ok.injEq] at h
    obtain ⟨h1, h2⟩ := h
    subst h2
    refine ⟨c.s.ms, List.Perm.refl _, ?_, rfl, rfl⟩
    unfold rrStep
    simp only [hs, Bool.false_eq_true, if_false]
    cases hc : c.s.cursor <;> rw [hc] at h1 <;> simp only at h1 <;> simp [Cursor.idx, ← h1]

/-- **The 2n−1 window.** While the member list is stable (it is only ever permuted by the reshuffles), from
    *any* cursor position, for *every* permutation each reshuffle may produce (every RNG seed) and every
    arrangement of Down records in the list, an active member `x` is returned by one of the next `2n − 1`
    rounds, `n` being the number of active members. -/
theorem window (l : List Member) (cur : Cursor) (perms : List (List Member)) (x : Member)
    (hx : x ∈ l) (ha : x.active = true) (hp : ∀ p ∈ perms, p.Perm l)
    (hlen : perms.length ≥ 2 * countActive l - 1) : some x ∈ rrRun l cur perms :=
  within_bound (2 * countActive l - 1) l cur perms x hx ha hp (bound_le hx ha) hlen

theorem rrRun_append (l : List Member) (cur : Cursor) (pre w : List (List Member)) :
    rrRun l cur (pre ++ w) = rrRun l cur pre ++ rrRun (rrAfter l cur pre).1 (rrAfter l cur pre).2 w := by
  induction pre generalizing l cur with
  | nil => simp [rrRun, rrAfter]
  | cons p rest ih => simp only [List.cons_append, rrRun, rrAfter, ih]

theorem rrAfter_perm (l : List Member) (cur : Cursor) (pre : List (List Member)) (hp : ∀ p ∈ pre, p.Perm l) :
    (rrAfter l cur pre).1.Perm l := by
  induction pre generalizing l cur with
  | nil => exact List.Perm.refl _
  | cons p rest ih =>
    unfold rrAfter
    have h1 := step_perm (cur := cur) (hp p (by simp))
    exact (ih _ _ (fun q hq => (hp q (by simp [hq])).trans h1.symm)).trans h1

theorem countActive_perm' {l l' : List Member} (h : l'.Perm l) : countActive l' = countActive l :=
  (h.filter _).length_eq

/-- … hence *every* window of `2n − 1` consecutive rounds of a run of any length, wherever it starts, contains
    a ping of each active member. -/
theorem every_window (l : List Member) (cur : Cursor) (pre w post : List (List Member)) (x : Member)
    (hx : x ∈ l) (ha : x.active = true) (hp : ∀ p ∈ pre ++ w ++ post, p.Perm l)
    (hlen : w.length = 2 * countActive l - 1) :
    ∃ before inWindow after, rrRun l cur (pre ++ w ++ post) = before ++ inWindow ++ after ∧
      before.length = pre.length ∧ inWindow.length = w.length ∧ some x ∈ inWindow := by
  have hpre : ∀ p ∈ pre, p.Perm l := fun p h => hp p (by simp [h])
  have hl1 := rrAfter_perm l cur pre hpre
  have hw : ∀ p ∈ w, p.Perm (rrAfter l cur pre).1 := fun p h => (hp p (by simp [h])).trans hl1.symm
  have hlen_run : ∀ (l : List Member) (cur : Cursor) (ps : List (List Member)), (rrRun l cur ps).length = ps.length := by
    intro l cur ps
    induction ps generalizing l cur with
    | nil => rfl
    | cons p rest ih => simp [rrRun, ih]
  refine ⟨rrRun l cur pre, rrRun (rrAfter l cur pre).1 (rrAfter l cur pre).2 w,
    rrRun (rrAfter l cur (pre ++ w)).1 (rrAfter l cur (pre ++ w)).2 post, ?_, hlen_run _ _ _, hlen_run _ _ _, ?_⟩
  · rw [rrRun_append l cur (pre ++ w) post, rrRun_append l cur pre w]
  · exact window _ _ w x (hl1.mem_iff.2 hx) ha hw (by rw [countActive_perm' hl1]; omega)

def mA : Member := ⟨⟨1, 0⟩, 0, .alive⟩
def mB : Member := ⟨⟨2, 0⟩, 0, .alive⟩
def mC : Member := ⟨⟨3, 0⟩, 0, .alive⟩
def mD : Member := ⟨⟨4, 0⟩, 0, .down⟩

/-- the bound is tight: with three active members and a Down record at the end, `b` can stay away for
    2n−2 = 4 consecutive rounds (so no shorter window would do) -/
example : rrRun [mA, mB, mC, mD] (.at 2) [[], [], [mA, mC, mB, mD], [], [], []]
    = [some mC, some mA, some mA, some mC, some mB, some mA] := by decide

/-- non-vacuity of `window`: three active members, five rounds -/
example : some mB ∈ rrRun [mA, mB, mC, mD] (.at 2) [[mA, mB, mC, mD], [mA, mB, mC, mD], [mA, mC, mB, mD], [mA, mB, mC, mD], [mA, mB, mC, mD]] :=
  window _ _ _ mB (by decide) (by decide) (by decide) (by decide)

end Foca.C14H
