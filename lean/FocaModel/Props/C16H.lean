/-
  C16, whole histories — a custom broadcast item is retransmitted on at most `max_transmissions` datagrams.
-/
import FocaModel.Proofs.CustomReach
namespace Foca.C16H
open Foca

/-- **Per datagram, by key.** One framed fill writes one item per entry it takes, and the transmissions left for
    the entries of a key drop by exactly the number of times one of them was written — for any handler key type,
    any tie order. -/
theorem each_item_written_costs_one_transmission {b : List (Entry Key)} {space : Nat} {picks : List Bytes}
    {r : FillResult Key} (h : fill b space usizeMax Gen.lenPrefix picks = some r) (k : Key) :
    G.txOf (r.pending ++ r.done) k + G.cnt (G.fillKeys usizeMax Gen.lenPrefix b space picks) k = G.txOf b k ∧
    (G.fillKeys usizeMax Gen.lenPrefix b space picks).length = r.written.length :=
  G.fill_tx usizeMax Gen.lenPrefix h k

/-- **Whole life of an item.** Over any sequence of backlog operations — datagrams of any size, items of *other*
    keys being accepted (which may invalidate it: then it is never written again) — of any length, the entries of
    key `k` are written at most as many times as they had transmissions left, for an arbitrary invalidation
    relation. -/
theorem item_written_at_most_its_transmissions (inv : Key → Key → Bool) (b b' : List (Entry Key)) (k : Key)
    (ops : List (G.BOp Key)) (hno : ∀ op ∈ ops, G.BOp.enqueues k op = false)
    (h : G.runOps inv usizeMax Gen.lenPrefix b ops = some b') :
    G.txOf b' k + G.writesOver inv usizeMax Gen.lenPrefix b k ops ≤ G.txOf b k :=
  G.lifetime_bound inv usizeMax Gen.lenPrefix b b' k ops hno h

/-- … so an item accepted with `max_transmissions = m`, whose key invalidates older items of the same key, is
    written into at most `m` datagrams before an item of that key is accepted again. -/
theorem item_at_most_max_transmissions (inv : Key → Key → Bool) (b b' : List (Entry Key)) (k : Key) (d : Bytes)
    (m : Nat) (ops : List (G.BOp Key)) (hinv : ∀ e ∈ b, e.key = k → inv k e.key = true)
    (hno : ∀ op ∈ ops, G.BOp.enqueues k op = false)
    (h : G.runOps inv usizeMax Gen.lenPrefix (addOrReplace b inv k d m) ops = some b') :
    G.writesOver inv usizeMax Gen.lenPrefix (addOrReplace b inv k d m) k ops ≤ m :=
  G.written_at_most_max_transmissions inv usizeMax Gen.lenPrefix b b' k d m ops hinv hno h

/-- These operations are all that ever happens to an instance's custom backlog: one public call — any input, any
    handler, any RNG, any tie order — takes `custom` to the result of a sequence of enqueues (items the handler
    accepted, with the configured `max_transmissions`) and framed fills. -/
theorem custom_backlog_changes_only_by_enqueue_and_fill (E : Env) (s : State) (op : Op) (orc : Oracle) :
    match step E s op orc with
    | .done s' _ _ _ => ∃ ops, G.runOps E.handler.invalidates usizeMax Gen.lenPrefix s.custom ops = some s'.custom
    | .stuck _ => True := custom_evolves_by_backlog_ops E s op orc

/-- non-vacuity: an item with two transmissions is written twice and is gone -/
example : G.runOps (fun a b => a == b) usizeMax Gen.lenPrefix (addOrReplace [] (fun a b => a == b) [7] [1, 2, 3] 2)
      [.fill 100 [[1, 2, 3]], .fill 100 [[1, 2, 3]]] = some [] ∧
    G.writesOver (fun a b => a == b) usizeMax Gen.lenPrefix (addOrReplace [] (fun a b => a == b) [7] [1, 2, 3] 2) [7]
      [.fill 100 [[1, 2, 3]], .fill 100 [[1, 2, 3]]] = 2 := by decide

end Foca.C16H
