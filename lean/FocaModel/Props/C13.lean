/-
  C13 — timer epochs: recurring loops are never lost, duplicated or resurrected.
-/
import FocaModel.Proofs.SendAll
namespace Foca.C13
open Foca

def Timer.token? : Timer → Option Nat
  | .probe t | .pa t | .pad t | .pg t => some t
  | .indirect _ t | .s2d _ _ t => some t
  | .rm _ => none

/-- Timers issued before the latest Idle, Defunct or identity change (other than forget-timers) are
    ignored without any effect when they fire: same state, no effect, `Ok`. -/
theorem stale_timer_is_noop (E : Env) (t : Timer) (tok : Nat) (c : Ctx)
    (ht : Timer.token? t = some tok) (hne : tok ≠ c.s.token) : handleTimer E t c = .ok () c := by
  have hne' : c.s.token ≠ tok := fun h => hne h.symm
  cases t <;> simp [Timer.token?] at ht <;> subst ht <;> unfold handleTimer <;> simp [hne, hne']

/-- Every epoch change moves the token on (mod 256): Idle, Defunct, reset (identity change / reuse). -/
theorem epoch_changes_bump_token (E : Env) (c : Ctx) :
    (∃ c', reset c = .ok () c' ∧ c'.s.token = wrapAdd8 c.s.token ∧ c'.s.conn = .disconnected) ∧
    (∃ c', becomeUndead c = .ok () c' ∧ c'.s.token = wrapAdd8 c.s.token ∧ c'.s.conn = .undead) ∧
    (c.s.numActive = 0 → ∃ c', becomeDisconnected E c = .ok () c' ∧ c'.s.token = wrapAdd8 c.s.token ∧ c'.s.conn = .disconnected) := by
  refine ⟨?_, ?_, ?_⟩
  · simp [reset]
  · simp [becomeUndead]
  · intro h; simp [becomeDisconnected, h]

theorem token_moves (n : Nat) (h : n < 256) : wrapAdd8 n ≠ n := by
  unfold wrapAdd8; omega

def expectedLoops (s : State) : List Effect :=
  [.timer s.cfg.probePeriod (.probe s.token)]
  ++ (match s.cfg.pa with | some p => [.timer p.freq (.pa s.token)] | none => [])
  ++ (match s.cfg.pad with | some p => [.timer p.freq (.pad s.token)] | none => [])
  ++ (match s.cfg.pg with | some p => [.timer p.freq (.pg s.token)] | none => [])

/-- Becoming active starts exactly one probe loop and one loop per enabled periodic task, all in the
    current epoch, and notifies Active. -/
theorem loops_started_on_connect (E : Env) (c : Ctx) (h : c.s.numActive ≠ 0) :
    ∃ c', becomeConnected E c = .ok () c' ∧ c'.s.conn = .connected ∧ c'.s.token = c.s.token ∧
      c'.eff = c.eff ++ expectedLoops c.s ++ [.notify .active] := by
  unfold becomeConnected expectedLoops
  cases h1 : c.s.cfg.pa <;> cases h2 : c.s.cfg.pad <;> cases h3 : c.s.cfg.pg <;> simp [h, h1, h2, h3]

/-- `set_config` refuses to change the probe timing and to enable a periodic task that was off
    (generated guard), so the set of running loops can only shrink at runtime. -/
theorem set_config_cannot_enable_loops (old new : Config)
    (h : Gen.setConfigInvalid old new = false) :
    new.probePeriod = old.probePeriod ∧ new.probeRtt = old.probeRtt ∧
    (old.pa = none → new.pa = none) ∧ (old.pad = none → new.pad = none) ∧ (old.pg = none → new.pg = none) := by
  unfold Gen.setConfigInvalid at h
  simp only [Bool.or_eq_false_iff, Bool.and_eq_false_iff] at h
  obtain ⟨⟨⟨⟨h1, h2⟩, h3⟩, h4⟩, h5⟩ := h
  refine ⟨?_, ?_, ?_, ?_, ?_⟩
  · have := h1; simp at this; exact this.symm
  · have := h2; simp at this; exact this.symm
  · intro ho; rcases h3 with h | h
    · simp [ho] at h
    · cases hn : new.pa <;> simp_all
  · intro ho; rcases h4 with h | h
    · simp [ho] at h
    · cases hn : new.pad <;> simp_all
  · intro ho; rcases h5 with h | h
    · simp [ho] at h
    · cases hn : new.pg <;> simp_all

/-- Periodic handlers re-arm their own loop exactly once, in the current epoch, before doing anything else. -/
theorem periodic_announce_rearms (E : Env) (c : Ctx) (p : Periodic)
    (hc : c.s.conn = .connected) (hp : c.s.cfg.pa = some p) :
    handleTimer E (.pa c.s.token) c =
      chooseAndSend E p.num .announce { c with eff := c.eff ++ [.timer p.freq (.pa c.s.token)] } := by
  unfold handleTimer
  simp [hc, hp]

/-- The `Timer` ordering helper puts a round's SendIndirectProbe before the next ProbeRandomMember and is
    injective on kinds (generated `Timer::seq`). -/
theorem indirect_sorts_before_probe (p : Id) (t t' : Nat) :
    Gen.timerSeq (.indirect p t) < Gen.timerSeq (.probe t') := by simp [Gen.timerSeq]

theorem seq_separates_kinds (a b : Timer) (h : Gen.timerSeq a = Gen.timerSeq b) :
    (∃ x y, a = .probe x ∧ b = .probe y) ∨ (∃ p x q y, a = .indirect p x ∧ b = .indirect q y) ∨
    (∃ m i x n j y, a = .s2d m i x ∧ b = .s2d n j y) ∨ (∃ x y, a = .pa x ∧ b = .pa y) ∨
    (∃ x y, a = .pad x ∧ b = .pad y) ∨ (∃ x y, a = .pg x ∧ b = .pg y) ∨ (∃ x y, a = .rm x ∧ b = .rm y) := by
  cases a <;> cases b <;> simp [Gen.timerSeq] at h <;> simp

/-- A probe timer that finds the cycle incomplete (SendIndirectProbe not delivered yet) still re-arms
    the probe loop: the only consequence is the `IncompleteProbeCycle` error. -/
theorem validate_only_needs_indirect_stage (p : Probe) :
    p.validate = true ↔ p.direct = none ∨ p.reached = true := by
  unfold Probe.validate Gen.probeValidate
  cases p.direct <;> simp

end Foca.C13
