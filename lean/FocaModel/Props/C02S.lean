/-
  C02 at the level of the cluster — zero false suspicion: as long as every probe round is answered, nobody in the
  cluster is ever suspected or declared down, whatever the network does.
-/
import FocaModel.Proofs.CalmNet
import FocaModel.Proofs.CalmGrow
import FocaModel.Props.C02
import FocaModel.Props.C07S
import FocaModel.Props.C08H
import FocaModel.Props.C12S
namespace Foca.C02S
open Foca Foca.C07

/-- **Suspicion has two sources only** (one call). An instance that holds only Alive records and Alive pending
    updates about the cluster's identities (`CalmInv`), in a cluster whose identities have pairwise different
    addresses, makes any call of a fault-free run (`CalmOp`): a datagram or a batch carrying only Alive claims about
    cluster identities under a header from a cluster identity that is not a TurnUndead; any timer except a suspicion
    timeout, a current probe timer only after an answered round (`RoundAnswered`); `announce`, `gossip`, `broadcast`,
    `add_broadcast`, `set_config`. Then — whatever the bytes, the RNG draws, the configuration — afterwards it
    still holds only Alive records and updates, every datagram it sent carries only Alive claims about cluster
    identities and is not a TurnUndead, and it scheduled no suspicion timer. So a record turns Suspect or Down only
    through a failed probe round of the instance itself or a Suspect/Down claim (or a departure or identity
    change) somewhere in the cluster. -/
theorem calm_call_stays_calm (E : Env) (τ : Id → Nat) (ids : List Id) (hd : DistinctAddrs ids)
    (s : State) (op : Op) (orc : Oracle) (h : CalmInv E τ ids s) (hop : CalmOp E τ ids s op) :
    match Foca.step E s op orc with
    | .done s' eff _ _ => CalmInv E τ ids s' ∧ ∀ e ∈ eff, CalmEff E τ ids (· ≠ .turnUndead) e
    | .stuck _ => True := CalmSent.step E τ ids (· ≠ .turnUndead) (fun _ h => h) hd s op orc h hop

variable (E : Env) (ids : List Id) (hl : CodecLaws E.codec) (hhdr : HeaderLaw E.codec) (hdist : DistinctAddrs ids)
include hl hhdr hdist

/-- **Zero false suspicion, cluster-wide, given answered probe rounds.** Take any number of fresh instances whose
    identities (within the wire range) have pairwise different addresses, and let the network do anything:
    datagrams delivered late, more than once, to the wrong instance or never; timers firing in any order, however
    late, more than once; `announce`, `gossip`, `broadcast`, `add_broadcast`, `set_config` at any time; any RNG
    draws; a codec that reads back what it wrote (true of the models of all four codecs). If every probe timer that
    fires while current (token of the instance's epoch, instance connected) finds its previous round answered (`RoundAnswered`: the target's Ack or a forwarded Ack arrived in time —
    the one premise that depends on latencies and clocks, explored by the simulator), then at every moment: every
    record of every instance is Alive, at incarnation 0, and is about an identity of the cluster; every instance is
    itself still at incarnation 0 (nobody ever had to refute anything); no suspicion timer and no forget-timer is
    pending anywhere; and every datagram on the wire is a non-TurnUndead datagram from a cluster identity whose updates
    are all Alive. Nobody is ever suspected or declared down — not by reordering, duplication or loss of gossip, not
    by stale datagrams, not by an address conflict. -/
theorem calm_cluster_stays_calm {n : Net} (h : CalmReach E ids n) :
    (∀ s ∈ n.nodes, s.inc = 0 ∧ ∀ m ∈ s.ms, m.st = .alive ∧ m.id ∈ ids ∧ m.inc = 0) ∧
    (∀ i t, (i, t) ∈ n.timers → (∀ m inc tok, t ≠ .s2d m inc tok) ∧ ∀ id, t ≠ .rm id) ∧
    (∀ d b, (d, b) ∈ n.wire → ∃ hd : Header, hd.dst = d ∧ (hd.src ∈ ids ∧ hd.srcInc = 0) ∧ hd.msg ≠ .turnUndead ∧
      DatagramShape E (fun u => u.st = .alive ∧ u.id ∈ ids ∧ u.inc = 0) hd b) := by
  obtain ⟨h1, h2, h3⟩ := CalmNet.reachable E ids hl hhdr hdist h
  refine ⟨fun s hs => ⟨(h1 s hs).2.1.1, fun m hm => (h1 s hs).2.2.1 m hm |>.2⟩, h3, ?_⟩
  intro d b hw
  obtain ⟨hd, _, q1, _, q3, q4, q5⟩ := h2 d b hw
  exact ⟨hd, q1, q3, q4, q5.mono (fun u hu => hu.2)⟩

/-- … and what a peer reads out of any datagram on the wire: only Alive claims about cluster identities -/
theorem wire_carries_only_alive_claims {n : Net} (h : CalmReach E ids n) (d : Id) (b : Bytes) (hw : (d, b) ∈ n.wire)
    (hd : Header) (rest : Bytes) (hdec : E.codec.decHeader b = some (hd, rest)) (us : List Member) (tail : Bytes)
    (hp : parseSection E hd rest = some (us, tail)) : ∀ u ∈ us, u.st = .alive ∧ u.id ∈ ids ∧ u.inc = 0 := by
  obtain ⟨_, h2, _⟩ := CalmNet.reachable E ids hl hhdr hdist h
  obtain ⟨h0, hm, q1, q2, q3, q4, q5⟩ := h2 d b hw
  have := shape_dataOk E hl hhdr (okH := fun _ => True) (fun u hu => (mwire_iff u).1 hu.1.1) q5 q2 trivial
  exact fun u hu => ((this hd rest hdec).2 us tail hp u hu).2

/-- **Views only grow.** In a fault-free run (`CalmRun`: any further deliveries, timers after answered rounds and API
    calls, from any cluster reached that way) an instance that lists a member keeps listing it — the same identity,
    for good: nobody is ever declared down, so no forget-timer ever exists, and no identity is ever superseded.
    Discovery is monotone; what the simulator explores is only whether it completes (known finding F7). -/
theorem views_only_grow {n n' : Net} (hreach : CalmReach E ids n) (hrun : CalmRun E n n') (i : Nat) (s : State)
    (hs : n.nodes[i]? = some s) :
    ∃ s', n'.nodes[i]? = some s' ∧ ∀ m ∈ s.ms, ∃ m' ∈ s'.ms, m'.id = m.id := by
  -- the node is still there and every listed address stays listed at a generation at least as high …
  have key : ∃ s', n'.nodes[i]? = some s' ∧ ∀ a g, GenInv a g s → GenInv a g s' := by
    induction hrun with
    | refl => exact ⟨s, hs, fun _ _ h => h⟩
    | step hr hst ih =>
      obtain ⟨s1, h1, hg1⟩ := ih
      have hinv := CalmNet.reachable E ids hl hhdr hdist (CalmReach.run E ids hreach hr)
      obtain ⟨s2, h2, hg2⟩ := CalmStep.keeps_listed E ids hinv hst i s1 h1
      exact ⟨s2, h2, fun a g hg => hg2 a g (hg1 a g hg)⟩
  obtain ⟨s', hs', hg⟩ := key
  refine ⟨s', hs', fun m hm => ?_⟩
  -- … and in a calm cluster an address has one identity
  have hinv0 := CalmNet.reachable E ids hl hhdr hdist hreach
  have hinv' := CalmNet.reachable E ids hl hhdr hdist (CalmReach.run E ids hreach hrun)
  obtain ⟨m', hm', ha, _⟩ := hg m.id.addr m.id.gen ⟨m, hm, rfl, Nat.le_refl _⟩
  refine ⟨m', hm', ?_⟩
  have h1 := (hinv0.1 s (List.mem_of_getElem? hs)).2.2.1 m hm
  have h2 := (hinv'.1 s' (List.mem_of_getElem? hs')).2.2.1 m' hm'
  exact hdist m'.id h2.2.2.1 m.id h1.2.2.1 ha

/-- **The timing premise, reduced to deliveries.** `RoundAnswered` — the one premise of `calm_cluster_stays_calm`
    that depends on latencies and clocks — holds at a probe timer whenever, since the round was started (by a
    connected `A`, on `m`, under number `N`), the instance bearing `m`'s identity — reachable, not defunct — handled `A`'s Ping and `A` handled
    the very bytes it sent back, both with result `Ok`, whatever else either of them handled in between
    (`C12S.probe_round_trip_not_defunct`). What is left to the network and the clock is only that these two deliveries happen
    within one probe period. -/
theorem premise_reduces_to_deliveries (τ : Id → Nat) (m : Member) (N : Nat)
    {b b' : State} {ping : Bytes} {orcB leftB : Oracle} {effB : List Effect}
    (hb : CalmInv E τ ids b) (hping : DataOk E (CalmM τ ids) (CalmH τ ids) ping)
    (hstepB : Foca.step E b (.data ping) orcB = .done b' effB .ok leftB)
    (hp : Header) (restp : Bytes) (hdecp : E.codec.decHeader ping = some (hp, restp)) (hdstp : hp.dst = b.id)
    (hmsgp : hp.msg = .ping N) (hbid : b'.id = m.id) (hbreach : Reachable E b) (hbnu : b.conn ≠ .undead)
    {a0 a1 a2 a' : State} {ops1 ops2 : List Op}
    (hstart : a0.probe.direct = some m ∧ a0.probe.number = N) (hconn0 : a0.conn = .connected)
    (hsrcp : hp.src = a1.id)
    (hrun1 : C12H.Hist E a0 ops1 a1) (hnp1 : ∀ op ∈ ops1, ∀ tok, op ≠ .timer (.probe tok))
    (ha1 : CalmInv E τ ids a1) {ack : Bytes} {orcA leftA : Oracle} {effA : List Effect}
    (hsent : ∃ pre, effB = pre ++ [.send hp.src ack]) (hτ : b'.inc ≤ τ b'.id)
    (hstepA : Foca.step E a1 (.data ack) orcA = .done a2 effA .ok leftA)
    (hrun2 : C12H.Hist E a2 ops2 a') (hnp2 : ∀ op ∈ ops2, ∀ tok, op ≠ .timer (.probe tok)) :
    RoundAnswered a' :=
  C12S.probe_round_trip_not_defunct E τ ids hl hhdr hdist m N hb hbreach hbnu hping hstepB hp restp hdecp hdstp hmsgp hbid
    hstart hconn0 hsrcp hrun1 hnp1 ha1 hsent hτ hstepA hrun2 hnp2

omit hl hhdr hdist in
/-- non-vacuity: two fresh instances with different addresses form such a cluster; a fresh instance's (empty) probe
    round counts as answered -/
example : CalmReach E [⟨1, 0⟩, ⟨2, 0⟩]
    ⟨[State.init ⟨1, 0⟩ .bump C08H.exCfg, State.init ⟨2, 0⟩ .none C08H.exCfg], [], [], []⟩ ∧
    DistinctAddrs [⟨1, 0⟩, ⟨2, 0⟩] ∧ RoundAnswered (State.init ⟨1, 0⟩ .bump C08H.exCfg) := by
  refine ⟨CalmReach.init _ ?_, ?_, ?_⟩
  · intro s hs
    simp only [List.mem_cons, List.mem_nil_iff, or_false] at hs
    rcases hs with rfl | rfl
    · exact ⟨⟨1, 0⟩, .bump, C08H.exCfg, by simp [IdWire], by simp, rfl⟩
    · exact ⟨⟨2, 0⟩, .none, C08H.exCfg, by simp [IdWire], by simp, rfl⟩
  · intro a ha b hb hab
    simp only [List.mem_cons, List.mem_nil_iff, or_false] at ha hb
    rcases ha with rfl | rfl <;> rcases hb with rfl | rfl <;> simp_all
  · intro _; rfl

omit hl hhdr hdist in
/-- the theorem applies outright to a cluster running the model of `foca::PostcardCodec` (likewise the fixed,
    bincode and packed codecs), with any broadcast handler, debug or release -/
example (hd : Handler) (dbg : Bool) (ids : List Id) (hdist : DistinctAddrs ids) {n : Net}
    (h : CalmReach ⟨postcardCodec, hd, dbg⟩ ids n) (s : State) (hs : s ∈ n.nodes) : ∀ m ∈ s.ms, m.st = .alive :=
  fun m hm => (((calm_cluster_stays_calm ⟨postcardCodec, hd, dbg⟩ ids C07H.bundled_codec_laws.2.1
    C07H.bundled_header_laws.2.1 hdist h).1 s hs).2 m hm).1

/-! non-vacuity, with something happening: instance 1 announces itself to instance 2, the datagram is delivered,
   instance 2 now lists instance 1 as Alive (and has answered with a Feed) — a cluster covered by the theorem -/
def exS1 : State := State.init ⟨1, 0⟩ .bump C08H.exCfg
def exS2 : State := State.init ⟨2, 0⟩ .none C08H.exCfg

omit hl hhdr hdist in
theorem exInit : CalmReach C08H.exEnv [⟨1, 0⟩, ⟨2, 0⟩] ⟨[exS1, exS2], [], [], []⟩ := by
  refine CalmReach.init _ ?_
  intro s hs
  simp only [List.mem_cons, List.mem_nil_iff, or_false] at hs
  rcases hs with rfl | rfl
  · exact ⟨⟨1, 0⟩, .bump, C08H.exCfg, by simp [IdWire], by simp, rfl⟩
  · exact ⟨⟨2, 0⟩, .none, C08H.exCfg, by simp [IdWire], by simp, rfl⟩

omit hl hhdr hdist in
set_option maxRecDepth 8000 in
example : ∃ n, CalmReach C08H.exEnv [⟨1, 0⟩, ⟨2, 0⟩] n ∧ n.nodes.map (·.ms) = [[], [⟨⟨1, 0⟩, 0, .alive⟩]] := by
  have h1 := CalmReach.api (E := C08H.exEnv) (ids := [⟨1, 0⟩, ⟨2, 0⟩]) 0 exS1 _ (.announce ⟨2, 0⟩) ⟨[], [⟨[], []⟩]⟩ _ _ _
    exInit rfl rfl (by intro d hd; cases hd; simp [IdWire]) rfl
  have h2 := CalmReach.deliver (E := C08H.exEnv) (ids := [⟨1, 0⟩, ⟨2, 0⟩]) 1 exS2 _ ⟨2, 0⟩
    [0, 1, 0, 0, 0, 0, 0, 2, 0, 0, 6] ⟨[.idx 0], [⟨[], []⟩]⟩ _ _ _ h1 rfl (by decide) rfl
  exact ⟨_, h2, by decide⟩

/-! … and further: instance 2's probe timer fires (first round: nothing to suspect), its Ping — carrying the Alive
   update about instance 1 — is delivered, instance 1 answers with an Ack: both now list each other as Alive, and
   the cluster is still one the theorem covers -/
omit hl hhdr hdist in
set_option maxRecDepth 20000 in
example : ∃ n, CalmReach C08H.exEnv [⟨1, 0⟩, ⟨2, 0⟩] n ∧
    n.nodes.map (fun s => (s.probe.number, s.ms.map (·.st))) = [(0, [.alive]), (1, [.alive])] := by
  have h1 := CalmReach.api (E := C08H.exEnv) (ids := [⟨1, 0⟩, ⟨2, 0⟩]) 0 exS1 _ (.announce ⟨2, 0⟩) ⟨[], [⟨[], []⟩]⟩ _ _ _
    exInit rfl rfl (by intro d hd; cases hd; simp [IdWire]) rfl
  have h2 := CalmReach.deliver (E := C08H.exEnv) (ids := [⟨1, 0⟩, ⟨2, 0⟩]) 1 exS2 _ ⟨2, 0⟩
    [0, 1, 0, 0, 0, 0, 0, 2, 0, 0, 6] ⟨[.idx 0], [⟨[], []⟩]⟩ _ _ _ h1 rfl (by decide) rfl
  have h3 := CalmReach.fire (E := C08H.exEnv) (ids := [⟨1, 0⟩, ⟨2, 0⟩]) 1 _ _ (.probe 0)
    ⟨[.perm [0]], [⟨[[0, 1, 0, 0, 0, 0, 0]], []⟩]⟩ _ _ _ h2 rfl (by decide) (by intro tok _ _ _ _; rfl) rfl
  have h4 := CalmReach.deliver (E := C08H.exEnv) (ids := [⟨1, 0⟩, ⟨2, 0⟩]) 0 _ _ ⟨1, 0⟩
    [0, 2, 0, 0, 0, 0, 0, 1, 0, 0, 0, 1, 0, 1, 0, 1, 0, 0, 0, 0, 0] ⟨[.idx 0], [⟨[[0, 2, 0, 0, 0, 0, 0]], []⟩]⟩ _ _ _
    h3 rfl (by decide) rfl
  exact ⟨_, h4, by decide⟩

/-! non-vacuity of `request_is_answered_as_the_table_says`: a fresh instance 1 (reachable, calm, not defunct) handles
   the Ping numbered 1 that instance 2 sends in the worked cluster of `C02S`; every premise holds, and the datagram
   it sends back is the Ack numbered 1 -/
def exPing : Bytes := [0, 2, 0, 0, 0, 0, 0, 1, 0, 0, 0, 1, 0, 1, 0, 1, 0, 0, 0, 0, 0]
def exFresh : State := State.init ⟨1, 0⟩ .none C08H.exCfg

omit hl hhdr hdist in
theorem exFresh_calm : CalmInv C08H.exEnv (fun _ => 0) C12S.exIds exFresh := by
  refine ⟨⟨by unfold IdWire; decide, by decide⟩, ⟨by decide, by decide⟩, ?_, ?_, ?_⟩
  · intro m hm; simp [exFresh, State.init] at hm
  · intro e he; simp [exFresh, State.init] at he
  · intro e he; simp [exFresh, State.init] at he

omit hl hhdr hdist in
theorem exPing_calm : DataOk C08H.exEnv (CalmM (fun _ => 0) C12S.exIds) (CalmH (fun _ => 0) C12S.exIds) exPing := by
  intro h rest hdec
  have hd : C08H.exEnv.codec.decHeader exPing = some (⟨⟨2, 0⟩, 0, ⟨1, 0⟩, .ping 1⟩, [0, 1, 0, 1, 0, 0, 0, 0, 0]) := by decide
  rw [hd] at hdec
  simp only [Option.some.injEq, Prod.mk.injEq] at hdec
  obtain ⟨rfl, rfl⟩ := hdec
  refine ⟨⟨⟨by unfold IdWire; decide, by decide, by unfold IdWire; decide, by simp [MsgWire]⟩, by decide, by decide, by simp, rfl⟩, ?_⟩
  intro us tail hp
  have : parseSection C08H.exEnv ⟨⟨2, 0⟩, 0, ⟨1, 0⟩, .ping 1⟩ [0, 1, 0, 1, 0, 0, 0, 0, 0] = some ([⟨⟨1, 0⟩, 0, .alive⟩], []) := by decide
  rw [this] at hp
  simp only [Option.some.injEq, Prod.mk.injEq] at hp
  obtain ⟨rfl, _⟩ := hp
  intro u hu
  simp only [List.mem_singleton] at hu
  subst hu
  exact ⟨⟨⟨by unfold IdWire; decide, by decide⟩, by decide⟩, rfl, by decide, rfl⟩

omit hl hhdr hdist in
set_option maxRecDepth 8000 in
example : ∃ pre bytes s' eff left,
    Foca.step C08H.exEnv exFresh (.data exPing) ⟨[.idx 0], [⟨[[0, 2, 0, 0, 0, 0, 0]], []⟩]⟩ = .done s' eff .ok left ∧
    eff = pre ++ [.send ⟨2, 0⟩ bytes] ∧
    (C08H.exEnv.codec.decHeader bytes).map (·.1) = some ⟨s'.id, s'.inc, ⟨2, 0⟩, .ack 1⟩ := by
  have hstep : ∃ s' eff left, Foca.step C08H.exEnv exFresh (.data exPing) ⟨[.idx 0], [⟨[[0, 2, 0, 0, 0, 0, 0]], []⟩]⟩ =
      .done s' eff .ok left := ⟨_, _, _, rfl⟩
  obtain ⟨s', eff, left, hs⟩ := hstep
  obtain ⟨pre, bytes, h1, _, h3⟩ := C12S.request_is_answered_as_the_table_says C08H.exEnv (fun _ => 0) C12S.exIds
    C07H.bundled_header_laws.1 C12S.exIds_distinct exFresh_calm (Reachable.init ⟨1, 0⟩ .none C08H.exCfg) (by decide)
    exPing_calm hs ⟨⟨2, 0⟩, 0, ⟨1, 0⟩, .ping 1⟩ [0, 1, 0, 1, 0, 0, 0, 0, 0] (by decide) rfl ⟨2, 0⟩ (.ack 1) rfl
  exact ⟨pre, bytes, s', eff, left, hs, h1, h3⟩

end Foca.C02S
