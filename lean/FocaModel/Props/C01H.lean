/-
  C01 at the level of the instance: `Foca::apply_many` is the join of `Props/C01.lean` at every third-party
  address, and a two-way exchange of full states makes two instances agree there.
-/
import FocaModel.Proofs.ViewInv
import FocaModel.Props.C01
namespace Foca.C01H
open Foca

/-- **`apply_many` is a join at every address but the instance's own.** Whatever the batch contains — also updates
    about the instance itself (which may make it refute, renew its identity or go Defunct) or about other
    identities of its address (stored as Down) — and whatever the RNG draws, a successful call leaves at any other
    address `x` exactly the join of what was known and what the batch says about `x`; the own address stays. -/
theorem apply_many_is_join_at_third_parties (E : Env) (s : State) (us : List Member) (b : Bool) (orc : Oracle)
    (hw : AllWF s.ms) (hu : AllWF us) (x : Nat) (hx : x ≠ s.id.addr) :
    match Foca.step E s (.applyMany us b) orc with
    | .done s' _ r _ => r = .ok → s'.id.addr = s.id.addr ∧ AllWF s'.ms ∧
        viewKey s'.ms x = omax (viewKey s.ms x) (viewKey us x)
    | .stuck _ => True := by
  have := (VInv.applyMany (a0 := s.id.addr) (x := x) (v := viewKey s.ms x) E us b hu hx).run ⟨s, [], orc⟩ ⟨rfl, hw, rfl⟩
  unfold PostOk at this
  unfold Foca.step Foca.runOp
  simp only [bind_run]
  cases hr : applyMany E us b ⟨s, [], orc⟩ with
  | stuck y => trivial
  | err e c' => simp
  | ok u c' =>
    rw [hr] at this
    simp only [pure_run]
    intro _
    exact this

/-- **After two instances hand each other their full membership state, they agree on every third-party
    address** — same identity, same state, same incarnation unless Down (`C01.equal_keys_mean_equal_records`) —
    for every RNG draw on either side and whatever each one learns about itself from the other's state. -/
theorem exchange_agrees_on_third_parties (E : Env) (sa sb : State) (ba bb : Bool) (orca orcb : Oracle)
    (hwa : AllWF sa.ms) (hwb : AllWF sb.ms) (x : Nat) (hxa : x ≠ sa.id.addr) (hxb : x ≠ sb.id.addr)
    {sa' sb' : State} {effa effb : List Effect} {la lb : Oracle}
    (ha : Foca.step E sa (.applyMany sb.ms ba) orca = .done sa' effa .ok la)
    (hb : Foca.step E sb (.applyMany sa.ms bb) orcb = .done sb' effb .ok lb) :
    viewKey sa'.ms x = viewKey sb'.ms x := by
  have h1 := apply_many_is_join_at_third_parties E sa sb.ms ba orca hwa hwb x hxa
  have h2 := apply_many_is_join_at_third_parties E sb sa.ms bb orcb hwb hwa x hxb
  rw [ha] at h1
  rw [hb] at h2
  rw [(h1 rfl).2.2, (h2 rfl).2.2, omax_comm]

/-- … and re-applying one's own full state changes no third-party record's key -/
theorem reapply_own_state_keeps_third_parties (E : Env) (s : State) (b : Bool) (orc : Oracle) (hw : AllWF s.ms)
    (x : Nat) (hx : x ≠ s.id.addr) {s' : State} {eff : List Effect} {l : Oracle}
    (h : Foca.step E s (.applyMany s.ms b) orc = .done s' eff .ok l) : viewKey s'.ms x = viewKey s.ms x := by
  have h1 := apply_many_is_join_at_third_parties E s s.ms b orc hw hw x hx
  rw [h] at h1
  rw [(h1 rfl).2.2, omax_idem]

end Foca.C01H
