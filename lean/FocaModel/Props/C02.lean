/-
  C02 — fault-free cluster: full discovery and zero false suspicion.
  Instance-level lemmas the cluster-level argument is made of (DESIGN.md section 6, C02). The composition
  over a whole cluster (network + clocks) is not a Lean theorem: it is explored by the simulator.
-/
import FocaModel.Proofs.SendAll
import FocaModel.Proofs.View
import FocaModel.Props.C12
namespace Foca.C02
open Foca

/-- a list in which nobody is suspected or down -/
def Calm (ms : List Member) : Prop := ∀ m ∈ ms, m.st = .alive

/-- Alive knowledge never creates suspicion: applying an Alive update to a calm list leaves it calm,
    for every incarnation, every address conflict outcome and every RNG draw. Hence, if no instance of a
    cluster ever originates a Suspect or Down update, no instance ever records one. -/
theorem alive_updates_keep_the_list_calm (ms : List Member) (u : Member) (j : Nat) (hc : Calm ms) (hu : u.st = .alive) :
    Calm (applyP ms u j) := by
  unfold applyP
  cases h : applyExisting ms u (fun _ => true) with
  | none =>
    intro m hm
    have := (applyNew_perm ms u j).mem_iff.1 hm
    simp at this
    rcases this with h1 | h1
    · subst h1; exact hu
    · exact hc m h1
  | some r =>
    obtain ⟨ms', s⟩ := r
    simp only
    induction ms generalizing ms' s with
    | nil => simp [applyExisting] at h
    | cons k rest ih =>
      unfold applyExisting at h
      by_cases hk : (k.id.addr == u.id.addr) = true
      · simp only [hk, if_true] at h
        simp at h
        obtain ⟨h1, _⟩ := h
        subst h1
        intro m hm
        simp at hm
        rcases hm with hm | hm
        · subst hm
          have hka := hc k (by simp)
          unfold updateKnown
          by_cases hid : k.id = u.id
          · rw [hka, hu] 
            by_cases hcc : Gen.canChange .alive k.inc u.inc .alive = true <;> simp [hid, hcc, hka]
          · by_cases hw : k.id.wins u.id = true <;> simp [hid, hw, hu, hka]
        · exact hc m (by simp [hm])
      · simp only [hk, Bool.false_eq_true, if_false] at h
        cases hr : applyExisting rest u (fun _ => true) with
        | none => rw [hr] at h; simp at h
        | some r =>
          obtain ⟨rest', s'⟩ := r
          rw [hr] at h
          simp at h
          obtain ⟨h1, _⟩ := h
          subst h1
          intro m hm
          simp at hm
          rcases hm with hm | hm
          · subst hm; exact hc m (by simp)
          · exact ih (fun x hx => hc x (by simp [hx])) _ _ hr m hm

/-- Sender liveness is learned from every header: a datagram from an unknown address registers its
    sender as an active member (this is how every recipient of a joiner's Announce, and every member it
    pings later, gets to list it). -/
theorem sender_is_learned_from_header (ms : List Member) (src : Id) (inc j : Nat)
    (hnew : applyExisting ms ⟨src, inc, .alive⟩ (fun _ => true) = none) :
    ⟨src, inc, .alive⟩ ∈ applyP ms ⟨src, inc, .alive⟩ j ∧ (applyP ms ⟨src, inc, .alive⟩ j).length = ms.length + 1 := by
  unfold applyP
  simp only [hnew]
  have hp := applyNew_perm ms ⟨src, inc, .alive⟩ j
  exact ⟨hp.mem_iff.2 (by simp), by simpa using hp.length_eq⟩

/-- A Ping from an active sender is answered with the Ack of the same number (so the prober's round succeeds). -/
theorem ping_gets_its_ack (E : Env) (src dst : Id) (inc n : Nat) (c : Ctx) :
    reactToMessage E ⟨src, inc, dst, .ping n⟩ c = sendMessage E src (.ack n) c :=
  C12.ping_is_acked E src dst inc n c

/-- A round in which the Ack arrived raises no suspicion: there is no failed member to suspect. -/
theorem acked_round_raises_no_suspicion (p : Probe) (h : p.directAckOk = true) : p.takeFailed.1 = none := by
  unfold Probe.takeFailed
  have : p.succeeded = true := (C12.succeeded_iff p).2 (Or.inl h)
  simp [this]

/-- Announce is answered with a Feed (the join sub-protocol). -/
theorem announce_gets_a_feed (E : Env) (src dst : Id) (inc : Nat) (c : Ctx) :
    reactToMessage E ⟨src, inc, dst, .announce⟩ c = sendMessage E src .feed c := by
  simp [reactToMessage]

/-- the Feed that answers an Announce offers members: the estimate of how many fit never drops below one (over the
    constant the translator reads from `send_message`) — with zero a joiner would learn nobody -/
theorem feed_offers_members : 1 ≤ Gen.feedMinEstimate := by decide

end Foca.C02
