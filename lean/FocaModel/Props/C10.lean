/-
  C10 — incarnation discipline, self-refutation and reaction to one's own death.
-/
import FocaModel.Proofs.SendAll
namespace Foca.C10
open Foca

/-- An Alive update about the instance itself changes nothing. -/
theorem alive_about_self_is_ignored (E : Env) (k : Nat) (c : Ctx) : handleSelfUpdate E k .alive c = .ok () c := by
  unfold handleSelfUpdate
  rfl

/-- gossiping never touches identity, incarnation, connection state or token -/
theorem gossip_keeps_incarnation (E : Env) (c : Ctx) :
    match gossip E c with
    | .ok _ c' => c'.s.inc = c.s.inc ∧ c'.s.id = c.s.id ∧ c'.s.conn = c.s.conn
    | .err _ c' => c'.s.inc = c.s.inc ∧ c'.s.id = c.s.id ∧ c'.s.conn = c.s.conn
    | .stuck _ => True := by
  unfold gossip
  simp only [bind_run, getS_run]
  have h := chooseAndSend_spec E c.s.cfg.k .gossip c
  generalize chooseAndSend E c.s.cfg.k .gossip c = r at h ⊢
  cases r with
  | stuck x => trivial
  | ok u c' =>
    obtain ⟨hob, _⟩ := h
    unfold OnlyBacklogs at hob
    simp only []
    rw [hob]
    exact ⟨rfl, rfl, rfl⟩
  | err k c' =>
    obtain ⟨_, hob, _⟩ := h
    unfold OnlyBacklogs at hob
    simp only []
    rw [hob]
    exact ⟨rfl, rfl, rfl⟩

/-- The refutation rule, below the maximum: a suspicion at an incarnation `k` not lower than the
    instance's own makes the incarnation `k + 1` (strictly greater than `k`); an older suspicion leaves
    it alone; the identity is kept; the refutation is gossiped (datagrams of the current identity). -/
theorem suspicion_is_refuted (E : Env) (k : Nat) (c : Ctx) (hmax : max k c.s.inc ≠ 65535)
    (hlive : c.s.conn ≠ .undead) :
    match handleSelfUpdate E k .suspect c with
    | .ok _ c' => c'.s.inc = (if c.s.inc ≤ k then satAdd16 (max k c.s.inc) else c.s.inc) ∧ c'.s.id = c.s.id
    | .err _ c' => c'.s.inc = (if c.s.inc ≤ k then satAdd16 (max k c.s.inc) else c.s.inc) ∧ c'.s.id = c.s.id
    | .stuck _ => True := by
  unfold handleSelfUpdate
  simp only [bind_run, getS_run]
  have hm : ¬ (max k c.s.inc == 65535) = true := by simpa using hmax
  have hu : ¬ (c.s.conn == Conn.undead) = true := by simpa using hlive
  simp only [hu, hm, Bool.false_eq_true, if_false]
  have hcmp : Gen.increaseIncarnation c.s.inc k = decide (c.s.inc ≤ k) := by
    unfold Gen.increaseIncarnation
    rcases Nat.lt_trichotomy c.s.inc k with h | h | h
    · simp [Nat.compare_eq_lt.2 h]; omega
    · simp [h]
    · simp [Nat.compare_eq_gt.2 h]; omega
  rw [hcmp]
  by_cases hle : c.s.inc ≤ k
  · simp only [hle, decide_true, ↓reduceIte, bind_run, modS_run]
    have hg := gossip_keeps_incarnation E { c with s := { c.s with inc := satAdd16 (max k c.s.inc) } }
    generalize gossip E { c with s := { c.s with inc := satAdd16 (max k c.s.inc) } } = r at hg ⊢
    cases r with
    | stuck x => trivial
    | ok u c' => exact ⟨hg.1, hg.2.1⟩
    | err e c' => exact ⟨hg.1, hg.2.1⟩
  · simp only [hle, decide_false, Bool.false_eq_true, ↓reduceIte, pure_run]
    have hg := gossip_keeps_incarnation E c
    generalize gossip E c = r at hg ⊢
    cases r with
    | stuck x => trivial
    | ok u c' => exact ⟨hg.1, hg.2.1⟩
    | err e c' => exact ⟨hg.1, hg.2.1⟩

/-- A defunct instance (it left, or was declared down and could not rejoin) never refutes: a suspicion
    about its dead identity changes nothing and sends nothing. False before the `fix:` commit for F8. -/
theorem defunct_instance_does_not_refute (E : Env) (k : Nat) (c : Ctx) (h : c.s.conn = .undead) :
    handleSelfUpdate E k .suspect c = .ok () c := by
  unfold handleSelfUpdate
  simp [h]

/-- strictly greater than the suspected incarnation (the point of the refutation) -/
theorem refutation_exceeds_suspicion (k own : Nat) (h1 : own ≤ k) (h2 : max k own ≠ 65535) (h3 : k ≤ 65535) :
    satAdd16 (max k own) > k := by
  unfold satAdd16
  have : max k own = k := Nat.max_eq_left h1
  rw [this] at h2 ⊢
  split <;> omega

/-- Without a usable renewed identity (`renew` gives nothing, the same identity, or a loser of the
    conflict) the instance does not rejoin — and nothing changes in the attempt. -/
theorem no_rejoin_without_winning_identity (E : Env) (c : Ctx)
    (h : ∀ n, renew c.s.policy c.s.id = some n → (n = c.s.id ∨ renewWins c.s.policy n c.s.id = false)) :
    attemptRejoin E c = .ok false c := by
  unfold attemptRejoin
  simp only [bind_run, getS_run]
  cases hr : renew c.s.policy c.s.id with
  | none => rfl
  | some n =>
    rcases h n hr with h1 | h1
    · subst h1; simp
    · by_cases hn : c.s.id = n
      · simp [hn]
      · simp [hn, h1]

/-- … in which case learning that its own identity is Down makes it Defunct (Undead), never active. -/
theorem down_without_renewal_is_defunct (E : Env) (c : Ctx)
    (h : ∀ n, renew c.s.policy c.s.id = some n → (n = c.s.id ∨ renewWins c.s.policy n c.s.id = false)) :
    ∃ c', handleSelfUpdate E 0 .down c = .ok () c' ∧ c'.s.conn = .undead ∧ c'.s.id = c.s.id ∧
      c'.eff = c.eff ++ [.notify .defunct] := by
  unfold handleSelfUpdate
  simp only [bind_run, no_rejoin_without_winning_identity E c h]
  simp [becomeUndead]

/-- `reset` (identity change, reuse of a down identity) puts the incarnation back to 0. -/
theorem reset_restarts_incarnation (c : Ctx) :
    ∃ c', reset c = .ok () c' ∧ c'.s.inc = 0 ∧ c'.s.conn = .disconnected ∧ c'.eff = c.eff := by
  unfold reset
  simp

/-- the bump policy used by renewable identities yields a different identity that wins the conflict — as long as
    the `u16` generation does not wrap (at 65535 it wraps to 0, which does not win: the instance goes Defunct) -/
theorem bump_renews_to_a_winner (i : Id) (hg : i.gen < 65535) :
    ∃ n, renew .bump i = some n ∧ n ≠ i ∧ n.wins i = true ∧ n.addr = i.addr := by
  have hm : (i.gen + 1) % 65536 = i.gen + 1 := Nat.mod_eq_of_lt (by omega)
  refine ⟨⟨i.addr, i.gen + 1⟩, by simp [renew, hm], ?_, ?_, rfl⟩
  · intro h; have := congrArg Id.gen h; simp at this
  · simp [Id.wins]

end Foca.C10
