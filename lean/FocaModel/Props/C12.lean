/-
  C12 — a probe succeeds only on genuine evidence; indirect probing is routed correctly.
-/
import FocaModel.Proofs.SendAll
import FocaModel.Props.C13
import FocaModel.Proofs.SwapRemove
import FocaModel.Proofs.Units
namespace Foca.C12
open Foca

/-- `Probe::succeeded` (generated): direct ack flag or a positive count of indirect acks — nothing else. -/
theorem succeeded_iff (p : Probe) : p.succeeded = true ↔ p.directAckOk = true ∨ p.indirectAckCount > 0 := by
  simp [Probe.succeeded, Gen.probeSucceeded]

/-- An Ack counts only if it carries the current probe number and comes from the probed member. -/
theorem ack_counts_only_from_target (p : Probe) (src : Id) (n : Nat)
    (h : (p.receiveAck src n).directAckOk = true) (h0 : p.directAckOk = false) :
    n = p.number ∧ ∃ m, p.direct = some m ∧ m.id = src := by
  unfold Probe.receiveAck at h
  by_cases hc : (n == p.number && p.isProbing src) = true
  · simp at hc
    refine ⟨hc.1, ?_⟩
    unfold Probe.isProbing at hc
    cases hd : p.direct with
    | none => simp [hd] at hc
    | some m => simp [hd] at hc; exact ⟨m, rfl, hc.2⟩
  · simp [hc, h0] at h

/-- … and never touches anything but that flag. -/
theorem ack_changes_only_the_flag (p : Probe) (src : Id) (n : Nat) :
    (p.receiveAck src n).direct = p.direct ∧ (p.receiveAck src n).number = p.number ∧
    (p.receiveAck src n).indirectAckCount = p.indirectAckCount ∧ (p.receiveAck src n).indirect = p.indirect := by
  unfold Probe.receiveAck
  split <;> simp

/-- A ForwardedAck counts only with the current probe number and from a member that was asked in this
    round and has not been counted yet (it is removed from the list: no double counting). -/
theorem forwarded_ack_counts_only_from_asked (p : Probe) (src : Id) (n : Nat)
    (h : (p.receiveIndirectAck src n).indirectAckCount > p.indirectAckCount) :
    n = p.number ∧ src ∈ p.indirect ∧
      (p.receiveIndirectAck src n).indirectAckCount = p.indirectAckCount + 1 ∧
      (p.receiveIndirectAck src n).indirect.length + 1 = p.indirect.length := by
  unfold Probe.receiveIndirectAck at h ⊢
  by_cases hn : (p.number != n) = true
  · simp [hn] at h
  · have hn' : p.number = n := by simpa using hn
    simp only [hn, Bool.false_eq_true, if_false] at h ⊢
    cases hf : p.indirect.findIdx? (· == src) with
    | none => simp [hf] at h
    | some pos =>
      simp only [hf] at h ⊢
      have hlt : pos < p.indirect.length := by
        have := List.findIdx?_eq_some_iff_findIdx_eq.1 hf
        exact this.1
      have hmem : src ∈ p.indirect := by
        have h1 := List.findIdx?_eq_some_iff_getElem.1 hf
        obtain ⟨hl, hp, _⟩ := h1
        have : p.indirect[pos] = src := by simpa using hp
        rw [← this]
        exact List.getElem_mem hl
      refine ⟨hn'.symm, hmem, trivial, ?_⟩
      unfold swapRemove
      exact swapRemoveAt_length hlt

/-- Only a round without evidence yields a failed member (and thus a suspicion). -/
theorem failed_only_without_evidence (p : Probe) (m : Member) (h : p.takeFailed.1 = some m) :
    p.directAckOk = false ∧ p.indirectAckCount = 0 ∧ p.direct = some m := by
  unfold Probe.takeFailed at h
  by_cases hs : p.succeeded = true
  · simp [hs] at h
  · have : ¬ (p.directAckOk = true ∨ p.indirectAckCount > 0) := fun hc => hs ((succeeded_iff p).2 hc)
    simp [hs] at h
    refine ⟨?_, ?_, h⟩
    · cases hd : p.directAckOk with
      | false => rfl
      | true => exact absurd (Or.inl hd) this
    · omega

/-- Starting a round forgets all earlier evidence and moves to the next probe number (mod 256). -/
theorem start_resets_evidence (p : Probe) (t : Member) :
    (p.start t).directAckOk = false ∧ (p.start t).indirectAckCount = 0 ∧ (p.start t).indirect = [] ∧
    (p.start t).direct = some t ∧ (p.start t).number = wrapAdd8 p.number ∧ (p.start t).reached = false := by
  simp [Probe.start, Probe.clear]

/-- Indirect requests go to at most `num_indirect_probes` listed active members, never to the target. -/
theorem indirect_helpers (k : Nat) (probed : Id) (ms : List Member) (c : Ctx) (r : List Member) (c' : Ctx)
    (h : chooseLoop k (fun m => m.active && m.id != probed) ms [] 0 c = .ok r c') :
    r.length ≤ k ∧ ∀ m ∈ r, m ∈ ms ∧ m.active = true ∧ m.id ≠ probed := by
  have hs := chooseLoop_spec k (fun m => m.active && m.id != probed) ms [] 0 c
  rw [h] at hs
  obtain ⟨_, _, hmem, hlen⟩ := hs
  refine ⟨by simpa using hlen, ?_⟩
  intro m hm
  rcases hmem m hm with h1 | ⟨h1, h2⟩
  · simp at h1
  · simp at h2; exact ⟨h1, h2.1, h2.2⟩

/-- The SendIndirectProbe timer does nothing when the token is stale, another member is being probed,
    or the probe has already succeeded. -/
theorem indirect_timer_guards (E : Env) (probed : Id) (tok : Nat) (c : Ctx)
    (h : tok ≠ c.s.token ∨ (tok = c.s.token ∧ (c.s.probe.isProbing probed = false ∨ c.s.probe.succeeded = true))) :
    ∃ c', handleTimer E (.indirect probed tok) c = .ok () c' ∧ c'.eff = c.eff ∧ c'.s.ms = c.s.ms ∧
      c'.s.probe.indirect = c.s.probe.indirect := by
  unfold handleTimer
  rcases h with h | ⟨h, h2⟩
  · exact ⟨c, by simp [h], rfl, rfl, rfl⟩
  · subst h
    rcases h2 with h2 | h2
    · refine ⟨{ c with s := { c.s with probe := { c.s.probe with reached := true } } }, ?_, rfl, rfl, rfl⟩
      simp [h2]
    · refine ⟨{ c with s := { c.s with probe := { c.s.probe with reached := true } } }, ?_, rfl, rfl, rfl⟩
      cases hp : c.s.probe.isProbing probed <;> simp [hp, h2]

/-! ### the reply table: Ping → Ack of the same number; the relay preserves origin, target and number -/

theorem ping_is_acked (E : Env) (src dst : Id) (inc n : Nat) (c : Ctx) :
    reactToMessage E ⟨src, inc, dst, .ping n⟩ c = sendMessage E src (.ack n) c := by
  simp [reactToMessage]

theorem ping_req_is_relayed (E : Env) (src dst target : Id) (inc n : Nat) (c : Ctx) (h : target ≠ c.s.id) :
    reactToMessage E ⟨src, inc, dst, .pingReq target n⟩ c = sendMessage E target (.indirectPing src n) c := by
  simp [reactToMessage, h]

theorem indirect_ping_is_answered (E : Env) (src dst origin : Id) (inc n : Nat) (c : Ctx) (h : origin ≠ c.s.id) :
    reactToMessage E ⟨src, inc, dst, .indirectPing origin n⟩ c = sendMessage E src (.indirectAck origin n) c := by
  simp [reactToMessage, h]

theorem indirect_ack_is_forwarded (E : Env) (src dst target : Id) (inc n : Nat) (c : Ctx) (h : target ≠ c.s.id) :
    reactToMessage E ⟨src, inc, dst, .indirectAck target n⟩ c = sendMessage E target (.forwardedAck src n) c := by
  simp [reactToMessage, h]

/-- Requests naming the instance itself as relay target are rejected without any effect. -/
theorem relay_for_ourselves_is_rejected (E : Env) (src dst : Id) (inc n : Nat) (c : Ctx) :
    reactToMessage E ⟨src, inc, dst, .pingReq c.s.id n⟩ c = .err .indirectForOurselves c ∧
    reactToMessage E ⟨src, inc, dst, .indirectPing c.s.id n⟩ c = .err .indirectForOurselves c ∧
    reactToMessage E ⟨src, inc, dst, .indirectAck c.s.id n⟩ c = .err .indirectForOurselves c ∧
    reactToMessage E ⟨src, inc, dst, .forwardedAck c.s.id n⟩ c = .err .indirectForOurselves c := by
  simp [reactToMessage]

/-- The record of a probed member that did not answer: still active and not known at a higher incarnation, it
    becomes (or stays) Suspect and is reported active … -/
theorem unanswered_member_becomes_suspect (k : Member) (inc : Nat) (hact : k.active = true) (hle : k.inc ≤ inc) :
    (updateKnown k ⟨k.id, inc, .suspect⟩ (fun _ => true)).1.st = .suspect ∧
    (updateKnown k ⟨k.id, inc, .suspect⟩ (fun _ => true)).2.activeNow = true := by
  unfold updateKnown
  cases hst : k.st with
  | down => simp [Member.active, hst, Gen.isActive] at hact
  | alive =>
    have : decide (inc ≥ k.inc) = true := by simpa using hle
    simp [Gen.canChange, hst, this, Member.active, Gen.isActive]
  | suspect =>
    by_cases hgt : inc > k.inc
    · simp [Gen.canChange, hst, hgt, Member.active, Gen.isActive]
    · simp [Gen.canChange, hst, hgt, Member.active, Gen.isActive]

/-- … while one known at a higher incarnation (it refuted in the meantime) is left exactly as it is. -/
theorem refuted_member_is_left_alone (k : Member) (inc : Nat) (hgt : k.inc > inc) :
    (updateKnown k ⟨k.id, inc, .suspect⟩ (fun _ => true)).1 = k := by
  unfold updateKnown
  have h1 : ¬ inc > k.inc := by omega
  have h2 : ¬ inc ≥ k.inc := by omega
  cases hst : k.st <;> simp [Gen.canChange, hst, h1, h2]

/-- **A failed round.** When the previous round ended without evidence (`take_failed` yields its target) and the
    target is still listed and active after the Suspect update, the round leaves the member list as that update
    makes it and schedules exactly one suspicion timeout — for that identity, that incarnation, the current
    epoch, after `suspect_to_down_after` — whether or not the update changed anything (a member that was
    already Suspect gets its timeout too). -/
theorem failed_round_schedules_exactly_one_timeout (E : Env) (c : Ctx) (failed : Member) (ms' : List Member) (sm : Summary)
    (hf : c.s.probe.takeFailed.1 = some failed)
    (hex : applyExisting c.s.ms ⟨failed.id, failed.inc, .suspect⟩ (fun _ => true) = some (ms', sm))
    (hact : sm.activeNow = true) :
    ∃ c', probeSuspectFailed E c = .ok () c' ∧ c'.s.ms = ms' ∧
      ∃ pre, c'.eff = c.eff ++ pre ++ [.timer c.s.cfg.s2d (.s2d failed.id failed.inc c.s.token)] ∧
        ∀ e ∈ pre, isS2d e = false := by
  unfold probeSuspectFailed
  simp only [bind_run, getS_run, modS_run, hf]
  obtain ⟨c3, hrun, hms, _, hcfg, htok, _, _, heff, _⟩ := applyExistingReport_some E
    (c := { c with s := { c.s with probe := c.s.probe.takeFailed.2 } }) hex
  simp only [hrun, hact, if_true, getS_run, emit_run]
  refine ⟨_, rfl, hms, summaryEffects c.s.cfg.rda sm ⟨failed.id, failed.inc, .suspect⟩, ?_, ?_⟩
  · rw [heff, hcfg, htok]
  · intro e he
    exact (summaryEffects_plain _ _ _ e he).1

/-- … and no timeout at all when the target was forgotten in the meantime -/
theorem failed_round_forgotten_member (E : Env) (c : Ctx) (failed : Member)
    (hf : c.s.probe.takeFailed.1 = some failed)
    (hex : applyExisting c.s.ms ⟨failed.id, failed.inc, .suspect⟩ (fun _ => true) = none) :
    probeSuspectFailed E c = .ok () { c with s := { c.s with probe := c.s.probe.takeFailed.2 } } := by
  unfold probeSuspectFailed
  simp only [bind_run, getS_run, modS_run, hf]
  rw [applyExistingReport_none E (c := { c with s := { c.s with probe := c.s.probe.takeFailed.2 } }) hex]
  rfl

end Foca.C12
