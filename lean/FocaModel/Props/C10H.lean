/-
  C10, whole histories — the own incarnation never goes backwards while an identity is in use.
-/
import FocaModel.Proofs.IncInv
import FocaModel.Proofs.TellInv
import FocaModel.Props.C08H
namespace Foca.C10H
open Foca

/-- the two public calls documented to restart the incarnation -/
def Op.restartsIncarnation : Op → Bool
  | .changeIdentity _ _ => true
  | .reuseDown => true
  | _ => false

/-- `s'` is at or beyond `s`: same address, and either a later generation of the identity (a renewal), or the
    same generation with an incarnation that is not lower -/
def Forward (s s' : State) : Prop :=
  s'.id.addr = s.id.addr ∧ (s'.id.gen > s.id.gen ∨ (s'.id.gen = s.id.gen ∧ s'.inc ≥ s.inc))

theorem Forward.refl (s : State) : Forward s s := ⟨rfl, Or.inr ⟨rfl, Nat.le_refl _⟩⟩

theorem Forward.trans {a b c : State} (h1 : Forward a b) (h2 : Forward b c) : Forward a c := by
  obtain ⟨ha, h1⟩ := h1
  obtain ⟨hb, h2⟩ := h2
  refine ⟨by rw [hb, ha], ?_⟩
  rcases h1 with h1 | h1 <;> rcases h2 with h2 | h2 <;> omega

/-- One public call other than `change_identity` / `reuse_down_identity` — any input, any datagram bytes, any
    timer, any RNG, succeeding or failing — never moves the instance backwards: it keeps its address, and
    either renews to a later generation or keeps the generation with an incarnation at least as high. -/
theorem incarnation_never_decreases_step (E : Env) (s : State) (op : Op) (orc : Oracle)
    (hop : Op.restartsIncarnation op = false) (hinc : s.inc ≤ 65535) :
    match step E s op orc with
    | .done s' _ _ _ => Forward s s' ∧ s'.inc ≤ 65535
    | .stuck _ => True := by
  have F := IncInv.full E s.id.addr s.id.gen s.inc
  have hrun := (F.runOp op
    (fun i p h => by subst h; simp [Op.restartsIncarnation] at hop)
    (fun h => by subst h; simp [Op.restartsIncarnation] at hop)
    (fun _ _ _ _ => trivial) (fun _ _ _ _ _ => trivial)
    (fun _ _ _ _ _ => ⟨trivial, fun _ _ _ _ _ => trivial⟩)
    (fun id _ => removeDown_of_frame (by intro s s' h hs; exact IncInv.of_same (by rw [h]) (by rw [h]) hs) id)).run ⟨s, [], orc⟩
    ⟨rfl, hinc, Or.inr ⟨rfl, Nat.le_refl _⟩⟩
  unfold step
  cases hr : runOp E op ⟨s, [], orc⟩ with
  | stuck x => trivial
  | ok r c => rw [hr] at hrun; exact ⟨⟨hrun.1, hrun.2.2⟩, hrun.2.1⟩
  | err e c => rw [hr] at hrun; exact ⟨⟨hrun.1, hrun.2.2⟩, hrun.2.1⟩

/-- … in particular, while the identity stays the same the incarnation never decreases -/
theorem same_identity_incarnation_monotone (E : Env) (s : State) (op : Op) (orc : Oracle)
    (hop : Op.restartsIncarnation op = false) (hinc : s.inc ≤ 65535)
    {s' : State} {eff : List Effect} {r : Res} {left : Oracle}
    (h : step E s op orc = .done s' eff r left) (hid : s'.id = s.id) : s'.inc ≥ s.inc := by
  have := incarnation_never_decreases_step E s op orc hop hinc
  rw [h] at this
  obtain ⟨⟨_, h2⟩, _⟩ := this
  rw [hid] at h2
  rcases h2 with h2 | h2 <;> omega

/-- Over any history of calls that contains no `change_identity` / `reuse_down_identity`, of any length, the
    instance only moves forward; whenever it is seen again under the same identity its incarnation is at
    least what it was. -/
theorem incarnation_monotone_over_histories (E : Env) {s s' : State}
    (h : RunsTo E (fun op => Op.restartsIncarnation op = false) s s') (hinc : s.inc ≤ 65535) :
    Forward s s' ∧ s'.inc ≤ 65535 ∧ (s'.id = s.id → s'.inc ≥ s.inc) := by
  have key : Forward s s' ∧ s'.inc ≤ 65535 := by
    induction h with
    | refl => exact ⟨Forward.refl _, hinc⟩
    | step op orc eff r left _ hop hstep ih =>
      have := incarnation_never_decreases_step E _ op orc hop ih.2
      rw [hstep] at this
      exact ⟨ih.1.trans this.1, this.2⟩
  refine ⟨key.1, key.2, fun hid => ?_⟩
  obtain ⟨_, h2⟩ := key.1
  rw [hid] at h2
  rcases h2 with h2 | h2 <;> omega

/-- non-vacuity: a suspicion about the own identity at incarnation 4 raises the incarnation from 0 to 5 -/
example : ∃ s', RunsTo C08H.exEnv (fun op => Op.restartsIncarnation op = false) (State.init ⟨1, 0⟩ .none C08H.exCfg) s' ∧
    s'.inc = 5 ∧ s'.id = ⟨1, 0⟩ := by
  refine ⟨_, RunsTo.step (.applyMany [⟨⟨1, 0⟩, 4, .suspect⟩] false) ⟨[], []⟩ _ _ _ (RunsTo.refl _) rfl rfl, ?_⟩
  decide

/-- **Nothing is fabricated, one call.** Let `τ id` be an upper bound for every incarnation the instance was told for
    identity `id` so far, including by the input of this call (the members of an `apply_many` batch, the header
    and the member section of a datagram, the member a suspicion timeout names). If everything the instance holds
    — its member records, its probe target, and every update waiting in the backlog to be gossiped (the bytes of
    an encoded member) — is within `τ` before the call, it is within `τ` after it: the call, whatever it does,
    never produces a record or an update about `id` at an incarnation above what was told. -/
theorem nothing_fabricated_step (E : Env) (τ : Id → Nat) (s : State) (op : Op) (orc : Oracle)
    (h : TellInv E τ s) (hin : InputTold E τ op) :
    match step E s op orc with
    | .done s' _ _ _ => TellInv E τ s'
    | .stuck _ => True := TellInv.step E τ s op orc h hin

/-- a history together with a running bound of what the instance has been told -/
inductive ToldHistory (E : Env) : State → (Id → Nat) → Prop
  | init (id : Id) (pol : Policy) (cfg : Config) : ToldHistory E (State.init id pol cfg) (fun _ => 0)
  | step {s s' : State} {τ τ' : Id → Nat} (op : Op) (orc : Oracle) (eff : List Effect) (r : Res) (left : Oracle) :
      ToldHistory E s τ → (∀ id, τ id ≤ τ' id) → InputTold E τ' op →
      Foca.step E s op orc = .done s' eff r left → ToldHistory E s' τ'

/-- **Whole histories.** After any history of public calls, every member record, the probe target and every
    pending update are at incarnations the instance was told (`τ` only ever grows by what the inputs carry):
    what it can put into a Feed (its active records) or piggyback (its backlog) never exceeds that. -/
theorem nothing_fabricated_over_histories (E : Env) {s : State} {τ : Id → Nat} (h : ToldHistory E s τ) :
    (∀ m ∈ s.ms, m.inc ≤ τ m.id) ∧
    (∀ e ∈ s.updates, ∃ u : Member, e.data = E.codec.encMember u ∧ u.inc ≤ τ u.id) := by
  have key : TellInv E τ s := by
    induction h with
    | init id pol cfg =>
      refine ⟨?_, ?_, ?_⟩ <;> intro x hx <;> simp [State.init] at hx
    | step op orc eff r left _ hle hin hstep ih =>
      have := TellInv.step E _ _ op orc (TellInv.mono E _ hle ih) hin
      rw [hstep] at this
      exact this
  exact ⟨key.1, key.2.2⟩

/-- non-vacuity: told about 2:0 at incarnation 3, the instance lists it at 3 and has the update queued -/
example : ∃ s, ToldHistory C08H.exEnv s (fun id => if id = ⟨2, 0⟩ then 3 else 0) ∧ s.ms.map (·.inc) = [3] ∧
    s.updates.length = 1 := by
  refine ⟨_, ToldHistory.step (.applyMany [⟨⟨2, 0⟩, 3, .alive⟩] true) ⟨[.idx 0], []⟩ _ _ _
    (ToldHistory.init ⟨1, 0⟩ .none C08H.exCfg) (fun _ => Nat.zero_le _) ?_ rfl, ?_⟩
  · refine ⟨?_, ?_, ?_⟩
    · intro us b h u hu
      cases h
      simp at hu
      subst hu
      simp
    · intro data h; cases h
    · intro m inc tok h; cases h
  · decide

end Foca.C10H
