/-
  C07, receiving side — a datagram with the shape `send_message` produces (header; for the kinds that piggyback
  a 16-bit count and that many encoded members; length-prefixed non-empty items) is read back by `handle_data`
  exactly: it never trips a Decode or Malformed error, the members and the items arrive intact and in order.
-/
import FocaModel.Props.C07
import FocaModel.Props.C16
namespace Foca.C07H
open Foca Foca.C07

/-- the member section `send_message` writes for a list of members -/
def sectionBytes (E : Env) (us : List Member) : Bytes := u16be us.length ++ (us.map E.codec.encMember).flatten

/-- the custom tail `send_message` writes for a list of items -/
def tailBytes (items : List Bytes) : Bytes := (items.map (frame Gen.lenPrefix)).flatten

theorem u16be_reads_back (n : Nat) (h : n < 65536) : (n / 256 % 256) * 256 + n % 256 = n := by omega

/-- The count and the members of a section are read back exactly, and parsing stops exactly where the custom tail
    begins (any kind but Broadcast). -/
theorem section_parses_back (E : Env) (hl : CodecLaws E.codec) (h : Header) (us : List Member) (tail : Bytes)
    (hw : ∀ m ∈ us, Member.Wire m) (hn : us.length < 65536) (hmsg : h.msg ≠ .broadcast) :
    parseSection E h (sectionBytes E us ++ tail) = some (us, tail) := by
  unfold parseSection sectionBytes u16be
  have hm : (h.msg != .broadcast) = true := by simpa using hmsg
  have hge : decide ((us.length / 256 % 256 :: us.length % 256 :: ((us.map E.codec.encMember).flatten ++ tail)).length
      ≥ Gen.sectionMinBytes) = true := by simp [Gen.sectionMinBytes]
  simp only [List.cons_append, List.nil_append, List.append_assoc, hm, Bool.and_true, hge, if_true]
  rw [u16be_reads_back _ hn]
  exact section_reads_back E hl us tail hw

/-- A Broadcast has no member section: everything after the header is the custom tail. -/
theorem broadcast_body_is_tail (E : Env) (h : Header) (rest : Bytes) (hmsg : h.msg = .broadcast) :
    parseSection E h rest = some ([], rest) := by
  unfold parseSection
  simp [hmsg]

/-- Nothing after the header (Announce, TurnUndead, or no room left): no members, no items. -/
theorem empty_body (E : Env) (h : Header) : parseSection E h [] = some ([], []) := by
  unfold parseSection
  simp [Gen.sectionMinBytes]

/-- what the receive loop does with a list of items, semantically: the handler sees each item once, in order,
    with the sender; an accepted key enqueues the item with the full number of transmissions -/
def deliverItems (E : Env) (sender : Option Id) : List Bytes → M Unit
  | [] => pure ()
  | d :: ds => do
    let s ← getS
    match E.handler.receive s.hst d sender with
    | none => throwE .custom
    | some (none, h') => modS fun s => { s with hst := h' }
    | some (some key, h') =>
      modS fun s => { s with hst := h', custom := addOrReplace s.custom E.handler.invalidates key d s.cfg.maxTx }
    deliverItems E sender ds

theorem frame_cons (d : Bytes) (rest : Bytes) :
    frame Gen.lenPrefix d ++ rest = (d.length / 256 % 256) :: (d.length % 256) :: (d ++ rest) := by
  simp [frame, Gen.lenPrefix, u16be]

theorem tailBytes_cons (d : Bytes) (ds : List Bytes) :
    tailBytes (d :: ds) = (d.length / 256 % 256) :: (d.length % 256) :: (d ++ tailBytes ds) := by
  unfold tailBytes
  simp only [List.map_cons, List.flatten_cons]
  exact frame_cons d _

theorem tailBytes_cons_length (d : Bytes) (ds : List Bytes) :
    (tailBytes (d :: ds)).length = d.length + 2 + (tailBytes ds).length := by
  rw [tailBytes_cons]
  simp only [List.length_cons, List.length_append]
  omega

theorem tailBytes_length_ge (items : List Bytes) : (tailBytes items).length ≥ items.length := by
  induction items with
  | nil => simp [tailBytes]
  | cons d ds ih => rw [tailBytes_cons_length]; simp only [List.length_cons]; omega

theorem customLoop_delivers (E : Env) (sender : Option Id) (items : List Bytes) (fuel : Nat)
    (hlen : ∀ d ∈ items, 1 ≤ d.length ∧ d.length < 65536) (hfuel : fuel ≥ items.length + 1) :
    customLoop E sender fuel (tailBytes items) = deliverItems E sender items := by
  induction items generalizing fuel with
  | nil =>
    cases fuel with
    | zero => omega
    | succ f =>
      unfold tailBytes
      simp [customLoop, deliverItems, Gen.customLoopBytes]
  | cons d ds ih =>
    cases fuel with
    | zero => simp at hfuel
    | succ f =>
      obtain ⟨h1, h2⟩ := hlen d (by simp)
      have hrb := u16be_reads_back d.length h2
      rw [tailBytes_cons]
      funext c
      rw [customLoop]
      have hgt : ((d.length / 256 % 256) :: (d.length % 256) :: (d ++ tailBytes ds)).length > Gen.customLoopBytes := by
        simp only [List.length_cons, List.length_append, Gen.customLoopBytes]; omega
      have hz : ¬ (d.length / 256 % 256 * 256 + d.length % 256 = 0) := by omega
      have hfit : ¬ (d ++ tailBytes ds).length < d.length / 256 % 256 * 256 + d.length % 256 := by
        rw [hrb]; simp
      have hf : f ≥ ds.length + 1 := by simp only [List.length_cons] at hfuel; omega
      have ih' := ih f (fun x hx => hlen x (by simp [hx])) hf
      have hd0 : (d.length == 0) = false := beq_eq_false_iff_ne.2 (by omega)
      simp only [hgt, if_true, hrb, hd0, Bool.false_or, List.length_append, Nat.not_lt.2 (Nat.le_add_right _ _),
        decide_false, Bool.false_eq_true, if_false, List.take_left', List.drop_left', bind_run, getS_run, ih']
      rw [deliverItems]
      simp only [bind_run, getS_run]
      rfl

/-- **The custom tail is delivered.** `handle_custom_broadcasts` on the tail `send_message` wrote for a list of
    non-empty items (each shorter than 2¹⁶ bytes) does exactly `deliverItems`: every item, once, in order, byte for
    byte, with the sender — it can fail with the handler's own error, never with Malformed. -/
theorem custom_tail_is_delivered (E : Env) (sender : Option Id) (items : List Bytes)
    (hlen : ∀ d ∈ items, 1 ≤ d.length ∧ d.length < 65536) :
    handleCustomBroadcasts E (tailBytes items) sender = deliverItems E sender items := by
  unfold handleCustomBroadcasts
  have hshort : (!(tailBytes items).isEmpty && decide ((tailBytes items).length < Gen.customMinBytes)) = false := by
    cases items with
    | nil => simp [tailBytes]
    | cons d ds =>
      obtain ⟨h1, _⟩ := hlen d (by simp)
      have : (tailBytes (d :: ds)).length ≥ 3 := by rw [tailBytes_cons_length]; omega
      have h3 : decide ((tailBytes (d :: ds)).length < Gen.customMinBytes) = false :=
        decide_eq_false (by simp only [Gen.customMinBytes]; omega)
      simp [h3]
  simp only [hshort, Bool.false_eq_true, if_false]
  apply customLoop_delivers E sender items _ hlen
  have := tailBytes_length_ge items
  omega

/-- everything `handle_data` does once a datagram is parsed -/
def processParsed (E : Env) (h : Header) (updates : List Member) (tail : Bytes) : M Unit := do
  let senderActive ← applyUpdate E ⟨h.src, h.srcInc, .alive⟩ true
  if !senderActive then inactiveSender E h
  else
    applyMany E updates true
    let cres ← attempt (handleCustomBroadcasts E tail (some h.src))
    replyStage E h cres

/-- **A well-formed datagram is read back exactly.** For a codec that reads back what it wrote (header and
    members, whatever follows), a datagram `header ++ [count ++ members] ++ framed items` no larger than the
    receiver's packet size, from another address and addressed to the receiver, passes every parsing stage of
    `handle_data` — size, header, trailing-byte rule, member section — with exactly these members and exactly
    this tail: what happens next is `processParsed` on them (in which the tail is `deliverItems`). No Decode, no
    Malformed, no DataTooBig. -/
theorem wellformed_datagram_is_read_back (E : Env) (hl : CodecLaws E.codec) (h : Header) (us : List Member)
    (items : List Bytes) (c : Ctx)
    (hhdr : ∀ rest, E.codec.decHeader (E.codec.encHeader h ++ rest) = some (h, rest))
    (hkind : h.msg ≠ .broadcast ∧ h.msg ≠ .announce)
    (hw : ∀ m ∈ us, Member.Wire m) (hn : us.length < 65536)
    (hlen : ∀ d ∈ items, 1 ≤ d.length ∧ d.length < 65536)
    (hsize : (E.codec.encHeader h ++ (sectionBytes E us ++ tailBytes items)).length ≤ c.s.cfg.mps)
    (hsrc : (h.src == c.s.id || h.src.addr == c.s.id.addr) = false)
    (hdst : Gen.acceptPayload c.s.id h.dst h.msg = true) :
    handleData E (E.codec.encHeader h ++ (sectionBytes E us ++ tailBytes items)) c =
      processParsed E h us (tailBytes items) c := by
  unfold handleData processParsed
  have h1 : ¬ (E.codec.encHeader h ++ (sectionBytes E us ++ tailBytes items)).length > c.s.cfg.mps := by omega
  have h2 : (sectionBytes E us ++ tailBytes items).length ≠ 1 := by
    unfold sectionBytes u16be; simp
  have h3 : (h.msg == Msg.announce) = false := by simpa using hkind.2
  simp only [bind_run, getS_run, h1, if_false, hhdr, hsrc, Bool.false_eq_true, Gen.trailingByteBad,
    beq_iff_eq, h2, h3, Bool.false_and, Bool.or_false, decide_false, hdst, Bool.not_true,
    section_parses_back E hl h us (tailBytes items) hw hn hkind.1]

/-- The same for a Broadcast datagram: header, then items only. -/
theorem broadcast_datagram_is_read_back (E : Env) (h : Header) (items : List Bytes) (c : Ctx)
    (hhdr : ∀ rest, E.codec.decHeader (E.codec.encHeader h ++ rest) = some (h, rest))
    (hkind : h.msg = .broadcast)
    (hlen : ∀ d ∈ items, 1 ≤ d.length ∧ d.length < 65536)
    (hsize : (E.codec.encHeader h ++ tailBytes items).length ≤ c.s.cfg.mps)
    (hsrc : (h.src == c.s.id || h.src.addr == c.s.id.addr) = false)
    (hdst : Gen.acceptPayload c.s.id h.dst h.msg = true) :
    handleData E (E.codec.encHeader h ++ tailBytes items) c = processParsed E h [] (tailBytes items) c := by
  unfold handleData processParsed
  have h1 : ¬ (E.codec.encHeader h ++ tailBytes items).length > c.s.cfg.mps := by omega
  have h2 : (tailBytes items).length ≠ 1 := by
    cases items with
    | nil => simp [tailBytes]
    | cons d ds =>
      obtain ⟨hd, _⟩ := hlen d (by simp)
      rw [tailBytes_cons_length]; omega
  have h3 : (h.msg == Msg.announce) = false := by rw [hkind]; rfl
  simp only [bind_run, getS_run, h1, if_false, hhdr, hsrc, Bool.false_eq_true, Gen.trailingByteBad,
    beq_iff_eq, h2, h3, Bool.false_and, Bool.or_false, hdst, Bool.not_true,
    broadcast_body_is_tail E h (tailBytes items) hkind]

/-- … and for the bare kinds (Announce, TurnUndead, or any datagram with nothing after the header). -/
theorem bare_datagram_is_read_back (E : Env) (h : Header) (c : Ctx)
    (hhdr : ∀ rest, E.codec.decHeader (E.codec.encHeader h ++ rest) = some (h, rest))
    (hsize : (E.codec.encHeader h).length ≤ c.s.cfg.mps)
    (hsrc : (h.src == c.s.id || h.src.addr == c.s.id.addr) = false)
    (hdst : Gen.acceptPayload c.s.id h.dst h.msg = true) :
    handleData E (E.codec.encHeader h) c = processParsed E h [] [] c := by
  have := hhdr []
  rw [List.append_nil] at this
  unfold handleData processParsed
  have h1 : ¬ (E.codec.encHeader h).length > c.s.cfg.mps := by omega
  simp only [bind_run, getS_run, h1, if_false, this, hsrc, Bool.false_eq_true, Gen.trailingByteBad,
    List.length_nil, hdst, Bool.not_true, empty_body E h]
  simp

end Foca.C07H
