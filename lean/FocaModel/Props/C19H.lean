/-
  C19, whole histories — in every reachable state the targets Foca picks are never its own address.
-/
import FocaModel.Proofs.OwnInv
import FocaModel.Props.C19
import FocaModel.Props.C08H
namespace Foca.C19H
open Foca

/-- In every state reachable with `change_identity` used as documented, whatever members gossip, periodic
    announce, periodic gossip, `leave_cluster` or a change of identity pick as destinations (any number, any RNG
    draws) bear another address: the hypothesis of `C19.chosen_targets_not_own_address` holds in every such state. -/
theorem chosen_targets_never_own_address_always (E : Env) {s : State} (h : ReachableDoc E s)
    (num : Nat) (msg : Msg) (eff : List Effect) (orc : Oracle) :
    SendsTo (fun d => d.addr ≠ s.id.addr) ⟨s, eff, orc⟩ (chooseAndSend E num msg ⟨s, eff, orc⟩) :=
  C19.chosen_targets_not_own_address E num msg ⟨s, eff, orc⟩ (OwnInv.reachable h).2.1

/-- the member a probe round pings (`Members::next`) never bears the own address, in every such state and for
    every permutation a reshuffle may produce -/
theorem probe_target_never_own_address_always (E : Env) {s : State} (h : ReachableDoc E s)
    (eff : List Effect) (orc : Oracle) :
    match membersNext ⟨s, eff, orc⟩ with
    | .ok r _ => ∀ m, r = some m → m.id.addr ≠ s.id.addr
    | _ => True := by
  have := (OwnInvA.membersNext s.id.addr).run ⟨s, eff, orc⟩ (OwnInv.reachable h)
  cases hm : membersNext ⟨s, eff, orc⟩ with
  | stuck x => trivial
  | err e c' => trivial
  | ok r c' =>
    rw [hm] at this
    intro m hr
    rcases this.2 m hr with h1 | h1
    · exact h1
    · simp at h1

/-- the member being probed (target of the indirect-probe requests' subject, of the Suspect update after a
    failed round) never bears the own address -/
theorem probed_member_never_own_address_always (E : Env) {s : State} (h : ReachableDoc E s) (m : Member)
    (hm : s.probe.direct = some m) : m.id.addr ≠ s.id.addr :=
  (OwnInv.reachable h).2.2 m hm

/-- data from the own address never gets an answer (it is rejected before anything else happens), in any state -/
theorem no_reply_to_own_address (E : Env) (data : Bytes) (c : Ctx) (h : Header) (rest : Bytes)
    (hlen : data.length ≤ c.s.cfg.mps) (hd : E.codec.decHeader data = some (h, rest))
    (hsrc : h.src.addr = c.s.id.addr) : handleData E data c = .err .fromOurselves c := by
  unfold handleData
  have h1 : ¬ data.length > c.s.cfg.mps := by omega
  simp [h1, hd, hsrc]

/-- non-vacuity: a documented history with an own-address record listed (stored as Down) and another member -/
example : ∃ s, ReachableDoc C08H.exEnv s ∧ s.ms.length = 2 := by
  refine ⟨_, ReachableDoc.step (.applyMany [⟨⟨1, 5⟩, 3, .alive⟩, ⟨⟨2, 0⟩, 0, .alive⟩] false) ⟨[.idx 0, .idx 0], []⟩ _ _ _
    (ReachableDoc.init ⟨1, 0⟩ .none C08H.exCfg) (by intro i p h; cases h) rfl, ?_⟩
  decide

end Foca.C19H
