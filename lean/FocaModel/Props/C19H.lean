/-
  C19, whole histories — in every reachable state the targets Foca picks are never its own address.
-/
import FocaModel.Proofs.OwnInv
import FocaModel.Proofs.SendInv
import FocaModel.Props.C19
import FocaModel.Props.C08H
namespace Foca.C19H
open Foca

/-- In every state reachable with `change_identity` used as documented, whatever members gossip, periodic
    announce, periodic gossip, `leave_cluster` or a change of identity pick as destinations (any number, any RNG
    draws) bear another address: the hypothesis of `C19.chosen_targets_not_own_address` holds in every such state. -/
theorem chosen_targets_never_own_address_always (E : Env) {s : State} (h : ReachableDoc E s)
    (num : Nat) (msg : Msg) (eff : List Effect) (orc : Oracle) :
    SendsTo (fun d => d.addr ≠ s.id.addr) ⟨s, eff, orc⟩ (chooseAndSend E num msg ⟨s, eff, orc⟩) :=
  C19.chosen_targets_not_own_address E num msg ⟨s, eff, orc⟩ (OwnInv.reachable h).2.1

/-- the member a probe round pings (`Members::next`) never bears the own address, in every such state and for
    every permutation a reshuffle may produce -/
theorem probe_target_never_own_address_always (E : Env) {s : State} (h : ReachableDoc E s)
    (eff : List Effect) (orc : Oracle) :
    match membersNext ⟨s, eff, orc⟩ with
    | .ok r _ => ∀ m, r = some m → m.id.addr ≠ s.id.addr
    | _ => True := by
  have := (OwnInvA.membersNext s.id.addr).run ⟨s, eff, orc⟩ (OwnInv.reachable h)
  cases hm : membersNext ⟨s, eff, orc⟩ with
  | stuck x => trivial
  | err e c' => trivial
  | ok r c' =>
    rw [hm] at this
    intro m hr
    rcases this.2 m hr with h1 | h1
    · exact h1
    · simp at h1

/-- the member being probed (target of the indirect-probe requests' subject, of the Suspect update after a
    failed round) never bears the own address -/
theorem probed_member_never_own_address_always (E : Env) {s : State} (h : ReachableDoc E s) (m : Member)
    (hm : s.probe.direct = some m) : m.id.addr ≠ s.id.addr :=
  (OwnInv.reachable h).2.2 m hm

/-- data from the own address never gets an answer (it is rejected before anything else happens), in any state -/
theorem no_reply_to_own_address (E : Env) (data : Bytes) (c : Ctx) (h : Header) (rest : Bytes)
    (hlen : data.length ≤ c.s.cfg.mps) (hd : E.codec.decHeader data = some (h, rest))
    (hsrc : h.src.addr = c.s.id.addr) : handleData E data c = .err .fromOurselves c := by
  unfold handleData
  have h1 : ¬ data.length > c.s.cfg.mps := by omega
  simp [h1, hd, hsrc]

/-- the destinations the input of a call names itself: the destination of an explicit `announce`, the target a
    relayed message (`PingReq`, `IndirectAck`) asks to reach, the member a suspicion timer is about — the only
    destinations Foca does not choose -/
def namedByInput (E : Env) (op : Op) (d : Id) : Prop :=
  match op with
  | .announce d' => d = d'
  | .timer (.s2d m _ _) => d = m
  | .data b => ∃ h rest, E.codec.decHeader b = some (h, rest) ∧ relayTarget h.msg = some d
  | _ => False

/-- One public call — any input, datagram bytes, timer event, RNG draws — from a state where no active record and
    no probe target bears the own address, `change_identity` used as documented: afterwards that still holds, and
    **every datagram the call sent went to another address** than the instance's (the one it has after the call;
    it only changes in `change_identity`), relays and input-named destinations excepted; every suspicion timer the
    call scheduled names a member of another address. -/
theorem datagrams_avoid_own_address_step (E : Env) (s : State) (op : Op) (orc : Oracle) (h : OwnInv s)
    (hop : ChidOk s op) :
    match Foca.step E s op orc with
    | .done s' eff _ _ => OwnInv s' ∧ ∀ e ∈ eff, effOk s'.id.addr (namedByInput E op) e
    | .stuck _ => True := by
  by_cases hother : ∃ i p, op = .changeIdentity i p ∧ i.addr ≠ s.id.addr
  · obtain ⟨i, p, hopeq, hne⟩ := hother
    subst hopeq
    have hJ : ∀ m ∈ s.ms, m.id.addr = i.addr → m.active = false := by
      rcases hop i p rfl with h1 | h1
      · exact absurd h1 hne
      · exact h1
    have := SendInv.changeIdentity_other (E := E) (ex := namedByInput E (.changeIdentity i p)) i p ⟨s, [], orc⟩ hJ
      (by intro e he; simp at he)
    unfold PostOr at this
    unfold Foca.step Foca.runOp
    simp only [bind_run]
    cases hr : Foca.changeIdentity E i p ⟨s, [], orc⟩ with
    | stuck x => trivial
    | err e c' =>
      rw [hr] at this
      simp only
      rcases this with h1 | h1
      · exact ⟨⟨h1.1.1 ▸ rfl, h1.1.1 ▸ h1.1.2.1, h1.1.1 ▸ h1.1.2.2⟩, h1.1.1 ▸ h1.2⟩
      · simp only at h1; rw [h1.1, h1.2]; exact ⟨h, by intro e he; simp at he⟩
    | ok u c' =>
      rw [hr] at this
      simp only [pure_run]
      rcases this with h1 | h1
      · exact ⟨⟨h1.1.1 ▸ rfl, h1.1.1 ▸ h1.1.2.1, h1.1.1 ▸ h1.1.2.2⟩, h1.1.1 ▸ h1.2⟩
      · simp only at h1; rw [h1.1, h1.2]; exact ⟨h, by intro e he; simp at he⟩
  · have hrun := (SendInv.runOp (E := E) (a := s.id.addr) (ex := namedByInput E op) op
      (fun i p hi => by
        cases hq : decide (i.addr = s.id.addr) with
        | true => exact of_decide_eq_true hq
        | false => exact absurd ⟨i, p, hi, of_decide_eq_false hq⟩ hother)
      (fun m inc tok hm => by subst hm; rfl)
      (fun data hd => by subst hd; intro hh rest hdec t ht; exact ⟨hh, rest, hdec, ht⟩)
      (fun d hd => by subst hd; rfl)).run ⟨s, [], orc⟩ ⟨h, by intro e he; simp at he⟩
    unfold Foca.step
    cases hr : Foca.runOp E op ⟨s, [], orc⟩ with
    | stuck x => trivial
    | ok r c =>
      rw [hr] at hrun
      exact ⟨⟨hrun.1.1 ▸ rfl, hrun.1.1 ▸ hrun.1.2.1, hrun.1.1 ▸ hrun.1.2.2⟩, hrun.1.1 ▸ hrun.2⟩
    | err e c =>
      rw [hr] at hrun
      exact ⟨⟨hrun.1.1 ▸ rfl, hrun.1.1 ▸ hrun.1.2.1, hrun.1.1 ▸ hrun.1.2.2⟩, hrun.1.1 ▸ hrun.2⟩

/-- **Whole histories.** After any history of public calls (`change_identity` used as documented) — whatever
    records of older or newer identities of its own address the instance has learned, whichever periodic tasks are
    configured — every datagram of every further call goes to an address other than the instance's own, unless
    the call's input named that destination itself (relay target, explicit announce, the member of a suspicion
    timer). Probes, indirect-probe requests, gossip, broadcasts, periodic announces (also those to Down members),
    feeds and direct replies are all covered: they are all the sends there are. -/
theorem datagrams_avoid_own_address (E : Env) {s s' : State} (hreach : ReachableDoc E s) (op : Op) (orc : Oracle)
    (hop : ChidOk s op) (eff : List Effect) (r : Res) (left : Oracle)
    (hstep : Foca.step E s op orc = .done s' eff r left) (d : Id) (b : Bytes) (hsend : Effect.send d b ∈ eff) :
    d.addr ≠ s'.id.addr ∨ namedByInput E op d := by
  have := datagrams_avoid_own_address_step E s op orc (OwnInv.reachable hreach) hop
  rw [hstep] at this
  exact this.2 _ hsend

/-- … and a suspicion timer is only ever scheduled for a member of another address -/
theorem suspicion_timers_name_other_addresses (E : Env) {s s' : State} (hreach : ReachableDoc E s) (op : Op)
    (orc : Oracle) (hop : ChidOk s op) (eff : List Effect) (r : Res) (left : Oracle)
    (hstep : Foca.step E s op orc = .done s' eff r left) (after : Nat) (m : Id) (inc tok : Nat)
    (ht : Effect.timer after (.s2d m inc tok) ∈ eff) : m.addr ≠ s'.id.addr := by
  have := datagrams_avoid_own_address_step E s op orc (OwnInv.reachable hreach) hop
  rw [hstep] at this
  exact this.2 _ ht

/-- non-vacuity: a documented history with an own-address record listed (stored as Down) and another member -/
example : ∃ s, ReachableDoc C08H.exEnv s ∧ s.ms.length = 2 := by
  refine ⟨_, ReachableDoc.step (.applyMany [⟨⟨1, 5⟩, 3, .alive⟩, ⟨⟨2, 0⟩, 0, .alive⟩] false) ⟨[.idx 0, .idx 0], []⟩ _ _ _
    (ReachableDoc.init ⟨1, 0⟩ .none C08H.exCfg) (by intro i p h; cases h) rfl, ?_⟩
  decide

end Foca.C19H
