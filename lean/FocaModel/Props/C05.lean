/-
  C05 — auto-rejoin: a healed partition converges back without hand-holding.
  Instance-level theorems. The cluster-level convergence clause is FALSE on the current tree (finding F9:
  simultaneous renewals can leave every node Disconnected forever); see DESIGN.md and known_findings.json.
-/
import FocaModel.Proofs.SendAll
import FocaModel.Proofs.View
import FocaModel.Props.C10
import FocaModel.Props.C17
namespace Foca.C05
open Foca

/-- An inactive (Down) sender is told it is down when `notify_down_members` is on. -/
theorem down_sender_is_told (E : Env) (h : Header) (c : Ctx) (hm : h.msg ≠ .turnUndead) (hn : c.s.cfg.notifyDown = true) :
    inactiveSender E h c = sendMessage E h.src .turnUndead c := by
  unfold inactiveSender
  have : (h.msg == Msg.turnUndead) = false := by simpa using hm
  simp [this, hn]

/-- `change_identity`: the instance takes the new identity, restarts at incarnation 0 in a new epoch,
    is Disconnected until it hears from the cluster, and only sends datagrams (the gossip). -/
theorem change_identity_resets (E : Env) (newId : Id) (pol : Policy) (c : Ctx) (hne : c.s.id ≠ newId) :
    match changeIdentity E newId pol c with
    | .ok _ c' => c'.s.id = newId ∧ c'.s.inc = 0 ∧ c'.s.conn = .disconnected ∧ c'.s.token = wrapAdd8 c.s.token ∧
        ∃ new, c'.eff = c.eff ++ new ∧ ∀ e ∈ new, ∃ d b, e = Effect.send d b
    | .err k _ => k = .encode
    | .stuck _ => True := by
  unfold changeIdentity
  have hne' : (c.s.id == newId) = false := by simpa using hne
  simp only [bind_run, getS_run, hne', Bool.false_eq_true, if_false, setS_run, reset, modS_run]
  by_cases hu : c.s.conn = .undead
  · simp only [hu, beq_self_eq_true, Bool.not_true, Bool.false_eq_true, if_false, pure_run]
    split
    · rename_i u c2 hg
      obtain ⟨hob, new, heff, hall⟩ := gossip_ok E hg
      unfold OnlyBacklogs at hob
      refine ⟨by rw [hob], by rw [hob], by rw [hob], by rw [hob], new, heff, fun e he => ?_⟩
      obtain ⟨d, b, h1, _⟩ := hall e he
      exact ⟨d, b, h1⟩
    · rename_i k c2 hg
      exact gossip_err E hg
    · trivial
  · have hu' : (c.s.conn == Conn.undead) = false := by simpa using hu
    simp only [hu', Bool.not_false, if_true, addUpdate, bind_run, modS_run]
    split
    · rename_i u c2 hg
      obtain ⟨hob, new, heff, hall⟩ := gossip_ok E hg
      unfold OnlyBacklogs at hob
      refine ⟨by rw [hob], by rw [hob], by rw [hob], by rw [hob], new, heff, fun e he => ?_⟩
      obtain ⟨d, b, h1, _⟩ := hall e he
      exact ⟨d, b, h1⟩
    · rename_i k c2 hg
      exact gossip_err E hg
    · trivial

/-- With a renewable identity, learning that it is Down makes the instance attempt exactly that change of
    identity — to an identity of the same address that differs from and wins against the old one — and
    notify Rejoin (never Defunct) — as long as the `u16` generation has not reached its maximum. -/
theorem told_down_renews_identity (E : Env) (c : Ctx) (hp : c.s.policy = .bump) (hg : c.s.id.gen < 65535) :
    handleSelfUpdate E 0 .down c =
      (do changeIdentity E ⟨c.s.id.addr, c.s.id.gen + 1⟩ .bump
          emit (.notify (.rejoin ⟨c.s.id.addr, c.s.id.gen + 1⟩))) c ∧
    (⟨c.s.id.addr, c.s.id.gen + 1⟩ : Id).wins c.s.id = true ∧ c.s.id ≠ ⟨c.s.id.addr, c.s.id.gen + 1⟩ := by
  have hne : ¬ c.s.id = ⟨c.s.id.addr, c.s.id.gen + 1⟩ := by
    intro h; have := congrArg Id.gen h; simp at this
  have hw : (⟨c.s.id.addr, c.s.id.gen + 1⟩ : Id).wins c.s.id = true := by simp [Id.wins]
  refine ⟨?_, hw, hne⟩
  have hm : (c.s.id.gen + 1) % 65536 = c.s.id.gen + 1 := Nat.mod_eq_of_lt (by omega)
  unfold handleSelfUpdate attemptRejoin
  simp only [bind_run, getS_run, hp, renew, hm]
  have hne' : (c.s.id == (⟨c.s.id.addr, c.s.id.gen + 1⟩ : Id)) = false := by simpa using hne
  have hw' : renewWins Policy.bump (⟨c.s.id.addr, c.s.id.gen + 1⟩ : Id) c.s.id = true := by simp [renewWins, Id.wins]
  simp only [hne', Bool.false_eq_true, if_false, hw', Bool.not_true]
  cases hci : changeIdentity E ⟨c.s.id.addr, c.s.id.gen + 1⟩ .bump c <;> simp [hci]

/-- A renewed identity replaces the Down record of its predecessor, whatever the states, and becomes
    active: this is how the cluster accepts the rejoin (reported as Rename + MemberUp). -/
theorem renewed_identity_supersedes_down_record (k u : Member) (ha : k.id.addr = u.id.addr) (hg : u.id.gen > k.id.gen)
    (hk : k.st = .down) (hu : u.st = .alive) :
    updateKnown k u (fun _ => true) = (u, ⟨true, true, true, .replaced k.id⟩) := by
  have hne : k.id ≠ u.id := by intro h; rw [h] at hg; omega
  have hw : k.id.wins u.id = false := by simp [Id.wins]; omega
  unfold updateKnown
  have hu' : (⟨u.id, u.inc, .alive⟩ : Member) = u := by cases u; simp_all
  simp [hne, hw, hk, hu, Member.active, Gen.isActive, hu']

/-- Announce is accepted by address: an announce to a previous identity of the instance still reaches it. -/
theorem announce_is_accepted_by_address (self dst : Id) (h : self.addr = dst.addr) :
    Gen.acceptPayload self dst .announce = true :=
  (C17.accept_payload_iff self dst .announce).2 (Or.inr ⟨rfl, h⟩)

/-- Any other datagram addressed to a previous identity is ignored without a trace — which is why
    renewals that cross each other on the wire can strand both sides (finding F9). -/
theorem datagrams_to_a_previous_identity_are_ignored (self dst : Id) (msg : Msg) (h1 : dst ≠ self) (h2 : msg ≠ .announce) :
    Gen.acceptPayload self dst msg = false := by
  cases hacc : Gen.acceptPayload self dst msg with
  | false => rfl
  | true =>
    rcases (C17.accept_payload_iff self dst msg).1 hacc with h | h
    · exact absurd h h1
    · exact absurd h.1 h2

end Foca.C05
