/-
  C17 — deterministic, and rejected input leaves no trace.
  The model's `step` is a function of (state, op, oracle): determinism is definitional there; the
  implementation side is checked by twin runs. The theorems below are the "no trace" half.
-/
import FocaModel.Proofs.SendAll
import FocaModel.Props.C13
namespace Foca.C17
open Foca

/-- A call leaves no trace: same state, no effect, oracle untouched (only the result is reported). -/
def NoTrace (E : Env) (s : State) (op : Op) : Prop :=
  ∀ orc, ∃ r, step E s op orc = .done s [] r orc

theorem oversized_datagram (E : Env) (s : State) (b : Bytes) (h : b.length > s.cfg.mps) :
    NoTrace E s (.data b) := by
  intro orc
  refine ⟨.err .dataTooBig, ?_⟩
  simp [step, runOp, handleData, h]

theorem undecodable_header (E : Env) (s : State) (b : Bytes) (h1 : b.length ≤ s.cfg.mps)
    (h2 : E.codec.decHeader b = none) : NoTrace E s (.data b) := by
  intro orc
  refine ⟨.err .decode, ?_⟩
  have : ¬ b.length > s.cfg.mps := by omega
  simp [step, runOp, handleData, this, h2]

theorem own_identity_or_address_as_source (E : Env) (s : State) (b : Bytes) (h : Header) (rest : Bytes)
    (h1 : b.length ≤ s.cfg.mps) (h2 : E.codec.decHeader b = some (h, rest))
    (h3 : h.src = s.id ∨ h.src.addr = s.id.addr) : NoTrace E s (.data b) := by
  intro orc
  refine ⟨.err .fromOurselves, ?_⟩
  have : ¬ b.length > s.cfg.mps := by omega
  simp [step, runOp, handleData, this, h2, h3]

theorem malformed_right_after_header (E : Env) (s : State) (b : Bytes) (h : Header) (rest : Bytes)
    (h1 : b.length ≤ s.cfg.mps) (h2 : E.codec.decHeader b = some (h, rest))
    (h3 : ¬ (h.src = s.id ∨ h.src.addr = s.id.addr))
    (h4 : rest.length = 1 ∨ (h.msg = .announce ∧ rest.length > 0)) : NoTrace E s (.data b) := by
  intro orc
  refine ⟨.err .malformed, ?_⟩
  have : ¬ b.length > s.cfg.mps := by omega
  simp [step, runOp, handleData, this, h2, h3, Gen.trailingByteBad, h4]

theorem not_addressed_to_the_instance (E : Env) (s : State) (b : Bytes) (h : Header) (rest : Bytes)
    (h1 : b.length ≤ s.cfg.mps) (h2 : E.codec.decHeader b = some (h, rest))
    (h3 : ¬ (h.src = s.id ∨ h.src.addr = s.id.addr))
    (h4 : ¬ (rest.length = 1 ∨ (h.msg = .announce ∧ rest.length > 0)))
    (h5 : Gen.acceptPayload s.id h.dst h.msg = false) : NoTrace E s (.data b) := by
  intro orc
  refine ⟨.ok, ?_⟩
  have : ¬ b.length > s.cfg.mps := by omega
  simp [step, runOp, handleData, this, h2, h3, Gen.trailingByteBad, h4, h5]

/-- what "addressed to the instance" means (generated `accept_payload`) -/
theorem accept_payload_iff (self dst : Id) (msg : Msg) :
    Gen.acceptPayload self dst msg = true ↔ dst = self ∨ (msg = .announce ∧ self.addr = dst.addr) := by
  simp [Gen.acceptPayload]

theorem undecodable_member_list (E : Env) (s : State) (b : Bytes) (h : Header) (hi lo : Nat) (r : Bytes)
    (h1 : b.length ≤ s.cfg.mps) (h2 : E.codec.decHeader b = some (h, hi :: lo :: r))
    (h3 : ¬ (h.src = s.id ∨ h.src.addr = s.id.addr)) (h4 : h.msg ≠ .announce) (h4' : h.msg ≠ .broadcast)
    (h5 : Gen.acceptPayload s.id h.dst h.msg = true)
    (h6 : decodeMembers E (hi * 256 + lo) r = none) (hr : r.length ≠ 0 - 1) : NoTrace E s (.data b) := by
  intro orc
  refine ⟨.err .decode, ?_⟩
  have hb : ¬ b.length > s.cfg.mps := by omega
  have hl : ¬ ((hi :: lo :: r).length = 1) := by simp
  simp [step, runOp, handleData, parseSection, hb, h2, h3, Gen.trailingByteBad, Gen.sectionMinBytes, h4, h4', h5, h6]

theorem stale_epoch_timer (E : Env) (s : State) (t : Timer) (tok : Nat)
    (ht : C13.Timer.token? t = some tok) (hne : tok ≠ s.token) : NoTrace E s (.timer t) := by
  intro orc
  refine ⟨.ok, ?_⟩
  have := C13.stale_timer_is_noop E t tok ⟨s, [], orc⟩ ht hne
  simp [step, runOp, this]

theorem reuse_when_not_undead (E : Env) (s : State) (h : s.conn ≠ .undead) : NoTrace E s .reuseDown := by
  intro orc
  refine ⟨.err .notUndead, ?_⟩
  simp [step, runOp, reuseDownIdentity, h]

theorem change_to_same_identity (E : Env) (s : State) (p : Policy) : NoTrace E s (.changeIdentity s.id p) := by
  intro orc
  refine ⟨.err .sameIdentity, ?_⟩
  simp [step, runOp, changeIdentity]

theorem invalid_config (E : Env) (s : State) (cfg : Config) (h : Gen.setConfigInvalid s.cfg cfg = true) :
    NoTrace E s (.setConfig cfg) := by
  intro orc
  refine ⟨.err .invalidConfig, ?_⟩
  simp [step, runOp, setConfig, h]

theorem empty_or_oversized_broadcast (E : Env) (s : State) (b : Bytes)
    (h : b = [] ∨ (b.length > s.cfg.mps ∨ b.length > 65535)) :
    NoTrace E s (.addBroadcast b) := by
  intro orc
  rcases h with h | h
  · subst h
    exact ⟨.err .malformed, by simp [step, runOp, addBroadcast]⟩
  · have hne : b.isEmpty = false := by
      cases b with
      | nil => simp at h
      | cons x xs => rfl
    exact ⟨.err .dataTooBig, by simp [step, runOp, addBroadcast, hne, h]⟩

/-! ### inserting rejected inputs anywhere alters nothing of the rest -/

/-- a history: ops with the oracle each one runs under; the outputs (effects, result) of every op -/
def runAll (E : Env) : State → List (Op × Oracle) → List (List Effect × Res) × Option State
  | s, [] => ([], some s)
  | s, (op, orc) :: rest =>
    match step E s op orc with
    | .done s' eff r _ =>
      let t := runAll E s' rest
      ((eff, r) :: t.1, t.2)
    | .stuck _ => ([], none)

/-- Inserting a no-trace call (whatever it returns, `r`) anywhere in a history changes neither the
    outputs of the other calls nor the final state. -/
theorem insertion_is_invisible (E : Env) (pre post : List (Op × Oracle)) (s : State) (op : Op) (orc : Oracle)
    (r : State → Res) (h : ∀ s', step E s' op orc = .done s' [] (r s') orc) :
    (runAll E s (pre ++ (op, orc) :: post)).1 =
        (runAll E s pre).1 ++ (match (runAll E s pre).2 with
          | some s1 => ([], r s1) :: (runAll E s1 post).1
          | none => []) ∧
      ((runAll E s pre).2 = none → (runAll E s (pre ++ (op, orc) :: post)).2 = none) ∧
      (∀ s1, (runAll E s pre).2 = some s1 → (runAll E s (pre ++ (op, orc) :: post)).2 = (runAll E s1 post).2) := by
  induction pre generalizing s with
  | nil =>
    refine ⟨?_, ?_, ?_⟩
    · simp only [List.nil_append, runAll, h s]
    · intro hn; simp [runAll] at hn
    · intro s1 h1
      simp only [runAll, Option.some.injEq] at h1
      subst h1
      simp only [List.nil_append, runAll, h s]
  | cons x pre ih =>
    obtain ⟨op1, orc1⟩ := x
    simp only [List.cons_append, runAll]
    cases hst : step E s op1 orc1 with
    | stuck y => simp
    | done s' eff r' left =>
      obtain ⟨i1, i2, i3⟩ := ih s'
      simp only []
      refine ⟨?_, i2, i3⟩
      rw [i1]
      simp

end Foca.C17
