/-
  C09 — one record per address; identities only move forward; own address never active.
-/
import FocaModel.Proofs.SendAll
import FocaModel.Proofs.View
import FocaModel.Props.C19
namespace Foca.C09
open Foca

def addrs (ms : List Member) : List Nat := ms.map (·.id.addr)

/-- An update never changes the address of the record it lands on … -/
theorem updateKnown_keeps_address (k u : Member) (cond : Member → Bool) (h : k.id.addr = u.id.addr) :
    (updateKnown k u cond).1.id.addr = k.id.addr := by
  unfold updateKnown
  by_cases h1 : (k.id != u.id && k.id.wins u.id) = true
  · simp [h1]
  · by_cases h2 : cond k = true
    · by_cases h3 : (k.id != u.id) = true
      · have hw : k.id.wins u.id = false := by
          cases hw : k.id.wins u.id with
          | false => rfl
          | true => simp [h3, hw] at h1
        simp [h2, h3, hw, h]
      · by_cases h4 : Gen.canChange k.st k.inc u.inc u.st = true <;> simp [h1, h2, h3, h4]
    · simp [h1, h2]

/-- … so applying an update to a known address keeps the list of addresses exactly as it was
    (same records positions, no duplicate can appear), under any condition. -/
theorem known_address_keeps_addresses {ms ms' : List Member} {u : Member} {cond : Member → Bool} {s : Summary}
    (h : applyExisting ms u cond = some (ms', s)) : addrs ms' = addrs ms := by
  induction ms generalizing ms' s with
  | nil => simp [applyExisting] at h
  | cons k rest ih =>
    unfold applyExisting at h
    by_cases hk : (k.id.addr == u.id.addr) = true
    · simp only [hk, if_true] at h
      simp at h
      obtain ⟨h1, _⟩ := h
      subst h1
      have := updateKnown_keeps_address k u cond (by simpa using hk)
      simp [addrs, this]
    · simp only [hk, Bool.false_eq_true, if_false] at h
      cases hr : applyExisting rest u cond with
      | none => rw [hr] at h; simp at h
      | some r =>
        obtain ⟨rest', s'⟩ := r
        rw [hr] at h
        simp at h
        obtain ⟨h1, _⟩ := h
        subst h1
        have := ih hr
        simp [addrs] at this ⊢
        exact this

theorem unknown_address_not_listed {ms : List Member} {u : Member} {cond : Member → Bool}
    (h : applyExisting ms u cond = none) : u.id.addr ∉ addrs ms := by
  induction ms with
  | nil => simp [addrs]
  | cons k rest ih =>
    unfold applyExisting at h
    by_cases hk : (k.id.addr == u.id.addr) = true
    · simp [hk] at h
    · simp only [hk, Bool.false_eq_true, if_false] at h
      cases hr : applyExisting rest u cond with
      | none =>
        have := ih hr
        simp [addrs] at this ⊢
        have hk' : ¬ k.id.addr = u.id.addr := by simpa using hk
        exact ⟨fun e => hk' e.symm, this⟩
      | some r => rw [hr] at h; simp at h

/-- The membership state never holds two records with the same address: `Members::apply` keeps the
    address list duplicate-free, for every insertion index the RNG draws. -/
theorem one_record_per_address (ms : List Member) (u : Member) (j : Nat) (hn : (addrs ms).Nodup) :
    (addrs (applyP ms u j)).Nodup := by
  unfold applyP
  cases h : applyExisting ms u (fun _ => true) with
  | some r =>
    obtain ⟨ms', s⟩ := r
    simp only
    rw [known_address_keeps_addresses h]
    exact hn
  | none =>
    simp only
    have hp := applyNew_perm ms u j
    have : (addrs (applyNew ms u j).1).Perm (addrs (u :: ms)) := List.Perm.map _ hp
    refine (List.Perm.nodup_iff this).2 ?_
    simp only [addrs, List.map_cons, List.nodup_cons]
    exact ⟨unknown_address_not_listed h, hn⟩

/-- … and it grows by at most one record, only for an address it did not list. -/
theorem grows_only_for_new_addresses (ms : List Member) (u : Member) (j : Nat) :
    (applyP ms u j).length = ms.length ∨
      ((applyP ms u j).length = ms.length + 1 ∧ u.id.addr ∉ addrs ms) := by
  unfold applyP
  cases h : applyExisting ms u (fun _ => true) with
  | some r =>
    obtain ⟨ms', s⟩ := r
    left
    have := congrArg List.length (known_address_keeps_addresses h)
    simpa [addrs] using this
  | none =>
    right
    exact ⟨by simpa using (applyNew_perm ms u j).length_eq, unknown_address_not_listed h⟩

/-- A record's identity is replaced only by a same-address identity that wins the conflict against
    it, and the outcome says so (`Replaced(old)`, which `handle_apply_summary` reports as Rename). -/
theorem replaced_only_by_conflict_winner (k u : Member) (cond : Member → Bool)
    (h : (updateKnown k u cond).1.id ≠ k.id) :
    (updateKnown k u cond).1.id = u.id ∧ k.id.wins u.id = false ∧ (updateKnown k u cond).2.conflict = .replaced k.id := by
  unfold updateKnown at h ⊢
  by_cases h1 : (k.id != u.id && k.id.wins u.id) = true
  · simp [h1] at h
  · by_cases h2 : cond k = true
    · by_cases h3 : (k.id != u.id) = true
      · have hw : k.id.wins u.id = false := by
          cases hw : k.id.wins u.id with
          | false => rfl
          | true => simp [h3, hw] at h1
        simp [h1, h2, h3, hw]
      · by_cases h4 : Gen.canChange k.st k.inc u.inc u.st = true <;> simp [h1, h2, h3, h4] at h
    · simp [h1, h2] at h

theorem rename_is_notified (E : Env) (sm : Summary) (u : Member) (old : Id) (c c' : Ctx)
    (hc : sm.conflict = .replaced old) (h : handleApplySummary E sm u false c = .ok () c') :
    Effect.notify (.rename old u.id) ∈ c'.eff := by
  unfold handleApplySummary at h
  simp only [hc, bind_run, emit_run] at h
  by_cases h1 : sm.applied = true <;> by_cases h2 : sm.activeNow = true <;> by_cases h3 : sm.changedActive = true <;>
    simp [h1, h2, h3] at h <;> rw [← h] <;> simp

/-- The instance's own address is never listed as an active member (see C19 for the proofs). -/
theorem own_address_never_active (a : Nat) (ms : List Member) (u : Member) (j : Nat)
    (hinv : C19.OwnInactive a ms) (hu : u.id.addr ≠ a ∨ u.active = false) : C19.OwnInactive a (applyP ms u j) :=
  C19.own_inactive_preserved a ms u j hinv hu

/-- Data claiming the instance's own identity or address as its source is rejected before anything changes. -/
theorem data_from_own_address_is_rejected (E : Env) (data : Bytes) (h : Header) (rest : Bytes) (c : Ctx)
    (hsz : data.length ≤ c.s.cfg.mps) (hd : E.codec.decHeader data = some (h, rest))
    (hsrc : h.src = c.s.id ∨ h.src.addr = c.s.id.addr) : handleData E data c = .err .fromOurselves c := by
  unfold handleData
  have h1 : ¬ data.length > c.s.cfg.mps := by omega
  simp [h1, hd, hsrc]

/-- **Payload of a dead sender is discarded.** When the sender of a datagram is not an active member after its
    header was looked at — its identity is Down, or a newer identity of its address is listed (the update built
    from the header lost the conflict) — nothing after the header is used: whatever the member section and the
    custom broadcasts contain, the outcome is the one of `inactiveSender` (a TurnUndead is still honoured, the
    sender may be told it is down), or the datagram is refused as undecodable. Neither its updates nor its custom
    broadcasts are applied. -/
theorem dead_sender_payload_is_discarded (E : Env) (data : Bytes) (c c1 : Ctx) (h : Header) (rest : Bytes)
    (hlen : data.length ≤ c.s.cfg.mps) (hd : E.codec.decHeader data = some (h, rest))
    (hsend : applyUpdate E ⟨h.src, h.srcInc, .alive⟩ true c = .ok false c1) :
    handleData E data c = .err .fromOurselves c ∨ handleData E data c = .err .malformed c ∨
    handleData E data c = .ok () c ∨ handleData E data c = .err .decode c ∨
    handleData E data c = inactiveSender E h c1 := by
  unfold handleData
  have h1 : ¬ data.length > c.s.cfg.mps := by omega
  simp only [bind_run, getS_run, h1, if_false, hd]
  split
  · exact Or.inl rfl
  · split
    · exact Or.inr (Or.inl rfl)
    · split
      · exact Or.inr (Or.inr (Or.inl rfl))
      · cases hp : parseSection E h rest with
        | none => exact Or.inr (Or.inr (Or.inr (Or.inl rfl)))
        | some p =>
          obtain ⟨updates, tail⟩ := p
          right; right; right; right
          simp [hsend]

end Foca.C09
