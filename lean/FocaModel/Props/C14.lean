/-
  C14 — round-robin probing.
-/
import FocaModel.Proofs.SendAll
import FocaModel.Props.C13
namespace Foca.C14
open Foca

theorem findActiveFrom_some {ms : List Member} {start i p : Nat} (h : findActiveFrom ms start i = some p) :
    i ≤ p ∧ start ≤ p ∧ ∃ m, ms[p - i]? = some m ∧ m.active = true := by
  induction ms generalizing i with
  | nil => simp [findActiveFrom] at h
  | cons x rest ih =>
    unfold findActiveFrom at h
    by_cases hc : (decide (i ≥ start) && x.active) = true
    · simp only [hc, if_true, Option.some.injEq] at h
      subst h
      simp at hc
      exact ⟨Nat.le_refl _, hc.1, x, by simp, hc.2⟩
    · simp only [hc, Bool.false_eq_true, if_false] at h
      obtain ⟨h1, h2, m, h3, h4⟩ := ih h
      refine ⟨by omega, h2, m, ?_, h4⟩
      have : p - i = (p - (i + 1)) + 1 := by omega
      rw [this]
      simpa using h3

theorem findActiveFrom_none {ms : List Member} {start i : Nat} (h : findActiveFrom ms start i = none) :
    ∀ k (hk : k < ms.length), i + k ≥ start → ms[k].active = false := by
  induction ms generalizing i with
  | nil => intro k hk; simp at hk
  | cons x rest ih =>
    unfold findActiveFrom at h
    by_cases hc : (decide (i ≥ start) && x.active) = true
    · simp [hc] at h
    · simp only [hc, Bool.false_eq_true, if_false] at h
      intro k hk hge
      cases k with
      | zero =>
        simp at hge ⊢
        cases hx : x.active with
        | false => rfl
        | true => simp [hge, hx] at hc
      | succ k =>
        simp only [List.getElem_cons_succ]
        exact ih h k (by simpa using hk) (by omega)

/-- Each probe round picks an active member of the list — never a Down one. -/
theorem next_returns_an_active_member (ms : List Member) (c : Nat) (m : Member)
    (h : (nextPure ms c).1 = some m) : m ∈ ms ∧ m.active = true := by
  unfold nextPure at h
  cases h1 : findActiveFrom ms c 0 with
  | some p =>
    simp only [h1] at h
    obtain ⟨_, _, m', hm', ha⟩ := findActiveFrom_some h1
    simp at hm'
    rw [hm'] at h
    simp at h
    subst h
    exact ⟨List.mem_of_getElem? hm', ha⟩
  | none =>
    simp only [h1] at h
    cases h2 : findActiveFrom (ms.take c) 0 0 with
    | none => simp [h2] at h
    | some p =>
      simp only [h2] at h
      obtain ⟨_, _, m', hm', ha⟩ := findActiveFrom_some h2
      simp at hm'
      have hp : p < c := by
        obtain ⟨hlt, _⟩ := List.getElem?_eq_some_iff.1 hm'
        simp at hlt; omega
      have : ms[p]? = some m' := by
        simp [List.getElem?_take, hp] at hm'
        exact hm'
      rw [this] at h
      simp at h
      subst h
      exact ⟨List.mem_of_getElem? this, ha⟩

/-- It returns nobody only when there is no active member at all. -/
theorem next_none_iff_no_active (ms : List Member) (c : Nat) (h : (nextPure ms c).1 = none) :
    ∀ m ∈ ms, m.active = false := by
  unfold nextPure at h
  cases h1 : findActiveFrom ms c 0 with
  | some p =>
    simp only [h1] at h
    obtain ⟨_, _, m', hm', _⟩ := findActiveFrom_some h1
    simp at hm'
    simp [hm'] at h
  | none =>
    simp only [h1] at h
    cases h2 : findActiveFrom (ms.take c) 0 0 with
    | some p =>
      simp only [h2] at h
      obtain ⟨_, _, m', hm', _⟩ := findActiveFrom_some h2
      simp at hm'
      have hp : p < c := by
        obtain ⟨hlt, _⟩ := List.getElem?_eq_some_iff.1 hm'
        simp at hlt; omega
      simp [List.getElem?_take, hp] at hm'
      simp [hm'] at h
    | none =>
      intro m hm
      obtain ⟨k, hk, hkm⟩ := List.getElem_of_mem hm
      by_cases hkc : k ≥ c
      · have := findActiveFrom_none h1 k hk (by omega)
        rw [hkm] at this; exact this
      · have hk' : k < (ms.take c).length := by simp; omega
        have := findActiveFrom_none h2 k hk' (by omega)
        simp at this
        rw [hkm] at this; exact this

theorem findActiveFrom_first {ms : List Member} {start i p : Nat} (h : findActiveFrom ms start i = some p) :
    ∀ k (hk : k < ms.length), start ≤ i + k → i + k < p → ms[k].active = false := by
  induction ms generalizing i with
  | nil => intro k hk; simp at hk
  | cons x rest ih =>
    unfold findActiveFrom at h
    by_cases hc : (decide (i ≥ start) && x.active) = true
    · simp only [hc, if_true, Option.some.injEq] at h
      subst h
      intro k hk h1 h2
      omega
    · simp only [hc, Bool.false_eq_true, if_false] at h
      intro k hk h1 h2
      cases k with
      | zero =>
        simp at h1 ⊢
        cases hx : x.active with
        | false => rfl
        | true => simp [h1, hx] at hc
      | succ k =>
        simp only [List.getElem_cons_succ]
        exact ih h k (by simpa using hk) (by omega) (by omega)

/-- The scan is round-robin: the returned member is the first active one at or after the cursor, and the
    cursor moves right behind it; only when none is left does it wrap to the first active member and
    schedule a reshuffle (`usize::MAX`). -/
theorem next_scans_forward (ms : List Member) (c p : Nat) (h : findActiveFrom ms c 0 = some p) :
    (nextPure ms c) = (ms[p]?, .at (p + 1)) ∧ c ≤ p ∧
      ∀ k (hk : k < ms.length), c ≤ k → k < p → ms[k].active = false := by
  refine ⟨by simp [nextPure, h], (findActiveFrom_some h).2.1, ?_⟩
  intro k hk hck hkp
  exact findActiveFrom_first h k hk (by omega) (by omega)

theorem next_wraps_and_reshuffles (ms : List Member) (c p : Nat) (h1 : findActiveFrom ms c 0 = none)
    (h2 : findActiveFrom (ms.take c) 0 0 = some p) : nextPure ms c = (ms[p]?, .max) := by
  simp [nextPure, h1, h2]

/-- A shuffle is requested exactly when the cursor ran past the end or a wrap happened. -/
theorem reshuffle_condition (cur : Cursor) (len : Nat) :
    needsShuffle cur len = true ↔ cur = .max ∨ ∃ i, cur = .at i ∧ i ≥ len := by
  cases cur <;> simp [needsShuffle]

/-- what this property means by "active": Alive or Suspect, never Down — over the `is_active` the translator
    reads from `member.rs` (an obligation of this property since the model follows the source) -/
theorem active_is_alive_or_suspect (st : St) : Gen.isActive st = (st != .down) := by
  cases st <;> rfl

end Foca.C14
