/-
  C15 — dissemination accounting: updates are gossiped at most `max_transmissions` times.
-/
import FocaModel.Proofs.SendAll
import FocaModel.Props.C07
import FocaModel.Props.C08
namespace Foca.C15
open Foca

def keys {κ} (b : List (Entry κ)) : List κ := b.map (·.key)

/-- The backlog never holds more than one update per address, and the one it holds is the most recently
    accepted one: enqueueing removes every entry of the same address first and adds the new one with the
    full number of transmissions. -/
theorem one_update_per_address (b : List (Entry Nat)) (addr : Nat) (d : Bytes) (maxTx : Nat)
    (hn : (keys b).Nodup) :
    (keys (addOrReplace b Gen.addrInvalidates addr d maxTx)).Nodup ∧
    (∀ e ∈ addOrReplace b Gen.addrInvalidates addr d maxTx, e.key = addr → e = ⟨addr, maxTx, d⟩) ∧
    (⟨addr, maxTx, d⟩ : Entry Nat) ∈ addOrReplace b Gen.addrInvalidates addr d maxTx := by
  unfold addOrReplace keys
  have hf : ∀ e ∈ b.filter (fun e => !Gen.addrInvalidates addr e.key), e.key ≠ addr := by
    intro e he
    simp [Gen.addrInvalidates] at he
    exact fun h => he.2 h.symm
  refine ⟨?_, ?_, by simp⟩
  · rw [List.map_append, List.nodup_append]
    refine ⟨(hn.sublist ((List.filter_sublist).map _)), by simp, ?_⟩
    intro a ha b' hb
    simp at hb
    subst hb
    simp at ha
    obtain ⟨e, he, hea⟩ := ha
    intro h
    exact hf e (by simpa using he) (by rw [hea, h])
  · intro e he hk
    simp at he
    rcases he with he | he
    · exact absurd hk (hf e (by simpa using he))
    · exact he

/-- other addresses are not affected by an enqueue -/
theorem enqueue_keeps_other_addresses (b : List (Entry Nat)) (addr : Nat) (d : Bytes) (maxTx : Nat) (e : Entry Nat)
    (he : e ∈ b) (hk : e.key ≠ addr) : e ∈ addOrReplace b Gen.addrInvalidates addr d maxTx := by
  unfold addOrReplace
  simp [Gen.addrInvalidates, he]
  exact Or.inl (fun h => hk h.symm)

/-- One piggybacking step: the written update had transmissions left and loses exactly one (it is
    dropped when none remain); every other pending update is untouched; the same entry cannot be
    written twice into one datagram (it leaves the pending set). -/
theorem each_appearance_costs_one_transmission {κ} (ov : Nat) (r r' : FillResult κ) (d : Bytes)
    (h : fillStep ov r d = some r') :
    ∃ e, e.data = d ∧ (e :: r'.pending).Perm r.pending ∧ e.tx > 0 ∧
      r'.done = (if e.tx - 1 > 0 then r.done ++ [{ e with tx := e.tx - 1 }] else r.done) := by
  obtain ⟨e, h1, h2, h3, _, _, h6, _⟩ := fillStep_spec h
  exact ⟨e, h1, h2, h3, h6⟩

/-- A piggybacking datagram never omits a pending update that would still fit in the space left
    (unless the buffer is exactly full or the `u16` item budget is used). -/
theorem nothing_that_fits_is_omitted {κ} (b : List (Entry κ)) (space mi ov : Nat) (picks : List Bytes) (r : FillResult κ)
    (h : fill b space mi ov picks = some r) :
    r.space = 0 ∨ r.items = 0 ∨ ∀ e ∈ r.pending, e.data.length + ov > r.space := by
  rcases fill_maximal h with h1 | h1 | h1
  · exact Or.inl h1
  · exact Or.inr (Or.inl h1)
  · refine Or.inr (Or.inr ?_)
    intro e he
    have := h1 e he
    simp [Entry.fits] at this
    omega

/-- Updates with more transmissions remaining take precedence: when an update is written, no pending
    update of strictly higher priority (more transmissions, or as many and longer) would have fitted. -/
theorem higher_priority_first {κ} (ov : Nat) (r r' : FillResult κ) (d : Bytes) (h : fillStep ov r d = some r') :
    ∃ e, e.data = d ∧ ∀ e' ∈ r'.pending, e'.gt e = true → e'.data.length + ov > r.space := by
  obtain ⟨e, h1, _, _, _, h5, _⟩ := fillStep_spec h
  refine ⟨e, h1, ?_⟩
  intro e' he' hg
  have := h5 e' he' hg
  simp [Entry.fits] at this
  omega

/-- priority is "more transmissions remaining, then longer" (generated `Entry::cmp`) -/
theorem priority_order {κ} (a b : Entry κ) :
    a.gt b = true ↔ a.tx > b.tx ∨ (a.tx = b.tx ∧ a.data.length > b.data.length) := by
  unfold Entry.gt Gen.entryCmp
  rcases Nat.lt_trichotomy a.tx b.tx with h | h | h
  · simp [Nat.compare_eq_lt.2 h, Ordering.then]; omega
  · rcases Nat.lt_trichotomy a.data.length b.data.length with h2 | h2 | h2
    · simp [h, Nat.compare_eq_lt.2 h2, Ordering.then]; omega
    · simp [h, h2, Ordering.then]
    · simp [h, Nat.compare_eq_gt.2 h2, Ordering.then]; omega
  · simp [Nat.compare_eq_gt.2 h, Ordering.then]; omega

/-- Feed, Announce, TurnUndead and Broadcast datagrams consume nothing of the updates backlog. -/
theorem non_piggybacking_kinds_consume_nothing (E : Env) (dst : Id) (msg : Msg) (pick : Pick) (rem0 : Nat) (c : Ctx)
    (hm : msg = .feed ∨ msg = .announce ∨ msg = .turnUndead ∨ msg = .broadcast) :
    match memberSection E dst msg pick rem0 c with
    | .ok _ c' => c'.s.updates = c.s.updates
    | .err _ _ => False
    | .stuck _ => True := by
  rcases hm with h | h | h | h
  · subst h
    unfold memberSection
    simp only [bind_run, getS_run]
    by_cases h1 : (Gen.needsPiggyback .feed && decide (rem0 > Gen.piggybackMinSpace)) = true
    · simp only [h1, if_true]
      have hfeed : Gen.piggybackOnlyActive .feed = true := rfl
      simp only [hfeed, if_true]
      by_cases h3 : ((c.s.cfg.mps - (rem0 - 2)) / 2 == 0) = true
      · simp [h3]
      · simp only [h3, Bool.false_eq_true, if_false, bind_run]
        have hc := chooseLoop_spec (max ((rem0 - 2) / ((c.s.cfg.mps - (rem0 - 2)) / 2)) Gen.feedMinEstimate)
          (fun m => m.active && m.id != dst) c.s.ms [] 0 c
        generalize chooseLoop (max ((rem0 - 2) / ((c.s.cfg.mps - (rem0 - 2)) / 2)) Gen.feedMinEstimate)
          (fun m => m.active && m.id != dst) c.s.ms [] 0 c = res at hc ⊢
        cases res with
        | err e c' => exact hc.elim
        | stuck x => simp
        | ok r c' =>
          obtain ⟨hs, _, _, _⟩ := hc
          simp only []
          by_cases h4 : (E.debug && decide ((feedLoop E r.reverse (rem0 - 2)).2.1 > 65535)) = true
          · simp [h4]
          · simp [h4, hs]
    · simp [h1]
  · subst h; rw [C07.memberSection_none E dst _ pick rem0 c rfl]
  · subst h; rw [C07.memberSection_none E dst _ pick rem0 c rfl]
  · subst h; rw [C07.memberSection_none E dst _ pick rem0 c rfl]

/-- Applying updates with broadcasting disabled leaves the backlog untouched (whatever the outcome of
    the application was). -/
theorem no_broadcast_leaves_backlog_untouched (E : Env) (sm : Summary) (u : Member) (c : Ctx) :
    ∃ c', handleApplySummary E sm u false c = .ok () c' ∧ c'.s.updates = c.s.updates := by
  obtain ⟨c', h1, h2, _⟩ := C08.notifications_follow_summary E sm u c
  exact ⟨c', h1, by rw [h2]⟩

/-- Only successful applications are enqueued. -/
theorem only_successful_applications_are_enqueued (E : Env) (sm : Summary) (u : Member) (b : Bool) (c c' : Ctx)
    (ha : sm.applied = false) (h : handleApplySummary E sm u b c = .ok () c') : c'.s.updates = c.s.updates := by
  unfold handleApplySummary at h
  cases hc : sm.conflict <;> cases h3 : sm.changedActive <;> cases h2 : sm.activeNow <;>
    simp [ha, hc, h2, h3] at h <;> rw [← h]

end Foca.C15
