/-
  C11 — suspicion timeout takes effect iff unrefuted; Down is final until forgotten.
-/
import FocaModel.Proofs.SendAll
import FocaModel.Proofs.Units
import FocaModel.Proofs.SwapRemove
namespace Foca.C11
open Foca

/-- Down never changes: no (incarnation, state) is accepted over a Down record of the same identity
    (generated `can_change` table). -/
theorem down_is_terminal (inc inc' : Nat) (st : St) : Gen.canChange .down inc inc' st = false := rfl

/-- The timeout's conditional application on a record of the *same identity*:
    it takes effect iff the incarnation is unchanged and the record is not Down already. -/
theorem timeout_on_same_identity (k : Member) (inc : Nat) :
    updateKnown k ⟨k.id, inc, .down⟩ (fun r => r.inc == inc) =
      if k.inc = inc ∧ k.st ≠ .down then (⟨k.id, inc, .down⟩, ⟨false, true, true, .none⟩)
      else (k, ⟨k.active, false, false, .none⟩) := by
  unfold updateKnown
  by_cases hi : k.inc = inc
  · cases hst : k.st <;> simp [hi, hst, Gen.canChange, Member.active, Gen.isActive]
  · simp [hi]

/-- Evidence of a newer identity for that address cancels the timeout: the record is untouched and
    the outcome is "lost conflict". -/
theorem timeout_on_superseded_identity (k : Member) (m : Id) (inc : Nat) (hne : k.id ≠ m) (hw : k.id.wins m = true) :
    updateKnown k ⟨m, inc, .down⟩ (fun r => r.inc == inc) = (k, ⟨k.active, false, false, .lost⟩) := by
  unfold updateKnown
  simp [hne, hw]

/-- An outcome that is not a successful application produces no effect and no state change in
    `handle_apply_summary` (no broadcast, no forget-timer, no notification). -/
theorem unsuccessful_summary_is_silent (E : Env) (sm : Summary) (u : Member) (b : Bool) (c : Ctx)
    (h1 : sm.applied = false) (h2 : sm.changedActive = false) (h3 : ∀ o, sm.conflict ≠ .replaced o) :
    handleApplySummary E sm u b c = .ok () c := by
  unfold handleApplySummary
  cases hc : sm.conflict with
  | replaced o => exact absurd hc (h3 o)
  | none => simp [h1, h2]
  | lost => simp [h1, h2]
  | failedCondition => simp [h1, h2]

/-- A timer of another connection epoch is ignored without any effect. -/
theorem stale_timeout_is_noop (E : Env) (m : Id) (inc tok : Nat) (c : Ctx) (h : c.s.token ≠ tok) :
    handleTimer E (.s2d m inc tok) c = .ok () c := by
  unfold handleTimer
  simp [h]

/-- **Every epoch change makes the pending timeouts stale.** `reset` (identity change, auto-rejoin,
    `reuse_down_identity`), going Defunct and going Idle each move the timer token to a value different from the one
    before — over the counter arithmetic generated from the three sites of the source — so a suspicion timeout
    raised before the change carries another token and is ignored without any effect (`stale_timeout_is_noop`). A
    token that saturated instead of wrapping would let such a timeout through once it sits at 255. -/
theorem epoch_change_makes_pending_timeouts_stale (E : Env) (m : Id) (inc : Nat) (c : Ctx) :
    (∀ c', reset c = .ok () c' → handleTimer E (.s2d m inc c.s.token) c' = .ok () c') ∧
    (∀ c', becomeUndead c = .ok () c' → handleTimer E (.s2d m inc c.s.token) c' = .ok () c') ∧
    (∀ c', becomeDisconnected E c = .ok () c' → handleTimer E (.s2d m inc c.s.token) c' = .ok () c') := by
  have hw : ∀ n, wrapAdd8 n ≠ n := by intro n; unfold wrapAdd8; omega
  refine ⟨fun c' h => ?_, fun c' h => ?_, fun c' h => ?_⟩
  · refine stale_timeout_is_noop E m inc c.s.token c' ?_
    simp [reset] at h
    rw [← h]
    exact hw _
  · refine stale_timeout_is_noop E m inc c.s.token c' ?_
    simp [becomeUndead] at h
    rw [← h]
    exact hw _
  · refine stale_timeout_is_noop E m inc c.s.token c' ?_
    unfold becomeDisconnected at h
    simp only [bind_run, getS_run] at h
    split at h
    · simp [panicAt] at h
    · simp at h
      rw [← h]
      exact hw _

/-- A cancelled timeout (current epoch, but the conditional application did not succeed) has no effect
    at all: same state, no datagram — in particular no TurnUndead —, no timer, no notification.
    (`hconn`: the connection state agrees with the number of active members, an invariant of reachable
    states outside the window right after `reuse_down_identity`.) -/
theorem cancelled_timeout_is_noop (E : Env) (m : Id) (inc : Nat) (c : Ctx) (sm : Summary)
    (happ : applyExisting c.s.ms ⟨m, inc, .down⟩ (fun r => r.inc == inc) = some (c.s.ms, sm))
    (h1 : sm.applied = false) (h2 : sm.changedActive = false) (h3 : ∀ o, sm.conflict ≠ .replaced o)
    (hconn : (c.s.conn = .disconnected → c.s.numActive = 0) ∧ (c.s.conn = .connected → c.s.numActive ≠ 0)) :
    handleTimer E (.s2d m inc c.s.token) c = .ok () c := by
  have hsame : { c with s := { c.s with ms := c.s.ms, numActive := adjustActive c.s.numActive sm } } = c := by
    cases c with
    | mk s eff orc => cases s; simp [adjustActive, h2]
  unfold handleTimer
  simp only [beq_self_eq_true, ↓reduceIte, bind_run, getS_run, applyExistingReport, membersApplyExistingIf, happ, setS_run, pure_run, hsame]
  rw [unsuccessful_summary_is_silent E sm _ true c h1 h2 h3]
  simp only [pure_run]
  unfold adjustConnectionState
  simp only [bind_run, getS_run]
  cases hcn : c.s.conn with
  | undead => simp [h1]
  | disconnected =>
    have := hconn.1 hcn
    simp [this, h1]
  | connected =>
    have := hconn.2 hcn
    simp [this, h1]

/-! non-vacuity: a refuted suspicion (record at incarnation 1, timer raised at 0) meets the hypotheses -/
example : applyExisting [⟨⟨2, 0⟩, 1, .alive⟩] ⟨⟨2, 0⟩, 0, .down⟩ (fun r => r.inc == 0)
    = some ([⟨⟨2, 0⟩, 1, .alive⟩], ⟨true, false, false, .none⟩) := by decide

/-- **An effective timeout.** The timer of the current epoch finds the record at the same identity and
    incarnation, still active (`timeout_on_same_identity`: the summary is "applied, now inactive, active set
    changed, no conflict"): the record becomes Down, and exactly this happens, in this order — the forget-timer
    for that identity after `remove_down_after`, the MemberDown notification, the Down update enqueued for gossip
    with the full number of transmissions; then the connection state is re-evaluated (Idle if it was the last
    active member) and, iff `notify_down_members` is set, one TurnUndead goes to that identity. -/
theorem effective_timeout (E : Env) (m : Id) (inc : Nat) (c : Ctx) (ms' : List Member) (sm : Summary)
    (hex : applyExisting c.s.ms ⟨m, inc, .down⟩ (fun k => k.inc == inc) = some (ms', sm))
    (happ : sm.applied = true) (hnow : sm.activeNow = false) (hch : sm.changedActive = true)
    (hnc : sm.conflict = .none) :
    ∃ c1, c1.s.ms = ms' ∧ c1.s.numActive = c.s.numActive - 1 ∧
      c1.eff = c.eff ++ [.timer c.s.cfg.rda (.rm m), .notify (.down m)] ∧
      (⟨m.addr, c.s.cfg.maxTx, E.codec.encMember ⟨m, inc, .down⟩⟩ : Entry Nat) ∈ c1.s.updates ∧
      handleTimer E (.s2d m inc c.s.token) c =
        (adjustConnectionState E >>= fun _ =>
          if c.s.cfg.notifyDown then sendMessage E m .turnUndead else pure ()) c1 := by
  obtain ⟨c1, hrun, hms, hnum, _, _, _, _, heff, hupd⟩ := applyExistingReport_some E (c := c) hex
  refine ⟨c1, hms, ?_, ?_, hupd happ, ?_⟩
  · rw [hnum]; simp [adjustActive, hch, hnow]
  · rw [heff]; simp [summaryEffects, happ, hnow, hch, hnc]
  · unfold handleTimer
    simp only [bind_run, getS_run, beq_self_eq_true, if_true, hrun, happ, Bool.true_and]

/-- The forget-timer removes the Down record of exactly the identity it names and nothing else: the list is
    unchanged, or one record with that identity and state Down left (the rest is a permutation of what remains). -/
theorem forget_timer_removes_exactly_that_identity (ms : List Member) (id : Id) :
    removeIfDown ms id = ms ∨
      ∃ m, m.id = id ∧ m.st = .down ∧ (m :: removeIfDown ms id).Perm ms := by
  unfold removeIfDown
  cases h : ms.findIdx? (fun m => m.id == id && m.st == .down) with
  | none => exact Or.inl rfl
  | some p =>
    right
    obtain ⟨hlt, hp, _⟩ := List.findIdx?_eq_some_iff_getElem.1 h
    have hp' := Bool.and_eq_true_iff.1 hp
    exact ⟨ms[p], by simpa using hp'.1, by simpa using hp'.2, swapRemoveAt_perm (List.getElem?_eq_getElem hlt)⟩

/-- … and a forget-timer naming an identity that is not listed as Down (another identity of the address took
    over, or the member is alive) changes nothing -/
theorem forget_timer_for_another_identity_is_noop (ms : List Member) (id : Id)
    (h : ∀ m ∈ ms, ¬ (m.id = id ∧ m.st = .down)) : removeIfDown ms id = ms := by
  unfold removeIfDown
  cases hf : ms.findIdx? (fun m => m.id == id && m.st == .down) with
  | none => rfl
  | some p =>
    obtain ⟨hlt, hp, _⟩ := List.findIdx?_eq_some_iff_getElem.1 hf
    have hp' := Bool.and_eq_true_iff.1 hp
    exact absurd ⟨by simpa using hp'.1, by simpa using hp'.2⟩ (h ms[p] (List.getElem_mem hlt))

end Foca.C11
