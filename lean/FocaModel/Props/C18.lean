/-
  C18 — reply cascades terminate: no message storms.
-/
import FocaModel.Proofs.SendAll
import FocaModel.Props.C10
import FocaModel.Props.C12
namespace Foca.C18
open Foca

/-- how far a message kind is from the end of a request/reply chain -/
def rank : Msg → Nat
  | .turnUndead => 0
  | .ack _ | .feed | .gossip | .broadcast | .forwardedAck _ _ => 1
  | .ping _ | .announce | .indirectAck _ _ => 2
  | .indirectPing _ _ => 3
  | .pingReq _ _ => 4

/-- the (single) automatic answer of the reply table to each message kind -/
def replyOf (src : Id) : Msg → Option (Id × Msg)
  | .ping n => some (src, .ack n)
  | .pingReq t n => some (t, .indirectPing src n)
  | .indirectPing o n => some (src, .indirectAck o n)
  | .indirectAck t n => some (t, .forwardedAck src n)
  | .announce => some (src, .feed)
  | _ => none

/-- Every request kind has exactly one answer, of strictly lower rank; Ack, Feed, Gossip, Broadcast
    and ForwardedAck have none. Chains of automatic replies are therefore at most 4 long. -/
theorem replies_descend (src : Id) (m : Msg) (d : Id) (r : Msg) (h : replyOf src m = some (d, r)) :
    rank r < rank m := by
  cases m <;> simp [replyOf] at h <;> obtain ⟨_, h2⟩ := h <;> subst h2 <;> simp [rank]

/-- The reply table of the model is that function: one `send_message` of the answer (or an
    IndirectForOurselves rejection), and for the non-replying kinds no datagram at all. -/
theorem reply_table (E : Env) (src dst : Id) (inc : Nat) (m : Msg) (c : Ctx) (hm : m ≠ .turnUndead) :
    match replyOf src m with
    | some (d, r) => reactToMessage E ⟨src, inc, dst, m⟩ c = sendMessage E d r c ∨
        reactToMessage E ⟨src, inc, dst, m⟩ c = .err .indirectForOurselves c
    | none => ∃ c', reactToMessage E ⟨src, inc, dst, m⟩ c = .ok () c' ∧ c'.eff = c.eff ∨
        reactToMessage E ⟨src, inc, dst, m⟩ c = .err .indirectForOurselves c := by
  cases m with
  | turnUndead => exact absurd rfl hm
  | ping n => simp [replyOf, reactToMessage]
  | ack n => exact ⟨{ c with s := { c.s with probe := c.s.probe.receiveAck src n } }, Or.inl ⟨by simp [reactToMessage], rfl⟩⟩
  | pingReq t n =>
    by_cases h : t = c.s.id
    · simp [replyOf, reactToMessage, h]
    · simp [replyOf, reactToMessage, h]
  | indirectPing o n =>
    by_cases h : o = c.s.id
    · simp [replyOf, reactToMessage, h]
    · simp [replyOf, reactToMessage, h]
  | indirectAck t n =>
    by_cases h : t = c.s.id
    · simp [replyOf, reactToMessage, h]
    · simp [replyOf, reactToMessage, h]
  | forwardedAck o n =>
    by_cases h : o = c.s.id
    · exact ⟨c, Or.inr (by simp [reactToMessage, h])⟩
    · exact ⟨{ c with s := { c.s with probe := c.s.probe.receiveIndirectAck src n } }, Or.inl ⟨by simp [reactToMessage, h], rfl⟩⟩
  | announce => simp [replyOf, reactToMessage]
  | feed => exact ⟨c, Or.inl ⟨by simp [reactToMessage], rfl⟩⟩
  | gossip => exact ⟨c, Or.inl ⟨by simp [reactToMessage], rfl⟩⟩
  | broadcast => exact ⟨c, Or.inl ⟨by simp [reactToMessage], rfl⟩⟩

/-- Each automatic answer is exactly one datagram (or none, when its header does not fit). -/
theorem one_datagram_per_answer (E : Env) (d : Id) (r : Msg) (c : Ctx) : SendOK E d r c (sendMessage E d r c) :=
  sendMessage_spec E d r c

/-- An instance that is not connected (idle or defunct) does not react to messages at all. -/
theorem disconnected_instances_do_not_reply (E : Env) (h : Header) (cres : Option ErrKind) (c : Ctx)
    (hc : c.s.conn ≠ .connected) :
    replyStage E h cres c = (match cres with | some e => .err e c | none => .ok () c) := by
  unfold replyStage
  cases cres <;> simp [hc]

/-- Two members that consider each other Down do not bounce TurnUndead back and forth: an instance
    that cannot come back with a winning renewed identity handles a TurnUndead from an inactive sender
    by going (or staying) Defunct and sends nothing back. False before the `fix:` commit for F3. -/
theorem turnundead_from_down_member_is_not_answered_when_defunct (E : Env) (src dst : Id) (inc : Nat) (c : Ctx)
    (h : ∀ n, renew c.s.policy c.s.id = some n → (n = c.s.id ∨ renewWins c.s.policy n c.s.id = false)) :
    ∃ c', inactiveSender E ⟨src, inc, dst, .turnUndead⟩ c = .ok () c' ∧
      c'.eff = c.eff ++ [.notify .defunct] ∧ c'.s.conn = .undead := by
  obtain ⟨c1, h1, h2, h3, h4⟩ := C10.down_without_renewal_is_defunct E c h
  refine ⟨c1, ?_, h4, h2⟩
  unfold inactiveSender
  simp [h1, h2]

/-- For every other message kind an inactive sender gets at most the one TurnUndead (rank 0),
    which itself is never answered by a connected, correct receiver with anything but a renewal. -/
theorem inactive_sender_gets_at_most_turnundead (E : Env) (h : Header) (c : Ctx) (hm : h.msg ≠ .turnUndead) :
    inactiveSender E h c = (if c.s.cfg.notifyDown then sendMessage E h.src .turnUndead c else .ok () c) := by
  unfold inactiveSender
  have : (h.msg == Msg.turnUndead) = false := by simpa using hm
  cases hn : c.s.cfg.notifyDown <;> simp [this, hn]

end Foca.C18
