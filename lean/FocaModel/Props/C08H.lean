/-
  C08, whole histories — `num_members()` is exact in every reachable state.
-/
import FocaModel.Proofs.MsInv
import FocaModel.Proofs.Replay
import FocaModel.Codec
namespace Foca.C08H
open Foca

/-- In every state an instance can reach — from `Foca::new`, by any sequence of public calls (`apply_many`,
    `handle_data` with arbitrary bytes, `handle_timer`, `announce`, `gossip`, `broadcast`, `leave_cluster`,
    `add_broadcast`, `change_identity`, `reuse_down_identity`, `set_config`), whatever the RNG draws and whether
    the calls succeed or fail — the counter behind `num_members()` equals the number of active records of
    `iter_members()`. So the Active/Idle transitions, which are decided on this counter
    (`C08.connection_transitions`), are decided on the true number of active members. -/
theorem num_members_exact_always (E : Env) {s : State} (h : Reachable E s) :
    s.numActive = countActive s.ms := (MsInv.reachable E h).2

/-- one call keeps it (the induction step, for any state satisfying it, reachable or not) -/
theorem num_members_exact_step (E : Env) (s : State) (op : Op) (orc : Oracle)
    (h : (s.ms.map (·.id.addr)).Nodup ∧ s.numActive = countActive s.ms) :
    match step E s op orc with
    | .done s' _ _ _ => (s'.ms.map (·.id.addr)).Nodup ∧ s'.numActive = countActive s'.ms
    | .stuck _ => True := (MsInv.leaves E).step s op orc h

/-- a concrete environment and configuration for the non-vacuity examples -/
def exEnv : Env :=
  { codec := fixedCodec,
    handler := { receive := fun _ _ _ => none, invalidates := fun a b => a == b, shouldAdd := fun _ _ => true },
    debug := true }
def exCfg : Config :=
  { probePeriod := 1000, probeRtt := 300, k := 3, maxTx := 5, s2d := 3000, rda := 15000, mps := 1400,
    notifyDown := true, pa := none, pad := none, pg := none }

/-- non-vacuity: a reachable state with an active member (one `apply_many` call, RNG draw 0) -/
example : ∃ s, Reachable exEnv s ∧ s.numActive = 1 ∧ s.ms.length = 1 := by
  refine ⟨_, Reachable.step (.applyMany [⟨⟨2, 0⟩, 0, .alive⟩] false) ⟨[.idx 0], []⟩ _ _ _
    (Reachable.init ⟨1, 0⟩ .none exCfg) rfl, ?_⟩
  decide

/-- **One call.** From any reachable state, for any public call — any input, datagram bytes, timer, RNG; also when
    the call returns an error — replaying the MemberUp / MemberDown / Rename notifications it emitted, in order, on
    the set of identities active before the call gives exactly the set active after it. (`applyNote`: MemberUp
    inserts, MemberDown removes, Rename(old, new) replaces `old` by `new` if `old` is in the set.) -/
theorem notifications_replay_one_call (E : Env) {s : State} (h : Reachable E s) (op : Op) (orc : Oracle) :
    match step E s op orc with
    | .done s' eff _ _ => ∀ x, isActiveId s'.ms x = replay (isActiveId s.ms) (notes eff) x
    | .stuck _ => True :=
  notifications_replay E s op orc (MsInv.reachable E h).1

/-- a history together with every notification it emitted, in order -/
inductive ReachableWith (E : Env) : State → List Notif → Prop
  | init (id : Id) (pol : Policy) (cfg : Config) : ReachableWith E (State.init id pol cfg) []
  | step {s s' : State} {ns : List Notif} (op : Op) (orc : Oracle) (eff : List Effect) (r : Res) (left : Oracle) :
      ReachableWith E s ns → Foca.step E s op orc = .done s' eff r left → ReachableWith E s' (ns ++ notes eff)

theorem ReachableWith.reachable {E : Env} {s : State} {ns : List Notif} (h : ReachableWith E s ns) : Reachable E s := by
  induction h with
  | init id pol cfg => exact Reachable.init id pol cfg
  | step op orc eff r left _ hstep ih => exact Reachable.step op orc eff r left ih hstep

/-- **Whole histories.** After any history of public calls, replaying *all* the membership notifications emitted
    since `Foca::new`, starting from the empty set, reconstructs exactly the set of active members
    (`iter_members`), at every point of the history. -/
theorem notifications_replay_whole_history (E : Env) {s : State} {ns : List Notif} (h : ReachableWith E s ns) :
    ∀ x, isActiveId s.ms x = replay (fun _ => false) ns x := by
  induction h with
  | init id pol cfg => intro x; simp [State.init, isActiveId, replay]
  | step op orc eff r left hprev hstep ih =>
    have h1 := notifications_replay_one_call E hprev.reachable op orc
    rw [hstep] at h1
    intro x
    rw [h1 x, replay_append]
    have : isActiveId _ = replay (fun _ => false) _ := funext ih
    rw [this]

/-- non-vacuity: a member joins, then a newer identity of its address takes over — Up, then Rename -/
example : ∃ s ns, ReachableWith exEnv s ns ∧ ns = [.up ⟨2, 0⟩, .active, .rename ⟨2, 0⟩ ⟨2, 1⟩] ∧
    isActiveId s.ms ⟨2, 1⟩ = true := by
  refine ⟨_, _, ReachableWith.step (.applyMany [⟨⟨2, 1⟩, 0, .alive⟩] false) ⟨[], []⟩ _ _ _
    (ReachableWith.step (.applyMany [⟨⟨2, 0⟩, 0, .alive⟩] false) ⟨[.idx 0], []⟩ _ _ _
      (ReachableWith.init ⟨1, 0⟩ .none exCfg) rfl) rfl, ?_, ?_⟩
  · decide
  · decide

end Foca.C08H
