/-
  C08, whole histories — `num_members()` is exact in every reachable state.
-/
import FocaModel.Proofs.MsInv
import FocaModel.Codec
namespace Foca.C08H
open Foca

/-- In every state an instance can reach — from `Foca::new`, by any sequence of public calls (`apply_many`,
    `handle_data` with arbitrary bytes, `handle_timer`, `announce`, `gossip`, `broadcast`, `leave_cluster`,
    `add_broadcast`, `change_identity`, `reuse_down_identity`, `set_config`), whatever the RNG draws and whether
    the calls succeed or fail — the counter behind `num_members()` equals the number of active records of
    `iter_members()`. So the Active/Idle transitions, which are decided on this counter
    (`C08.connection_transitions`), are decided on the true number of active members. -/
theorem num_members_exact_always (E : Env) {s : State} (h : Reachable E s) :
    s.numActive = countActive s.ms := (MsInv.reachable E h).2

/-- one call keeps it (the induction step, for any state satisfying it, reachable or not) -/
theorem num_members_exact_step (E : Env) (s : State) (op : Op) (orc : Oracle)
    (h : (s.ms.map (·.id.addr)).Nodup ∧ s.numActive = countActive s.ms) :
    match step E s op orc with
    | .done s' _ _ _ => (s'.ms.map (·.id.addr)).Nodup ∧ s'.numActive = countActive s'.ms
    | .stuck _ => True := (MsInv.leaves E).step s op orc h

/-- a concrete environment and configuration for the non-vacuity examples -/
def exEnv : Env :=
  { codec := fixedCodec,
    handler := { receive := fun _ _ _ => none, invalidates := fun a b => a == b, shouldAdd := fun _ _ => true },
    debug := true }
def exCfg : Config :=
  { probePeriod := 1000, probeRtt := 300, k := 3, maxTx := 5, s2d := 3000, rda := 15000, mps := 1400,
    notifyDown := true, pa := none, pad := none, pg := none }

/-- non-vacuity: a reachable state with an active member (one `apply_many` call, RNG draw 0) -/
example : ∃ s, Reachable exEnv s ∧ s.numActive = 1 ∧ s.ms.length = 1 := by
  refine ⟨_, Reachable.step (.applyMany [⟨⟨2, 0⟩, 0, .alive⟩] false) ⟨[.idx 0], []⟩ _ _ _
    (Reachable.init ⟨1, 0⟩ .none exCfg) rfl, ?_⟩
  decide

end Foca.C08H
