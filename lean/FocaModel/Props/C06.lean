/-
  C06 — Foca never panics. Panic sites are explicit `Stuck.panic` values of the model; the theorems
  here show them unreachable for the sending path (where every arithmetic/indexing site lives) under
  the stated configuration bounds. The remaining sites are covered by correspondence + search only.
-/
import FocaModel.Proofs.SendAll
namespace Foca.C06
open Foca

def NoPanic {α} (r : R α) : Prop := ∀ p, r ≠ .stuck (.panic p)

/-- reservoir sampling never indexes outside its output vector (`output[replace_at]`) -/
theorem choose_members_no_panic (wanted : Nat) (pick : Member → Bool) (l out : List Member) (seen : Nat) (c : Ctx) :
    NoPanic (chooseLoop wanted pick l out seen c) := by
  have h := chooseLoop_spec wanted pick l out seen c
  intro p hp
  rw [hp] at h
  exact h p rfl

theorem feedLoop_count (E : Env) (l : List Member) (rem : Nat) : (feedLoop E l rem).2.1 ≤ l.length := by
  induction l generalizing rem with
  | nil => simp [feedLoop]
  | cons m rest ih =>
    unfold feedLoop
    by_cases h : (E.codec.encMember m).length ≤ rem
    · simp only [h, if_true, List.length_cons]
      have := ih (rem - (E.codec.encMember m).length)
      omega
    · simp [h]

theorem framedLen_mem (ov : Nat) (ws : List Bytes) (d : Bytes) (h : d ∈ ws) : d.length + ov ≤ framedLen ov ws := by
  induction ws with
  | nil => simp at h
  | cons w ws ih =>
    simp [framedLen] at *
    rcases h with h | h
    · subst h; omega
    · have := ih h; omega

/-- `estimate_feed_capacity` never divides by zero, the `u16` feed counter never overflows and the
    updates count always fits `u16`, for packets up to 65535 bytes. -/
theorem member_section_no_panic (E : Env) (dst : Id) (msg : Msg) (pick : Pick) (rem0 : Nat) (c : Ctx)
    (h1 : rem0 ≤ c.s.cfg.mps) (h2 : c.s.cfg.mps ≤ 65535) : NoPanic (memberSection E dst msg pick rem0 c) := by
  intro p
  unfold memberSection
  simp only [bind_run, getS_run]
  by_cases hp : (Gen.needsPiggyback msg && decide (rem0 > Gen.piggybackMinSpace)) = true
  · simp only [hp, if_true]
    have hrem : rem0 > 2 := by simp [Gen.piggybackMinSpace] at hp; exact hp.2
    by_cases hf : Gen.piggybackOnlyActive msg = true
    · simp only [hf, if_true]
      have hid : ¬ ((c.s.cfg.mps - (rem0 - 2)) / 2 == 0) = true := by
        simp
        omega
      simp only [hid, Bool.false_eq_true, if_false, bind_run]
      have hc := chooseLoop_spec (max ((rem0 - 2) / ((c.s.cfg.mps - (rem0 - 2)) / 2)) Gen.feedMinEstimate)
        (fun m => m.active && m.id != dst) c.s.ms [] 0 c
      generalize chooseLoop (max ((rem0 - 2) / ((c.s.cfg.mps - (rem0 - 2)) / 2)) Gen.feedMinEstimate)
        (fun m => m.active && m.id != dst) c.s.ms [] 0 c = res at hc ⊢
      cases res with
      | err e c' => exact hc.elim
      | stuck x => simp only []; intro h; injection h with h; exact hc p h
      | ok r c' =>
        obtain ⟨_, _, _, hlen⟩ := hc
        simp only []
        have hcnt := feedLoop_count E r.reverse (rem0 - 2)
        have hdiv : (rem0 - 2) / ((c.s.cfg.mps - (rem0 - 2)) / 2) ≤ rem0 - 2 := Nat.div_le_self _ _
        have : ¬ (E.debug && decide ((feedLoop E r.reverse (rem0 - 2)).2.1 > 65535)) = true := by
          simp [Gen.feedMinEstimate] at *
          intro _
          omega
        simp [this]
    · simp only [hf, Bool.false_eq_true, if_false]
      cases hfl : fill c.s.updates (rem0 - 2) Gen.fillMaxItems 0 pick.updates with
      | none => simp [badOracle]
      | some r =>
        obtain ⟨hw, _, hmi⟩ := fill_space hfl
        have : ¬ r.written.length > 65535 := by
          rw [hw]; simp [Gen.fillMaxItems] at hmi; omega
        simp [this]
  · simp [hp]

/-- `fill_with_len_prefix` never frames an item whose length does not fit `u16`, for packets up to 65535 bytes. -/
theorem custom_tail_no_panic (E : Env) (dst : Id) (msg : Msg) (pick : Pick) (space : Nat) (c : Ctx)
    (h1 : space ≤ 65535) : NoPanic (customTail E dst msg pick space c) := by
  intro p
  unfold customTail
  simp only [bind_run, getS_run]
  by_cases hp : (decide (space > 0) && Gen.allowCustom msg && E.handler.shouldAdd c.s.hst dst) = true
  · simp only [hp, if_true]
    cases hfl : fill c.s.custom space usizeMax Gen.lenPrefix pick.custom with
    | none => simp [badOracle]
    | some r =>
      obtain ⟨hw, hsp, _⟩ := fill_space hfl
      have : ¬ (E.debug && r.written.any (fun d => decide (d.length > 65535))) = true := by
        simp
        intro _ d hd
        have := framedLen_mem Gen.lenPrefix r.written d hd
        rw [hw] at this
        omega
      simp [this]
  · simp [hp]

/-- token and probe-number arithmetic wraps, incarnation arithmetic saturates -/
theorem counters_stay_in_range (n : Nat) (h : n ≤ 65535) : wrapAdd8 n < 256 ∧ satAdd16 n ≤ 65535 := by
  unfold wrapAdd8 satAdd16
  constructor
  · omega
  · split <;> omega

end Foca.C06
