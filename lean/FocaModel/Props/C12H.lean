/-
  C12, whole histories — a probe round ends without suspicion only on genuine evidence.
-/
import FocaModel.Proofs.EvidenceInv
import FocaModel.Props.C12
import FocaModel.Props.C08H
namespace Foca.C12H
open Foca

/-- **No evidence, one call.** While the probe targets `m` under number `N` with no evidence recorded, any public
    call — any datagram bytes, batch, timer (another probe timer included: a new round starts without evidence), API
    call, identity change, any RNG draws — other than the delivery of a datagram whose header is an Ack numbered `N`
    from `m` or a ForwardedAck numbered `N` leaves it so. -/
theorem no_evidence_step (E : Env) (m : Member) (N : Nat) (s : State) (op : Op) (orc : Oracle)
    (h : NoEv m N s) (hop : NotEv E m N op) :
    match step E s op orc with
    | .done s' _ _ _ => NoEv m N s'
    | .stuck _ => True := NoEv.step E m N s op orc h hop

/-- a history of public calls, with the calls made -/
inductive Hist (E : Env) : State → List Op → State → Prop
  | refl (s : State) : Hist E s [] s
  | step {s s1 s2 : State} {ops : List Op} (op : Op) (orc : Oracle) (eff : List Effect) (r : Res) (left : Oracle) :
      Hist E s ops s1 → Foca.step E s1 op orc = .done s2 eff r left → Hist E s (ops ++ [op]) s2

/-- … over a history in which no call brings evidence -/
theorem no_evidence_history (E : Env) (m : Member) (N : Nat) {s0 s' : State} {ops : List Op} (hrun : Hist E s0 ops s')
    (h0 : NoEv m N s0) (hall : ∀ op ∈ ops, NotEv E m N op) : NoEv m N s' := by
  induction hrun with
  | refl => exact h0
  | step op orc eff r left _ hstep ih =>
    have h1 := ih (fun o ho => hall o (List.mem_append.2 (Or.inl ho)))
    have := no_evidence_step E m N _ op orc h1 (hall op (by simp))
    rw [hstep] at this
    exact this

/-- **A round ends without suspicion only on genuine evidence.** Let a probe round for `m` start under number `N`
    (`s0.probe = p.start m`) and let anything happen afterwards — any history of public calls with any inputs. If at
    the end the probe still targets `m` under `N` and the round counts as answered (`take_failed` has nobody to
    suspect), then one of the calls in between was the delivery of a datagram whose header is an Ack numbered `N` from
    `m` itself, or a ForwardedAck numbered `N`. Acks with another number, from another member, from an older round,
    duplicates of earlier evidence for another target, gossip about `m` at any incarnation: none of them ends the
    round without suspicion. (That a ForwardedAck counts only from a helper asked in this round, once, is
    `C12.forwarded_ack_counts_only_from_asked`.) -/
theorem round_answered_only_on_evidence (E : Env) (m : Member) {s0 s' : State} {ops : List Op}
    (hstart : s0.probe.direct = some m ∧ s0.probe.directAckOk = false ∧ s0.probe.indirectAckCount = 0)
    (hrun : Hist E s0 ops s') (hstill : s'.probe.direct = some m ∧ s'.probe.number = s0.probe.number)
    (hans : s'.probe.takeFailed.1 = none) :
    ∃ op ∈ ops, ∃ b h rest, op = .data b ∧ E.codec.decHeader b = some (h, rest) ∧
      ((h.msg = .ack s0.probe.number ∧ h.src = m.id) ∨ ∃ o, h.msg = .forwardedAck o s0.probe.number) := by
  -- otherwise every call keeps `NoEv`, and the round cannot count as answered
  refine Classical.byContradiction (fun hno => ?_)
  have hall : ∀ op ∈ ops, NotEv E m s0.probe.number op := by
    intro op hop b hb h rest hdec
    refine ⟨fun hev => hno ⟨op, hop, b, h, rest, hb, hdec, Or.inl hev⟩, fun o ho => hno ⟨op, hop, b, h, rest, hb, hdec, Or.inr ⟨o, ho⟩⟩⟩
  have hinv : NoEv m s0.probe.number s' :=
    no_evidence_history E m _ hrun (fun _ _ => ⟨hstart.2.1, hstart.2.2⟩) hall
  obtain ⟨h1, h2⟩ := hinv hstill.1 hstill.2
  unfold Probe.takeFailed Probe.succeeded at hans
  rw [h1, h2, hstill.1] at hans
  simp [Gen.probeSucceeded] at hans

/-- **Once answered, a round stays answered** (one call): any call other than the delivery of a probe timer keeps
    "while the probe targets `m` under `N`, the round counts as answered". -/
theorem answered_stays_answered_step (E : Env) (m : Member) (N : Nat) (s : State) (op : Op) (orc : Oracle)
    (h : HasEv m N s) (hop : ∀ tok, op ≠ .timer (.probe tok)) :
    match step E s op orc with
    | .done s' _ _ _ => HasEv m N s'
    | .stuck _ => True := HasEv.step E m N s op orc h hop

/-- **Evidence suffices, and nothing takes it back.** Once the round for `m` under `N` counts as answered — the Ack
    or a ForwardedAck has been recorded — then over any history of calls up to the next probe timer (any datagrams:
    stale or contradicting gossip about `m`, duplicate or foreign Acks; the indirect-probe timer, periodic timers,
    suspicion timeouts, forget-timers; API calls), as long as the probe still targets `m` under `N` the next probe
    timer will find nobody to suspect. With `round_answered_only_on_evidence` this pins down `RoundAnswered`, the
    premise of `C02S.calm_cluster_stays_calm`: a round is answered exactly when its evidence arrived before the next
    probe timer. -/
theorem evidence_suffices (E : Env) (m : Member) {s0 s' : State} {ops : List Op}
    (hans : s0.probe.succeeded = true) (hrun : Hist E s0 ops s')
    (hnp : ∀ op ∈ ops, ∀ tok, op ≠ .timer (.probe tok))
    (hstill : s'.probe.direct = some m ∧ s'.probe.number = s0.probe.number) :
    s'.probe.takeFailed.1 = none := by
  have hinv : HasEv m s0.probe.number s' := by
    clear hstill
    induction hrun with
    | refl => exact fun _ _ => hans
    | step op orc eff r left _ hstep ih =>
      have h1 := ih (fun o ho => hnp o (List.mem_append.2 (Or.inl ho)))
      have := answered_stays_answered_step E m _ _ op orc h1 (hnp op (by simp))
      rw [hstep] at this
      exact this
  have := hinv hstill.1 hstill.2
  unfold Probe.takeFailed
  simp [this]

/-- a round that has just started meets the premise -/
theorem started_round_has_no_evidence (p : Probe) (m : Member) :
    (p.start m).direct = some m ∧ (p.start m).directAckOk = false ∧ (p.start m).indirectAckCount = 0 :=
  ⟨rfl, rfl, rfl⟩

/-! non-vacuity: instance 1 learns of member 2, its probe timer starts a round for it under number 1, the Ack
   numbered 1 from member 2 arrives: the premises of `round_answered_only_on_evidence` hold, and the evidence it
   promises is that datagram -/
def exA : State := State.init ⟨1, 0⟩ .none C08H.exCfg
def exS1 : State :=
  match Foca.step C08H.exEnv exA (.applyMany [⟨⟨2, 0⟩, 0, .alive⟩] false) ⟨[.idx 0], []⟩ with
  | .done s _ _ _ => s | .stuck _ => exA
def exS2 : State :=
  match Foca.step C08H.exEnv exS1 (.timer (.probe 0)) ⟨[.perm [0]], [⟨[], []⟩]⟩ with
  | .done s _ _ _ => s | .stuck _ => exA
def exAck : Bytes := [0, 2, 0, 0, 0, 0, 0, 1, 0, 0, 1, 1]
def exS3 : State :=
  match Foca.step C08H.exEnv exS2 (.data exAck) ⟨[], []⟩ with
  | .done s _ _ _ => s | .stuck _ => exA

set_option maxRecDepth 8000 in
example : Hist C08H.exEnv exS2 [.data exAck] exS3 ∧
    (exS2.probe.direct = some ⟨⟨2, 0⟩, 0, .alive⟩ ∧ exS2.probe.directAckOk = false ∧ exS2.probe.indirectAckCount = 0) ∧
    (exS3.probe.direct = some ⟨⟨2, 0⟩, 0, .alive⟩ ∧ exS3.probe.number = exS2.probe.number) ∧
    exS3.probe.takeFailed.1 = none ∧
    C08H.exEnv.codec.decHeader exAck = some (⟨⟨2, 0⟩, 0, ⟨1, 0⟩, .ack 1⟩, []) :=
  ⟨Hist.step (ops := []) (.data exAck) ⟨[], []⟩ _ _ _ (Hist.refl _) (by rfl), by decide, by decide, by decide, by decide⟩

/-- … and the state after that Ack meets the premise of `evidence_suffices` -/
example : exS3.probe.succeeded = true ∧ exS3.probe.direct = some ⟨⟨2, 0⟩, 0, .alive⟩ := by decide

end Foca.C12H
