/-
  C03 — completeness, the part that is logic: a member that stays silent is suspected by the next probe timer, and a
  suspicion nobody refutes ends in Down with MemberDown notified — for every state, RNG draw and outcome of the call.
  (How long this takes — which round reaches the member, when the timers fire — is the timing half: C14H's 2n−1
  window for the round, the simulator for the clock.)
-/
import FocaModel.Proofs.Detect
import FocaModel.Proofs.DownGossip
import FocaModel.Props.C12S
import FocaModel.Props.C03
import FocaModel.Props.C12H
namespace Foca.C03H
open Foca

section
variable (E : Env)

/-- **A silent member is suspected.** A connected instance's current probe timer fires after a complete cycle whose
    target `failed` did not answer (`take_failed` yields it), while the record of `failed` is still active and not
    known at a higher incarnation. Whatever the call returns: afterwards the record is Suspect at the incarnation of
    the round, and the suspicion timeout for that identity, that incarnation and the current epoch has been
    scheduled after `suspect_to_down_after`. -/
theorem unanswered_round_raises_suspicion (s : State) (tok : Nat) (orc : Oracle) (failed k : Member)
    (hn : NodupAddr s.ms) (htok : tok = s.token) (hconn : s.conn = .connected) (hv : s.probe.validate = true)
    (hf : s.probe.takeFailed.1 = some failed) (hk : k ∈ s.ms) (hid : k.id = failed.id) (hact : k.active = true)
    (hle : k.inc ≤ failed.inc) :
    match Foca.step E s (.timer (.probe tok)) orc with
    | .done s' eff _ _ => (⟨failed.id, failed.inc, .suspect⟩ : Member) ∈ s'.ms ∧
        Effect.timer s.cfg.s2d (.s2d failed.id failed.inc s.token) ∈ eff
    | .stuck _ => True := by
  obtain ⟨pre, post, _, hex⟩ := applyExisting_lands hn hk ⟨failed.id, failed.inc, .suspect⟩ (fun _ => true) (by rw [hid])
  have hup := suspect_update k failed.inc hact hle
  have hact' := (C12.unanswered_member_becomes_suspect k failed.inc hact hle).2
  rw [hid] at hup hact'
  rw [hup] at hex
  obtain ⟨c1, hrun, hms, pre', heff, _⟩ :=
    C12.failed_round_schedules_exactly_one_timeout E ⟨s, [], orc⟩ failed _ _ hf hex hact'
  simp only at hms heff
  have hl : Listed ⟨failed.id, failed.inc, .suspect⟩ (.timer s.cfg.s2d (.s2d failed.id failed.inc s.token)) c1.s c1.eff :=
    ⟨by rw [hms]; simp, by rw [heff]; simp⟩
  have hrest := (PresC.bind (Listed.probeStartNext E) (fun _ => PresC.bind PresC.getS (fun s2 =>
    PresC.bind (Listed.emit (Effect.timer s2.cfg.probePeriod (.probe s2.token))) (fun _ => (PresC.pure () :
      PresC (Listed _ _) (pure () : M Unit)))))).run c1 hl
  unfold Foca.step Foca.runOp
  simp only [bind_run]
  unfold Foca.handleTimer
  simp only [bind_run, getS_run]
  have h1 : (tok == s.token) = true := by simp [htok]
  have h2 : (s.conn != Conn.connected) = false := by simp [hconn]
  simp only [h1, h2, ↓reduceIte, Bool.false_eq_true]
  unfold Foca.probeRandomMember
  simp only [bind_run, getS_run]
  have hd : (E.debug && s.conn != Conn.connected) = false := by simp [hconn]
  simp only [hd, Bool.false_eq_true, ↓reduceIte, hv, Bool.not_true]
  simp only [bind_run, getS_run, hrun, pure_run]
  simp only [bind_run, getS_run, pure_run] at hrest
  revert hrest
  generalize Foca.probeStartNext E c1 = r
  intro hrest
  cases r with
  | stuck x => trivial
  | err e c' => simp only at hrest ⊢; exact hrest
  | ok u c' => simp only [emit_run] at hrest ⊢; exact hrest

/-- **An unrefuted suspicion ends in Down.** The suspicion timeout of the current epoch finds the record of `m` at
    the incarnation the suspicion was raised at and not yet Down (nobody refuted, nobody superseded the identity):
    whatever the call returns — also when the courtesy TurnUndead cannot be encoded — afterwards the record of `m`
    is Down, `MemberDown(m)` has been notified and the forget-timer for `m` scheduled. One record per address
    (`NodupAddr`, true of every reachable state) is what makes "the record of `m`" well-defined. -/
theorem unrefuted_timeout_declares_down (s : State) (m : Id) (inc tok : Nat) (orc : Oracle)
    (hn : NodupAddr s.ms) (htok : tok = s.token) (k : Member) (hk : k ∈ s.ms) (hid : k.id = m) (hinc : k.inc = inc)
    (hst : k.st ≠ .down) :
    match Foca.step E s (.timer (.s2d m inc tok)) orc with
    | .done s' eff _ _ => (⟨m, inc, .down⟩ : Member) ∈ s'.ms ∧ Effect.notify (.down m) ∈ eff ∧
        Effect.timer s.cfg.rda (.rm m) ∈ eff
    | .stuck _ => True := by
  obtain ⟨pre, post, hsplit, hex⟩ := applyExisting_lands hn hk ⟨m, inc, .down⟩ (fun r => r.inc == inc) (by rw [hid])
  have htk := C11.timeout_on_same_identity k inc
  rw [hid] at htk
  simp only [hinc, hst, ne_eq, not_false_eq_true, and_self, ↓reduceIte] at htk
  rw [htk] at hex
  simp only at hex
  obtain ⟨c1, hms, _, heff, _, hrun⟩ := C11.effective_timeout E m inc ⟨s, [], orc⟩ _ _ hex rfl rfl rfl rfl
  simp only at hrun heff hms
  have hkept : Kept (pre ++ ⟨m, inc, .down⟩ :: post) [.timer s.cfg.rda (.rm m), .notify (.down m)] c1.s c1.eff :=
    ⟨hms, fun e he => by rw [heff]; simpa using he⟩
  have hrest := (PresC.bind (Kept.adjust E) (fun _ => (PresC.ite (Kept.sendMessage E m .turnUndead)
    (PresC.pure ()) : PresC (Kept _ _) (if s.cfg.notifyDown then Foca.sendMessage E m .turnUndead else pure ())))).run c1 hkept
  unfold Foca.step Foca.runOp
  simp only [bind_run]
  rw [htok, hrun]
  generalize (Foca.adjustConnectionState E >>= fun _ => if s.cfg.notifyDown then Foca.sendMessage E m .turnUndead else pure ()) c1 = r at hrest
  cases r with
  | stuck x => trivial
  | err e c' =>
    simp only at hrest ⊢
    exact ⟨by rw [hrest.1]; simp, hrest.2 _ (by simp), hrest.2 _ (by simp)⟩
  | ok u c' =>
    simp only [pure_run] at hrest ⊢
    exact ⟨by rw [hrest.1]; simp, hrest.2 _ (by simp), hrest.2 _ (by simp)⟩


end

section
variable (E : Env)

/-- **Down gossip takes effect at whoever handles it.** An instance successfully handled a datagram addressed to it.
    Then either it considers the sender inactive (payload discarded, C09), or every member the update section says is
    Down — other than members of its own address — is now recorded Down, or its address is held by a newer identity
    (`DownInv`), and by `C11H.down_identity_never_active_again` stays so until its forget-timer. Whatever the instance
    held about the member (Alive at any incarnation, Suspect, unknown), whatever else the datagram carries, later
    updates of the same datagram included. With `C08H.notifications_replay_one_call` a member that was active before
    has its MemberDown (or Rename) among the call's notifications. This is how the survivors that did not probe the
    failed member themselves come to report it. -/
theorem down_gossip_takes_effect {s s' : State} {data : Bytes} {orc left : Oracle} {eff : List Effect}
    (hstep : Foca.step E s (.data data) orc = .done s' eff .ok left)
    (h : Header) (rest : Bytes) (hdec : E.codec.decHeader data = some (h, rest)) (hdst : h.dst = s.id)
    (us : List Member) (tail : Bytes) (hparse : parseSection E h rest = some (us, tail)) :
    (∀ u ∈ us, u.st = .down → u.id.addr ≠ s.id.addr → DownInv u.id s') ∨
      ∃ c1, Foca.applyUpdate E ⟨h.src, h.srcInc, .alive⟩ true ⟨s, [], orc⟩ = .ok false c1 :=
  handleData_downs E data _ _ (C12S.step_data_ok E hstep) h rest hdec hdst us tail hparse

end

/-! non-vacuity: in the worked cluster of `C12H` (instance 1 probing member 2 under number 1, no Ack), once the
   indirect-probe timer has fired — nobody else to ask — every premise of `unanswered_round_raises_suspicion` holds -/
def exS : State :=
  match Foca.step C08H.exEnv C12H.exS2 (.timer (.indirect ⟨2, 0⟩ 0)) ⟨[], []⟩ with
  | .done s _ _ _ => s | .stuck _ => C12H.exS2

example : (exS.ms.map (·.id.addr)).Nodup ∧ exS.conn = .connected ∧ exS.probe.validate = true ∧
    exS.probe.takeFailed.1 = some ⟨⟨2, 0⟩, 0, .alive⟩ ∧ (⟨⟨2, 0⟩, 0, .alive⟩ : Member) ∈ exS.ms := by decide

/-- … and the probe timer then leaves member 2 Suspect with its timeout scheduled, which in turn meets the premises
    of `unrefuted_timeout_declares_down` -/
def exS' : State × List Effect :=
  match Foca.step C08H.exEnv exS (.timer (.probe 0)) ⟨[.perm [0]], [⟨[[0, 2, 0, 0, 0, 0, 1]], []⟩]⟩ with
  | .done s' eff _ _ => (s', eff) | .stuck _ => (exS, [])

set_option maxRecDepth 8000 in
example : (⟨⟨2, 0⟩, 0, .suspect⟩ : Member) ∈ exS'.1.ms ∧ (exS'.1.ms.map (·.id.addr)).Nodup ∧ exS'.1.token = 0 ∧
    exS'.2.any (fun e => match e with | .timer 3000 (.s2d ⟨2, 0⟩ 0 0) => true | _ => false) = true := by decide

end Foca.C03H
