/-
  C02 — discovery, one call at a time: what a Feed (or any datagram) offers, the receiver lists; in a fault-free
  cluster, as active members under exactly the offered identities.
-/
import FocaModel.Proofs.Learn
import FocaModel.Props.C02
import FocaModel.Props.C12S
namespace Foca.C02H
open Foca Foca.C07 Foca.C07H

section
variable (E : Env)

/-- **What a datagram tells, the receiver lists.** An instance successfully handled a datagram addressed to it.
    Then either it considers the sender inactive (Down, or superseded: the payload is discarded, C09), or every member
    named in the update section, other than members of its own address, now has its address listed — at a generation
    at least the one named. Any state, any message kind, any RNG draws. -/
theorem offered_members_are_listed {s s' : State} {data : Bytes} {orc left : Oracle} {eff : List Effect}
    (hstep : Foca.step E s (.data data) orc = .done s' eff .ok left)
    (h : Header) (rest : Bytes) (hdec : E.codec.decHeader data = some (h, rest)) (hdst : h.dst = s.id)
    (us : List Member) (tail : Bytes) (hparse : parseSection E h rest = some (us, tail)) :
    (∀ u ∈ us, u.id.addr ≠ s.id.addr → ∃ m ∈ s'.ms, m.id.addr = u.id.addr ∧ m.id.gen ≥ u.id.gen) ∨
      ∃ c1, Foca.applyUpdate E ⟨h.src, h.srcInc, .alive⟩ true ⟨s, [], orc⟩ = .ok false c1 :=
  handleData_lists_updates E data _ _ (C12S.step_data_ok E hstep) h rest hdec hdst us tail hparse

variable (τ : Id → Nat) (ids : List Id)

/-- **In a fault-free cluster a Feed is learnt.** A calm instance (only Alive records about a cluster with pairwise
    different addresses) successfully handles a calm datagram addressed to it — the Feed answering its Announce, or
    any gossip. Then every member named in the update section, other than itself, is afterwards listed as an
    **active member under exactly that identity**. This is the step by which a joiner comes to list the members it is
    offered (`C02.feed_offers_members`: a Feed offers at least one; `C07`: only active members other than receiver and
    sender); `C02S.views_only_grow`: it keeps listing them. -/
theorem calm_feed_is_learnt (hd : DistinctAddrs ids) {s s' : State} {data : Bytes} {orc left : Oracle}
    {eff : List Effect} (hs : CalmInv E τ ids s) (hdat : DataOk E (CalmM τ ids) (CalmH τ ids) data)
    (hstep : Foca.step E s (.data data) orc = .done s' eff .ok left)
    (h : Header) (rest : Bytes) (hdec : E.codec.decHeader data = some (h, rest)) (hdst : h.dst = s.id)
    (us : List Member) (tail : Bytes) (hparse : parseSection E h rest = some (us, tail)) :
    ∀ u ∈ us, u.id.addr ≠ s.id.addr → ∃ m ∈ s'.ms, m.id = u.id ∧ m.st = .alive := by
  have hrun := C12S.step_data_ok E hstep
  have hc0 : CalmSent E τ ids (fun _ => True) (Ctx.mk s [] orc).s (Ctx.mk s [] orc).eff :=
    ⟨hs, by intro e he; simp at he⟩
  have hpost := (CalmP.handleData E τ ids (fun _ => True) hd data hdat (fun _ _ _ _ _ _ _ => trivial)).run _ hc0
  rw [hrun] at hpost
  simp only at hpost
  obtain ⟨hh, hmem⟩ := hdat h rest hdec
  rcases offered_members_are_listed E hstep h rest hdec hdst us tail hparse with hl | ⟨c1, hc1⟩
  · intro u hu hne
    obtain ⟨m, hm, hma, _⟩ := hl u hu hne
    have hcm := hpost.1.2.2.1 m hm
    have hcu := hmem us tail hparse u hu
    exact ⟨m, hm, hd m.id hcm.2.2.1 u.id hcu.2.2.1 hma, hcm.2.1⟩
  · exfalso
    have h1 := (CalmP.applyUpdate E τ ids (fun _ => True) hd ⟨h.src, h.srcInc, .alive⟩ true hh.sender).run _ hc0
    rw [hc1] at h1
    simp only at h1
    exact Bool.noConfusion h1.2

end

/-! non-vacuity: a fresh instance 1 handles a Gossip from member 2 that names member 3; the premises of
   `offered_members_are_listed` hold and it now lists both -/
def exD : Bytes := [0, 2, 0, 0, 0, 0, 0, 1, 0, 0, 8, 0, 1, 0, 3, 0, 0, 0, 0, 0]
def exS' : State :=
  match Foca.step C08H.exEnv (State.init ⟨1, 0⟩ .none C08H.exCfg) (.data exD) ⟨[.idx 0, .idx 0], []⟩ with
  | .done s _ _ _ => s | .stuck _ => State.init ⟨1, 0⟩ .none C08H.exCfg

example : C08H.exEnv.codec.decHeader exD = some (⟨⟨2, 0⟩, 0, ⟨1, 0⟩, .gossip⟩, [0, 1, 0, 3, 0, 0, 0, 0, 0]) := by decide

example : parseSection C08H.exEnv ⟨⟨2, 0⟩, 0, ⟨1, 0⟩, .gossip⟩ [0, 1, 0, 3, 0, 0, 0, 0, 0] =
    some ([⟨⟨3, 0⟩, 0, .alive⟩], []) := by decide

set_option maxRecDepth 8000 in
example : exS'.ms.map (fun m => (m.id, m.st)) = [(⟨3, 0⟩, .alive), (⟨2, 0⟩, .alive)] := by decide +kernel

end Foca.C02H
