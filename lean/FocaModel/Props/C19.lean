/-
  C19 — Foca never chooses its own address as a destination.
-/
import FocaModel.Proofs.SendAll
import FocaModel.Proofs.View
namespace Foca.C19
open Foca

/-- no listed record bearing address `a` is active -/
def OwnInactive (a : Nat) (ms : List Member) : Prop := ∀ m ∈ ms, m.id.addr = a → m.active = false

/-- Periodic announce-to-down never targets a record bearing the instance's own address
    (any RNG draws, any layout of records). This is the clause that was false before the
    `fix: never announce to down members bearing our own address` commit. -/
theorem announce_to_down_never_own_address (E : Env) (num : Nat) (c : Ctx) :
    SendsTo (fun d => d.addr ≠ c.s.id.addr ∧ ∃ m ∈ c.s.ms, m.id = d ∧ m.active = false) c (announceToDown E num c) :=
  announceToDown_spec E num c

/-- Gossip, periodic announce and every other "pick some active members" send goes to listed,
    active members only … -/
theorem chosen_targets_are_active_members (E : Env) (num : Nat) (msg : Msg) (c : Ctx) :
    SendsTo (fun d => ∃ m ∈ c.s.ms, m.id = d ∧ m.active = true) c (chooseAndSend E num msg c) :=
  chooseAndSend_spec E num msg c

/-- … hence never to the own address, as long as no own-address record is active. -/
theorem chosen_targets_not_own_address (E : Env) (num : Nat) (msg : Msg) (c : Ctx)
    (hinv : OwnInactive c.s.id.addr c.s.ms) :
    SendsTo (fun d => d.addr ≠ c.s.id.addr) c (chooseAndSend E num msg c) := by
  have h := chooseAndSend_spec E num msg c
  generalize chooseAndSend E num msg c = r at h ⊢
  have conv : ∀ d : Id, (∃ m ∈ c.s.ms, m.id = d ∧ m.active = true) → d.addr ≠ c.s.id.addr := by
    intro d ⟨m, hm, hid, hact⟩ heq
    have := hinv m hm (by rw [hid]; exact heq)
    rw [this] at hact
    exact Bool.false_ne_true hact
  cases r with
  | stuck x => trivial
  | ok u c' =>
    obtain ⟨hob, new, heff, hall⟩ := h
    refine ⟨hob, new, heff, fun e he => ?_⟩
    obtain ⟨d, b, h1, h2, h3⟩ := hall e he
    exact ⟨d, b, h1, conv d h2, h3⟩
  | err k c' =>
    obtain ⟨hk, hob, new, heff, hall⟩ := h
    refine ⟨hk, hob, new, heff, fun e he => ?_⟩
    obtain ⟨d, b, h1, h2, h3⟩ := hall e he
    exact ⟨d, b, h1, conv d h2, h3⟩

/-- The invariant is kept by every accepted update that is either about another address or Down —
    which is what `apply_many` turns own-address updates into. -/
theorem own_inactive_preserved (a : Nat) (ms : List Member) (u : Member) (j : Nat)
    (hinv : OwnInactive a ms) (hu : u.id.addr ≠ a ∨ u.active = false) : OwnInactive a (applyP ms u j) := by
  unfold applyP
  cases h : applyExisting ms u (fun _ => true) with
  | none =>
    intro m hm hma
    have := (applyNew_perm ms u j).mem_iff.1 hm
    simp at this
    rcases this with h1 | h1
    · subst h1
      rcases hu with hu | hu
      · exact absurd hma hu
      · exact hu
    · exact hinv m h1 hma
  | some r =>
    obtain ⟨ms', s⟩ := r
    simp only
    induction ms generalizing ms' s with
    | nil => simp [applyExisting] at h
    | cons k rest ih =>
      unfold applyExisting at h
      by_cases hk : (k.id.addr == u.id.addr) = true
      · simp only [hk, if_true] at h
        simp at h
        obtain ⟨h1, _⟩ := h
        subst h1
        intro m hm hma
        simp at hm
        rcases hm with hm | hm
        · subst hm
          have hka : k.id.addr = u.id.addr := by simpa using hk
          have hkin := hinv k (by simp)
          -- the merged record is k, u, or k's identity with u's state
          unfold updateKnown at hma ⊢
          by_cases hid : k.id = u.id
          · by_cases hc : Gen.canChange k.st k.inc u.inc u.st = true
            · simp [hid, hc] at hma ⊢
              rcases hu with hu | hu
              · exact absurd (by rw [← hma]) hu
              · simpa [Member.active] using hu
            · simp [hid, hc] at hma ⊢
              exact hkin (by rw [hid]; exact hma)
          · by_cases hw : k.id.wins u.id = true
            · simp [hid, hw] at hma ⊢
              exact hkin hma
            · simp [hid, hw] at hma ⊢
              rcases hu with hu | hu
              · exact absurd hma hu
              · simpa [Member.active] using hu
        · exact hinv m (by simp [hm]) hma
      · simp only [hk, Bool.false_eq_true, if_false] at h
        cases hr : applyExisting rest u (fun _ => true) with
        | none => rw [hr] at h; simp at h
        | some r =>
          obtain ⟨rest', s'⟩ := r
          rw [hr] at h
          simp at h
          obtain ⟨h1, _⟩ := h
          subst h1
          intro m hm hma
          simp at hm
          rcases hm with hm | hm
          · subst hm; exact hinv m (by simp) hma
          · exact ih (fun x hx => hinv x (by simp [hx])) _ _ hr m hm hma

/-- `apply_many` stores every update about another identity of the own address as Down. -/
theorem own_address_updates_become_down (E : Env) (u : Member) (bcast : Bool) (c : Ctx)
    (hne : u.id ≠ c.s.id) (haddr : c.s.id.addr = u.id.addr) :
    applyOne E u bcast c = (applyUpdate E ⟨u.id, 0, .down⟩ bcast >>= fun _ => pure ()) c := by
  unfold applyOne
  simp [hne, haddr]

/-! non-vacuity: a state with an old own-address identity listed (Down) meets the invariant -/
example : OwnInactive 1 [⟨⟨1, 0⟩, 0, .down⟩, ⟨⟨2, 0⟩, 0, .alive⟩] := by
  intro m hm ha
  simp at hm
  rcases hm with h | h <;> subst h <;> simp_all [Member.active, Gen.isActive]

/-- where the reply to a message may go: back to its sender, or — for the two relay legs — to the target the
    peer named (outside the guarantee, as the property says) -/
def ReplyDst (h : Header) (d : Id) : Prop :=
  d = h.src ∨ (∃ n, h.msg = .pingReq d n) ∨ (∃ n, h.msg = .indirectAck d n)

/-- what a reply stage emits: at most one datagram, to a `ReplyDst` -/
def RepliesOK (h : Header) (c : Ctx) (r : R Unit) : Prop :=
  match r with
  | .ok _ c' => c'.eff = c.eff ∨ ∃ d b, c'.eff = c.eff ++ [.send d b] ∧ ReplyDst h d
  | .err _ c' => c'.eff = c.eff
  | .stuck _ => True

/-- **Replies go to the sender.** Whatever the message (other than TurnUndead, which is not answered but acted upon),
    the reaction sends at most one datagram, and it goes back to the sender of the message — whose address
    `handle_data` has checked not to be the own address (`C19H.no_reply_to_own_address`) — or, for PingReq and
    IndirectAck, to the relay target the peer named. -/
theorem replies_go_to_the_sender (E : Env) (h : Header) (c : Ctx) (hm : h.msg ≠ .turnUndead) :
    RepliesOK h c (reactToMessage E h c) := by
  unfold reactToMessage RepliesOK
  simp only [bind_run, getS_run]
  have send : ∀ (d : Id) (m : Msg), ReplyDst h d →
      (match sendMessage E d m c with
        | .ok _ c' => c'.eff = c.eff ∨ ∃ d' b, c'.eff = c.eff ++ [.send d' b] ∧ ReplyDst h d'
        | .err _ c' => c'.eff = c.eff
        | .stuck _ => True) := by
    intro d m hd
    have hs := sendMessage_spec E d m c
    cases hr : sendMessage E d m c with
    | stuck x => trivial
    | err e c' => rw [hr] at hs; exact hs.2.2
    | ok u c' =>
      rw [hr] at hs
      obtain ⟨_, body, heff, _⟩ := hs
      exact Or.inr ⟨d, _, heff, hd⟩
  cases hmsg : h.msg with
  | ping n => simp only []; exact send h.src _ (Or.inl rfl)
  | ack n => simp
  | pingReq target n =>
    simp only []
    by_cases hg : (target == c.s.id) = true
    · simp [hg]
    · simp only [hg, Bool.false_eq_true, if_false]
      exact send target _ (Or.inr (Or.inl ⟨n, hmsg⟩))
  | indirectPing origin n =>
    simp only []
    by_cases hg : (origin == c.s.id) = true
    · simp [hg]
    · simp only [hg, Bool.false_eq_true, if_false]
      exact send h.src _ (Or.inl rfl)
  | indirectAck target n =>
    simp only []
    by_cases hg : (target == c.s.id) = true
    · simp [hg]
    · simp only [hg, Bool.false_eq_true, if_false]
      exact send target _ (Or.inr (Or.inr ⟨n, hmsg⟩))
  | forwardedAck origin n =>
    simp only []
    by_cases hg : (origin == c.s.id) = true
    · simp [hg]
    · simp [hg]
  | announce => simp only []; exact send h.src _ (Or.inl rfl)
  | turnUndead => exact absurd hmsg hm
  | gossip => simp
  | feed => simp
  | broadcast => simp

/-- what this property means by "active": Alive or Suspect, never Down — over the `is_active` the translator
    reads from `member.rs` (an obligation of this property since the model follows the source) -/
theorem active_is_alive_or_suspect (st : St) : Gen.isActive st = (st != .down) := by
  cases st <;> rfl

end Foca.C19
