/-
  C15, whole histories — the update backlog holds one pending update per address in every reachable state.
-/
import FocaModel.Proofs.UpdInv
import FocaModel.Proofs.UpdReach
import FocaModel.Props.C08H
namespace Foca.C15H
open Foca

/-- In every state an instance can reach — any sequence of public calls, any inputs, any RNG and any order in
    which the heap yields equal-priority entries — the cluster-update backlog holds at most one entry per
    address: a newer update about an address always replaces the pending older one, and sending (which takes
    entries out, decrements them and puts them back) never duplicates one. -/
theorem one_update_per_address_always (E : Env) {s : State} (h : Reachable E s) :
    (s.updates.map (·.key)).Nodup := UpdInv.reachable E h

/-- one call keeps it, from any state satisfying it -/
theorem one_update_per_address_step (E : Env) (s : State) (op : Op) (orc : Oracle)
    (h : (s.updates.map (·.key)).Nodup) :
    match step E s op orc with
    | .done s' _ _ _ => (s'.updates.map (·.key)).Nodup
    | .stuck _ => True := (UpdInv.leaves E).step s op orc h

/-- what a send does to the backlog, exactly: nothing, or one `fill` of it (the accounting theorems of C15 then
    describe that fill) -/
theorem send_touches_backlog_by_one_fill (E : Env) (dst : Id) (msg : Msg) (c : Ctx) :
    match sendMessage E dst msg c with
    | .ok _ c' => c'.s.updates = c.s.updates ∨
        ∃ sp picks r, fill c.s.updates sp Gen.fillMaxItems 0 picks = some r ∧ c'.s.updates = r.pending ++ r.done
    | _ => True := sendMessage_upd E dst msg c

/-- non-vacuity: a reachable state with a pending update (apply with broadcasting on) -/
example : ∃ s, Reachable C08H.exEnv s ∧ s.updates.map (·.key) = [2] := by
  refine ⟨_, Reachable.step (.applyMany [⟨⟨2, 0⟩, 0, .alive⟩] true) ⟨[.idx 0], []⟩ _ _ _
    (Reachable.init ⟨1, 0⟩ .none C08H.exCfg) rfl, ?_⟩
  decide

/-- **Per datagram, by key.** One `fill` writes one item per entry it takes, and the transmissions left for an
    address drop by exactly the number of times its entry was written (any tie order the heap may use). -/
theorem each_write_costs_its_entry_one_transmission {b : List (Entry Nat)} {space : Nat} {picks : List Bytes}
    {r : FillResult Nat} (h : fill b space Gen.fillMaxItems 0 picks = some r) (k : Nat) :
    txOf (r.pending ++ r.done) k + (fillKeys b space picks).count k = txOf b k ∧
    (fillKeys b space picks).length = r.written.length := fill_tx h k

/-- **Whole life of an update.** Over *any* sequence of backlog operations — datagrams (`fill`, any space, any
    tie order) and enqueues of updates about *other* addresses — of any length, the number of times the update
    about address `k` is written plus the transmissions it has left is constant … -/
theorem transmissions_are_conserved (b b' : List (Entry Nat)) (k : Nat) (ops : List BOp)
    (hno : ∀ op ∈ ops, BOp.enqueues k op = false) (h : runOps b ops = some b') :
    txOf b' k + writesOver b k ops = txOf b k := lifetime_account b b' k ops hno h

/-- … so an update enqueued with `max_transmissions = m` is written into at most `m` datagrams before a newer
    update about the same address replaces it, however long the history. -/
theorem at_most_max_transmissions_over_its_life (b b' : List (Entry Nat)) (k : Nat) (d : Bytes) (m : Nat)
    (ops : List BOp) (hno : ∀ op ∈ ops, BOp.enqueues k op = false)
    (h : runOps (addOrReplace b Gen.addrInvalidates k d m) ops = some b') :
    writesOver (addOrReplace b Gen.addrInvalidates k d m) k ops ≤ m :=
  written_at_most_max_transmissions b b' k d m ops hno h

/-- These backlog operations are all that ever happens to an instance's backlog: one public call — any input, any
    RNG, any tie order — takes `updates` to the result of a sequence of enqueues and fills. -/
theorem backlog_changes_only_by_enqueue_and_fill (E : Env) (s : State) (op : Op) (orc : Oracle) :
    match step E s op orc with
    | .done s' _ _ _ => ∃ ops, runOps s.updates ops = some s'.updates
    | .stuck _ => True := updates_evolve_by_backlog_ops E s op orc

/-- non-vacuity: an update with two transmissions, written by two datagrams, is gone; a third finds nothing -/
example : runOps (addOrReplace [] Gen.addrInvalidates 7 [1, 2, 3] 2) [.fill 100 [[1, 2, 3]], .fill 100 [[1, 2, 3]]] = some [] ∧
    writesOver (addOrReplace [] Gen.addrInvalidates 7 [1, 2, 3] 2) 7 [.fill 100 [[1, 2, 3]], .fill 100 [[1, 2, 3]]] = 2 ∧
    runOps [] [.fill 100 [[1, 2, 3]]] = none := by decide

/-! ### known finding F10: "applying updates with broadcasting disabled leaves the backlog untouched" is false when
   the batch is about the instance itself -/

/-- the clause at full strength -/
def NoBroadcastFull (E : Env) : Prop :=
  ∀ (s s' : State) (us : List Member) (orc left : Oracle) (eff : List Effect) (r : Res), Reachable E s →
    step E s (.applyMany us false) orc = .done s' eff r left → s'.updates = s.updates

def f10S0 : State := State.init ⟨1, 0⟩ .bump C08H.exCfg
def f10S1 : State :=
  match step C08H.exEnv f10S0 (.applyMany [⟨⟨2, 0⟩, 0, .alive⟩] true) ⟨[.idx 0], []⟩ with
  | .done s _ _ _ => s | .stuck _ => f10S0
def f10S2 : State :=
  match step C08H.exEnv f10S1 (.applyMany [⟨⟨1, 0⟩, 0, .suspect⟩] false) ⟨[], [⟨[[0, 2, 0, 0, 0, 0, 0]], []⟩]⟩ with
  | .done s _ _ _ => s | .stuck _ => f10S0

/-- **F10 (open finding): false as stated.** Instance 1 holds one pending update (member 2, five transmissions
    left); a batch applied with `do_broadcast = false` that says instance 1 is Suspect makes it gossip the
    refutation, and the pending update is left with four transmissions. Replayed on the real crate:
    `corpus/C15/F10-nobroadcast-self-update.json`. -/
theorem no_broadcast_full_is_false : ¬ NoBroadcastFull C08H.exEnv := by
  intro h
  have hreach : Reachable C08H.exEnv f10S1 :=
    Reachable.step (.applyMany [⟨⟨2, 0⟩, 0, .alive⟩] true) ⟨[.idx 0], []⟩ _ _ _ (Reachable.init ⟨1, 0⟩ .bump C08H.exCfg) rfl
  have := h f10S1 f10S2 [⟨⟨1, 0⟩, 0, .suspect⟩] ⟨[], [⟨[[0, 2, 0, 0, 0, 0, 0]], []⟩]⟩ _ _ _ hreach rfl
  revert this
  decide

/-- updates backlog and identity are exactly these -/
def UpdIs (U : List (Entry Nat)) (I : Id) (s : State) : Prop := s.updates = U ∧ s.id = I

theorem UpdIs.applyUpdate (E : Env) (U : List (Entry Nat)) (I : Id) (u : Member) : Pres (UpdIs U I) (Foca.applyUpdate E u false) := by
  constructor
  intro c hc
  unfold Foca.applyUpdate
  simp only [bind_run, getS_run]
  by_cases hdbg : (E.debug && c.s.id == u.id) = true
  · simp [hdbg, panicAt]
  · simp only [hdbg, Bool.false_eq_true, ↓reduceIte, bind_run]
    have hm := membersApply_only u c
    cases h : membersApply u c with
    | stuck x => trivial
    | err e c1 => rw [h] at hm; simp only [MemOnly] at hm ⊢; unfold UpdIs at *; rw [hm]; exact hc
    | ok sm c1 =>
      rw [h] at hm
      simp only [MemOnly, OnlyMembership] at hm
      obtain ⟨c2, h1, h2, _⟩ := C08.notifications_follow_summary E sm u c1
      simp only [h1, pure_run]
      unfold UpdIs at *
      rw [h2, hm]
      exact hc

theorem UpdIs.applyLoop (E : Env) (U : List (Entry Nat)) (I : Id) (us : List Member) (hus : ∀ u ∈ us, u.id.addr ≠ I.addr) :
    Pres (UpdIs U I) (Foca.applyLoop E false us) := by
  induction us with
  | nil => unfold Foca.applyLoop; exact Pres.pure _
  | cons u rest ih =>
    unfold Foca.applyLoop
    refine Pres.bind ⟨fun c hc => ?_⟩ (fun _ => ih (fun x hx => hus x (by simp [hx])))
    have hu := hus u (by simp)
    unfold Foca.applyOne
    simp only [bind_run, getS_run]
    have h1 : (u.id == c.s.id) = false := by
      rw [hc.2]
      apply beq_false_of_ne
      intro h; exact hu (by rw [h])
    have h2 : (c.s.id.addr == u.id.addr) = false := by
      rw [hc.2]
      apply beq_false_of_ne
      exact fun h => hu h.symm
    simp only [h1, h2, Bool.false_eq_true, ↓reduceIte]
    have := (UpdIs.applyUpdate E U I u).run c hc
    cases h : Foca.applyUpdate E u false c with
    | stuck x => simp only [bind_run, h]
    | err e c1 => rw [h] at this; simp only [bind_run, h]; exact this
    | ok a c1 => rw [h] at this; simp only [bind_run, h, pure_run]; exact this

/-- `adjust_connection_state` leaves backlog and identity alone -/
theorem UpdIs.adjust (E : Env) (U : List (Entry Nat)) (I : Id) : Pres (UpdIs U I) (Foca.adjustConnectionState E) := by
  unfold Foca.adjustConnectionState Foca.becomeConnected Foca.becomeDisconnected
  pres
  all_goals exact Pres.modS_of (fun s hs => hs)

/-- **What does hold (partial).** A batch applied with `do_broadcast = false` that names no member of the instance's
    own address — whatever it says about the other members, whatever the RNG draws, also when the call fails — leaves
    the updates backlog exactly as it was. -/
theorem no_broadcast_batch_about_others_partial (E : Env) (s : State) (us : List Member) (orc : Oracle)
    (hus : ∀ u ∈ us, u.id.addr ≠ s.id.addr) :
    match step E s (.applyMany us false) orc with
    | .done s' _ _ _ => s'.updates = s.updates
    | .stuck _ => True := by
  have hp : Pres (UpdIs s.updates s.id) (Foca.applyMany E us false) := by
    unfold Foca.applyMany
    exact Pres.bind (UpdIs.applyLoop E _ _ us hus) (fun _ => UpdIs.adjust E _ _)
  have := hp.run ⟨s, [], orc⟩ ⟨rfl, rfl⟩
  unfold step runOp
  simp only [bind_run]
  cases h : Foca.applyMany E us false ⟨s, [], orc⟩ with
  | stuck x => trivial
  | err e c => rw [h] at this; exact this.1
  | ok a c => rw [h] at this; simp only [pure_run]; exact this.1

end Foca.C15H
