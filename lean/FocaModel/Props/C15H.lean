/-
  C15, whole histories — the update backlog holds one pending update per address in every reachable state.
-/
import FocaModel.Proofs.UpdInv
import FocaModel.Proofs.UpdReach
import FocaModel.Props.C08H
namespace Foca.C15H
open Foca

/-- In every state an instance can reach — any sequence of public calls, any inputs, any RNG and any order in
    which the heap yields equal-priority entries — the cluster-update backlog holds at most one entry per
    address: a newer update about an address always replaces the pending older one, and sending (which takes
    entries out, decrements them and puts them back) never duplicates one. -/
theorem one_update_per_address_always (E : Env) {s : State} (h : Reachable E s) :
    (s.updates.map (·.key)).Nodup := UpdInv.reachable E h

/-- one call keeps it, from any state satisfying it -/
theorem one_update_per_address_step (E : Env) (s : State) (op : Op) (orc : Oracle)
    (h : (s.updates.map (·.key)).Nodup) :
    match step E s op orc with
    | .done s' _ _ _ => (s'.updates.map (·.key)).Nodup
    | .stuck _ => True := (UpdInv.leaves E).step s op orc h

/-- what a send does to the backlog, exactly: nothing, or one `fill` of it (the accounting theorems of C15 then
    describe that fill) -/
theorem send_touches_backlog_by_one_fill (E : Env) (dst : Id) (msg : Msg) (c : Ctx) :
    match sendMessage E dst msg c with
    | .ok _ c' => c'.s.updates = c.s.updates ∨
        ∃ sp picks r, fill c.s.updates sp Gen.fillMaxItems 0 picks = some r ∧ c'.s.updates = r.pending ++ r.done
    | _ => True := sendMessage_upd E dst msg c

/-- non-vacuity: a reachable state with a pending update (apply with broadcasting on) -/
example : ∃ s, Reachable C08H.exEnv s ∧ s.updates.map (·.key) = [2] := by
  refine ⟨_, Reachable.step (.applyMany [⟨⟨2, 0⟩, 0, .alive⟩] true) ⟨[.idx 0], []⟩ _ _ _
    (Reachable.init ⟨1, 0⟩ .none C08H.exCfg) rfl, ?_⟩
  decide

/-- **Per datagram, by key.** One `fill` writes one item per entry it takes, and the transmissions left for an
    address drop by exactly the number of times its entry was written (any tie order the heap may use). -/
theorem each_write_costs_its_entry_one_transmission {b : List (Entry Nat)} {space : Nat} {picks : List Bytes}
    {r : FillResult Nat} (h : fill b space Gen.fillMaxItems 0 picks = some r) (k : Nat) :
    txOf (r.pending ++ r.done) k + (fillKeys b space picks).count k = txOf b k ∧
    (fillKeys b space picks).length = r.written.length := fill_tx h k

/-- **Whole life of an update.** Over *any* sequence of backlog operations — datagrams (`fill`, any space, any
    tie order) and enqueues of updates about *other* addresses — of any length, the number of times the update
    about address `k` is written plus the transmissions it has left is constant … -/
theorem transmissions_are_conserved (b b' : List (Entry Nat)) (k : Nat) (ops : List BOp)
    (hno : ∀ op ∈ ops, BOp.enqueues k op = false) (h : runOps b ops = some b') :
    txOf b' k + writesOver b k ops = txOf b k := lifetime_account b b' k ops hno h

/-- … so an update enqueued with `max_transmissions = m` is written into at most `m` datagrams before a newer
    update about the same address replaces it, however long the history. -/
theorem at_most_max_transmissions_over_its_life (b b' : List (Entry Nat)) (k : Nat) (d : Bytes) (m : Nat)
    (ops : List BOp) (hno : ∀ op ∈ ops, BOp.enqueues k op = false)
    (h : runOps (addOrReplace b Gen.addrInvalidates k d m) ops = some b') :
    writesOver (addOrReplace b Gen.addrInvalidates k d m) k ops ≤ m :=
  written_at_most_max_transmissions b b' k d m ops hno h

/-- These backlog operations are all that ever happens to an instance's backlog: one public call — any input, any
    RNG, any tie order — takes `updates` to the result of a sequence of enqueues and fills. -/
theorem backlog_changes_only_by_enqueue_and_fill (E : Env) (s : State) (op : Op) (orc : Oracle) :
    match step E s op orc with
    | .done s' _ _ _ => ∃ ops, runOps s.updates ops = some s'.updates
    | .stuck _ => True := updates_evolve_by_backlog_ops E s op orc

/-- non-vacuity: an update with two transmissions, written by two datagrams, is gone; a third finds nothing -/
example : runOps (addOrReplace [] Gen.addrInvalidates 7 [1, 2, 3] 2) [.fill 100 [[1, 2, 3]], .fill 100 [[1, 2, 3]]] = some [] ∧
    writesOver (addOrReplace [] Gen.addrInvalidates 7 [1, 2, 3] 2) 7 [.fill 100 [[1, 2, 3]], .fill 100 [[1, 2, 3]]] = 2 ∧
    runOps [] [.fill 100 [[1, 2, 3]]] = none := by decide

end Foca.C15H
