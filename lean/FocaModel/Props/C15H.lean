/-
  C15, whole histories — the update backlog holds one pending update per address in every reachable state.
-/
import FocaModel.Proofs.UpdInv
import FocaModel.Props.C08H
namespace Foca.C15H
open Foca

/-- In every state an instance can reach — any sequence of public calls, any inputs, any RNG and any order in
    which the heap yields equal-priority entries — the cluster-update backlog holds at most one entry per
    address: a newer update about an address always replaces the pending older one, and sending (which takes
    entries out, decrements them and puts them back) never duplicates one. -/
theorem one_update_per_address_always (E : Env) {s : State} (h : Reachable E s) :
    (s.updates.map (·.key)).Nodup := UpdInv.reachable E h

/-- one call keeps it, from any state satisfying it -/
theorem one_update_per_address_step (E : Env) (s : State) (op : Op) (orc : Oracle)
    (h : (s.updates.map (·.key)).Nodup) :
    match step E s op orc with
    | .done s' _ _ _ => (s'.updates.map (·.key)).Nodup
    | .stuck _ => True := (UpdInv.leaves E).step s op orc h

/-- what a send does to the backlog, exactly: nothing, or one `fill` of it (the accounting theorems of C15 then
    describe that fill) -/
theorem send_touches_backlog_by_one_fill (E : Env) (dst : Id) (msg : Msg) (c : Ctx) :
    match sendMessage E dst msg c with
    | .ok _ c' => c'.s.updates = c.s.updates ∨
        ∃ sp picks r, fill c.s.updates sp Gen.fillMaxItems 0 picks = some r ∧ c'.s.updates = r.pending ++ r.done
    | _ => True := sendMessage_upd E dst msg c

/-- non-vacuity: a reachable state with a pending update (apply with broadcasting on) -/
example : ∃ s, Reachable C08H.exEnv s ∧ s.updates.map (·.key) = [2] := by
  refine ⟨_, Reachable.step (.applyMany [⟨⟨2, 0⟩, 0, .alive⟩] true) ⟨[.idx 0], []⟩ _ _ _
    (Reachable.init ⟨1, 0⟩ .none C08H.exCfg) rfl, ?_⟩
  decide

end Foca.C15H
