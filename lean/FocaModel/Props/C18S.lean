/-
  C18, the kinds of the datagrams one delivery causes — no cycle of automatic replies.
-/
import FocaModel.Proofs.KindsReply
import FocaModel.Proofs.FanOutSelf
import FocaModel.Props.C18H
namespace Foca.C18S
open Foca

/-- **What one delivered datagram makes an instance send, by kind.** Whatever the bytes, the state and the RNG draws,
    the datagrams sent while handling a delivered datagram are: rounds of Gossip (sent only when an update names the
    instance itself and makes it refute a suspicion or renew its identity, or when the message is a TurnUndead), and
    after them at most one more datagram — the automatic answer, whose kind is of strictly lower rank than the kind
    that was delivered (`C18.rank`: PingReq 4, IndirectPing 3, Ping/Announce/IndirectAck 2, Ack/Feed/Gossip/Broadcast/
    ForwardedAck 1, TurnUndead 0), or a TurnUndead in answer to a TurnUndead from a sender the instance considers down.
    Every datagram is built by `send_message` around a header naming the destination it is handed to the runtime
    for. -/
theorem answers_descend (E : Env) (s : State) (data : Bytes) (orc : Oracle) :
    match Foca.step E s (.data data) orc with
    | .done _ eff _ _ => AnsweredData E data eff
    | .stuck _ => True := by
  have := (handleData_answers E data).run ⟨s, [], orc⟩ (SaysOnly.nil E _)
  unfold Foca.step Foca.runOp
  simp only [bind_run]
  cases hr : handleData E data ⟨s, [], orc⟩ with
  | stuck x => trivial
  | ok u c' => rw [hr] at this; simpa only [pure_run] using this
  | err e c' => rw [hr] at this; exact this

/-- … spelled out per datagram: each one is a Gossip, or an answer of a kind `AnswerTo` the delivered kind -/
theorem every_datagram_is_gossip_or_answer (E : Env) (s s' : State) (data : Bytes) (orc left : Oracle)
    (eff : List Effect) (r : Res) (hstep : Foca.step E s (.data data) orc = .done s' eff r left)
    (d : Id) (b : Bytes) (hb : Effect.send d b ∈ eff) :
    BuiltAs E (fun m => m = .gossip ∨
      ∃ h0 rest, E.codec.decHeader data = some (h0, rest) ∧ AnswerTo h0.msg m) d b := by
  have := answers_descend E s data orc
  rw [hstep] at this
  simp only [AnsweredData] at this
  cases hdec : E.codec.decHeader data with
  | none =>
    rw [hdec] at this
    simp only at this
    obtain ⟨hd, body, e1, e2, e3⟩ := this d b hb
    exact ⟨hd, body, e1, e2, Or.inl e3⟩
  | some p =>
    obtain ⟨h0, rest⟩ := p
    rw [hdec] at this
    simp only at this
    obtain ⟨g, rr, heff, hg, _, hr⟩ := this
    rw [heff] at hb
    rcases List.mem_append.1 hb with hb | hb
    · obtain ⟨hd, body, e1, e2, e3⟩ := hg d b hb
      exact ⟨hd, body, e1, e2, Or.inl e3⟩
    · obtain ⟨hd, body, e1, e2, e3⟩ := hr d b hb
      exact ⟨hd, body, e1, e2, Or.inr ⟨h0, rest, rfl, e3⟩⟩

/-- Chains of automatic answers are short: an answer to anything but a TurnUndead has strictly lower rank, and the
    rank is at most 4 — so the fifth answer in a row, if there is one, is a TurnUndead. -/
theorem answer_ranks_descend (m0 m : Msg) (h : AnswerTo m0 m) (h0 : m0 ≠ .turnUndead) : C18.rank m < C18.rank m0 := by
  rcases h with h | ⟨h, _⟩
  · exact h
  · exact absurd h h0

theorem rank_le_four (m : Msg) : C18.rank m ≤ 4 := by cases m <;> simp [C18.rank]

/-- Gossip, Ack, Feed, Broadcast and ForwardedAck are answered by nothing but the TurnUndead an inactive sender gets -/
theorem terminal_kinds_only_get_turnundead (m0 m : Msg) (h : AnswerTo m0 m) (h0 : C18.rank m0 = 1) : m = .turnUndead := by
  rcases h with h | ⟨h, _⟩
  · rw [h0] at h
    cases m <;> simp [C18.rank] at h ⊢
  · rw [h] at h0; simp [C18.rank] at h0

/-- **Gossip rounds are paid for by the datagram.** Delivering one datagram — any bytes, any state, any RNG draws —
    makes the instance send at most `k · (u + t) + 1` datagrams: `k` its `num_indirect_probes`, `u` the number of
    updates in the datagram that name the instance's own address, `t` = 1 for a TurnUndead and 0 otherwise. (A
    refinement of `C18H.bounded_fanout_per_datagram`, which charges a round to every update.) -/
theorem fanout_counts_updates_about_receiver (E : Env) (s : State) (data : Bytes) (orc : Oracle) :
    match Foca.step E s (.data data) orc with
    | .done _ eff _ _ => sendCount eff ≤ s.cfg.k * (selfUpdatesIn E s.id.addr data + isTurnUndead E data) + 1
    | .stuck _ => True := by
  have := (Cnt.handleData (a := s.id.addr) (k := s.cfg.k) E data).run ⟨s, [], orc⟩ rfl rfl
  unfold CntPost at this
  unfold Foca.step Foca.runOp
  simp only [bind_run]
  cases hr : handleData E data ⟨s, [], orc⟩ with
  | stuck x => trivial
  | ok u c' =>
    rw [hr] at this
    simp only [pure_run]
    simpa only [sendCount, List.countP_nil, Nat.zero_add] using this
  | err e c' =>
    rw [hr] at this
    simpa only [sendCount, List.countP_nil, Nat.zero_add] using this

/-- **A datagram that says nothing about its receiver gets at most one answer.** If none of its updates names the
    receiver's address and it is not a TurnUndead, delivering it causes at most one datagram — by `answers_descend`
    the automatic answer, of strictly lower rank. Exchanges of such datagrams therefore end after at most four
    hops, whatever the states of the instances involved. -/
theorem quiet_datagram_gets_one_answer (E : Env) (s : State) (data : Bytes) (orc : Oracle)
    (hu : selfUpdatesIn E s.id.addr data = 0) (ht : isTurnUndead E data = 0) :
    match Foca.step E s (.data data) orc with
    | .done _ eff _ _ => sendCount eff ≤ 1
    | .stuck _ => True := by
  have := fanout_counts_updates_about_receiver E s data orc
  rw [hu, ht] at this
  simpa using this

end Foca.C18S
