/-
  C18, the kinds of the datagrams one delivery causes — no cycle of automatic replies.
-/
import FocaModel.Proofs.KindsReply
import FocaModel.Proofs.FanOutSelf
import FocaModel.Proofs.CalmDrain
import FocaModel.Props.C07S
import FocaModel.Props.C02S
import FocaModel.Props.C18H
namespace Foca.C18S
open Foca Foca.C07

/-- **What one delivered datagram makes an instance send, by kind.** Whatever the bytes, the state and the RNG draws,
    the datagrams sent while handling a delivered datagram are: rounds of Gossip (sent only when an update names the
    instance itself and makes it refute a suspicion or renew its identity, or when the message is a TurnUndead), and
    after them at most one more datagram — the automatic answer, whose kind is of strictly lower rank than the kind
    that was delivered (`C18.rank`: PingReq 4, IndirectPing 3, Ping/Announce/IndirectAck 2, Ack/Feed/Gossip/Broadcast/
    ForwardedAck 1, TurnUndead 0), or a TurnUndead in answer to a TurnUndead from a sender the instance considers down.
    Every datagram is built by `send_message` around a header naming the destination it is handed to the runtime
    for. -/
theorem answers_descend (E : Env) (s : State) (data : Bytes) (orc : Oracle) :
    match Foca.step E s (.data data) orc with
    | .done _ eff _ _ => AnsweredData E data eff
    | .stuck _ => True := by
  have := (handleData_answers E data).run ⟨s, [], orc⟩ (SaysOnly.nil E _)
  unfold Foca.step Foca.runOp
  simp only [bind_run]
  cases hr : handleData E data ⟨s, [], orc⟩ with
  | stuck x => trivial
  | ok u c' => rw [hr] at this; simpa only [pure_run] using this
  | err e c' => rw [hr] at this; exact this

/-- … spelled out per datagram: each one is a Gossip, or an answer of a kind `AnswerTo` the delivered kind -/
theorem every_datagram_is_gossip_or_answer (E : Env) (s s' : State) (data : Bytes) (orc left : Oracle)
    (eff : List Effect) (r : Res) (hstep : Foca.step E s (.data data) orc = .done s' eff r left)
    (d : Id) (b : Bytes) (hb : Effect.send d b ∈ eff) :
    BuiltAs E (fun m => m = .gossip ∨
      ∃ h0 rest, E.codec.decHeader data = some (h0, rest) ∧ AnswerTo h0.msg m) d b := by
  have := answers_descend E s data orc
  rw [hstep] at this
  simp only [AnsweredData] at this
  cases hdec : E.codec.decHeader data with
  | none =>
    rw [hdec] at this
    simp only at this
    obtain ⟨hd, body, e1, e2, e3⟩ := this d b hb
    exact ⟨hd, body, e1, e2, Or.inl e3⟩
  | some p =>
    obtain ⟨h0, rest⟩ := p
    rw [hdec] at this
    simp only at this
    obtain ⟨g, rr, heff, hg, _, hr⟩ := this
    rw [heff] at hb
    rcases List.mem_append.1 hb with hb | hb
    · obtain ⟨hd, body, e1, e2, e3⟩ := hg d b hb
      exact ⟨hd, body, e1, e2, Or.inl e3⟩
    · obtain ⟨hd, body, e1, e2, e3⟩ := hr d b hb
      exact ⟨hd, body, e1, e2, Or.inr ⟨h0, rest, rfl, e3⟩⟩

/-- Chains of automatic answers are short: an answer to anything but a TurnUndead has strictly lower rank, and the
    rank is at most 4 — so the fifth answer in a row, if there is one, is a TurnUndead. -/
theorem answer_ranks_descend (m0 m : Msg) (h : AnswerTo m0 m) (h0 : m0 ≠ .turnUndead) : C18.rank m < C18.rank m0 := by
  rcases h with h | ⟨h, _⟩
  · exact h
  · exact absurd h h0

theorem rank_le_four (m : Msg) : C18.rank m ≤ 4 := by cases m <;> simp [C18.rank]

/-- Gossip, Ack, Feed, Broadcast and ForwardedAck are answered by nothing but the TurnUndead an inactive sender gets -/
theorem terminal_kinds_only_get_turnundead (m0 m : Msg) (h : AnswerTo m0 m) (h0 : C18.rank m0 = 1) : m = .turnUndead := by
  rcases h with h | ⟨h, _⟩
  · rw [h0] at h
    cases m <;> simp [C18.rank] at h ⊢
  · rw [h] at h0; simp [C18.rank] at h0

/-- **Gossip rounds are paid for by the datagram.** Delivering one datagram — any bytes, any state, any RNG draws —
    makes the instance send at most `k · (u + t) + 1` datagrams: `k` its `num_indirect_probes`, `u` the number of
    updates in the datagram that name the instance's own address as Suspect or Down, `t` = 1 for a TurnUndead and 0 otherwise. (A
    refinement of `C18H.bounded_fanout_per_datagram`, which charges a round to every update.) -/
theorem fanout_counts_updates_about_receiver (E : Env) (s : State) (data : Bytes) (orc : Oracle) :
    match Foca.step E s (.data data) orc with
    | .done _ eff _ _ => sendCount eff ≤ s.cfg.k * (selfUpdatesIn E s.id.addr data + isTurnUndead E data) + 1
    | .stuck _ => True := by
  exact step_selfCount E s data orc

/-- **A datagram that says nothing about its receiver gets at most one answer.** If none of its updates names the
    receiver's address as Suspect or Down and it is not a TurnUndead, delivering it causes at most one datagram — by `answers_descend`
    the automatic answer, of strictly lower rank. Exchanges of such datagrams therefore end after at most four
    hops, whatever the states of the instances involved. -/
theorem quiet_datagram_gets_one_answer (E : Env) (s : State) (data : Bytes) (orc : Oracle)
    (hu : selfUpdatesIn E s.id.addr data = 0) (ht : isTurnUndead E data = 0) :
    match Foca.step E s (.data data) orc with
    | .done _ eff _ _ => sendCount eff ≤ 1
    | .stuck _ => True := by
  have := fanout_counts_updates_about_receiver E s data orc
  rw [hu, ht] at this
  simpa using this

/-- **In a fault-free cluster every exchange ends, and soon.** Take a cluster reached without a failed probe round
    (`CalmReach`, see `C02S.calm_cluster_stays_calm`: any number of instances, any history of deliveries, timers and
    API calls so far), hold timers and API calls, and let the datagrams on the wire be delivered one at a time, in
    any order, each to any instance (the addressee or not), each taken off the wire when handled. Then every
    delivery puts at most one new datagram on the wire, of strictly lower rank than the one taken off: the weight of
    the wire (`rank + 1` summed over its datagrams) drops by at least one per delivery, so after at most
    `wireWeight` deliveries — at most five times the number of datagrams that were in flight — the network is empty
    of anything that could still cause a datagram. No storm, no cycle, whatever the order. (For clusters with
    suspicions, Down members and renewed identities the same measure needs the knowledge argument of DESIGN.md
    Appendix B and is explored by the simulator.) -/
theorem calm_exchanges_end (E : Env) (ids : List Id) (hl : CodecLaws E.codec) (hhdr : HeaderLaw E.codec)
    (hdist : DistinctAddrs ids) {n n' : Net} {k : Nat} (hreach : CalmReach E ids n) (h : Drains E n k n') :
    k + wireWeight E n'.wire ≤ wireWeight E n.wire ∧ wireWeight E n.wire ≤ 5 * n.wire.length :=
  ⟨(calm_drain_bounded E ids hl hhdr hdist (CalmNet.reachable E ids hl hhdr hdist hreach) h).2, by
    unfold wireWeight
    induction n.wire with
    | nil => simp
    | cons p rest ih =>
      simp only [List.map_cons, List.sum_cons, List.length_cons]
      have : weight E p.2 ≤ 5 := by
        unfold weight
        split
        · rename_i hh _ _
          have := rank_le_four hh.msg
          omega
        · omega
      omega⟩

/-- one consuming delivery: at most one answer, lighter than what was delivered; the cluster stays calm -/
theorem calm_delivery_gets_one_lighter_answer (E : Env) (ids : List Id) (hl : CodecLaws E.codec)
    (hhdr : HeaderLaw E.codec) (hdist : DistinctAddrs ids) {n : Net} (hreach : CalmReach E ids n) (s s' : State)
    (hs : s ∈ n.nodes) (d : Id) (b : Bytes) (hw : (d, b) ∈ n.wire) (orc left : Oracle) (eff : List Effect) (r : Res)
    (hstep : Foca.step E s (.data b) orc = .done s' eff r left) :
    sendCount eff ≤ 1 ∧ ∀ p ∈ sentDatagrams eff, weight E p.2 < weight E b :=
  calm_delivery_answer E ids hl hhdr hdist n (CalmNet.reachable E ids hl hhdr hdist hreach) s s' hs d b hw orc left eff r hstep

/-- the theorem applies outright to clusters running the models of the bundled codecs -/
example (hd : Handler) (dbg : Bool) (ids : List Id) (hdist : DistinctAddrs ids) {n n' : Net} {k : Nat}
    (hreach : CalmReach ⟨postcardCodec, hd, dbg⟩ ids n) (h : Drains ⟨postcardCodec, hd, dbg⟩ n k n') :
    k ≤ 5 * n.wire.length := by
  have := calm_exchanges_end ⟨postcardCodec, hd, dbg⟩ ids C07H.bundled_codec_laws.2.1 C07H.bundled_header_laws.2.1
    hdist hreach h
  omega

/-- non-vacuity: in the worked cluster of `C02S` (instance 1 has announced itself to instance 2; wire weight 3) the
    Announce is taken off the wire by instance 2, which answers with a Feed: one consuming delivery -/
example : ∃ n n', CalmReach C08H.exEnv [⟨1, 0⟩, ⟨2, 0⟩] n ∧ wireWeight C08H.exEnv n.wire = 3 ∧
    Drains C08H.exEnv n 1 n' := by
  have h1 : ∃ n, CalmReach C08H.exEnv [⟨1, 0⟩, ⟨2, 0⟩] n ∧ wireWeight C08H.exEnv n.wire = 3 ∧
      n.nodes[1]? = some C02S.exS2 ∧ ((⟨2, 0⟩ : Id), [0, 1, 0, 0, 0, 0, 0, 2, 0, 0, 6]) ∈ n.wire :=
    ⟨_, CalmReach.api (E := C08H.exEnv) (ids := [⟨1, 0⟩, ⟨2, 0⟩]) 0 C02S.exS1 _ (.announce ⟨2, 0⟩)
      ⟨[], [⟨[], []⟩]⟩ _ _ _ C02S.exInit rfl rfl (by intro d hd; cases hd; simp [IdWire]) rfl,
      by decide, by rfl, by decide⟩
  obtain ⟨n, hr, hw3, hnode, hmem⟩ := h1
  exact ⟨n, _, hr, hw3, Drains.step (E := C08H.exEnv) 1 C02S.exS2 _ ⟨2, 0⟩ [0, 1, 0, 0, 0, 0, 0, 2, 0, 0, 6]
    ⟨[.idx 0], [⟨[], []⟩]⟩ _ _ _ (Drains.refl _) hnode hmem rfl⟩

end Foca.C18S
