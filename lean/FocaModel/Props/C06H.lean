/-
  C06, whole histories — no public call panics.
-/
import FocaModel.Proofs.NoPanic
import FocaModel.Props.C08H
namespace Foca.C06H
open Foca

/-- `set_config` is only ever given a packet size of at most 65535 bytes -/
def CfgOk (op : Op) : Prop := ∀ cfg, op = .setConfig cfg → cfg.mps ≤ 65535

/-- **One call.** From a state whose send buffer has the configured packet size (≤ 65535 bytes), a public call —
    any datagram bytes, any timer (scheduled or not), any batch, any RNG draws and heap tie order, debug or
    release build — never reaches a `debug_assert`, an out-of-bounds index, an overflow check or an `expect`:
    the model's `Stuck.panic` outcomes are unreachable, and the state afterwards has the same two properties. -/
theorem never_panics_step (E : Env) (s : State) (op : Op) (orc : Oracle) (h : NPInv s) (hop : CfgOk op) :
    match step E s op orc with
    | .done s' _ _ _ => NPInv s'
    | .stuck x => ∀ p, x ≠ .panic p := by
  have := (NPInv.runOp E op hop).run ⟨s, [], orc⟩ h
  unfold step
  cases hr : runOp E op ⟨s, [], orc⟩ with
  | stuck x => rw [hr] at this; exact this
  | ok r c => rw [hr] at this; exact this
  | err e c => rw [hr] at this; exact this

/-- states reachable from `Foca::new` with a packet size of at most 65535 bytes -/
inductive ReachableNP (E : Env) : State → Prop
  | init (id : Id) (pol : Policy) (cfg : Config) : cfg.mps ≤ 65535 → ReachableNP E (State.init id pol cfg)
  | step {s s' : State} (op : Op) (orc : Oracle) (eff : List Effect) (r : Res) (left : Oracle) :
      ReachableNP E s → CfgOk op → Foca.step E s op orc = .done s' eff r left → ReachableNP E s'

theorem ReachableNP.inv {E : Env} {s : State} (h : ReachableNP E s) : NPInv s := by
  induction h with
  | init id pol cfg hm => exact ⟨rfl, hm⟩
  | step op orc eff r left _ hop hstep ih =>
    have := never_panics_step E _ op orc ih hop
    rw [hstep] at this
    exact this

/-- **Whole histories.** After any history of public calls, no call panics — whatever its input. (The send-buffer
    assertion was reachable before the `fix:` commit for finding F1, the length assertion of
    `fill_with_len_prefix` before the one for F4.) -/
theorem never_panics (E : Env) {s : State} (h : ReachableNP E s) (op : Op) (orc : Oracle) (hop : CfgOk op) (p : PanicSite) :
    step E s op orc ≠ .stuck (.panic p) := by
  have := never_panics_step E s op orc h.inv hop
  intro hcontra
  rw [hcontra] at this
  exact this p rfl

/-- non-vacuity: a debug-assertions environment, a reachable state with a member -/
example : ∃ s, ReachableNP C08H.exEnv s ∧ s.ms.length = 1 := by
  refine ⟨_, ReachableNP.step (.applyMany [⟨⟨2, 0⟩, 0, .alive⟩] false) ⟨[.idx 0], []⟩ _ _ _
    (ReachableNP.init ⟨1, 0⟩ .none C08H.exCfg (by decide)) (by intro cfg h; cases h) rfl, ?_⟩
  decide

end Foca.C06H
