/-
  C04 — a single lost datagram never gets a live member declared Down.
  The mechanisms that absorb the loss, as instance-level theorems; the cluster-level statement is explored
  by the simulator (every single drop in a window).
-/
import FocaModel.Proofs.SendAll
import FocaModel.Props.C10
import FocaModel.Props.C11
import FocaModel.Props.C12
namespace Foca.C04
open Foca

/-- The header incarnation refutes a suspicion at the receiver: any datagram from the suspected member
    carrying a higher incarnation turns the record back to Alive at that incarnation. -/
theorem higher_incarnation_refutes_at_receiver (k : Member) (inc : Nat) (hs : k.st = .suspect) (hi : inc > k.inc) :
    (updateKnown k ⟨k.id, inc, .alive⟩ (fun _ => true)).1 = ⟨k.id, inc, .alive⟩ := by
  unfold updateKnown
  simp [hs, Gen.canChange, hi]

/-- … after which the pending suspicion timeout is a cancelled one: no state change, no datagram
    (in particular no TurnUndead to the live member), no notification (C11). -/
theorem refuted_timeout_does_nothing (k : Member) (inc : Nat) (hne : k.inc ≠ inc) :
    updateKnown k ⟨k.id, inc, .down⟩ (fun r => r.inc == inc) = (k, ⟨k.active, false, false, .none⟩) := by
  rw [C11.timeout_on_same_identity]
  simp [hne]

/-- The suspected member, on hearing the suspicion, moves to a strictly greater incarnation (C10). -/
theorem suspected_member_bumps_incarnation (k own : Nat) (h1 : own ≤ k) (h2 : max k own ≠ 65535) (h3 : k ≤ 65535) :
    satAdd16 (max k own) > k :=
  C10.refutation_exceeds_suspicion k own h1 h2 h3

/-- A suspicion at the same incarnation does override Alive (so that it spreads), but never a higher one. -/
theorem suspicion_needs_current_incarnation (k : Member) (inc : Nat) (hs : k.st = .alive) :
    Gen.canChange k.st k.inc inc .suspect = true ↔ inc ≥ k.inc := by
  simp [hs, Gen.canChange]

end Foca.C04
