/-
  C05 — how the cluster accepts a rejoin, as a statement about one call: any datagram from the renewed identity
  supersedes the Down record of its predecessor, for good.
-/
import FocaModel.Proofs.Rejoin
import FocaModel.Props.C05
import FocaModel.Props.C09H
import FocaModel.Props.C12S
namespace Foca.C05H
open Foca

/-- **A renewed member is accepted back.** A reachable instance successfully handles a datagram addressed to it
    whose sender `x'` is a newer identity (higher generation) of an address it lists under the identity `x` —
    typically as Down, after a partition. Whatever the message kind (the Gossip of `change_identity`, an Announce, a
    TurnUndead, a Ping), whatever else the datagram carries and whatever `x`'s record said: afterwards no record
    bears `x` any more, and the address is listed at a generation at least that of `x'`. By
    `C09H.generation_never_goes_back` it stays so over any history without a forget-timer: the instance never falls
    back to the superseded identity, and datagrams from it are discarded (`C09.dead_sender_payload_is_discarded`). -/
theorem renewed_member_supersedes_its_record (E : Env) {s s' : State} {data : Bytes} {orc left : Oracle}
    {eff : List Effect} (hreach : Reachable E s)
    (hstep : Foca.step E s (.data data) orc = .done s' eff .ok left)
    (h : Header) (rest : Bytes) (hdec : E.codec.decHeader data = some (h, rest)) (hdst : h.dst = s.id)
    (x : Id) (hx : x.addr = h.src.addr) (hg : x.gen < h.src.gen) :
    (∀ m ∈ s'.ms, m.id ≠ x) ∧ ∃ m ∈ s'.ms, m.id.addr = h.src.addr ∧ m.id.gen ≥ h.src.gen := by
  have hrun := C12S.step_data_ok E hstep
  have hg' := handleData_lists_sender E data _ _ hrun h rest hdec hdst
  simp only at hg'
  refine ⟨fun m hm hid => ?_, hg'⟩
  obtain ⟨r, hr, hra, hrg⟩ := hg'
  have hnd := C09H.one_record_per_address_always E (Reachable.step (.data data) orc eff .ok left hreach hstep)
  have : m = r := C09H.nodup_map_inj _ _ hnd m r hm hr (by rw [hid, hx, hra])
  rw [← this, hid] at hrg
  omega

/-- non-vacuity: instance 1 lists member 2 under generation 0; a Gossip from (2, generation 1) addressed to it is
    handled; the list now bears generation 1 -/
def exS1 : State :=
  match Foca.step C08H.exEnv (State.init ⟨1, 0⟩ .none C08H.exCfg) (.applyMany [⟨⟨2, 0⟩, 0, .down⟩] false) ⟨[.idx 0], []⟩ with
  | .done s _ _ _ => s | .stuck _ => State.init ⟨1, 0⟩ .none C08H.exCfg
def exS2 : State :=
  match Foca.step C08H.exEnv exS1 (.data [0, 2, 0, 1, 0, 0, 0, 1, 0, 0, 8]) ⟨[], []⟩ with
  | .done s _ _ _ => s | .stuck _ => exS1

set_option maxRecDepth 8000 in
example : exS1.ms.map (fun m => (m.id, m.st)) = [(⟨2, 0⟩, .down)] ∧
    C08H.exEnv.codec.decHeader [0, 2, 0, 1, 0, 0, 0, 1, 0, 0, 8] = some (⟨⟨2, 1⟩, 0, ⟨1, 0⟩, .gossip⟩, []) ∧
    exS2.ms.map (fun m => (m.id, m.st)) = [(⟨2, 1⟩, .alive)] := by decide

end Foca.C05H
