/-
  C03 — completeness: crashed or departed members are reported Down everywhere, bounded.
  Instance-level theorems; the cluster-level bound is explored by the simulator (every subset failing
  at every event index).
-/
import FocaModel.Proofs.SendAll
import FocaModel.Props.C10
import FocaModel.Props.C12
import FocaModel.Props.C14
import FocaModel.Props.C18
namespace Foca.C03
open Foca

/-- `leave_cluster`: the instance queues `Down(self)` for dissemination, gossips it to active members
    only, ends Defunct (Undead) and says so — for any membership, RNG draws and backlog contents. -/
theorem leave_declares_itself_down (E : Env) (c : Ctx) :
    match leaveCluster E c with
    | .ok _ c' => c'.s.conn = .undead ∧ c'.s.id = c.s.id ∧ (∃ sends, c'.eff = c.eff ++ sends ++ [.notify .defunct] ∧
        ∀ e ∈ sends, ∃ d b, e = Effect.send d b ∧ ∃ m ∈ c.s.ms, m.id = d ∧ m.active = true)
    | .err k _ => k = .encode
    | .stuck _ => True := by
  unfold leaveCluster
  simp only [bind_run, getS_run, addUpdate, modS_run]
  split
  · rename_i u c2 heq
    split at heq
    · rename_i u1 c1 hg
      obtain ⟨hob, new, heff, hall⟩ := gossip_ok E hg
      simp only [becomeUndead, bind_run, modS_run, emit_run] at heq
      injection heq with _ hc
      subst hc
      refine ⟨rfl, ?_, new, ?_, ?_⟩
      · show c1.s.id = c.s.id
        rw [hob.id]
      · show c1.eff ++ [Effect.notify Notif.defunct] = c.eff ++ new ++ [Effect.notify Notif.defunct]
        rw [heff]
      · intro e he
        obtain ⟨d, b, h1, h2⟩ := hall e he
        exact ⟨d, b, h1, h2⟩
    · simp at heq
    · simp at heq
  · rename_i k c2 heq
    split at heq
    · simp [becomeUndead] at heq
    · rename_i k1 c1 hg
      injection heq with hk _
      subst hk
      exact gossip_err E hg
    · simp at heq
  · trivial

/-- The Down update about itself is in the backlog with the full number of transmissions before the gossip. -/
theorem leave_queues_down_update (b : List (Entry Nat)) (addr : Nat) (d : Bytes) (maxTx : Nat) :
    (⟨addr, maxTx, d⟩ : Entry Nat) ∈ addOrReplace b Gen.addrInvalidates addr d maxTx := by
  unfold addOrReplace; simp

/-- After leaving, the instance stops answering probes: not being connected it reacts to no message. -/
theorem departed_member_stops_answering (E : Env) (h : Header) (cres : Option ErrKind) (c : Ctx)
    (hc : c.s.conn = .undead) :
    replyStage E h cres c = (match cres with | some e => .err e c | none => .ok () c) :=
  C18.disconnected_instances_do_not_reply E h cres c (by rw [hc]; simp)

/-- … and it no longer refutes suspicions about its dead identity (false before the fix for F8): the
    survivors' suspicion therefore runs its course to Down. -/
theorem departed_member_does_not_refute (E : Env) (k : Nat) (c : Ctx) (h : c.s.conn = .undead) :
    handleSelfUpdate E k .suspect c = .ok () c :=
  C10.defunct_instance_does_not_refute E k c h

/-- A receiver of the Down gossip reports MemberDown in the same call: an active record that turns Down
    changes the active set. -/
theorem down_update_is_reported_at_once (k : Member) (inc : Nat) (ha : k.st ≠ .down) :
    (updateKnown k ⟨k.id, inc, .down⟩ (fun _ => true)).2 = ⟨false, true, true, .none⟩ := by
  unfold updateKnown
  cases hs : k.st with
  | down => exact absurd hs ha
  | alive => simp [hs, Gen.canChange, Member.active, Gen.isActive]
  | suspect => simp [hs, Gen.canChange, Member.active, Gen.isActive]

/-- A probe round without evidence hands the probed member over for suspicion (C12); each round picks
    an active member (C14); an unrefuted suspicion ends in Down (C11). -/
theorem silent_member_is_suspected (p : Probe) (m : Member) (hd : p.direct = some m)
    (h1 : p.directAckOk = false) (h2 : p.indirectAckCount = 0) : p.takeFailed.1 = some m := by
  unfold Probe.takeFailed
  have : p.succeeded = false := by
    cases hs : p.succeeded with
    | false => rfl
    | true =>
      rcases (C12.succeeded_iff p).1 hs with h | h
      · rw [h1] at h; exact absurd h (by simp)
      · omega
  simp [this, hd]

end Foca.C03
