/-
  C16 — custom broadcasts: delivered intact, only where allowed, invalidated promptly.
  The broadcast handler is an arbitrary triple of functions (`Handler`): every theorem is for all of them.
-/
import FocaModel.Proofs.SendAll
import FocaModel.Props.C07
import FocaModel.Props.C15
namespace Foca.C16
open Foca

/-- Custom items are attached only on message kinds that may carry them and only to members for which
    `should_add_broadcast_data` is true; otherwise nothing is appended and the backlog is untouched. -/
theorem attachment_gate (E : Env) (dst : Id) (msg : Msg) (pick : Pick) (space : Nat) (c : Ctx)
    (h : Gen.allowCustom msg = false ∨ E.handler.shouldAdd c.s.hst dst = false ∨ space = 0) :
    customTail E dst msg pick space c = .ok [] c := by
  unfold customTail
  rcases h with h | h | h <;> simp [h]

theorem kinds_that_may_carry_custom (msg : Msg) :
    Gen.allowCustom msg = false ↔ msg = .announce ∨ msg = .turnUndead := by
  cases msg <;> simp [Gen.allowCustom]

/-- What is appended is exactly the written items, each framed as `u16 length ++ data`, byte for byte,
    in order; and they fit the space that was left. -/
theorem tail_is_framed_items (E : Env) (dst : Id) (msg : Msg) (pick : Pick) (space : Nat) (c c' : Ctx) (t : Bytes)
    (h : customTail E dst msg pick space c = .ok t c') :
    t = [] ∨ (t = (pick.custom.map (frame Gen.lenPrefix)).flatten ∧ framedLen Gen.lenPrefix pick.custom ≤ space) := by
  unfold customTail at h
  simp only [bind_run, getS_run] at h
  by_cases h1 : (decide (space > 0) && Gen.allowCustom msg && E.handler.shouldAdd c.s.hst dst) = true
  · simp only [h1, if_true] at h
    cases hf : fill c.s.custom space usizeMax Gen.lenPrefix pick.custom with
    | none => simp [hf, badOracle] at h
    | some r =>
      simp only [hf] at h
      obtain ⟨hw, hsp, _⟩ := fill_space hf
      by_cases h5 : (E.debug && r.written.any (fun d => decide (d.length > 65535))) = true
      · simp [h5] at h
      · simp [h5] at h
        right
        rw [← h.1, hw]
        exact ⟨rfl, by omega⟩
  · simp [h1] at h
    left; exact h.1

/-- Every written item is a whole item of the backlog with transmissions left; it loses exactly one. -/
theorem each_item_costs_one_transmission (r r' : FillResult Key) (d : Bytes) (h : fillStep Gen.lenPrefix r d = some r') :
    ∃ e, e.data = d ∧ (e :: r'.pending).Perm r.pending ∧ e.tx > 0 ∧
      r'.done = (if e.tx - 1 > 0 then r.done ++ [{ e with tx := e.tx - 1 }] else r.done) :=
  C15.each_appearance_costs_one_transmission Gen.lenPrefix r r' d h

/-- An item invalidated by a newly accepted key leaves the backlog at once (so it can never be
    transmitted again); items it does not invalidate stay, with their transmissions unchanged. -/
theorem invalidated_items_leave (b : List (Entry Key)) (inv : Key → Key → Bool) (k : Key) (d : Bytes) (maxTx : Nat) :
    (∀ e ∈ b, inv k e.key = true → e ∉ (addOrReplace b inv k d maxTx).dropLast) ∧
    (∀ e ∈ b, inv k e.key = false → e ∈ addOrReplace b inv k d maxTx) ∧
    (addOrReplace b inv k d maxTx).getLast? = some ⟨k, maxTx, d⟩ := by
  unfold addOrReplace
  refine ⟨?_, ?_, by simp⟩
  · intro e he hi
    simp [List.dropLast_concat]
    intro _
    simp [hi]
  · intro e he hi
    simp [he, hi]

/-- `add_broadcast` rejects empty and oversized items before calling the handler; an item the handler
    accepts is stored whole with the full number of transmissions. -/
theorem add_broadcast_stores_whole_item (E : Env) (data : Bytes) (c : Ctx) (key : Key) (h' : HSt)
    (h1 : data ≠ []) (h2 : data.length ≤ c.s.cfg.mps) (h2' : data.length ≤ 65535)
    (h3 : E.handler.receive c.s.hst data none = some (some key, h')) :
    ∃ c', addBroadcast E data c = .ok true c' ∧
      c'.s.custom = addOrReplace c.s.custom E.handler.invalidates key data c.s.cfg.maxTx ∧ c'.eff = c.eff := by
  unfold addBroadcast
  have he : data.isEmpty = false := by cases data with | nil => exact absurd rfl h1 | cons _ _ => rfl
  have hl : ¬ data.length > c.s.cfg.mps := by omega
  have hl' : ¬ 65535 < data.length := by omega
  simp [he, hl, hl', h3]

/-- The receiving side hands the handler exactly the items of the tail, in order, each once, with the
    sender's identity: one loop iteration reads `u16 length`, takes exactly that many bytes and goes on
    with the rest; zero lengths, short data and stray bytes are malformed. -/
theorem receive_loop_step (E : Env) (sender : Option Id) (fuel hi lo : Nat) (rest : Bytes) (c : Ctx)
    (hlen : hi * 256 + lo ≠ 0) (hfit : hi * 256 + lo ≤ rest.length) (key : Option Key) (h' : HSt)
    (hr : E.handler.receive c.s.hst (rest.take (hi * 256 + lo)) sender = some (key, h')) :
    customLoop E sender (fuel + 1) (hi :: lo :: rest) c =
      customLoop E sender fuel (rest.drop (hi * 256 + lo))
        { c with s := match key with
          | none => { c.s with hst := h' }
          | some k => { c.s with hst := h', custom := addOrReplace c.s.custom E.handler.invalidates k (rest.take (hi * 256 + lo)) c.s.cfg.maxTx } } := by
  rw [customLoop]
  have h1 : (hi :: lo :: rest).length > Gen.customLoopBytes := by simp [Gen.customLoopBytes]; omega
  have h2 : ¬ rest.length < hi * 256 + lo := by omega
  have h3 : ¬ (hi * 256 = 0 ∧ lo = 0) := by omega
  have h4 : Gen.customLoopBytes < rest.length + 1 + 1 := by simp [Gen.customLoopBytes]; omega
  cases key with
  | none => simp [h3, h4, h2, hr]
  | some k => simp [h3, h4, h2, hr]

/-- `broadcast()` does nothing at all when the backlog is empty. -/
theorem broadcast_with_empty_backlog (E : Env) (c : Ctx) (h : c.s.custom = []) : broadcastApi E c = .ok () c := by
  unfold broadcastApi
  simp [h]

/-- `broadcast()` picks at most `num_indirect_probes` active members that pass `should_add_broadcast_data`. -/
theorem broadcast_targets (E : Env) (hst : HSt) (k : Nat) (ms : List Member) (c : Ctx) (r : List Member) (c' : Ctx)
    (h : chooseLoop k (fun m => m.active && E.handler.shouldAdd hst m.id) ms [] 0 c = .ok r c') :
    r.length ≤ k ∧ ∀ m ∈ r, m ∈ ms ∧ m.active = true ∧ E.handler.shouldAdd hst m.id = true := by
  have hs := chooseLoop_spec k (fun m => m.active && E.handler.shouldAdd hst m.id) ms [] 0 c
  rw [h] at hs
  obtain ⟨_, _, hmem, hlen⟩ := hs
  refine ⟨by simpa using hlen, ?_⟩
  intro m hm
  rcases hmem m hm with h1 | ⟨h1, h2⟩
  · simp at h1
  · simp at h2; exact ⟨h1, h2.1, h2.2⟩

/-- `broadcast()` stops as soon as the backlog is drained: when the datagram to `d` used up the last
    transmission of the last item, the remaining chosen members get nothing. -/
theorem broadcast_stops_when_drained (E : Env) (d : Id) (rest : List Id) (c c1 : Ctx)
    (h : sendMessage E d .broadcast c = .ok () c1) (hempty : c1.s.custom = []) :
    broadcastLoop E (d :: rest) c = .ok () c1 := by
  unfold broadcastLoop
  simp [bind_run, h, hempty]

/-- … and goes on to the next chosen member while something is left -/
theorem broadcast_continues_while_pending (E : Env) (d : Id) (rest : List Id) (c c1 : Ctx)
    (h : sendMessage E d .broadcast c = .ok () c1) (hleft : c1.s.custom ≠ []) :
    broadcastLoop E (d :: rest) c = broadcastLoop E rest c1 := by
  unfold broadcastLoop
  have : (c1.s.custom.length == 0) = false := by
    cases hc : c1.s.custom with
    | nil => exact absurd hc hleft
    | cons x xs => simp
  simp only [bind_run, h, getS_run, this, Bool.false_eq_true, if_false]
  cases rest <;> rfl

end Foca.C16
