/-
  C07 — every emitted datagram is well-formed, bounded and accepted by its peer.
-/
import FocaModel.Proofs.SendAll
namespace Foca.C07
open Foca

/-- values that exist on the wire: `u16` fields -/
def Member.Wire (m : Member) : Prop := m.id.addr < 65536 ∧ m.id.gen < 65536 ∧ m.inc < 65536

/-- the `Codec` contract: decoding consumes exactly what encoding produced, whatever follows -/
structure CodecLaws (c : Codec) : Prop where
  member_rt : ∀ m rest, Member.Wire m → c.decMember (c.encMember m ++ rest) = some (m, rest)

/-- Every datagram handed to the runtime is at most `max_packet_size` bytes, goes to the identity it
    was built for, and starts with the header (current identity, current incarnation, destination,
    message); sending changes nothing but the two backlogs; the only error is `Encode` (header does
    not fit) and then nothing is emitted. For any codec, handler, oracle. -/
theorem datagram_bounded_and_headed (E : Env) (dst : Id) (msg : Msg) (c : Ctx) :
    SendOK E dst msg c (sendMessage E dst msg c) :=
  sendMessage_spec E dst msg c

theorem memberSection_none (E : Env) (dst : Id) (msg : Msg) (pick : Pick) (rem0 : Nat) (c : Ctx)
    (h : Gen.needsPiggyback msg = false) : memberSection E dst msg pick rem0 c = .ok ([], rem0) c := by
  unfold memberSection
  simp [h]

theorem customTail_none (E : Env) (dst : Id) (msg : Msg) (pick : Pick) (space : Nat) (c : Ctx)
    (h : Gen.allowCustom msg = false) : customTail E dst msg pick space c = .ok [] c := by
  unfold customTail
  simp [h]

/-- Announce and TurnUndead carry nothing after the header. -/
theorem bare_messages_carry_nothing (E : Env) (dst : Id) (msg : Msg) (c c' : Ctx)
    (hm : msg = .announce ∨ msg = .turnUndead) (h : sendMessage E dst msg c = .ok () c') :
    c'.eff = c.eff ++ [.send dst (E.codec.encHeader ⟨c.s.id, c.s.inc, dst, msg⟩)] := by
  have h1 : Gen.needsPiggyback msg = false := by rcases hm with h | h <;> subst h <;> rfl
  have h2 : Gen.allowCustom msg = false := by rcases hm with h | h <;> subst h <;> rfl
  unfold sendMessage at h
  simp only [bind_run, getS_run] at h
  by_cases h0 : (E.debug && c.s.sendCap != c.s.cfg.mps) = true
  · simp [h0] at h
  · simp only [h0, Bool.false_eq_true, if_false] at h
    by_cases h3 : (E.codec.encHeader ⟨c.s.id, c.s.inc, dst, msg⟩).length > c.s.cfg.mps
    · simp [h3] at h
    · simp only [h3, if_false, bind_run] at h
      unfold nextPick at h
      cases hp : c.orc.picks with
      | nil => simp [hp] at h
      | cons p ps =>
        simp only [hp] at h
        rw [memberSection_none E dst msg p _ _ h1] at h
        simp only [] at h
        rw [customTail_none E dst msg p _ _ h2] at h
        simp at h
        rw [← h]

/-- Broadcast carries no member section: what follows the header is the custom tail only. -/
theorem broadcast_has_no_member_section (E : Env) (dst : Id) (pick : Pick) (rem0 : Nat) (c : Ctx) :
    memberSection E dst .broadcast pick rem0 c = .ok ([], rem0) c :=
  memberSection_none E dst .broadcast pick rem0 c rfl

/-- A member section is a 16-bit count followed by exactly that many encoded members: the receiver's
    loop (`decode_member` called `count` times) reads them all back and stops exactly at the custom tail. -/
theorem section_reads_back (E : Env) (hl : CodecLaws E.codec) (ms : List Member) (rest : Bytes)
    (hw : ∀ m ∈ ms, Member.Wire m) :
    decodeMembers E ms.length ((ms.map E.codec.encMember).flatten ++ rest) = some (ms, rest) := by
  induction ms with
  | nil => simp [decodeMembers]
  | cons m ms ih =>
    simp only [List.length_cons, List.map_cons, List.flatten_cons, List.append_assoc, decodeMembers]
    rw [hl.member_rt m _ (hw m (by simp))]
    simp only []
    rw [ih (fun x hx => hw x (by simp [hx]))]

/-- Feed lists only active members other than the receiver. -/
theorem feed_candidates (wanted : Nat) (dst : Id) (ms : List Member) (c : Ctx) (r : List Member) (c' : Ctx)
    (h : chooseLoop wanted (fun m => m.active && m.id != dst) ms [] 0 c = .ok r c') :
    ∀ m ∈ r, m ∈ ms ∧ m.active = true ∧ m.id ≠ dst := by
  have hs := chooseLoop_spec wanted (fun m => m.active && m.id != dst) ms [] 0 c
  rw [h] at hs
  obtain ⟨_, _, hmem, _⟩ := hs
  intro m hm
  rcases hmem m hm with h1 | ⟨h1, h2⟩
  · simp at h1
  · simp at h2
    exact ⟨h1, h2.1, h2.2⟩

/-- Custom items are framed as a 16-bit length followed by exactly that many bytes. -/
theorem custom_item_framing (d : Bytes) (h : d.length < 65536) :
    frame Gen.lenPrefix d = [d.length / 256, d.length % 256] ++ d := by
  simp [frame, Gen.lenPrefix, u16be]
  omega

end Foca.C07
