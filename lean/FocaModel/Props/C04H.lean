/-
  C04, whole histories — a refuted suspicion never takes effect.
-/
import FocaModel.Proofs.RefInv
import FocaModel.Props.C04
import FocaModel.Props.C11H
import FocaModel.Proofs.Refute
namespace Foca.C04H
open Foca

/-- **A refutation is final, one call.** If `x` is recorded above incarnation `i` (or as Down, or its address is held
    by an identity of a higher generation), then after any public call other than a forget-timer for `x` or a newer
    identity of its address the same holds — whatever the call's input: stale gossip at or below `i`, repeated
    suspicions, batches, any datagram bytes. -/
theorem refutation_is_final_step (E : Env) (x : Id) (i : Nat) (s : State) (op : Op) (orc : Oracle)
    (h : RefInv x i s) (hop : Op.keepsDown x op) :
    match step E s op orc with
    | .done s' _ _ _ => RefInv x i s'
    | .stuck _ => True := RefInv.step E x i s op orc h hop

/-- … over histories of any length -/
theorem refutation_is_final (E : Env) (x : Id) (i : Nat) {s s' : State}
    (hrun : RunsTo E (Op.keepsDown x) s s') (h : RefInv x i s) : RefInv x i s' := by
  induction hrun with
  | refl => exact h
  | step op orc eff r left _ hop hstep ih =>
    have := refutation_is_final_step E x i _ op orc ih hop
    rw [hstep] at this
    exact this

/-- the suspicion timeout for `(x, i)` applied to a record that is past it: nothing changes -/
theorem timeout_past_record (x : Id) (i : Nat) (k : Member) (ha : k.id.addr = x.addr) (hk : RefOk x i k) :
    ∃ sm, updateKnown k ⟨x, i, .down⟩ (fun r => r.inc == i) = (k, sm) ∧ sm.applied = false ∧ sm.changedActive = false := by
  unfold updateKnown
  rcases hk with ⟨hid, hpast⟩ | hgen
  · have hnc : (k.id != x) = false := by simp [hid]
    by_cases hc : (k.inc == i) = true
    · have hki : k.inc = i := by simpa using hc
      rcases hpast with hgt | hdn
      · omega
      · simp [hnc, hc, hdn, Gen.canChange]
    · simp [hnc, hc]
  · have hne : k.id ≠ x := by intro h; rw [h] at hgen; omega
    have hw : k.id.wins x = true := by simp [Id.wins, hgen]
    simp [hne, hw]

/-- **A refuted suspicion never takes effect.** Take any reachable state in which `x` is recorded above incarnation
    `i` — the suspicion raised at `i` was refuted — and any further history of public calls without a forget-timer
    for `x` or a newer identity of its address. Then at every later moment every record bearing `x` is above `i` or
    Down, and the suspicion timeout for `(x, i)`, whenever it fires, finds nothing to do: the member list stays as it
    is, nothing is applied, no member changes between active and inactive (hence no MemberDown, no Down gossip, no
    TurnUndead: `C11.cancelled_timeout_is_noop`). A live member whose refutation has arrived is not declared Down by
    that timeout, however late or often it fires and whatever stale gossip arrives in between. -/
theorem refuted_suspicion_never_takes_effect (E : Env) (x : Id) (i : Nat) {s s' : State} (hs : Reachable E s)
    (hrun : RunsTo E (Op.keepsDown x) s s') (h : ∃ m ∈ s.ms, m.id = x ∧ m.inc > i) :
    (∀ m ∈ s'.ms, m.id = x → m.inc > i ∨ m.st = .down) ∧
    ∃ sm, applyExisting s'.ms ⟨x, i, .down⟩ (fun r => r.inc == i) = some (s'.ms, sm) ∧
      sm.applied = false ∧ sm.changedActive = false := by
  obtain ⟨m0, hm0, hid0, hinc0⟩ := h
  have hinv : RefInv x i s' :=
    refutation_is_final E x i hrun ⟨m0, hm0, by rw [hid0], Or.inl ⟨hid0, Or.inl hinc0⟩⟩
  have hs' := C11H.RunsTo.reachable hrun hs
  obtain ⟨r, hr, hra, hrd⟩ := hinv
  have huniq : ∀ a ∈ s'.ms, a.id.addr = x.addr → a = r :=
    fun a ha haa => C09H.address_determines_record E hs' a r ha hr (by rw [haa, hra])
  refine ⟨fun m hm hmx => ?_, ?_⟩
  · have := huniq m hm (by rw [hmx])
    subst this
    rcases hrd with ⟨_, hp⟩ | hgt
    · exact hp
    · rw [hmx] at hgt; omega
  · -- the first record with the address of `x` is `r`
    have key : ∀ (ms : List Member), r ∈ ms → (∀ a ∈ ms, a.id.addr = x.addr → a = r) →
        ∃ sm, applyExisting ms ⟨x, i, .down⟩ (fun r => r.inc == i) = some (ms, sm) ∧
          sm.applied = false ∧ sm.changedActive = false := by
      intro ms
      induction ms with
      | nil => intro h; simp at h
      | cons k rest ih =>
        intro hmem hu
        unfold applyExisting
        by_cases hk : (k.id.addr == x.addr) = true
        · have hkr : k = r := hu k (by simp) (by simpa using hk)
          obtain ⟨sm, h1, h2, h3⟩ := timeout_past_record x i k (by simpa using hk) (by rw [hkr]; exact hrd)
          simp only [hk, if_true]
          rw [h1]
          exact ⟨sm, rfl, h2, h3⟩
        · have hmem' : r ∈ rest := by
            simp only [List.mem_cons] at hmem
            rcases hmem with hmem | hmem
            · rw [← hmem] at hk; simp [hra] at hk
            · exact hmem
          obtain ⟨sm, h1, h2, h3⟩ := ih hmem' (fun a ha => hu a (by simp [ha]))
          simp only [hk, Bool.false_eq_true, if_false]
          rw [h1]
          exact ⟨sm, rfl, h2, h3⟩
    exact key s'.ms hr huniq

/-- non-vacuity: member 2 is suspected at incarnation 0, refutes (Alive at 1); stale suspicions at 0 and 1 arrive;
    it is still recorded above 0 -/
example : ∃ s, Reachable C08H.exEnv s ∧ ∃ m ∈ s.ms, m.id = ⟨2, 0⟩ ∧ m.inc > 0 := by
  refine ⟨_, Reachable.step (.applyMany [⟨⟨2, 0⟩, 0, .suspect⟩, ⟨⟨2, 0⟩, 1, .alive⟩, ⟨⟨2, 0⟩, 0, .suspect⟩] false) ⟨[.idx 0], []⟩ _ _ _
    (Reachable.init ⟨1, 0⟩ .none C08H.exCfg) rfl, ?_⟩
  decide

section
variable (E : Env)

/-- **Any datagram from the suspected member at a higher incarnation is the refutation.** An instance that
    handled — successfully — a datagram addressed to it whose header comes from `x` at an incarnation above `i`
    (whatever the message kind, the updates and broadcasts on board, whatever the instance held about `x` before)
    now records `x` above `i` (or as Down, or its address under a higher generation): `RefInv x i`, which by
    `refuted_suspicion_never_takes_effect` makes the pending timeout for `(x, i)` a no-op for good. With
    `C10.refutation_exceeds_suspicion` (every datagram the suspected member sends after learning of the suspicion
    carries a higher incarnation) this closes the refutation loop of C04: one datagram from the member, of any kind,
    delivered before the timeout. -/
theorem datagram_from_member_refutes (x : Id) (i : Nat) {s s' : State} {data : Bytes} {orc left : Oracle}
    {eff : List Effect} (hstep : Foca.step E s (.data data) orc = .done s' eff .ok left)
    (h : Header) (rest : Bytes) (hdec : E.codec.decHeader data = some (h, rest)) (hdst : h.dst = s.id)
    (hsrc : h.src = x) (hinc : h.srcInc > i) : RefInv x i s' := by
  have hrun : Foca.handleData E data ⟨s, [], orc⟩ = .ok () ⟨s', eff, left⟩ := by
    unfold Foca.step Foca.runOp at hstep
    simp only [bind_run] at hstep
    cases hr : Foca.handleData E data ⟨s, [], orc⟩ with
    | stuck y => rw [hr] at hstep; simp at hstep
    | err e c => rw [hr] at hstep; simp at hstep
    | ok u c =>
      rw [hr] at hstep
      simp only [pure_run, StepOut.done.injEq] at hstep
      obtain ⟨h1, h2, _, h4⟩ := hstep
      cases c
      simp only at h1 h2 h4
      subst h1 h2 h4
      rfl
  obtain ⟨h', rest', hdec', hcase⟩ := handleData_ok E data _ _ hrun
  rw [hdec] at hdec'
  simp only [Option.some.injEq, Prod.mk.injEq] at hdec'
  obtain ⟨rfl, rfl⟩ := hdec'
  have F := RefInv.full (E := E) (x := x) (i := i)
  rcases hcase with ⟨hacc, _⟩ | ⟨updates, tail, hparse, act, c1, hu, hcase⟩
  · exfalso
    simp [Gen.acceptPayload, hdst] at hacc
  · rw [hsrc] at hu
    have r1 := applyUpdate_establishes E x i h.srcInc hinc true _ c1 act hu
    rcases hcase with ⟨_, hin⟩ | ⟨_, c2, cres, c3, hm, hcb, hrs⟩
    · have := (F.inactiveSender h).run c1 r1
      rw [hin] at this
      exact this
    · have r2 := (F.applyMany updates true (fun _ _ => trivial)).run c1 r1
      rw [hm] at r2
      have r3 := (Pres.attempt (F.toBase.handleCustomBroadcasts tail (some h.src))).run c2 r2
      rw [hcb] at r3
      have r4 := (F.replyStage h cres).run c3 r3
      rw [hrs] at r4
      exact r4

end

end Foca.C04H
