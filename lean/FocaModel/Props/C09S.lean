/-
  C09 (and C08, C15) at the level of the cluster: what holds of every reachable state of one instance holds of every
  instance of every reachable cluster, at every moment, whatever the network did.
-/
import FocaModel.Proofs.NetNodes
import FocaModel.Props.C09H
import FocaModel.Props.C15H
namespace Foca.C09S
open Foca

/-- **Every instance of every cluster is in a reachable state.** `NetReach`: any number of instances, datagrams
    delivered late, repeatedly, to the wrong instance or never, timers in any order, API calls at any time. -/
theorem every_node_is_reachable (E : Env) {n : Net} (h : NetReach E n) (s : State) (hs : s ∈ n.nodes) :
    Reachable E s := NetReach.node_reachable E h s hs

/-- **One record per address, everywhere, always**: in every reachable cluster every instance lists at most one
    identity per address, counts its active members exactly, and keeps at most one pending update per address. -/
theorem one_record_per_address_everywhere (E : Env) {n : Net} (h : NetReach E n) (s : State) (hs : s ∈ n.nodes) :
    (s.ms.map (·.id.addr)).Nodup ∧ s.numActive = countActive s.ms ∧ (s.updates.map (·.key)).Nodup :=
  have hr := NetReach.node_reachable E h s hs
  ⟨C09H.one_record_per_address_always E hr, C08H.num_members_exact_always E hr, C15H.one_update_per_address_always E hr⟩

/-- … in particular in clusters reached without a failed probe round (`CalmReach ⊆ NetReach`), where in addition
    every record is Alive (`C02S.calm_cluster_stays_calm`) -/
theorem calm_clusters_are_reachable_clusters (E : Env) (ids : List Id) {n : Net} (h : CalmReach E ids n) : NetReach E n :=
  CalmReach.netReach E h

end Foca.C09S
