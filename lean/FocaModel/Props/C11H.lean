/-
  C11, whole histories — Down is final until forgotten.
-/
import FocaModel.Proofs.DownInv
import FocaModel.Proofs.MsInv
import FocaModel.Props.C08H
import FocaModel.Props.C09H
namespace Foca.C11H
open Foca

/-- **Down is final, one call.** If identity `x` is recorded as Down — or its address is already held by an identity
    of a higher generation — then after any public call (any batch of updates, any datagram bytes, any timer incl.
    suspicion timeouts and forget-timers of other identities, `change_identity`, any RNG draws) other than a
    forget-timer naming `x` itself or a newer identity of its address, the same holds: no update, header or
    refutation of any incarnation turns the record back, and only an identity of a higher generation replaces it. -/
theorem down_stays_down_step (E : Env) (x : Id) (s : State) (op : Op) (orc : Oracle)
    (h : DownInv x s) (hop : Op.keepsDown x op) :
    match step E s op orc with
    | .done s' _ _ _ => DownInv x s'
    | .stuck _ => True := DownInv.step E x s op orc h hop

/-- **… over histories** of any length. -/
theorem down_is_final_until_forgotten (E : Env) (x : Id) {s s' : State}
    (hrun : RunsTo E (Op.keepsDown x) s s') (h : DownInv x s) : DownInv x s' := by
  induction hrun with
  | refl => exact h
  | step op orc eff r left _ hop hstep ih =>
    have := down_stays_down_step E x _ op orc ih hop
    rw [hstep] at this
    exact this

theorem RunsTo.reachable {E : Env} {allowed : Op → Prop} {s s' : State} (hrun : RunsTo E allowed s s')
    (h : Reachable E s) : Reachable E s' := by
  induction hrun with
  | refl => exact h
  | step op orc eff r left _ _ hstep ih => exact Reachable.step op orc eff r left ih hstep

/-- **A Down identity never becomes active again.** From any reachable state in which `x` is recorded as Down, over
    any further history without a forget-timer for `x` or a newer identity of its address: the address of `x` stays
    listed, its one record is `x` as Down or an identity of a higher generation, and every record bearing the
    identity `x` is Down — `x` is never active again, whatever arrives. -/
theorem down_identity_never_active_again (E : Env) (x : Id) {s s' : State} (hs : Reachable E s)
    (hrun : RunsTo E (Op.keepsDown x) s s') (h : ∃ m ∈ s.ms, m.id = x ∧ m.st = .down) :
    (∃ m ∈ s'.ms, m.id.addr = x.addr) ∧ (∀ m ∈ s'.ms, m.id = x → m.st = .down ∧ m.active = false) ∧
    (∀ m ∈ s'.ms, m.id.addr = x.addr → m.id = x ∨ m.id.gen > x.gen) := by
  obtain ⟨m0, hm0, hid0, hst0⟩ := h
  have hd : DownInv x s' :=
    down_is_final_until_forgotten E x hrun ⟨m0, hm0, by rw [hid0], Or.inl ⟨hid0, hst0⟩⟩
  obtain ⟨r, hr, hra, hrd⟩ := hd
  have hs' := RunsTo.reachable hrun hs
  refine ⟨⟨r, hr, hra⟩, fun m hm hmx => ?_, fun m hm hma => ?_⟩
  · have : m = r := C09H.address_determines_record E hs' m r hm hr (by rw [hmx, hra])
    subst this
    rcases hrd with ⟨_, hst⟩ | hgt
    · exact ⟨hst, by simp [Member.active, hst, Gen.isActive]⟩
    · rw [hmx] at hgt; omega
  · have : m = r := C09H.address_determines_record E hs' m r hm hr (by rw [hma, hra])
    subst this
    rcases hrd with ⟨hx, _⟩ | hgt
    · exact Or.inl hx
    · exact Or.inr hgt

/-- non-vacuity: member 2 is declared Down; then it is announced Alive at a higher incarnation, then Suspect, by
    later batches — it stays Down -/
example : ∃ s, Reachable C08H.exEnv s ∧ s.ms = [⟨⟨2, 0⟩, 1, .down⟩] := by
  refine ⟨_, Reachable.step (.applyMany [⟨⟨2, 0⟩, 7, .alive⟩, ⟨⟨2, 0⟩, 9, .suspect⟩] false) ⟨[], []⟩ _ _ _
    (Reachable.step (.applyMany [⟨⟨2, 0⟩, 1, .down⟩] false) ⟨[.idx 0], []⟩ _ _ _
      (Reachable.init ⟨1, 0⟩ .none C08H.exCfg) rfl) rfl, ?_⟩
  decide

/-- The hypothesis on forget-timers cannot be dropped, and it is the point the property itself names: once the
    forget-timer of `x` fired the identity may rejoin. -/
example : ∃ s, Reachable C08H.exEnv s ∧ s.ms = [⟨⟨2, 0⟩, 7, .alive⟩] := by
  refine ⟨_, Reachable.step (.applyMany [⟨⟨2, 0⟩, 7, .alive⟩] false) ⟨[.idx 0], []⟩ _ _ _
    (Reachable.step (.timer (.rm ⟨2, 0⟩)) ⟨[], []⟩ _ _ _
      (Reachable.step (.applyMany [⟨⟨2, 0⟩, 1, .down⟩] false) ⟨[.idx 0], []⟩ _ _ _
        (Reachable.init ⟨1, 0⟩ .none C08H.exCfg) rfl) rfl) rfl, ?_⟩
  decide

end Foca.C11H
