/-
  C13, whole histories — the probe loop is never lost, duplicated or resurrected.
-/
import FocaModel.Proofs.Timers
import FocaModel.Props.C08H
namespace Foca.C13H
open Foca

/-- tokens of the probe timers in a list of outstanding timers -/
def probeTokensOf (T : List Timer) : List Nat :=
  T.filterMap (fun t => match t with | .probe tok => some tok | _ => none)

/-- the timers a call scheduled -/
def timersOf (eff : List Effect) : List Timer :=
  eff.filterMap (fun e => match e with | .timer _ t => some t | _ => none)

theorem probeTokensOf_timersOf (eff : List Effect) : probeTokensOf (timersOf eff) = probeToks eff := by
  induction eff with
  | nil => rfl
  | cons e rest ih =>
    cases e with
    | send d b => simpa [timersOf, probeTokensOf, probeToks] using ih
    | notify n => simpa [timersOf, probeTokensOf, probeToks] using ih
    | timer ms t =>
      cases t <;> simp [timersOf, probeTokensOf, probeToks] at ih ⊢ <;> exact ih

theorem probeTokensOf_append (a b : List Timer) : probeTokensOf (a ++ b) = probeTokensOf a ++ probeTokensOf b := by
  simp [probeTokensOf, List.filterMap_append]

/-- outstanding probe timers that are effective (carry the current token) -/
def effective (s : State) (T : List Timer) : Nat := (probeTokensOf T).count s.token

/-- the property's assumption for one call: the epochs the call goes through do not land on the token of a probe
    timer that is still outstanding ("fewer than 256 epoch changes between issue and delivery") -/
def FreshFor (T : List Timer) (s s' : State) : Prop :=
  ∀ t ∈ probeTokensOf T, ∀ e, s.epoch < e → e ≤ s'.epoch → t ≠ e % 256

def connectedNat (s : State) : Nat := if s.conn = .connected then 1 else 0

/-- **One call that is not the delivery of a probe timer.** If the token is in step with the epoch counter and
    exactly `[connected]` effective probe timers are outstanding, the same holds afterwards — with the timers the
    call scheduled added — whatever the call is (any input, also a failing one), as long as the token does not
    wrap onto an outstanding timer. Going idle, defunct or changing identity ends the epoch (every outstanding
    timer becomes stale); becoming active starts exactly one loop. -/
theorem probe_loop_step_other (E : Env) (s : State) (op : Op) (orc : Oracle) (T : List Timer)
    (hop : ∀ tok, op ≠ .timer (.probe tok))
    (htok : s.token = s.epoch % 256) (hinv : effective s T = connectedNat s) :
    match step E s op orc with
    | .done s' eff _ _ => s'.epoch < s.epoch + 256 → FreshFor T s s' →
        s'.token = s'.epoch % 256 ∧ effective s' (T ++ timersOf eff) = connectedNat s'
    | .stuck _ => True := by
  have L := TimInv.leaves E s.epoch (effective s T)
  have h0 : TimInv s.epoch (effective s T) s [] := by
    right
    refine ⟨Nat.le_refl _, htok, ?_, ?_⟩
    · intro t ht; simp [probeToks] at ht
    · simp [probeToks]; exact hinv
  have hrun := (L.runOp op (fun tok h => absurd h (hop tok))).run ⟨s, [], orc⟩ h0
  unfold step
  have fin : ∀ (s' : State) (eff : List Effect), TimInv s.epoch (effective s T) s' eff →
      s'.epoch < s.epoch + 256 → FreshFor T s s' →
      s'.token = s'.epoch % 256 ∧ effective s' (T ++ timersOf eff) = connectedNat s' := by
    intro s' eff hT hb hf
    rcases hT with hT | ⟨g1, g2, _, g4⟩
    · omega
    · refine ⟨g2, ?_⟩
      unfold effective connectedNat at *
      rw [probeTokensOf_append, List.count_append, probeTokensOf_timersOf]
      by_cases hep : s'.epoch = s.epoch
      · have : s'.token = s.token := by rw [g2, htok, hep]
        simp only [hep, if_true] at g4
        rw [this] at g4 ⊢
        omega
      · have hz : (probeTokensOf T).count s'.token = 0 := by
          rw [List.count_eq_zero]
          intro hmem
          exact hf _ hmem s'.epoch (by omega) (Nat.le_refl _) g2
        simp only [hep, if_false, Nat.add_zero] at g4
        omega
  cases hr : runOp E op ⟨s, [], orc⟩ with
  | stuck x => trivial
  | ok r c => rw [hr] at hrun; exact fin _ _ hrun
  | err e c => rw [hr] at hrun; exact fin _ _ hrun

/-- **The delivery of an outstanding probe timer.** `T` is what is outstanding besides the delivered timer.
    A stale timer (another token) changes nothing. An effective one can only exist while connected, and the round
    it starts re-arms the loop exactly once in the same epoch — also when it reports `IncompleteProbeCycle` —
    unless a send fails with `Encode` (a header that does not fit the packet). -/
theorem probe_loop_step_probe (E : Env) (s : State) (tok : Nat) (orc : Oracle) (T : List Timer)
    (htok : s.token = s.epoch % 256) (hinv : effective s (.probe tok :: T) = connectedNat s) :
    match step E s (.timer (.probe tok)) orc with
    | .done s' eff r _ => (r = .ok ∨ r = .err .incompleteProbe) →
        s'.token = s'.epoch % 256 ∧ effective s' (T ++ timersOf eff) = connectedNat s'
    | .stuck _ => True := by
  unfold step runOp
  simp only [bind_run]
  by_cases hst : tok = s.token
  · subst hst
    -- effective: the instance must be connected
    have hconn : s.conn = .connected := by
      unfold effective connectedNat probeTokensOf at hinv
      simp only [List.filterMap_cons, List.count_cons_self] at hinv
      by_cases hc : s.conn = .connected
      · exact hc
      · simp [hc] at hinv
    have hT0 : effective s T = 0 := by
      unfold effective probeTokensOf at hinv ⊢
      unfold connectedNat at hinv
      simp only [List.filterMap_cons, List.count_cons_self, hconn, if_true] at hinv
      omega
    have hre := probeRandomMember_rearms E ⟨s, [], orc⟩
    have hht : handleTimer E (.probe s.token) ⟨s, [], orc⟩ = probeRandomMember E ⟨s, [], orc⟩ := by
      unfold handleTimer
      simp [hconn]
    rw [hht]
    unfold Rearmed at hre
    have fin : ∀ (c' : Ctx), QuietSince ⟨s, [], orc⟩ c'.s c'.eff.dropLast →
        (∃ p, c'.eff = c'.eff.dropLast ++ [.timer p (.probe s.token)]) →
        c'.s.token = c'.s.epoch % 256 ∧ effective c'.s (T ++ timersOf c'.eff) = connectedNat c'.s := by
      intro c' hq hp
      obtain ⟨q1, q2, q3, q4⟩ := hq
      obtain ⟨p, hp⟩ := hp
      simp only at q1 q2 q3 q4
      refine ⟨by rw [q2, q3]; exact htok, ?_⟩
      unfold effective connectedNat at *
      rw [probeTokensOf_append, List.count_append, probeTokensOf_timersOf, hp, probeToks_append, q4, q2, q1, hconn]
      simp [probeToks]
      exact hT0
    cases hr : probeRandomMember E ⟨s, [], orc⟩ with
    | stuck x => trivial
    | ok u c' =>
      rw [hr] at hre
      simp only [pure_run]
      intro _
      exact fin c' hre.1 hre.2
    | err e c' =>
      rw [hr] at hre
      simp only
      intro hres
      rcases hre with ⟨_, hq, hp⟩ | ⟨hne, _⟩
      · exact fin c' hq hp
      · rcases hres with h | h
        · cases h
        · simp at h; exact absurd h hne
  · -- a stale timer: nothing happens
    have := C13.stale_timer_is_noop E (.probe tok) tok ⟨s, [], orc⟩ rfl hst
    rw [this]
    simp only [pure_run]
    intro _
    refine ⟨htok, ?_⟩
    unfold effective probeTokensOf at hinv ⊢
    simp only [timersOf, List.filterMap_nil, List.append_nil]
    simp only [List.filterMap_cons] at hinv
    rw [List.count_cons] at hinv
    have : (tok == s.token) = false := by simpa using hst
    simp only [this, Bool.false_eq_true, if_false, Nat.add_zero] at hinv
    exact hinv

theorem effective_middle (s : State) (T1 T2 : List Timer) (t : Timer) :
    effective s (T1 ++ t :: T2) = effective s (t :: (T1 ++ T2)) := by
  unfold effective
  have : (T1 ++ t :: T2).Perm (t :: (T1 ++ T2)) := List.perm_middle
  exact (this.filterMap _).count_eq _

/-- a history of an instance together with its outstanding timers: every timer the instance scheduled is in the
    list until the runtime delivers it, exactly once, at any later point and in any order -/
inductive ProbeHistory (E : Env) : State → List Timer → Prop
  | init (id : Id) (pol : Policy) (cfg : Config) : ProbeHistory E (State.init id pol cfg) []
  /-- any call that is not the delivery of a probe timer (API calls, datagrams, other timers) -/
  | call {s s' : State} {T : List Timer} (op : Op) (orc : Oracle) (eff : List Effect) (r : Res) (left : Oracle) :
      ProbeHistory E s T → (∀ tok, op ≠ .timer (.probe tok)) → Foca.step E s op orc = .done s' eff r left →
      s'.epoch < s.epoch + 256 → FreshFor T s s' → ProbeHistory E s' (T ++ timersOf eff)
  /-- the runtime delivers an outstanding probe timer (the call returns `Ok` or `IncompleteProbeCycle`) -/
  | fire {s s' : State} {T1 T2 : List Timer} (tok : Nat) (orc : Oracle) (eff : List Effect) (r : Res) (left : Oracle) :
      ProbeHistory E s (T1 ++ .probe tok :: T2) →
      Foca.step E s (.timer (.probe tok)) orc = .done s' eff r left → (r = .ok ∨ r = .err .incompleteProbe) →
      ProbeHistory E s' (T1 ++ T2 ++ timersOf eff)
  /-- a delivered timer of another kind leaves the list -/
  | delivered {s : State} {T1 T2 : List Timer} (t : Timer) :
      ProbeHistory E s (T1 ++ t :: T2) → (∀ tok, t ≠ .probe tok) → ProbeHistory E s (T1 ++ T2)

/-- **Exactly one probe timer.** At every point of any history — timers delivered exactly once, in any order and
    however late, interleaved with datagrams and API calls that change connection state or identity — an instance
    that is connected has exactly one outstanding probe timer that is still effective, and an instance that is
    not connected has none: the loop is never lost, never duplicated, and a timer of an earlier epoch is never
    effective again (as long as the `u8` token does not wrap onto an outstanding timer, and no send in a probe
    round fails with `Encode`). -/
theorem exactly_one_probe_timer (E : Env) {s : State} {T : List Timer} (h : ProbeHistory E s T) :
    s.token = s.epoch % 256 ∧ effective s T = connectedNat s := by
  induction h with
  | init id pol cfg => exact ⟨rfl, by simp [effective, probeTokensOf, connectedNat, State.init]⟩
  | call op orc eff r left _ hop hstep hb hf ih =>
    have := probe_loop_step_other E _ op orc _ hop ih.1 ih.2
    rw [hstep] at this
    exact this hb hf
  | @fire s0 s1 T1 T2 tok orc eff r left _ hstep hres ih =>
    have h2 : effective s0 (.probe tok :: (T1 ++ T2)) = connectedNat s0 := by
      rw [← effective_middle]; exact ih.2
    have := probe_loop_step_probe E s0 tok orc (T1 ++ T2) ih.1 h2
    rw [hstep] at this
    exact this hres
  | @delivered s0 T1 T2 t _ hne ih =>
    refine ⟨ih.1, ?_⟩
    rw [← ih.2, effective_middle]
    unfold effective probeTokensOf
    cases t with
    | probe tok => exact absurd rfl (hne tok)
    | _ => simp

/-- non-vacuity: a member joins — the instance becomes active with one effective probe timer outstanding -/
example : ∃ s T, ProbeHistory C08H.exEnv s T ∧ s.conn = .connected ∧ effective s T = 1 := by
  refine ⟨_, _, ProbeHistory.call (.applyMany [⟨⟨2, 0⟩, 0, .alive⟩] false) ⟨[.idx 0], []⟩ _ _ _
    (ProbeHistory.init ⟨1, 0⟩ .none C08H.exCfg) (by intro tok h; cases h) rfl (by decide)
    (by intro t ht; simp [probeTokensOf] at ht), ?_, ?_⟩
  · decide
  · decide

end Foca.C13H
