/-
  C13, whole histories — the recurring loops (probe round and the three periodic tasks) are never lost, duplicated
  or resurrected.
-/
import FocaModel.Proofs.Timers
import FocaModel.Proofs.Stage
import FocaModel.Proofs.ErrKinds
import FocaModel.Props.C08H
namespace Foca.C13H
open Foca

/-- the timer of loop `k` carrying token `tok` -/
def LoopKind.timer : LoopKind → Nat → Timer
  | .probe, tok => .probe tok
  | .pa, tok => .pa tok
  | .pad, tok => .pad tok
  | .pg, tok => .pg tok

theorem sel_timer (k : LoopKind) (tok : Nat) : k.sel (LoopKind.timer k tok) = some tok := by cases k <;> rfl

/-- tokens of the timers of loop `k` in a list of outstanding timers -/
def toksOf (k : LoopKind) (T : List Timer) : List Nat := T.filterMap k.sel

/-- the timers a call scheduled -/
def timersOf (eff : List Effect) : List Timer :=
  eff.filterMap (fun e => match e with | .timer _ t => some t | _ => none)

theorem toksOf_timersOf (k : LoopKind) (eff : List Effect) : toksOf k (timersOf eff) = loopToks k eff := by
  induction eff with
  | nil => rfl
  | cons e rest ih =>
    cases e with
    | send d b => simpa [timersOf, toksOf, loopToks] using ih
    | notify n => simpa [timersOf, toksOf, loopToks] using ih
    | timer ms t =>
      simp only [timersOf, toksOf, loopToks, List.filterMap_cons] at ih ⊢
      cases k.sel t <;> simp [ih]

theorem toksOf_append (k : LoopKind) (a b : List Timer) : toksOf k (a ++ b) = toksOf k a ++ toksOf k b := by
  simp [toksOf, List.filterMap_append]

/-- outstanding timers of loop `k` that are effective (carry the current token) -/
def effective (k : LoopKind) (s : State) (T : List Timer) : Nat := (toksOf k T).count s.token

/-- the property's assumption for one call: the epochs the call goes through do not land on the token of a timer of
    loop `k` that is still outstanding ("fewer than 256 epoch changes between issue and delivery") -/
def FreshFor (k : LoopKind) (T : List Timer) (s s' : State) : Prop :=
  ∀ t ∈ toksOf k T, ∀ e, s.epoch < e → e ≤ s'.epoch → t ≠ e % 256

/-- the accounting of loop `k`: never more effective timers than `[connected]`, and exactly that many while the
    loop is enabled (the probe loop always is; a periodic task can be switched off by `set_config`, then its last
    timer is simply not re-armed) -/
def LoopOk (k : LoopKind) (s : State) (T : List Timer) : Prop :=
  effective k s T ≤ connNat s ∧ (k.en s.cfg = true → effective k s T = connNat s)

/-- **One call that is not the delivery of a timer of loop `k`.** -/
theorem loop_step_other (E : Env) (k : LoopKind) (s : State) (op : Op) (orc : Oracle) (T : List Timer)
    (hop : ∀ t, op = .timer t → t.loopNo ≠ some k.no)
    (htok : s.token = s.epoch % 256) (hinv : LoopOk k s T) :
    match step E s op orc with
    | .done s' eff _ _ => s'.epoch < s.epoch + 256 → FreshFor k T s s' →
        s'.token = s'.epoch % 256 ∧ LoopOk k s' (T ++ timersOf eff)
    | .stuck _ => True := by
  have L := TimInv.leaves E k s.epoch (effective k s T)
  have h0 : TimInv k s.epoch (effective k s T) s [] := by
    right
    refine ⟨Nat.le_refl _, htok, ?_, ?_, ?_⟩
    · intro t ht; simp [loopToks] at ht
    · simp [loopToks]; exact hinv.1
    · intro hen; simp [loopToks]; exact hinv.2 hen
  have hrun := (L.runOp op (fun t ht hl => TimInv.otherLoop E k s.epoch (effective k s T) t hl (hop t ht))).run
    ⟨s, [], orc⟩ h0
  unfold step
  have fin : ∀ (s' : State) (eff : List Effect), TimInv k s.epoch (effective k s T) s' eff →
      s'.epoch < s.epoch + 256 → FreshFor k T s s' →
      s'.token = s'.epoch % 256 ∧ LoopOk k s' (T ++ timersOf eff) := by
    intro s' eff hT hb hf
    rcases hT with hT | ⟨g1, g2, _, g4, g5⟩
    · omega
    · refine ⟨g2, ?_⟩
      unfold LoopOk effective at *
      rw [toksOf_append, List.count_append, toksOf_timersOf]
      by_cases hep : s'.epoch = s.epoch
      · have : s'.token = s.token := by rw [g2, htok, hep]
        simp only [hep, if_true] at g4 g5
        rw [this] at g4 g5 ⊢
        exact ⟨by omega, fun hen => by have := g5 hen; omega⟩
      · have hz : (toksOf k T).count s'.token = 0 := by
          rw [List.count_eq_zero]
          intro hmem
          exact hf _ hmem s'.epoch (by omega) (Nat.le_refl _) g2
        simp only [hep, if_false, Nat.add_zero] at g4 g5
        exact ⟨by omega, fun hen => by have := g5 hen; omega⟩
  cases hr : runOp E op ⟨s, [], orc⟩ with
  | stuck x => trivial
  | ok r c => rw [hr] at hrun; exact fin _ _ hrun
  | err e c => rw [hr] at hrun; exact fin _ _ hrun

theorem effective_cons (k : LoopKind) (s : State) (tok : Nat) (T : List Timer) :
    effective k s (LoopKind.timer k tok :: T) = (if tok = s.token then 1 else 0) + effective k s T := by
  unfold effective toksOf
  simp only [List.filterMap_cons, sel_timer, List.count_cons]
  by_cases h : tok = s.token
  · simp [h]; omega
  · simp [h]

/-- **The delivery of an outstanding probe timer** (`T`: what is outstanding besides it). A stale one changes
    nothing; an effective one can only exist while connected, and its round re-arms the loop exactly once — also
    when it reports `IncompleteProbeCycle` — unless a send fails with `Encode`. -/
theorem loop_step_probe (E : Env) (s : State) (tok : Nat) (orc : Oracle) (T : List Timer)
    (htok : s.token = s.epoch % 256) (hinv : LoopOk .probe s (.probe tok :: T)) :
    match step E s (.timer (.probe tok)) orc with
    | .done s' eff r _ => (r = .ok ∨ r = .err .incompleteProbe) →
        s'.token = s'.epoch % 256 ∧ LoopOk .probe s' (T ++ timersOf eff)
    | .stuck _ => True := by
  have hc := effective_cons .probe s tok T
  have hinv2 := hinv.2 rfl
  unfold step runOp
  simp only [bind_run]
  by_cases hst : tok = s.token
  · subst hst
    have hconn : s.conn = .connected := by
      have : effective .probe s (LoopKind.timer .probe s.token :: T) = connNat s := hinv2
      rw [hc] at this
      unfold connNat at this
      by_cases hcn : s.conn = .connected
      · exact hcn
      · simp [hcn] at this
    have hT0 : effective .probe s T = 0 := by
      have : effective .probe s (LoopKind.timer .probe s.token :: T) = connNat s := hinv2
      rw [hc] at this
      unfold connNat at this
      simp [hconn] at this
      omega
    have hre := probeRandomMember_rearms E ⟨s, [], orc⟩
    have hht : handleTimer E (.probe s.token) ⟨s, [], orc⟩ = probeRandomMember E ⟨s, [], orc⟩ := by
      unfold handleTimer
      simp [hconn]
    rw [hht]
    unfold ProbeRound at hre
    have fin : ∀ (c' : Ctx), Rearmed .probe ⟨s, [], orc⟩ c'.s c'.eff →
        c'.s.token = c'.s.epoch % 256 ∧ LoopOk .probe c'.s (T ++ timersOf c'.eff) := by
      intro c' hq
      obtain ⟨q1, q2, q3, q4, q5⟩ := hq
      simp only at q1 q2 q3 q4 q5
      refine ⟨by rw [q2, q3]; exact htok, ?_⟩
      have heq : effective .probe c'.s (T ++ timersOf c'.eff) = connNat c'.s := by
        unfold effective connNat at *
        rw [toksOf_append, List.count_append, toksOf_timersOf, q5, q2, q1, hconn]
        simp [loopToks]
        exact hT0
      exact ⟨by omega, fun _ => heq⟩
    cases hr : probeRandomMember E ⟨s, [], orc⟩ with
    | stuck x => trivial
    | ok u c' =>
      rw [hr] at hre
      simp only [pure_run]
      intro _
      exact fin c' hre
    | err e c' =>
      rw [hr] at hre
      simp only
      intro hres
      rcases hre with ⟨_, hq⟩ | ⟨hne, _⟩
      · exact fin c' hq
      · rcases hres with h | h
        · cases h
        · simp at h; rw [h] at hne; cases hne
  · have := C13.stale_timer_is_noop E (.probe tok) tok ⟨s, [], orc⟩ rfl hst
    rw [this]
    simp only [pure_run]
    intro _
    refine ⟨htok, ?_⟩
    have he : effective .probe s (T ++ timersOf []) = effective .probe s (LoopKind.timer .probe tok :: T) := by
      rw [hc]; simp [hst, timersOf]
    unfold LoopOk at *
    rw [he]
    exact hinv

/-- **Errors of an outstanding probe timer.** Delivering a probe timer the instance scheduled never finds it
    "not connected" (an effective probe timer exists only while connected; a stale one is ignored): the call
    returns `Ok`, or `IncompleteProbeCycle` — only when the previous round still has a target whose
    SendIndirectProbe timer has not been delivered, i.e. the runtime delivered timers out of deadline order — or
    the `Encode` error of a send. -/
theorem outstanding_probe_timer_errors (E : Env) (s : State) (tok : Nat) (orc : Oracle) (T : List Timer)
    (hinv : LoopOk .probe s (.probe tok :: T)) :
    match step E s (.timer (.probe tok)) orc with
    | .done _ _ r _ => r = .ok ∨ r = .err .encode ∨ (r = .err .incompleteProbe ∧ s.probe.validate = false)
    | .stuck _ => True := by
  have hc := effective_cons .probe s tok T
  have hinv2 : effective .probe s (LoopKind.timer .probe tok :: T) = connNat s := hinv.2 rfl
  unfold step runOp
  simp only [bind_run]
  by_cases hst : tok = s.token
  · subst hst
    have hconn : s.conn = .connected := by
      rw [hc] at hinv2
      unfold connNat at hinv2
      by_cases hcn : s.conn = .connected
      · exact hcn
      · simp [hcn] at hinv2
    have hht : handleTimer E (.probe s.token) ⟨s, [], orc⟩ = probeRandomMember E ⟨s, [], orc⟩ := by
      unfold handleTimer
      simp [hconn]
    rw [hht]
    have hre := probeRandomMember_rearms E ⟨s, [], orc⟩
    unfold ProbeRound at hre
    cases hr : probeRandomMember E ⟨s, [], orc⟩ with
    | stuck x => trivial
    | ok u c' => simp
    | err e c' =>
      rw [hr] at hre
      simp only
      rcases hre with ⟨he, _⟩ | ⟨he, _⟩
      · subst he
        right; right
        refine ⟨rfl, ?_⟩
        cases hv : s.probe.validate with
        | false => rfl
        | true =>
          have := probeRandomMember_valid_err E ⟨s, [], orc⟩ c' _ hv hr
          cases this
      · subst he; exact Or.inr (Or.inl rfl)
  · have := C13.stale_timer_is_noop E (.probe tok) tok ⟨s, [], orc⟩ rfl hst
    rw [this]
    simp

/-- **The delivery of an outstanding timer of a periodic task** `k` (`T`: what is outstanding besides it).
    Effective and enabled: re-armed exactly once, before anything is sent. Effective but switched off by
    `set_config` in the meantime: the loop ends here. Stale: nothing happens. Whatever the call returns. -/
theorem loop_step_periodic (E : Env) (k : LoopKind) (hk : k ≠ .probe) (s : State) (tok : Nat) (orc : Oracle)
    (T : List Timer) (htok : s.token = s.epoch % 256) (hinv : LoopOk k s (LoopKind.timer k tok :: T)) :
    match step E s (.timer (LoopKind.timer k tok)) orc with
    | .done s' eff _ _ => s'.token = s'.epoch % 256 ∧ LoopOk k s' (T ++ timersOf eff)
    | .stuck _ => True := by
  have hc := effective_cons k s tok T
  have hround : PeriodicRound k tok ⟨s, [], orc⟩ (handleTimer E (LoopKind.timer k tok) ⟨s, [], orc⟩) := by
    cases k with
    | probe => exact absurd rfl hk
    | pa => exact periodicAnnounce_round E tok _
    | pad => exact periodicAnnounceDown_round E tok _
    | pg => exact periodicGossip_round E tok _
  unfold step runOp
  simp only [bind_run]
  unfold PeriodicRound at hround
  have fin : ∀ (c' : Ctx),
      (if tok = s.token ∧ s.conn = .connected ∧ k.en s.cfg = true then Rearmed k ⟨s, [], orc⟩ c'.s c'.eff
        else QuietSince k ⟨s, [], orc⟩ c'.s c'.eff) →
      c'.s.token = c'.s.epoch % 256 ∧ LoopOk k c'.s (T ++ timersOf c'.eff) := by
    intro c' h
    by_cases hcase : tok = s.token ∧ s.conn = .connected ∧ k.en s.cfg = true
    · rw [if_pos hcase] at h
      obtain ⟨q1, q2, q3, q4, q5⟩ := h
      simp only at q1 q2 q3 q4 q5
      refine ⟨by rw [q2, q3]; exact htok, ?_⟩
      have he : effective k c'.s (T ++ timersOf c'.eff) = effective k s (LoopKind.timer k tok :: T) := by
        rw [hc]
        unfold effective
        rw [toksOf_append, List.count_append, toksOf_timersOf, q5, q2]
        simp [loopToks, hcase.1]
        omega
      have hcn : connNat c'.s = connNat s := by unfold connNat; rw [q1]
      unfold LoopOk at *
      rw [he, hcn, q4]
      exact hinv
    · rw [if_neg hcase] at h
      obtain ⟨q1, q2, q3, q4, q5⟩ := h
      simp only at q1 q2 q3 q4 q5
      refine ⟨by rw [q2, q3]; exact htok, ?_⟩
      have he : effective k c'.s (T ++ timersOf c'.eff) = effective k s T := by
        unfold effective
        rw [toksOf_append, List.count_append, toksOf_timersOf, q5, q2]
        simp [loopToks]
      have hcn : connNat c'.s = connNat s := by unfold connNat; rw [q1]
      unfold LoopOk at *
      rw [he, hcn, q4]
      rw [hc] at hinv
      by_cases ht : tok = s.token
      · simp only [ht, if_true] at hinv
        refine ⟨by omega, fun hen => ?_⟩
        -- effective and enabled but not connected is impossible: one effective timer needs `connected`
        have hnc : ¬ s.conn = .connected := fun hcn' => hcase ⟨ht, hcn', hen⟩
        have : connNat s = 0 := by unfold connNat; simp [hnc]
        omega
      · simp only [ht, if_false, Nat.zero_add] at hinv
        exact hinv
  cases hr : handleTimer E (LoopKind.timer k tok) ⟨s, [], orc⟩ with
  | stuck x => trivial
  | ok u c' => rw [hr] at hround; simp only [pure_run]; exact fin c' hround
  | err e c' => rw [hr] at hround; simp only; exact fin c' hround

theorem effective_middle (k : LoopKind) (s : State) (T1 T2 : List Timer) (t : Timer) :
    effective k s (T1 ++ t :: T2) = effective k s (t :: (T1 ++ T2)) := by
  unfold effective toksOf
  have : (T1 ++ t :: T2).Perm (t :: (T1 ++ T2)) := List.perm_middle
  exact (this.filterMap _).count_eq _

/-- a history of an instance together with its outstanding timers, from the point of view of loop `k`: every
    timer the instance scheduled is in the list until the runtime delivers it, exactly once, at any later point
    and in any order -/
inductive LoopHistory (E : Env) (k : LoopKind) : State → List Timer → Prop
  | init (id : Id) (pol : Policy) (cfg : Config) : LoopHistory E k (State.init id pol cfg) []
  /-- any call that is not the delivery of a timer of loop `k` (API calls, datagrams, timers of other kinds) -/
  | call {s s' : State} {T : List Timer} (op : Op) (orc : Oracle) (eff : List Effect) (r : Res) (left : Oracle) :
      LoopHistory E k s T → (∀ t, op = .timer t → t.loopNo ≠ some k.no) →
      Foca.step E s op orc = .done s' eff r left →
      s'.epoch < s.epoch + 256 → FreshFor k T s s' → LoopHistory E k s' (T ++ timersOf eff)
  /-- the runtime delivers an outstanding timer of loop `k` (for the probe loop: the round does not fail on a send) -/
  | fire {s s' : State} {T1 T2 : List Timer} (tok : Nat) (orc : Oracle) (eff : List Effect) (r : Res) (left : Oracle) :
      LoopHistory E k s (T1 ++ LoopKind.timer k tok :: T2) →
      Foca.step E s (.timer (LoopKind.timer k tok)) orc = .done s' eff r left →
      (k = .probe → r = .ok ∨ r = .err .incompleteProbe) →
      LoopHistory E k s' (T1 ++ T2 ++ timersOf eff)
  /-- a delivered timer of another kind leaves the list -/
  | delivered {s : State} {T1 T2 : List Timer} (t : Timer) :
      LoopHistory E k s (T1 ++ t :: T2) → k.sel t = none → LoopHistory E k s (T1 ++ T2)

/-- **Exactly one timer per loop.** At every point of any history — timers delivered exactly once, in any order
    and however late, interleaved with datagrams and API calls that change connection state, identity or
    configuration — the accounting of every loop holds: a connected instance has exactly one outstanding
    effective timer of the probe loop and of every enabled periodic task, an instance that is not connected has
    none; the loop is never lost, never duplicated, and a timer of an earlier epoch is never effective again
    (as long as the `u8` token does not wrap onto an outstanding timer, and no send of a probe round fails with
    `Encode`). -/
theorem exactly_one_timer_per_loop (E : Env) (k : LoopKind) {s : State} {T : List Timer} (h : LoopHistory E k s T) :
    s.token = s.epoch % 256 ∧ LoopOk k s T := by
  induction h with
  | init id pol cfg =>
    refine ⟨rfl, ?_⟩
    unfold LoopOk effective connNat toksOf
    simp [State.init]
  | call op orc eff r left _ hop hstep hb hf ih =>
    have := loop_step_other E k _ op orc _ hop ih.1 ih.2
    rw [hstep] at this
    exact this hb hf
  | @fire s0 s1 T1 T2 tok orc eff r left _ hstep hres ih =>
    have h2 : LoopOk k s0 (LoopKind.timer k tok :: (T1 ++ T2)) := by
      unfold LoopOk at *
      rw [← effective_middle]; exact ih.2
    by_cases hk : k = .probe
    · subst hk
      have := loop_step_probe E s0 tok orc (T1 ++ T2) ih.1 h2
      rw [show (Timer.probe tok) = LoopKind.timer .probe tok from rfl] at this
      rw [hstep] at this
      exact this (hres rfl)
    · have := loop_step_periodic E k hk s0 tok orc (T1 ++ T2) ih.1 h2
      rw [hstep] at this
      exact this
  | @delivered s0 T1 T2 t _ hne ih =>
    refine ⟨ih.1, ?_⟩
    have : effective k s0 (T1 ++ T2) = effective k s0 (T1 ++ t :: T2) := by
      rw [effective_middle]
      unfold effective toksOf
      simp [List.filterMap_cons, hne]
    unfold LoopOk at *
    rw [this]
    exact ih.2

/-- … in particular: exactly one effective probe timer while connected, none otherwise -/
theorem exactly_one_probe_timer (E : Env) {s : State} {T : List Timer} (h : LoopHistory E .probe s T) :
    effective .probe s T = connNat s := (exactly_one_timer_per_loop E .probe h).2.2 rfl

/-- … and exactly one effective timer of every enabled periodic task while connected -/
theorem exactly_one_timer_per_enabled_task (E : Env) (k : LoopKind) {s : State} {T : List Timer}
    (h : LoopHistory E k s T) (hen : k.en s.cfg = true) (hc : s.conn = .connected) : effective k s T = 1 := by
  have := (exactly_one_timer_per_loop E k h).2.2 hen
  rw [this]; unfold connNat; simp [hc]

/-- non-vacuity: a member joins — the instance becomes active with one effective probe timer outstanding -/
example : ∃ s T, LoopHistory C08H.exEnv .probe s T ∧ s.conn = .connected ∧ effective .probe s T = 1 := by
  refine ⟨_, _, LoopHistory.call (.applyMany [⟨⟨2, 0⟩, 0, .alive⟩] false) ⟨[.idx 0], []⟩ _ _ _
    (LoopHistory.init ⟨1, 0⟩ .none C08H.exCfg) (by intro t h; cases h) rfl (by decide)
    (by intro t ht; simp [toksOf] at ht), ?_, ?_⟩
  · decide
  · decide

/-! ### deadline order -/

/-- outstanding timers, each with the time it is due -/
abbrev Sched := List (Nat × Timer)

/-- what a call made at time `now` schedules -/
def schedOf (now : Nat) (eff : List Effect) : Sched :=
  eff.filterMap (fun e => match e with | .timer after t => some (now + after, t) | _ => none)

theorem schedOf_timers (now : Nat) (eff : List Effect) : (schedOf now eff).map (·.2) = timersOf eff := by
  induction eff with
  | nil => rfl
  | cons e rest ih =>
    cases e with
    | send d b => simpa [schedOf, timersOf] using ih
    | notify n => simpa [schedOf, timersOf] using ih
    | timer a t => simp only [schedOf, timersOf, List.filterMap_cons, List.map_cons] at ih ⊢; rw [ih]

theorem mem_schedOf {now : Nat} {eff : List Effect} {d : Nat} {t : Timer} (h : (d, t) ∈ schedOf now eff) :
    ∃ after, Effect.timer after t ∈ eff ∧ d = now + after := by
  unfold schedOf at h
  rw [List.mem_filterMap] at h
  obtain ⟨e, he, hq⟩ := h
  cases e with
  | send d b => simp at hq
  | notify n => simp at hq
  | timer a t' =>
    simp only [Option.some.injEq, Prod.mk.injEq] at hq
    exact ⟨a, by rw [← hq.2]; exact he, hq.1.symm⟩

theorem schedOf_mem {now : Nat} {eff : List Effect} {after : Nat} {t : Timer} (h : Effect.timer after t ∈ eff) :
    (now + after, t) ∈ schedOf now eff := by
  unfold schedOf
  rw [List.mem_filterMap]
  exact ⟨_, h, rfl⟩

theorem probe_mem_effective {s : State} {T : Sched} {d : Nat} (h : (d, Timer.probe s.token) ∈ T) :
    0 < effective .probe s (T.map (·.2)) := by
  unfold effective toksOf
  rw [List.count_pos_iff]
  rw [List.mem_filterMap]
  exact ⟨.probe s.token, List.mem_map.2 ⟨_, h, rfl⟩, rfl⟩

/-- a probe with a target is only ever held by a connected instance -/
def TargetOk (s : State) : Prop := s.probe.direct ≠ none → s.conn = .connected

/-- while the probe cycle is incomplete, the indirect-probe timer of the round is outstanding and due strictly
    before every effective probe timer -/
def StageB (s : State) (T : Sched) : Prop :=
  s.probe.validate = false →
    ∃ d' m', (d', Timer.indirect m' s.token) ∈ T ∧ ∀ d, (d, Timer.probe s.token) ∈ T → d' < d

/-- what holds of an instance and its schedule at every point of a history -/
def TInv (s : State) (T : Sched) : Prop :=
  s.token = s.epoch % 256 ∧ LoopOk .probe s (T.map (·.2)) ∧ TargetOk s ∧ StageB s T

theorem validate_false {p : Probe} (h : p.validate = false) : p.direct ≠ none ∧ p.reached = false := by
  have := (C13.validate_only_needs_indirect_stage p)
  constructor
  · intro hd
    have := this.2 (Or.inl hd)
    rw [h] at this; cases this
  · cases hr : p.reached with
    | false => rfl
    | true =>
      have := this.2 (Or.inr hr)
      rw [h] at this; cases this

/-- **One call that is not the delivery of a probe timer** keeps the invariant (`hB`: the witness of `StageB`, unless
    the call itself completes the stage). -/
theorem tinv_step_other (E : Env) (s : State) (op : Op) (orc : Oracle) (T : Sched)
    (hop : ∀ tok, op ≠ .timer (.probe tok))
    (htok : s.token = s.epoch % 256) (hloop : LoopOk .probe s (T.map (·.2))) (hK : TargetOk s) :
    match step E s op orc with
    | .done s' eff _ _ => ∀ now', s'.epoch < s.epoch + 256 → FreshFor .probe (T.map (·.2)) s s' →
        (s'.probe.validate = false → StageB s T) → TInv s' (T ++ schedOf now' eff)
    | .stuck _ => True := by
  have hop' : ∀ t, op = .timer t → t.loopNo ≠ some LoopKind.probe.no := by
    intro t ht hl
    cases t with
    | probe tok => exact hop tok ht
    | _ => simp [Timer.loopNo, LoopKind.no] at hl
  have h1 := loop_step_other E .probe s op orc (T.map (·.2)) hop' htok hloop
  have h2 := stage_step_other E s op orc hop
  cases hstep : step E s op orc with
  | stuck x => trivial
  | done s' eff r left =>
    rw [hstep] at h1 h2
    simp only at h1 h2 ⊢
    intro now' hb hf hB
    obtain ⟨htok', hloop'⟩ := h1 hb hf
    obtain ⟨g1, g2, g3⟩ := h2
    have hmap : (T ++ schedOf now' eff).map (·.2) = T.map (·.2) ++ timersOf eff := by
      rw [List.map_append, schedOf_timers]
    refine ⟨htok', by rw [hmap]; exact hloop', ?_, ?_⟩
    · intro hd
      rcases g3 with hn | ⟨he, hdir, _⟩
      · exact absurd hn hd
      · exact (g2 he).2 (hK (by rw [← hdir]; exact hd))
    · intro hval
      obtain ⟨hd', hr'⟩ := validate_false hval
      rcases g3 with hn | ⟨he, hdir, hreach⟩
      · exact absurd hn hd'
      · have htk : s'.token = s.token := (g2 he).1
        have hconn : s.conn = .connected := hK (by rw [← hdir]; exact hd')
        have hconn' : s'.conn = .connected := (g2 he).2 hconn
        have hvs : s.probe.validate = false := by
          cases hv : s.probe.validate with
          | false => rfl
          | true =>
            rcases (C13.validate_only_needs_indirect_stage s.probe).1 hv with h | h
            · rw [hdir] at hd'; exact absurd h hd'
            · rw [hreach h] at hr'; cases hr'
        obtain ⟨d', m', hw, hlt⟩ := hB hval hvs
        refine ⟨d', m', by rw [htk]; exact List.mem_append.2 (Or.inl hw), ?_⟩
        intro d hd
        rw [htk] at hd
        rcases List.mem_append.1 hd with hd | hd
        · exact hlt d hd
        · exfalso
          have e1 : effective .probe s (T.map (·.2)) = 1 := by
            have := hloop.2 rfl
            rw [this]; unfold connNat; simp [hconn]
          have e2 : effective .probe s' (T.map (·.2) ++ timersOf eff) = 1 := by
            have := hloop'.2 rfl
            rw [this]; unfold connNat; simp [hconn']
          have e3 : 0 < effective .probe s (timersOf eff) := by
            rw [← schedOf_timers now' eff]
            exact probe_mem_effective hd
          unfold effective at e1 e2 e3
          rw [toksOf_append, List.count_append, htk] at e2
          omega

/-- **The delivery of an outstanding probe timer that is due first.** It never returns `NotConnected` nor
    `IncompleteProbeCycle` — only `Ok`, or the `Encode` error of a send — and, unless a send failed, the invariant
    holds again, the indirect-probe timer of the new round being due `probe_period − probe_rtt` earlier than the
    next probe timer. -/
theorem tinv_fire_probe (E : Env) (s : State) (tok : Nat) (orc : Oracle) (T1 T2 : Sched) (d : Nat)
    (hinv : TInv s (T1 ++ (d, .probe tok) :: T2)) (hmin : ∀ x ∈ T1 ++ T2, d ≤ x.1)
    (hcfg : s.cfg.probeRtt < s.cfg.probePeriod) :
    match step E s (.timer (.probe tok)) orc with
    | .done s' eff r _ => (r = .ok ∨ r = .err .encode) ∧ (r = .ok → ∀ now', TInv s' (T1 ++ T2 ++ schedOf now' eff))
    | .stuck _ => True := by
  obtain ⟨htok, hloop, hK, hB⟩ := hinv
  have hloop2 : LoopOk .probe s (.probe tok :: (T1 ++ T2).map (·.2)) := by
    have : (T1 ++ (d, Timer.probe tok) :: T2).map (·.2) = T1.map (·.2) ++ Timer.probe tok :: T2.map (·.2) := by simp
    rw [this] at hloop
    unfold LoopOk at *
    rw [List.map_append, ← effective_middle]
    exact hloop
  have herr := outstanding_probe_timer_errors E s tok orc _ hloop2
  have hstp := loop_step_probe E s tok orc _ htok hloop2
  by_cases hst : tok = s.token
  · subst hst
    -- the cycle is complete: otherwise the indirect timer of the round would be due earlier and still outstanding
    have hv : s.probe.validate = true := by
      cases hv : s.probe.validate with
      | true => rfl
      | false =>
        obtain ⟨d', m', hw, hlt⟩ := hB hv
        have hlt' := hlt d (List.mem_append.2 (Or.inr (List.mem_cons_self ..)))
        have hw' : (d', Timer.indirect m' s.token) ∈ T1 ++ T2 := by
          rcases List.mem_append.1 hw with h | h
          · exact List.mem_append.2 (Or.inl h)
          · rcases List.mem_cons.1 h with h | h
            · cases h
            · exact List.mem_append.2 (Or.inr h)
        have := hmin _ hw'
        simp only at this
        omega
    have hc : effective .probe s (LoopKind.timer .probe s.token :: (T1 ++ T2).map (·.2)) =
        1 + effective .probe s ((T1 ++ T2).map (·.2)) := by
      rw [effective_cons]; simp
    have hinv2 : effective .probe s (LoopKind.timer .probe s.token :: (T1 ++ T2).map (·.2)) = connNat s := hloop2.2 rfl
    have hconn : s.conn = .connected := by
      rw [hc] at hinv2
      unfold connNat at hinv2
      by_cases hcn : s.conn = .connected
      · exact hcn
      · simp [hcn] at hinv2
    have hT0 : effective .probe s ((T1 ++ T2).map (·.2)) = 0 := by
      rw [hc] at hinv2
      unfold connNat at hinv2
      rw [if_pos hconn] at hinv2
      omega
    have hshape := probeRandomMember_shape E ⟨s, [], orc⟩ hv
    have hre := probeRandomMember_rearms E ⟨s, [], orc⟩
    have hht : handleTimer E (.probe s.token) ⟨s, [], orc⟩ = probeRandomMember E ⟨s, [], orc⟩ := by
      unfold handleTimer
      simp [hconn]
    unfold step runOp at herr hstp ⊢
    simp only [bind_run] at herr hstp ⊢
    rw [hht] at herr hstp ⊢
    cases hr : probeRandomMember E ⟨s, [], orc⟩ with
    | stuck x => trivial
    | err e c' =>
      rw [hr] at herr
      simp only at herr ⊢
      refine ⟨?_, fun h => by cases h⟩
      rcases herr with h | h | ⟨_, h⟩
      · exact Or.inl h
      · exact Or.inr h
      · rw [hv] at h; cases h
    | ok u c' =>
      rw [hr] at hstp hshape hre
      simp only [pure_run] at hstp ⊢
      refine ⟨by simp, fun _ now' => ?_⟩
      obtain ⟨htok', hloop'⟩ := hstp (by simp)
      simp only [RoundShape] at hshape
      obtain ⟨mid, heff, hmid, hind⟩ := hshape
      simp only [List.nil_append] at heff
      simp only [ProbeRound] at hre
      obtain ⟨q1, q2, q3, q4, _⟩ := hre
      simp only at q1 q2 q3 q4
      have hmap : (T1 ++ T2 ++ schedOf now' c'.eff).map (·.2) = (T1 ++ T2).map (·.2) ++ timersOf c'.eff := by
        rw [List.map_append, schedOf_timers]
      refine ⟨htok', by rw [hmap]; exact hloop', fun _ => by rw [q1]; exact hconn, ?_⟩
      intro hval
      obtain ⟨m, hm⟩ := hind hval
      refine ⟨now' + s.cfg.probeRtt, m, ?_, ?_⟩
      · rw [q2]
        refine List.mem_append.2 (Or.inr (schedOf_mem ?_))
        rw [heff]
        exact List.mem_append.2 (Or.inl hm)
      · intro dP hdP
        rw [q2] at hdP
        rcases List.mem_append.1 hdP with h | h
        · exfalso
          have := probe_mem_effective h
          omega
        · obtain ⟨after, hmem, hdq⟩ := mem_schedOf h
          rw [heff] at hmem
          rcases List.mem_append.1 hmem with h' | h'
          · have := hmid _ h'
            simp [probeTimer] at this
          · simp only [List.mem_singleton, Effect.timer.injEq] at h'
            rw [hdq, h'.1]
            omega
  · have := C13.stale_timer_is_noop E (.probe tok) tok ⟨s, [], orc⟩ rfl hst
    unfold step runOp at hstp ⊢
    simp only [bind_run] at hstp ⊢
    rw [this] at hstp ⊢
    simp only [pure_run] at hstp ⊢
    refine ⟨by simp, fun _ now' => ?_⟩
    obtain ⟨htok', hloop'⟩ := hstp (by simp)
    refine ⟨htok', ?_, hK, ?_⟩
    · simpa [schedOf, timersOf] using hloop'
    · intro hval
      obtain ⟨d', m', hw, hlt⟩ := hB hval
      refine ⟨d', m', ?_, ?_⟩
      · simp only [schedOf, List.filterMap_nil, List.append_nil]
        rcases List.mem_append.1 hw with h | h
        · exact List.mem_append.2 (Or.inl h)
        · rcases List.mem_cons.1 h with h | h
          · cases h
          · exact List.mem_append.2 (Or.inr h)
      · intro dP hdP
        simp only [schedOf, List.filterMap_nil, List.append_nil] at hdP
        apply hlt dP
        rcases List.mem_append.1 hdP with h | h
        · exact List.mem_append.2 (Or.inl h)
        · exact List.mem_append.2 (Or.inr (List.mem_cons_of_mem _ h))

/-- A history of one instance together with the timers it has scheduled and the time each is due. API calls and
    datagrams happen at any time; the runtime delivers timers **in deadline order, however late**: the timer
    delivered is due no later than any other outstanding one (ties in any order), each exactly once. Assumed, as
    in the property: `probe_rtt < probe_period` whenever a probe round starts, fewer than 256 epoch changes per
    call, the token does not wrap onto an outstanding probe timer, and no send of a delivered timer fails with
    `Encode` (after such a failure in a probe round the loop is not re-armed). -/
inductive TimedHistory (E : Env) : State → Sched → Prop
  | init (id : Id) (pol : Policy) (cfg : Config) : TimedHistory E (State.init id pol cfg) []
  /-- an API call or a datagram, at time `now` -/
  | call {s s' : State} {T : Sched} (now : Nat) (op : Op) (orc : Oracle) (eff : List Effect) (r : Res) (left : Oracle) :
      TimedHistory E s T → (∀ t, op ≠ .timer t) →
      Foca.step E s op orc = .done s' eff r left →
      s'.epoch < s.epoch + 256 → FreshFor .probe (T.map (·.2)) s s' →
      TimedHistory E s' (T ++ schedOf now eff)
  /-- the timer due first is delivered, at time `now` -/
  | fire {s s' : State} {T1 T2 : Sched} (now d : Nat) (t : Timer) (orc : Oracle) (eff : List Effect) (r : Res)
      (left : Oracle) :
      TimedHistory E s (T1 ++ (d, t) :: T2) → (∀ x ∈ T1 ++ T2, d ≤ x.1) →
      s.cfg.probeRtt < s.cfg.probePeriod →
      Foca.step E s (.timer t) orc = .done s' eff r left →
      s'.epoch < s.epoch + 256 → FreshFor .probe ((T1 ++ T2).map (·.2)) s s' → r ≠ .err .encode →
      TimedHistory E s' (T1 ++ T2 ++ schedOf now eff)

theorem stageB_remove {s : State} {T1 T2 : Sched} {d : Nat} {t : Timer}
    (h : StageB s (T1 ++ (d, t) :: T2)) (hne : ∀ m, t ≠ .indirect m s.token) : StageB s (T1 ++ T2) := by
  intro hval
  obtain ⟨d', m', hw, hlt⟩ := h hval
  refine ⟨d', m', ?_, ?_⟩
  · rcases List.mem_append.1 hw with h1 | h1
    · exact List.mem_append.2 (Or.inl h1)
    · rcases List.mem_cons.1 h1 with h1 | h1
      · exact absurd (Prod.mk.inj h1).2.symm (hne m')
      · exact List.mem_append.2 (Or.inr h1)
  · intro dP hdP
    apply hlt dP
    rcases List.mem_append.1 hdP with h1 | h1
    · exact List.mem_append.2 (Or.inl h1)
    · exact List.mem_append.2 (Or.inr (List.mem_cons_of_mem _ h1))

theorem loopOk_remove_other {s : State} {T1 T2 : Sched} {d : Nat} {t : Timer}
    (h : LoopOk .probe s ((T1 ++ (d, t) :: T2).map (·.2))) (hne : ∀ tok, t ≠ .probe tok) :
    LoopOk .probe s ((T1 ++ T2).map (·.2)) := by
  have hsel : LoopKind.sel .probe t = none := by
    cases t with
    | probe tok => exact absurd rfl (hne tok)
    | _ => rfl
  have : effective .probe s ((T1 ++ T2).map (·.2)) = effective .probe s ((T1 ++ (d, t) :: T2).map (·.2)) := by
    simp only [List.map_append, List.map_cons]
    rw [effective_middle]
    unfold effective toksOf
    simp [List.filterMap_cons, hsel]
  unfold LoopOk at *
  rw [this]
  exact h

/-- the invariant holds at every point of a timed history -/
theorem TimedHistory.inv (E : Env) {s : State} {T : Sched} (h : TimedHistory E s T) : TInv s T := by
  induction h with
  | init id pol cfg =>
    refine ⟨rfl, ?_, ?_, ?_⟩
    · unfold LoopOk effective connNat toksOf
      simp [State.init]
    · intro hd; simp [State.init] at hd
    · intro hv; simp [State.init, Probe.validate, Gen.probeValidate] at hv
  | @call s0 s1 T0 now op orc eff r left _ hop hstep hb hf ih =>
    obtain ⟨htok, hloop, hK, hB⟩ := ih
    have := tinv_step_other E s0 op orc T0 (fun tok => hop _) htok hloop hK
    rw [hstep] at this
    exact this now hb hf (fun _ => hB)
  | @fire s0 s1 T1 T2 now d t orc eff r left _ hmin hcfg hstep hb hf hne ih =>
    by_cases hp : ∃ tok, t = .probe tok
    · obtain ⟨tok, rfl⟩ := hp
      have := tinv_fire_probe E s0 tok orc T1 T2 d ih hmin hcfg
      rw [hstep] at this
      rcases this.1 with hr | hr
      · exact this.2 hr now
      · exact absurd hr hne
    · have hnp : ∀ tok, t ≠ .probe tok := fun tok h => hp ⟨tok, h⟩
      obtain ⟨htok, hloop, hK, hB⟩ := ih
      have hloop2 := loopOk_remove_other hloop hnp
      have := tinv_step_other E s0 (.timer t) orc (T1 ++ T2) (fun tok h => hnp tok (by cases h; rfl)) htok hloop2 hK
      rw [hstep] at this
      refine this now hb hf (fun hval => ?_)
      by_cases hi : ∃ m, t = .indirect m s0.token
      · obtain ⟨m, rfl⟩ := hi
        have hdone := indirect_timer_completes_stage E s0 m orc
        rw [hstep] at hdone
        have := (C13.validate_only_needs_indirect_stage s1.probe).2 hdone
        rw [hval] at this
        cases this
      · exact stageB_remove hB (fun m h => hi ⟨m, h⟩)

/-- **Deadline order: `handle_timer` never returns `NotConnected` or `IncompleteProbeCycle`.** At any point of any
    history in which timers are delivered in deadline order — however late, interleaved with any datagrams and API
    calls — delivering the outstanding timer that is due first returns `Ok`, or the `Encode` error of a send whose
    header does not fit the packet. (Out of order, `outstanding_probe_timer_errors` bounds the damage:
    `IncompleteProbeCycle` at most, and the loop is re-armed all the same.) -/
theorem deadline_order_never_errs (E : Env) {s s' : State} {T1 T2 : Sched} (d : Nat) (t : Timer) (orc : Oracle)
    (eff : List Effect) (r : Res) (left : Oracle)
    (h : TimedHistory E s (T1 ++ (d, t) :: T2)) (hmin : ∀ x ∈ T1 ++ T2, d ≤ x.1)
    (hcfg : s.cfg.probeRtt < s.cfg.probePeriod)
    (hstep : Foca.step E s (.timer t) orc = .done s' eff r left) : r = .ok ∨ r = .err .encode := by
  by_cases hp : ∃ tok, t = .probe tok
  · obtain ⟨tok, rfl⟩ := hp
    have := tinv_fire_probe E s tok orc T1 T2 d (TimedHistory.inv E h) hmin hcfg
    rw [hstep] at this
    exact this.1
  · have hnp : ∀ tok, t ≠ .probe tok := fun tok h => hp ⟨tok, h⟩
    have hE := ErrOnly.handleTimer_other E (K := fun e => e = .encode) rfl t hnp
    unfold Foca.step Foca.runOp at hstep
    simp only [bind_run] at hstep
    cases hr : handleTimer E t ⟨s, [], orc⟩ with
    | stuck x => rw [hr] at hstep; simp at hstep
    | ok u c' =>
      rw [hr] at hstep
      simp only [pure_run, StepOut.done.injEq] at hstep
      exact Or.inl hstep.2.2.1.symm
    | err e c' =>
      rw [hr] at hstep
      simp only [StepOut.done.injEq] at hstep
      have := hE.run _ _ _ hr
      right
      rw [← hstep.2.2.1, this]

/-- non-vacuity: a member joins at time 5; the probe timer and nothing else is outstanding, due at 5 + probe_period -/
example : ∃ s T, TimedHistory C08H.exEnv s T ∧ s.conn = .connected ∧ T.length = 1 := by
  refine ⟨_, _, TimedHistory.call 5 (.applyMany [⟨⟨2, 0⟩, 0, .alive⟩] false) ⟨[.idx 0], []⟩ _ _ _
    (TimedHistory.init ⟨1, 0⟩ .none C08H.exCfg) (by intro t h; cases h) rfl (by decide)
    (by intro t ht; simp [toksOf] at ht), ?_, ?_⟩
  · decide
  · decide

end Foca.C13H
