/-
  C08 — notifications faithfully mirror membership and connection state.
-/
import FocaModel.Proofs.SendAll
import FocaModel.Props.C13
namespace Foca.C08
open Foca

/-- The summary of an update tells the truth about the record's transition:
    `is_active_now` is the new activity, `changed_active_set` is "old activity ≠ new activity". -/
theorem summary_matches_transition (k u : Member) (cond : Member → Bool) :
    (updateKnown k u cond).2.activeNow = (updateKnown k u cond).1.active ∧
    (updateKnown k u cond).2.changedActive = ((updateKnown k u cond).1.active != k.active) := by
  unfold updateKnown
  by_cases h1 : (k.id != u.id && k.id.wins u.id) = true
  · simp [h1]
  · by_cases h2 : cond k = true
    · simp [h1, h2]
    · simp [h1, h2]

/-- `num_members()` is exact bookkeeping: the number of active records moves exactly as the
    summary says (no truncation ever happens in the saturating arithmetic). -/
theorem active_records_move_with_summary {ms ms' : List Member} {u : Member} {cond : Member → Bool} {s : Summary}
    (h : applyExisting ms u cond = some (ms', s)) :
    countActive ms' + (if s.changedActive && !s.activeNow then 1 else 0) =
      countActive ms + (if s.changedActive && s.activeNow then 1 else 0) := by
  induction ms generalizing ms' s with
  | nil => simp [applyExisting] at h
  | cons k rest ih =>
    unfold applyExisting at h
    by_cases hk : (k.id.addr == u.id.addr) = true
    · simp only [hk, if_true] at h
      simp at h
      obtain ⟨h1, h2⟩ := h
      subst h1; subst h2
      obtain ⟨ha, hc⟩ := summary_matches_transition k u cond
      unfold countActive
      rw [hc, ha]
      simp only [List.filter_cons]
      cases hka : k.active <;> cases hna : (updateKnown k u cond).1.active <;> simp [hka, hna] <;> omega
    · simp only [hk, Bool.false_eq_true, if_false] at h
      cases hr : applyExisting rest u cond with
      | none => rw [hr] at h; simp at h
      | some r =>
        obtain ⟨rest', s'⟩ := r
        rw [hr] at h
        simp at h
        obtain ⟨h1, h2⟩ := h
        subst h1; subst h2
        have := ih hr
        unfold countActive at this ⊢
        simp only [List.filter_cons]
        cases hka : k.active <;> cases hc : s'.changedActive <;> cases ha : s'.activeNow <;>
          simp [hka, hc, ha] at this ⊢ <;> omega

theorem counter_tracks_active_records {ms ms' : List Member} {u : Member} {cond : Member → Bool} {s : Summary}
    (h : applyExisting ms u cond = some (ms', s)) :
    countActive ms' = adjustActive (countActive ms) s := by
  have := active_records_move_with_summary h
  unfold adjustActive
  cases hc : s.changedActive <;> cases ha : s.activeNow <;> simp [hc, ha] at this ⊢ <;> omega

/-- MemberUp / MemberDown are emitted exactly when the active set changed, in the direction it
    changed; Rename exactly when an identity was replaced (no backlog involved: `do_broadcast = false`). -/
theorem notifications_follow_summary (E : Env) (sm : Summary) (u : Member) (c : Ctx) :
    ∃ c', handleApplySummary E sm u false c = .ok () c' ∧ c'.s = c.s ∧
      c'.eff = c.eff
        ++ (if sm.applied && !sm.activeNow then [.timer c.s.cfg.rda (.rm u.id)] else [])
        ++ (match sm.conflict with | .replaced old => [.notify (.rename old u.id)] | _ => [])
        ++ (if sm.changedActive then (if sm.activeNow then [.notify (.up u.id)] else [.notify (.down u.id)]) else []) := by
  unfold handleApplySummary
  cases hc : sm.conflict <;> cases h1 : sm.applied <;> cases h2 : sm.activeNow <;> cases h3 : sm.changedActive <;>
    simp

/-- Active is only notified from the disconnected (idle) state and only with an active member;
    Idle only from the connected state with none left; nothing happens otherwise. -/
theorem connection_transitions (E : Env) (c : Ctx) :
    match adjustConnectionState E c with
    | .ok _ c' =>
        (c'.eff = c.eff ∧ c'.s = c.s) ∨
        (c.s.conn = .disconnected ∧ c.s.numActive > 0 ∧ c'.s.conn = .connected ∧ Effect.notify .active ∈ c'.eff) ∨
        (c.s.conn = .connected ∧ c.s.numActive = 0 ∧ c'.s.conn = .disconnected ∧ c'.eff = c.eff ++ [.notify .idle])
    | .err _ _ => False
    | .stuck x => ∃ p, x = .panic p := by
  unfold adjustConnectionState
  simp only [bind_run, getS_run]
  cases hcn : c.s.conn with
  | undead => simp
  | disconnected =>
    by_cases hn : c.s.numActive > 0
    · simp only [hn, if_true]
      unfold becomeConnected
      have : ¬ c.s.numActive = 0 := by omega
      cases h1 : c.s.cfg.pa <;> cases h2 : c.s.cfg.pad <;> cases h3 : c.s.cfg.pg <;> simp [this, hn, hcn, h1, h2, h3]
    · simp [hn]
  | connected =>
    by_cases hn : c.s.numActive = 0
    · simp [hn, becomeDisconnected, hcn]
    · simp [hn]

/-! ### `AccumulatingRuntime`: three FIFO queues -/

structure Acc where
  sends : List Effect := []
  timers : List Effect := []
  notes : List Effect := []

def Acc.push (a : Acc) : Effect → Acc
  | e@(.send _ _) => { a with sends := a.sends ++ [e] }
  | e@(.timer _ _) => { a with timers := a.timers ++ [e] }
  | e@(.notify _) => { a with notes := a.notes ++ [e] }

def isSend : Effect → Bool | .send _ _ => true | _ => false
def isTimer : Effect → Bool | .timer _ _ => true | _ => false
def isNote : Effect → Bool | .notify _ => true | _ => false

/-- Draining an `AccumulatingRuntime` after a call yields, per kind, exactly the calls a directly
    implemented runtime saw, in the same order. -/
theorem accumulating_runtime_is_fifo (effs : List Effect) (a : Acc) :
    (effs.foldl Acc.push a).sends = a.sends ++ effs.filter isSend ∧
    (effs.foldl Acc.push a).timers = a.timers ++ effs.filter isTimer ∧
    (effs.foldl Acc.push a).notes = a.notes ++ effs.filter isNote := by
  induction effs generalizing a with
  | nil => simp
  | cons e rest ih =>
    simp only [List.foldl_cons]
    obtain ⟨h1, h2, h3⟩ := ih (a.push e)
    rw [h1, h2, h3]
    cases e <;> simp [Acc.push, isSend, isTimer, isNote, List.filter_cons]

/-- what this property means by "active": Alive or Suspect, never Down — over the `is_active` the translator
    reads from `member.rs` (an obligation of this property since the model follows the source) -/
theorem active_is_alive_or_suspect (st : St) : Gen.isActive st = (st != .down) := by
  cases st <;> rfl

end Foca.C08
