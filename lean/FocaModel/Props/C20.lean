/-
  C20 — bundled codecs round-trip exactly and fail cleanly.
  Byte-level models of the three codecs the harness runs (fixed-width hand codec, postcard, bincode
  standard) are in Codec.lean; they are tied to the real crates byte for byte by the correspondence run.
-/
import FocaModel.Codec
namespace Foca.C20
open Foca

/-- what the integer primitives of a codec must satisfy -/
structure IntLaws (I : IntCodec) : Prop where
  u16 : ∀ n rest, n < 65536 → I.decU16 (I.encU16 n ++ rest) = some (n, rest)
  u8 : ∀ n rest, n < 256 → I.decU8 (I.encU8 n ++ rest) = some (n, rest)
  tag : ∀ n rest, n < 11 → I.decTag (I.encTag n ++ rest) = some (n, rest)

def Id.Wire (i : Id) : Prop := i.addr < 65536 ∧ i.gen < 65536
def Member.Wire (m : Member) : Prop := Id.Wire m.id ∧ m.inc < 65536
def Msg.Wire : Msg → Prop
  | .ping n | .ack n => n < 256
  | .pingReq t n | .indirectPing t n | .indirectAck t n | .forwardedAck t n => Id.Wire t ∧ n < 256
  | _ => True
def Header.Wire (h : Header) : Prop := Id.Wire h.src ∧ h.srcInc < 65536 ∧ Id.Wire h.dst ∧ Msg.Wire h.msg

theorem stTag_roundtrip (s : St) : stOfTag (stTag s) = some s ∧ stTag s < 11 := by
  cases s <;> simp [stTag, stOfTag]

section generic
variable {I : IntCodec} (L : IntLaws I)
include L

theorem id_roundtrip (i : Id) (rest : Bytes) (h : Id.Wire i) : decId I (encId I i ++ rest) = some (i, rest) := by
  unfold decId encId
  rw [List.append_assoc, L.u16 _ _ h.1]
  simp only []
  rw [L.u16 _ _ h.2]

theorem idnum_roundtrip (i : Id) (n : Nat) (rest : Bytes) (h : Id.Wire i) (hn : n < 256) :
    decIdNum I (encId I i ++ I.encU8 n ++ rest) = some (i, n, rest) := by
  unfold decIdNum
  rw [List.append_assoc, id_roundtrip L i _ h]
  simp only []
  rw [L.u8 _ _ hn]

theorem msg_roundtrip (m : Msg) (rest : Bytes) (h : Msg.Wire m) : decMsg I (encMsg I m ++ rest) = some (m, rest) := by
  unfold decMsg
  cases m with
  | ping n => simp only [encMsg, List.append_assoc]; rw [L.tag 0 _ (by omega)]; simp only []; rw [L.u8 _ _ h]; rfl
  | ack n => simp only [encMsg, List.append_assoc]; rw [L.tag 1 _ (by omega)]; simp only []; rw [L.u8 _ _ h]; rfl
  | pingReq t n =>
    simp only [encMsg, List.append_assoc]; rw [L.tag 2 _ (by omega)]; simp only []
    rw [← List.append_assoc, idnum_roundtrip L t n rest h.1 h.2]; rfl
  | indirectPing t n =>
    simp only [encMsg, List.append_assoc]; rw [L.tag 3 _ (by omega)]; simp only []
    rw [← List.append_assoc, idnum_roundtrip L t n rest h.1 h.2]; rfl
  | indirectAck t n =>
    simp only [encMsg, List.append_assoc]; rw [L.tag 4 _ (by omega)]; simp only []
    rw [← List.append_assoc, idnum_roundtrip L t n rest h.1 h.2]; rfl
  | forwardedAck t n =>
    simp only [encMsg, List.append_assoc]; rw [L.tag 5 _ (by omega)]; simp only []
    rw [← List.append_assoc, idnum_roundtrip L t n rest h.1 h.2]; rfl
  | announce => simp only [encMsg]; rw [L.tag 6 _ (by omega)]; rfl
  | feed => simp only [encMsg]; rw [L.tag 7 _ (by omega)]; rfl
  | gossip => simp only [encMsg]; rw [L.tag 8 _ (by omega)]; rfl
  | broadcast => simp only [encMsg]; rw [L.tag 9 _ (by omega)]; rfl
  | turnUndead => simp only [encMsg]; rw [L.tag 10 _ (by omega)]; rfl

/-- Every header (all eleven message variants, all incarnations and probe numbers) decodes back to an
    equal value, consuming exactly the bytes produced even when followed by further data. -/
theorem header_roundtrip (h : Header) (rest : Bytes) (hw : Header.Wire h) :
    decHeaderG I (encHeaderG I h ++ rest) = some (h, rest) := by
  unfold decHeaderG encHeaderG
  simp only [List.append_assoc]
  rw [id_roundtrip L h.src _ hw.1]; simp only []
  rw [L.u16 _ _ hw.2.1]; simp only []
  rw [id_roundtrip L h.dst _ hw.2.2.1]; simp only []
  rw [msg_roundtrip L h.msg rest hw.2.2.2]

/-- Every member decodes back to an equal value, consuming exactly the bytes produced. -/
theorem member_roundtrip (m : Member) (rest : Bytes) (hw : Member.Wire m) :
    decMemberG I (encMemberG I m ++ rest) = some (m, rest) := by
  unfold decMemberG encMemberG
  simp only [List.append_assoc]
  rw [id_roundtrip L m.id _ hw.1]; simp only []
  rw [L.u16 _ _ hw.2]; simp only []
  rw [L.tag _ _ (stTag_roundtrip m.st).2]; simp only []
  rw [(stTag_roundtrip m.st).1]

end generic

/-! ### the three codecs satisfy the laws -/

theorem fixed_laws : IntLaws fixedInt where
  u16 n rest h := by
    simp [fixedInt, u16be, decU16be]
    omega
  u8 n rest h := by simp [fixedInt, decRawU8]; omega
  tag n rest h := by simp [fixedInt, decRawU8]; omega

theorem postcard_laws : IntLaws postcardInt where
  u16 n rest h := by
    simp only [postcardInt]
    by_cases h1 : n < 128
    · simp [leb, unleb, h1]; omega
    · by_cases h2 : n / 128 < 128
      · have : ¬ n % 128 + 128 < 128 := by omega
        simp [leb, unleb, h1, h2, this]
        omega
      · have a : ¬ n % 128 + 128 < 128 := by omega
        have b : ¬ n / 128 % 128 + 128 < 128 := by omega
        have c : n / 128 / 128 % 128 < 128 := by omega
        have d : ¬ n / 128 / 128 % 128 > 3 := by omega
        simp [leb, unleb, h1, h2, a, b, c, d]
        omega
  u8 n rest h := by simp [postcardInt, decRawU8]; omega
  tag n rest h := by
    have h1 : n < 128 := by omega
    simp [postcardInt, leb, unleb, h1]

theorem bincode_laws : IntLaws bincodeInt where
  u16 n rest h := by
    simp only [bincodeInt]
    by_cases h1 : n < 251
    · simp [bincodeEnc, bincodeDecU16, h1]
    · simp [bincodeEnc, bincodeDecU16, h1, h]
      omega
  u8 n rest h := by simp [bincodeInt, decRawU8]; omega
  tag n rest h := by
    have h1 : n < 251 := by omega
    simp [bincodeInt, bincodeEnc, bincodeDecU32, h1]

/-- Round trip for the three concrete codecs, as used by the model (`Codec` records). -/
theorem codecs_roundtrip (m : Member) (hd : Header) (rest : Bytes) (hm : Member.Wire m) (hh : Header.Wire hd) :
    (fixedCodec.decMember (fixedCodec.encMember m ++ rest) = some (m, rest) ∧
     fixedCodec.decHeader (fixedCodec.encHeader hd ++ rest) = some (hd, rest)) ∧
    (postcardCodec.decMember (postcardCodec.encMember m ++ rest) = some (m, rest) ∧
     postcardCodec.decHeader (postcardCodec.encHeader hd ++ rest) = some (hd, rest)) ∧
    (bincodeCodec.decMember (bincodeCodec.encMember m ++ rest) = some (m, rest) ∧
     bincodeCodec.decHeader (bincodeCodec.encHeader hd ++ rest) = some (hd, rest)) :=
  ⟨⟨member_roundtrip fixed_laws m rest hm, header_roundtrip fixed_laws hd rest hh⟩,
   ⟨member_roundtrip postcard_laws m rest hm, header_roundtrip postcard_laws hd rest hh⟩,
   ⟨member_roundtrip bincode_laws m rest hm, header_roundtrip bincode_laws hd rest hh⟩⟩

/-! ### the harness's shortest-header codec (not a bundled codec; here so that the model the correspondence runs
    against is known to be a codec at all) -/

theorem packed_id_roundtrip (i : Id) (rest : Bytes) (h : Id.Wire i) : packedDecId (packedEncId i ++ rest) = some (i, rest) := by
  unfold packedEncId
  by_cases hs : (decide (i.addr < 15) && decide (i.gen < 16)) = true
  · simp only [hs, if_true, List.cons_append, List.nil_append, packedDecId]
    simp only [Bool.and_eq_true, decide_eq_true_eq] at hs
    have h1 : (i.addr * 16 + i.gen == 255) = false := by
      rw [beq_eq_false_iff_ne]; omega
    simp only [h1, Bool.false_eq_true, if_false]
    have : (⟨(i.addr * 16 + i.gen) / 16, (i.addr * 16 + i.gen) % 16⟩ : Id) = i := by
      cases i with
      | mk a g => simp only [Id.mk.injEq]; simp only at hs; omega
    rw [this]
  · simp only [hs, Bool.false_eq_true, if_false, u16be, List.cons_append, List.nil_append, packedDecId,
      beq_self_eq_true, if_true]
    have : (⟨i.addr / 256 % 256 * 256 + i.addr % 256, i.gen / 256 % 256 * 256 + i.gen % 256⟩ : Id) = i := by
      cases i with
      | mk a g => simp only [Id.mk.injEq]; have := h.1; have := h.2; simp only at *; omega
    rw [this]

theorem packed_inc_roundtrip (n : Nat) (rest : Bytes) (h : n < 65536) : packedDecInc (packedEncInc n ++ rest) = some (n, rest) := by
  unfold packedEncInc
  by_cases hs : n < 255
  · have h1 : (n == 255) = false := by rw [beq_eq_false_iff_ne]; omega
    simp [hs, packedDecInc, h1]
  · simp only [hs, if_false, u16be, List.cons_append, List.nil_append, packedDecInc, beq_self_eq_true, if_true]
    have : n / 256 % 256 * 256 + n % 256 = n := by omega
    rw [this]

theorem packed_member_roundtrip (m : Member) (rest : Bytes) (hm : Member.Wire m) :
    packedCodec.decMember (packedCodec.encMember m ++ rest) = some (m, rest) := by
  simp only [packedCodec, packedEncMember, packedDecMember, List.append_assoc]
  rw [packed_id_roundtrip _ _ hm.1]
  simp only []
  rw [packed_inc_roundtrip _ _ hm.2]
  simp only [List.cons_append, List.nil_append, (stTag_roundtrip m.st).1]

theorem packed_idnum_roundtrip (i : Id) (n : Nat) (rest : Bytes) (h : Id.Wire i) (hn : n < 256) :
    packedDecIdNum (packedEncId i ++ n % 256 :: rest) = some (i, n, rest) := by
  unfold packedDecIdNum
  rw [packed_id_roundtrip _ _ h]
  simp only []
  rw [Nat.mod_eq_of_lt hn]

theorem packed_header_roundtrip (hd : Header) (rest : Bytes) (hh : Header.Wire hd) :
    packedCodec.decHeader (packedCodec.encHeader hd ++ rest) = some (hd, rest) := by
  simp only [packedCodec, packedEncHeader, packedDecHeader, List.append_assoc]
  rw [packed_id_roundtrip _ _ hh.1]
  simp only []
  rw [packed_inc_roundtrip _ _ hh.2.1]
  simp only []
  rw [packed_id_roundtrip _ _ hh.2.2.1]
  simp only []
  have hmsg : packedDecMsg (packedEncMsg hd.msg ++ rest) = some (hd.msg, rest) := by
    have hw := hh.2.2.2
    cases hm : hd.msg with
    | ping n => rw [hm] at hw; simp [packedEncMsg, packedDecMsg, decRawU8, Nat.mod_eq_of_lt hw]
    | ack n => rw [hm] at hw; simp [packedEncMsg, packedDecMsg, decRawU8, Nat.mod_eq_of_lt hw]
    | pingReq t n =>
      rw [hm] at hw
      simp only [packedEncMsg, List.cons_append, List.nil_append, packedDecMsg, List.append_assoc]
      rw [packed_idnum_roundtrip t n rest hw.1 hw.2]; rfl
    | indirectPing t n =>
      rw [hm] at hw
      simp only [packedEncMsg, List.cons_append, List.nil_append, packedDecMsg, List.append_assoc]
      rw [packed_idnum_roundtrip t n rest hw.1 hw.2]; rfl
    | indirectAck t n =>
      rw [hm] at hw
      simp only [packedEncMsg, List.cons_append, List.nil_append, packedDecMsg, List.append_assoc]
      rw [packed_idnum_roundtrip t n rest hw.1 hw.2]; rfl
    | forwardedAck t n =>
      rw [hm] at hw
      simp only [packedEncMsg, List.cons_append, List.nil_append, packedDecMsg, List.append_assoc]
      rw [packed_idnum_roundtrip t n rest hw.1 hw.2]; rfl
    | _ => simp [packedEncMsg, packedDecMsg]
  rw [hmsg]

/-! ### decoding never reads past its input: what is returned as "rest" is a suffix of the input -/

theorem unleb_suffix (mb lm : Nat) (fuel i : Nat) (b : Bytes) (n : Nat) (rest : Bytes)
    (h : unleb mb lm fuel i b = some (n, rest)) : ∃ used, b = used ++ rest ∧ used.length ≥ 1 := by
  induction fuel generalizing i b n with
  | zero => cases b <;> simp [unleb] at h
  | succ f ih =>
    cases b with
    | nil => simp [unleb] at h
    | cons v r =>
      unfold unleb at h
      by_cases hv : v < 128
      · simp only [hv, if_true] at h
        by_cases hc : (i + 1 == mb && decide (v > lm)) = true
        · simp [hc] at h
        · simp [hc] at h
          exact ⟨[v], by simp [h.2], by simp⟩
      · simp only [hv, if_false] at h
        cases hr : unleb mb lm f (i + 1) r with
        | none => simp [hr] at h
        | some p =>
          obtain ⟨hi, r'⟩ := p
          simp [hr] at h
          obtain ⟨_, h2⟩ := h
          subst h2
          obtain ⟨used, hu, _⟩ := ih (i + 1) r hi hr
          exact ⟨v :: used, by simp [hu], by simp⟩

/-- Truncated input is an error, never a read past the end: an empty buffer decodes to nothing
    with every primitive of every codec. -/
theorem empty_input_is_an_error :
    fixedInt.decU16 [] = none ∧ fixedInt.decU8 [] = none ∧
    postcardInt.decU16 [] = none ∧ postcardInt.decTag [] = none ∧
    bincodeInt.decU16 [] = none ∧ bincodeInt.decTag [] = none := by
  simp [fixedInt, postcardInt, bincodeInt, decU16be, decRawU8, unleb, bincodeDecU16, bincodeDecU32]

/-- postcard rejects over-long varints instead of overflowing (`u16`: at most three bytes, the last `≤ 3`). -/
theorem postcard_rejects_overlong_varint (a b c : Nat) (rest : Bytes) (ha : a ≥ 128) (hb : b ≥ 128)
    (hc : c > 3) : postcardInt.decU16 (a :: b :: c :: rest) = none := by
  have h1 : ¬ a < 128 := by omega
  have h2 : ¬ b < 128 := by omega
  by_cases h3 : c < 128
  · simp [postcardInt, unleb, h1, h2, h3, hc]
  · cases rest <;> simp [postcardInt, unleb, h1, h2, h3]

/-- bincode rejects the markers of wider integer types for a `u16` field. -/
theorem bincode_rejects_wide_markers (d : Nat) (rest : Bytes) (h : d ≥ 252) : bincodeInt.decU16 (d :: rest) = none := by
  have h1 : ¬ d < 251 := by omega
  have h2 : ¬ d = 251 := by omega
  simp [bincodeInt, bincodeDecU16, h1, h2]

end Foca.C20
