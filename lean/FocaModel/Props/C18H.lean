/-
  C18, whole calls — one delivered datagram causes a bounded number of new datagrams.
-/
import FocaModel.Proofs.FanOut
import FocaModel.Props.C18
namespace Foca.C18H
open Foca

/-- **Bounded fan-out.** Delivering one datagram — any bytes, to an instance in any state, whatever the RNG draws —
    makes it send at most `k · (u + 1) + 1` datagrams, `k` its `num_indirect_probes` and `u` the number of member
    updates the datagram carries: one direct reply, relay or TurnUndead notice (`C18.reply_table`,
    `C18.inactive_sender_gets_at_most_turnundead`), plus one round of gossip to at most `k` members for each update
    about the instance itself that makes it refute a suspicion or renew its identity. With timers held nothing else
    is ever sent, so an exchange grows by at most this factor per delivery. -/
theorem bounded_fanout_per_datagram (E : Env) (s : State) (data : Bytes) (orc : Oracle) :
    match Foca.step E s (.data data) orc with
    | .done _ eff _ _ => sendCount eff ≤ s.cfg.k * (updatesIn E data + 1) + 1
    | .stuck _ => True := by
  have := (Adds.handleData (k := s.cfg.k) E data).run ⟨s, [], orc⟩ rfl
  unfold AddsPost at this
  unfold Foca.step Foca.runOp
  simp only [bind_run]
  cases hr : handleData E data ⟨s, [], orc⟩ with
  | stuck x => trivial
  | ok u c' =>
    rw [hr] at this
    simp only [pure_run]
    have h2 := this.2
    simp only [sendCount, List.countP_nil, Nat.zero_add] at h2
    exact h2
  | err e c' =>
    rw [hr] at this
    simp only
    have h2 := this.2
    simp only [sendCount, List.countP_nil, Nat.zero_add] at h2
    exact h2

/-- a datagram that carries no updates (every Ack, Feed-less reply, bare Ping …) causes at most `k + 1` -/
theorem bare_datagram_fanout (E : Env) (s : State) (data : Bytes) (orc : Oracle) (h0 : updatesIn E data = 0) :
    match Foca.step E s (.data data) orc with
    | .done _ eff _ _ => sendCount eff ≤ s.cfg.k + 1
    | .stuck _ => True := by
  have := bounded_fanout_per_datagram E s data orc
  rw [h0] at this
  simpa using this

end Foca.C18H
