/-
  C10 at the level of the cluster — nothing is fabricated anywhere: whatever any instance holds, has put on the
  wire or has scheduled about an identity is at an incarnation that identity announced itself.
-/
import FocaModel.Proofs.NetInv
import FocaModel.Props.C10H
import FocaModel.Props.C07S
namespace Foca.C10S
open Foca Foca.C07

variable (E : Env) (hl : CodecLaws E.codec) (hhdr : HeaderLaw E.codec)
include hl hhdr

/-- **Nothing is fabricated, anywhere in the cluster, ever.** Take any number of instances created with identities
    within the wire range, and let anything happen: datagrams delivered late, more than once, to the wrong
    instance or never; timers firing in any order; API calls at any time (everything but `apply_many`, whose
    input comes from outside the cluster; new identities and explicit announce destinations within the wire
    range); any RNG draws; a codec that reads back the wire-range headers and members it wrote (true of the
    models of all four codecs: `C07H.bundled_codec_laws`, `C07H.bundled_header_laws`). Then at every moment, every member record of every
    instance, every probe target and every update waiting to be gossiped is about an identity `x` at an
    incarnation no higher than `toldBy sent x`: the highest incarnation `x` has itself put into the header of a
    datagram it sent. Nobody — not by gossip, not by suspicion, not by relaying — ever raises another member's
    incarnation. (That a header carries the sender's own current identity and incarnation is
    `C07.datagram_bounded_and_headed`.) -/
theorem nothing_fabricated_in_the_cluster {n : Net} (h : NetReach E n) (s : State) (hs : s ∈ n.nodes) :
    (∀ m ∈ s.ms, m.inc ≤ toldBy n.sent m.id) ∧
    (∀ m, s.probe.direct = some m → m.inc ≤ toldBy n.sent m.id) ∧
    (∀ e ∈ s.updates, ∃ u : Member, e.data = E.codec.encMember u ∧ u.inc ≤ toldBy n.sent u.id) := by
  obtain ⟨⟨_, _, h3, h4, h5⟩, _⟩ := (NetInv.reachable E hl hhdr h).1 s hs
  refine ⟨fun m hm => (h3 m hm).2, fun m hm => (h4 m hm).2, ?_⟩
  intro e he
  obtain ⟨u, hu1, hu2⟩ := h5 e he
  exact ⟨u, hu1, hu2.2⟩

/-- … nor is there anything fabricated on the wire: whatever a receiver will parse out of a datagram in flight —
    the sender and its incarnation from the header, the members of the member section — is within `toldBy` -/
theorem nothing_fabricated_on_the_wire {n : Net} (h : NetReach E n) (d : Id) (b : Bytes) (hw : (d, b) ∈ n.wire) :
    DataOk E (fun u => u.inc ≤ toldBy n.sent u.id) (fun hd => hd.srcInc ≤ toldBy n.sent hd.src) b := by
  obtain ⟨hd, hm, _, q2, q4⟩ := (NetInv.reachable E hl hhdr h).2.1 d b hw
  have := shape_dataOk E hl hhdr (Q := MW (toldBy n.sent)) (okH := fun hd => hd.srcInc ≤ toldBy n.sent hd.src)
    (fun u hu => (mwire_iff u).1 hu.1) q4 q2 (toldBy_mem hm)
  intro h' rest hdec
  obtain ⟨a1, a2⟩ := this h' rest hdec
  exact ⟨a1, fun us tail hp u hu => (a2 us tail hp u hu).2⟩

omit hl hhdr in
/-- the log holds nothing but headers of datagrams that were really handed to a runtime -/
theorem announced_incarnations_are_real {n : Net} (h : NetReach E n) :
    ∀ hd ∈ n.sent, ∃ d b, (d, b) ∈ n.wire ∧ (E.codec.decHeader b).map (·.1) = some hd := by
  have key : ∀ (n : Net) (i : Nat) (s' : State) (eff : List Effect),
      (∀ hd ∈ n.sent, ∃ d b, (d, b) ∈ n.wire ∧ (E.codec.decHeader b).map (·.1) = some hd) →
      ∀ hd ∈ (n.after E i s' eff).sent, ∃ d b, (d, b) ∈ (n.after E i s' eff).wire ∧
        (E.codec.decHeader b).map (·.1) = some hd := by
    intro n i s' eff ih hd hm
    simp only [Net.after] at hm ⊢
    rcases List.mem_append.1 hm with hm | hm
    · obtain ⟨d, b, h1, h2⟩ := ih hd hm
      exact ⟨d, b, List.mem_append.2 (Or.inl h1), h2⟩
    · unfold sentHeaders at hm
      rw [List.mem_filterMap] at hm
      obtain ⟨e, he, hq⟩ := hm
      cases e with
      | timer a t => simp at hq
      | notify x => simp at hq
      | send d b =>
        refine ⟨d, b, List.mem_append.2 (Or.inr ?_), hq⟩
        unfold sentDatagrams
        rw [List.mem_filterMap]
        exact ⟨_, he, rfl⟩
  induction h with
  | init ss _ => intro hd hm; simp at hm
  | deliver i s s' d b orc eff r left _ _ _ _ ih => exact key _ i s' eff ih
  | fire i s s' t orc eff r left _ _ _ _ ih => exact key _ i s' eff ih
  | api i s s' op orc eff r left _ _ _ _ _ _ ih => exact key _ i s' eff ih

omit hl hhdr in
/-- non-vacuity: two fresh instances form a reachable cluster -/
example : NetReach E ⟨[State.init ⟨1, 0⟩ .bump C08H.exCfg, State.init ⟨2, 0⟩ .none C08H.exCfg], [], [], []⟩ :=
  NetReach.init _ (by
    intro s hs
    simp only [List.mem_cons, List.mem_nil_iff, or_false] at hs
    rcases hs with rfl | rfl
    · exact ⟨⟨1, 0⟩, .bump, C08H.exCfg, by simp [IdWire], rfl⟩
    · exact ⟨⟨2, 0⟩, .none, C08H.exCfg, by simp [IdWire], rfl⟩)

omit hl hhdr in
/-- the theorem applies outright to a cluster running the model of `foca::PostcardCodec` (likewise the fixed,
    bincode and packed codecs), with any broadcast handler, debug or release -/
example (hd : Handler) (dbg : Bool) {n : Net} (h : NetReach ⟨postcardCodec, hd, dbg⟩ n) (s : State) (hs : s ∈ n.nodes) :
    ∀ m ∈ s.ms, m.inc ≤ toldBy n.sent m.id :=
  (nothing_fabricated_in_the_cluster ⟨postcardCodec, hd, dbg⟩ C07H.bundled_codec_laws.2.1 C07H.bundled_header_laws.2.1
    h s hs).1

end Foca.C10S
