/-
  C09, whole histories — one record per address in every reachable state.
-/
import FocaModel.Proofs.MsInv
import FocaModel.Props.C08H
namespace Foca.C09H
open Foca

/-- In every state an instance can reach — from `Foca::new`, by any sequence of public calls with any inputs
    (including arbitrary datagram bytes, `change_identity` and `apply_many`), whatever the RNG draws — the
    membership state holds at most one record per address: no two identities of one address are ever listed
    together, whether active or down. -/
theorem one_record_per_address_always (E : Env) {s : State} (h : Reachable E s) :
    (s.ms.map (·.id.addr)).Nodup := (MsInv.reachable E h).1

theorem nodup_map_inj {α β} (f : α → β) : ∀ (l : List α), (l.map f).Nodup → ∀ a b, a ∈ l → b ∈ l → f a = f b → a = b
  | [], _, _, _, ha, _, _ => by simp at ha
  | x :: rest, hn, a, b, ha, hb, hab => by
    simp only [List.map_cons, List.nodup_cons, List.mem_map, not_exists, not_and] at hn
    simp only [List.mem_cons] at ha hb
    rcases ha with ha | ha <;> rcases hb with hb | hb
    · rw [ha, hb]
    · subst ha; exact absurd hab.symm (hn.1 b hb)
    · subst hb; exact absurd hab (hn.1 a ha)
    · exact nodup_map_inj f rest hn.2 a b ha hb hab

/-- … hence two listed records with the same address are the same record: an address has one identity,
    one incarnation and one state at any time. -/
theorem address_determines_record (E : Env) {s : State} (h : Reachable E s) (a b : Member)
    (ha : a ∈ s.ms) (hb : b ∈ s.ms) (hab : a.id.addr = b.id.addr) : a = b := by
  have hn := one_record_per_address_always E h
  exact nodup_map_inj _ _ hn a b ha hb hab

/-- non-vacuity: two calls, the second one offering another identity of the listed address; still one record -/
example : ∃ s, Reachable C08H.exEnv s ∧ s.ms.map (·.id) = [⟨2, 1⟩] := by
  refine ⟨_, Reachable.step (.applyMany [⟨⟨2, 1⟩, 0, .alive⟩] false) ⟨[], []⟩ _ _ _
    (Reachable.step (.applyMany [⟨⟨2, 0⟩, 0, .alive⟩] false) ⟨[.idx 0], []⟩ _ _ _
      (Reachable.init ⟨1, 0⟩ .none C08H.exCfg) rfl) rfl, ?_⟩
  decide

end Foca.C09H
