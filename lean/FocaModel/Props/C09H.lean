/-
  C09, whole histories — one record per address in every reachable state.
-/
import FocaModel.Proofs.MsInv
import FocaModel.Proofs.OwnInv
import FocaModel.Proofs.GenInv
import FocaModel.Props.C08H
namespace Foca.C09H
open Foca

/-- In every state an instance can reach — from `Foca::new`, by any sequence of public calls with any inputs
    (including arbitrary datagram bytes, `change_identity` and `apply_many`), whatever the RNG draws — the
    membership state holds at most one record per address: no two identities of one address are ever listed
    together, whether active or down. -/
theorem one_record_per_address_always (E : Env) {s : State} (h : Reachable E s) :
    (s.ms.map (·.id.addr)).Nodup := (MsInv.reachable E h).1

theorem nodup_map_inj {α β} (f : α → β) : ∀ (l : List α), (l.map f).Nodup → ∀ a b, a ∈ l → b ∈ l → f a = f b → a = b
  | [], _, _, _, ha, _, _ => by simp at ha
  | x :: rest, hn, a, b, ha, hb, hab => by
    simp only [List.map_cons, List.nodup_cons, List.mem_map, not_exists, not_and] at hn
    simp only [List.mem_cons] at ha hb
    rcases ha with ha | ha <;> rcases hb with hb | hb
    · rw [ha, hb]
    · subst ha; exact absurd hab.symm (hn.1 b hb)
    · subst hb; exact absurd hab (hn.1 a ha)
    · exact nodup_map_inj f rest hn.2 a b ha hb hab

/-- … hence two listed records with the same address are the same record: an address has one identity,
    one incarnation and one state at any time. -/
theorem address_determines_record (E : Env) {s : State} (h : Reachable E s) (a b : Member)
    (ha : a ∈ s.ms) (hb : b ∈ s.ms) (hab : a.id.addr = b.id.addr) : a = b := by
  have hn := one_record_per_address_always E h
  exact nodup_map_inj _ _ hn a b ha hb hab

/-- non-vacuity: two calls, the second one offering another identity of the listed address; still one record -/
example : ∃ s, Reachable C08H.exEnv s ∧ s.ms.map (·.id) = [⟨2, 1⟩] := by
  refine ⟨_, Reachable.step (.applyMany [⟨⟨2, 1⟩, 0, .alive⟩] false) ⟨[], []⟩ _ _ _
    (Reachable.step (.applyMany [⟨⟨2, 0⟩, 0, .alive⟩] false) ⟨[.idx 0], []⟩ _ _ _
      (Reachable.init ⟨1, 0⟩ .none C08H.exCfg) rfl) rfl, ?_⟩
  decide

/-- **The own address is never active.** In every state reachable by any history of public calls — arbitrary
    datagram bytes, batches of updates naming the own address under any generation, timers, renewals of the own
    identity — with `change_identity` used as documented (to an identity of the same address, or of an address
    that has no active record), no record bearing the instance's own address is active, and the probe never
    targets the own address. -/
theorem own_address_never_active_always (E : Env) {s : State} (h : ReachableDoc E s) :
    (∀ m ∈ s.ms, m.id.addr = s.id.addr → m.active = false) ∧
    (∀ m, s.probe.direct = some m → m.id.addr ≠ s.id.addr) :=
  (OwnInv.reachable h).2

/-- the induction step, from any state satisfying the invariant -/
theorem own_address_never_active_step (E : Env) (s : State) (op : Op) (orc : Oracle)
    (h : OwnInv s) (hop : ChidOk s op) :
    match step E s op orc with
    | .done s' _ _ _ => OwnInv s'
    | .stuck _ => True := OwnInv.step E s op orc h hop

/- The hypothesis on `change_identity` cannot be dropped: switching to the address of a member that is listed as
   active makes that member's record an active record of the own address, in the code and in the model alike
   (the correspondence generator makes such calls; the C09 oracle stops judging a history at that point). -/

/-- non-vacuity: a documented history — a batch naming a newer generation of the own address is stored as Down -/
example : ∃ s, ReachableDoc C08H.exEnv s ∧ s.ms.map (fun m => (m.id, m.st)) = [(⟨1, 5⟩, .down)] := by
  refine ⟨_, ReachableDoc.step (.applyMany [⟨⟨1, 5⟩, 3, .alive⟩] false) ⟨[.idx 0], []⟩ _ _ _
    (ReachableDoc.init ⟨1, 0⟩ .none C08H.exCfg) (by intro i p h; cases h) rfl, ?_⟩
  decide

/-- **Never back to a superseded identity, one call.** If address `a` is listed with an identity of generation at
    least `g`, then after any public call other than a forget-timer — any batch, any datagram bytes, any other
    timer, any RNG — it is still listed, with an identity of generation at least `g`: a record is only ever
    replaced by an identity that wins the conflict, and nothing but the forget-timer removes one. -/
theorem generation_never_goes_back_step (E : Env) (a g : Nat) (s : State) (op : Op) (orc : Oracle)
    (h : ∃ m ∈ s.ms, m.id.addr = a ∧ m.id.gen ≥ g) (hop : Op.forgets op = false) :
    match step E s op orc with
    | .done s' _ _ _ => ∃ m ∈ s'.ms, m.id.addr = a ∧ m.id.gen ≥ g
    | .stuck _ => True := GenInv.step E a g s op orc h hop

/-- **… over histories.** Over any history of calls in which no forget-timer fires, of any length, the generation
    listed for an address never decreases. -/
theorem generation_never_goes_back (E : Env) (a g : Nat) {s s' : State}
    (hrun : RunsTo E (fun op => Op.forgets op = false) s s')
    (h : ∃ m ∈ s.ms, m.id.addr = a ∧ m.id.gen ≥ g) : ∃ m ∈ s'.ms, m.id.addr = a ∧ m.id.gen ≥ g := by
  induction hrun with
  | refl => exact h
  | step op orc eff r left _ hop hstep ih =>
    have := generation_never_goes_back_step E a g _ op orc ih hop
    rw [hstep] at this
    exact this

end Foca.C09H
