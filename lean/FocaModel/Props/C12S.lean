/-
  C12, forwards: the probe round trip. `C12H` shows that a round ends without suspicion *only* on genuine evidence and
  that evidence, once recorded, stays. Here is the other direction, across the two instances involved: the probed
  instance answers the Ping with the Ack, and the Ack — whenever it is handled before the next probe timer — makes
  that timer find its round answered. This turns `RoundAnswered`, the timing premise of
  `C02S.calm_cluster_stays_calm`, into a statement about deliveries only.
-/
import FocaModel.Proofs.RoundTrip
import FocaModel.Proofs.NetInv
import FocaModel.Props.C12H
import FocaModel.Props.C08H
namespace Foca.C12S
open Foca Foca.C07 Foca.C07H Foca.C12H

section
variable (E : Env) (τ : Id → Nat) (ids : List Id)

/-- a successful `handle_data` call, seen as a run of the model's monad -/
theorem step_data_ok {s s' : State} {data : Bytes} {orc left : Oracle} {eff : List Effect}
    (hstep : Foca.step E s (.data data) orc = .done s' eff .ok left) :
    Foca.handleData E data ⟨s, [], orc⟩ = .ok () ⟨s', eff, left⟩ := by
  unfold Foca.step Foca.runOp at hstep
  simp only [bind_run] at hstep
  cases hr : Foca.handleData E data ⟨s, [], orc⟩ with
  | stuck x => rw [hr] at hstep; simp at hstep
  | err e c => rw [hr] at hstep; simp at hstep
  | ok u c =>
    rw [hr] at hstep
    simp only [pure_run, StepOut.done.injEq] at hstep
    obtain ⟨h1, h2, _, h4⟩ := hstep
    cases c
    simp only at h1 h2 h4
    subst h1 h2 h4
    rfl

/-- **The probed instance answers.** An instance holding only Alive records about the cluster's identities
    (`CalmInv`; the cluster's identities have pairwise different addresses) handles a datagram carrying Alive claims
    under a header `Ping n` addressed to it, the call returns `Ok`, and the instance is connected afterwards (it is,
    as soon as it lists one active member; foca answers only while connected). Then the last datagram of the call
    goes to the Ping's source, is at most `max_packet_size` long, and a peer with the same codec reads its header
    back as `Ack n` from the instance's own identity at its own incarnation, addressed to the Ping's source —
    whatever the RNG draws, the backlog contents, the custom broadcasts on board. -/
theorem probed_instance_answers (hhdr : HeaderLaw E.codec) (hd : DistinctAddrs ids) {s s' : State} {data : Bytes}
    {orc left : Oracle} {eff : List Effect} (hs : CalmInv E τ ids s)
    (hdat : DataOk E (CalmM τ ids) (CalmH τ ids) data)
    (hstep : Foca.step E s (.data data) orc = .done s' eff .ok left)
    (h : Header) (rest : Bytes) (hdec : E.codec.decHeader data = some (h, rest)) (hdst : h.dst = s.id)
    (n : Nat) (hmsg : h.msg = .ping n) (hconn : s'.conn = .connected) :
    ∃ pre bytes, eff = pre ++ [.send h.src bytes] ∧ bytes.length ≤ s'.cfg.mps ∧
      (E.codec.decHeader bytes).map (·.1) = some ⟨s'.id, s'.inc, h.src, .ack n⟩ := by
  have hrun := step_data_ok E hstep
  have hc0 : CalmSent E τ ids (fun _ => True) (Ctx.mk s [] orc).s (Ctx.mk s [] orc).eff :=
    ⟨hs, by intro e he; simp at he⟩
  have hpost := (CalmP.handleData E τ ids (fun _ => True) hd data hdat (fun _ _ _ _ _ _ _ => trivial)).run _ hc0
  rw [hrun] at hpost
  simp only at hpost
  obtain ⟨pre, bytes, he, hlen, hshape⟩ :=
    ping_is_answered E τ ids (fun _ => True) hd data _ _ hc0 hdat hrun h rest hdec hdst n hmsg hconn
  refine ⟨pre, bytes, he, hlen, ?_⟩
  obtain ⟨hh, _⟩ := hdat h rest hdec
  have hw : HWire ⟨s'.id, s'.inc, h.src, .ack n⟩ := by
    refine ⟨hpost.1.1.1, ?_, hh.1.1, ?_⟩
    · show s'.inc < 65536
      rw [hpost.1.2.1.1]; omega
    · have := hh.1.2.2.2
      rw [hmsg] at this
      exact this
  exact shape_header E hhdr hshape hw

/-- **The Ack answers its round.** A calm instance handles a datagram carrying Alive claims under a header `Ack n`
    from `m`, addressed to it; the call returns `Ok` and the instance is connected afterwards. Then, if the probe is
    on the round for `m` under number `n`, that round counts as answered (`HasEv`, which by
    `C12H.answered_stays_answered_step` stays true until the next probe timer). -/
theorem ack_answers_the_round (hd : DistinctAddrs ids) {s s' : State} {data : Bytes}
    {orc left : Oracle} {eff : List Effect} (hs : CalmInv E τ ids s)
    (hdat : DataOk E (CalmM τ ids) (CalmH τ ids) data)
    (hstep : Foca.step E s (.data data) orc = .done s' eff .ok left)
    (h : Header) (rest : Bytes) (hdec : E.codec.decHeader data = some (h, rest)) (hdst : h.dst = s.id)
    (n : Nat) (hmsg : h.msg = .ack n) (hconn : s'.conn = .connected) (m : Member) (hm : m.id = h.src) :
    HasEv m n s' := by
  have hrun := step_data_ok E hstep
  have hc0 : CalmSent E τ ids (fun _ => True) (Ctx.mk s [] orc).s (Ctx.mk s [] orc).eff :=
    ⟨hs, by intro e he; simp at he⟩
  exact ack_answers_round E τ ids (fun _ => True) hd data _ _ hc0 hdat hrun h rest hdec hdst n hmsg hconn m hm

/-- histories without the delivery of a probe timer keep `Tgt`, `HasEv` and `StageSince` -/
theorem hist_keeps {m : Member} {N : Nat} {s0 s s' : State} {ops : List Op} (hrun : Hist E s ops s')
    (hnp : ∀ op ∈ ops, ∀ tok, op ≠ .timer (.probe tok)) :
    (Tgt m N s → Tgt m N s') ∧ (HasEv m N s → HasEv m N s') ∧ (StageSince s0 s → StageSince s0 s') := by
  induction hrun with
  | refl => exact ⟨id, id, id⟩
  | step op orc eff r left _ hstep ih =>
    obtain ⟨i1, i2, i3⟩ := ih (fun o ho => hnp o (List.mem_append.2 (Or.inl ho)))
    have hop := hnp op (by simp)
    refine ⟨fun h => ?_, fun h => ?_, fun h => ?_⟩
    · have := Tgt.step E m N _ op orc (i1 h) hop
      rw [hstep] at this; exact this
    · have := HasEv.step E m N _ op orc (i2 h) hop
      rw [hstep] at this; exact this
    · have := StageSince.step E s0 _ op orc (i3 h) hop
      rw [hstep] at this; exact this

/-- **A round whose Ack is handled before the next probe timer is an answered round.** `s0`: a connected instance
    whose probe has just been started on `m` under number `N`. Any history follows (`ops1`: datagrams of any kind,
    stale or contradicting gossip, the indirect-probe timer, periodic and suspicion timers, API calls — anything
    but a probe timer); then, in a calm state, the instance handles successfully a datagram with header `Ack N` from
    `m` addressed to it; then any history again (`ops2`, no probe timer). Then the next probe timer finds its round
    answered (`RoundAnswered`, the premise of `C02S.calm_cluster_stays_calm`) — whether the round is still open, was
    dropped, or the instance went idle and came back in between. -/
theorem round_answered_when_ack_handled (hd : DistinctAddrs ids) (m : Member) (N : Nat)
    {s0 s1 s2 s' : State} {ops1 ops2 : List Op}
    (hstart : s0.probe.direct = some m ∧ s0.probe.number = N) (hconn0 : s0.conn = .connected)
    (hrun1 : Hist E s0 ops1 s1) (hnp1 : ∀ op ∈ ops1, ∀ tok, op ≠ .timer (.probe tok))
    (hs1 : CalmInv E τ ids s1) {data : Bytes} {orc left : Oracle} {eff : List Effect}
    (hdat : DataOk E (CalmM τ ids) (CalmH τ ids) data)
    (hstep : Foca.step E s1 (.data data) orc = .done s2 eff .ok left)
    (h : Header) (rest : Bytes) (hdec : E.codec.decHeader data = some (h, rest)) (hdst : h.dst = s1.id)
    (hmsg : h.msg = .ack N) (hsrc : h.src = m.id)
    (hrun2 : Hist E s2 ops2 s') (hnp2 : ∀ op ∈ ops2, ∀ tok, op ≠ .timer (.probe tok)) :
    RoundAnswered s' := by
  have hdata : ∀ tok, Op.data data ≠ .timer (.probe tok) := fun _ hx => by cases hx
  -- the round is still the round for `m` under `N`, or has been dropped
  have t1 : Tgt m N s1 := (hist_keeps E (s0 := s0) hrun1 hnp1).1 (Or.inr hstart)
  have t2 : Tgt m N s2 := by
    have := Tgt.step E m N s1 (.data data) orc t1 hdata
    rw [hstep] at this; exact this
  have t' : Tgt m N s' := (hist_keeps E (s0 := s0) hrun2 hnp2).1 t2
  -- the stage since the start of the round
  have g1 : StageSince s0 s1 := (hist_keeps E (m := m) (N := N) hrun1 hnp1).2.2 (StageSince.refl s0)
  have g2 : StageSince s0 s2 := by
    have := StageSince.step E s0 s1 (.data data) orc g1 hdata
    rw [hstep] at this; exact this
  -- the Ack is recorded: either the epoch is still the one of the start (then the instance is still connected and
  -- reacts to the Ack) or the probe was cleared on the way
  have e2 : HasEv m N s2 := by
    by_cases hep : s2.epoch = s0.epoch
    · exact ack_answers_the_round E τ ids hd hs1 hdat hstep h rest hdec hdst N hmsg ((g2.2.1 hep).2 hconn0) m hsrc.symm
    · intro hdir _
      rcases g2.2.2 with hnone | ⟨he, _⟩
      · rw [hnone] at hdir; cases hdir
      · exact absurd he hep
  have e' : HasEv m N s' := (hist_keeps E (s0 := s0) hrun2 hnp2).2.1 e2
  intro _
  unfold Probe.takeFailed
  rcases t' with hnone | ⟨hdir, hnum⟩
  · split
    · exact hnone
    · rfl
  · simp [e' hdir hnum]

end

/-! ### the round starts with a Ping -/

/-- **A probe round pings its target.** The delivery of a current probe timer to a connected instance that
    returned `Ok`: either no round was started (nobody to ping: the probe is what `take_failed` left), or the probe
    is now on `member` under the next number, and the call's last three effects are the Ping — a datagram to
    `member` that begins with the encoded header `Ping number` from the instance's identity and incarnation —, the
    indirect-probe timer of the round and the re-armed probe timer. Any state, any RNG draws. -/
theorem probe_timer_pings_its_target (E : Env) (s s' : State) (tok : Nat) (orc left : Oracle) (eff : List Effect)
    (hstep : Foca.step E s (.timer (.probe tok)) orc = .done s' eff .ok left)
    (htok : tok = s.token) (hconn : s.conn = .connected) :
    s'.probe = s.probe.takeFailed.2 ∨
    ∃ member pre body, s'.probe = s.probe.takeFailed.2.start member ∧
      eff = pre ++ [.send member.id (E.codec.encHeader ⟨s'.id, s'.inc, member.id, .ping s'.probe.number⟩ ++ body),
        .timer s'.cfg.probeRtt (.indirect member.id s'.token), .timer s'.cfg.probePeriod (.probe s'.token)] := by
  unfold Foca.step Foca.runOp at hstep
  simp only [bind_run] at hstep
  cases hr : Foca.handleTimer E (.probe tok) ⟨s, [], orc⟩ with
  | stuck x => rw [hr] at hstep; simp at hstep
  | err e c => rw [hr] at hstep; simp at hstep
  | ok u c' =>
    rw [hr] at hstep
    simp only [pure_run, StepOut.done.injEq] at hstep
    obtain ⟨hs', heff, _, _⟩ := hstep
    unfold Foca.handleTimer at hr
    simp only [bind_run, getS_run] at hr
    have h1 : (tok == s.token) = true := by simp [htok]
    have h2 : (s.conn != Conn.connected) = false := by simp [hconn]
    simp only [h1, h2, ↓reduceIte, Bool.false_eq_true] at hr
    obtain ⟨_, c1, c2, hsf, hsn, hc'⟩ := probeRandomMember_ok E ⟨s, [], orc⟩ c' hconn hr
    have hshape := probeSuspectFailed_shape E ⟨s, [], orc⟩
    rw [hsf] at hshape
    simp only [SuspectShape] at hshape
    obtain ⟨_, _, hprobe1, _⟩ := hshape
    rcases probeStartNext_ok E c1 c2 hsn with ⟨hp, _⟩ | ⟨member, body, hp, he⟩
    · left
      rw [← hs', hc']
      simp only
      rw [hp, hprobe1]
    · right
      refine ⟨member, c1.eff, body, ?_, ?_⟩
      · rw [← hs', hc']
        simp only
        rw [hp, hprobe1]
      · rw [← heff, ← hs', hc']
        simp only
        rw [he]
        simp


/-! ### the two instances together -/

section
variable (E : Env) (τ : Id → Nat) (ids : List Id)

/-- **The probe round trip.** Two instances of a cluster whose identities have pairwise different addresses, with a
    codec that reads back what it wrote. `A` (state `a0`, connected) has just started a probe round on `m` under
    number `N`; `B` (state `b`, calm) is the instance bearing `m`'s identity. `B` handles — successfully — a datagram
    carrying Alive claims under the header `Ping N` from `A` addressed to it and is connected afterwards; the datagram
    `B` sends in that call is later handled — successfully, in a calm state `a1` reached from `a0` by any history
    without a probe timer — by `A`. Then, whatever else `A` handles before its next probe timer (`ops2`), that timer
    finds the round answered: no suspicion is raised. Nothing is assumed about the Ack beyond its being the very
    bytes `B` sent. -/
theorem probe_round_trip (hl : CodecLaws E.codec) (hhdr : HeaderLaw E.codec) (hd : DistinctAddrs ids)
    (m : Member) (N : Nat)
    -- B answers the Ping
    {b b' : State} {ping : Bytes} {orcB leftB : Oracle} {effB : List Effect}
    (hb : CalmInv E τ ids b) (hping : DataOk E (CalmM τ ids) (CalmH τ ids) ping)
    (hstepB : Foca.step E b (.data ping) orcB = .done b' effB .ok leftB)
    (hp : Header) (restp : Bytes) (hdecp : E.codec.decHeader ping = some (hp, restp)) (hdstp : hp.dst = b.id)
    (hmsgp : hp.msg = .ping N) (hbid : b'.id = m.id) (hconnB : b'.conn = .connected)
    -- A, from the start of the round to the handling of what B sent
    {a0 a1 a2 a' : State} {ops1 ops2 : List Op}
    (hstart : a0.probe.direct = some m ∧ a0.probe.number = N) (hconn0 : a0.conn = .connected)
    (hsrcp : hp.src = a1.id)
    (hrun1 : Hist E a0 ops1 a1) (hnp1 : ∀ op ∈ ops1, ∀ tok, op ≠ .timer (.probe tok))
    (ha1 : CalmInv E τ ids a1) {ack : Bytes} {orcA leftA : Oracle} {effA : List Effect}
    (hsent : ∃ pre, effB = pre ++ [.send hp.src ack])
    (hτ : b'.inc ≤ τ b'.id)
    (hstepA : Foca.step E a1 (.data ack) orcA = .done a2 effA .ok leftA)
    (hrun2 : Hist E a2 ops2 a') (hnp2 : ∀ op ∈ ops2, ∀ tok, op ≠ .timer (.probe tok)) :
    RoundAnswered a' := by
  -- what B sent
  have hrunB := C12S.step_data_ok E hstepB
  have hc0 : CalmSent E τ ids (fun _ => True) (Ctx.mk b [] orcB).s (Ctx.mk b [] orcB).eff :=
    ⟨hb, by intro e he; simp at he⟩
  have hpostB := (CalmP.handleData E τ ids (fun _ => True) hd ping hping (fun _ _ _ _ _ _ _ => trivial)).run _ hc0
  rw [hrunB] at hpostB
  simp only at hpostB
  obtain ⟨pre, bytes, he, _, hshape⟩ :=
    ping_is_answered E τ ids (fun _ => True) hd ping _ _ hc0 hping hrunB hp restp hdecp hdstp N hmsgp hconnB
  obtain ⟨pre', he'⟩ := hsent
  simp only at he
  have hbytes : bytes = ack := by
    rw [he'] at he
    have := List.append_inj_right' he rfl
    simpa using this.symm
  subst hbytes
  obtain ⟨hhp, _⟩ := hping hp restp hdecp
  have hw : HWire ⟨b'.id, b'.inc, hp.src, .ack N⟩ := by
    refine ⟨hpostB.1.1.1, ?_, hhp.1.1, ?_⟩
    · show b'.inc < 65536
      rw [hpostB.1.2.1.1]; omega
    · have := hhp.1.2.2.2
      rw [hmsgp] at this
      exact this
  have hdecA := shape_header E hhdr hshape hw
  cases hda : E.codec.decHeader bytes with
  | none => rw [hda] at hdecA; simp at hdecA
  | some hr =>
    obtain ⟨ha, resta⟩ := hr
    rw [hda] at hdecA
    simp only [Option.map_some, Option.some.injEq] at hdecA
    subst hdecA
    -- … is a calm datagram for A
    have hcalmH : CalmH τ ids ⟨b'.id, b'.inc, hp.src, .ack N⟩ :=
      ⟨hw, hpostB.1.1.2, hτ, by simp, hpostB.1.2.1.1⟩
    have hdatA : DataOk E (CalmM τ ids) (CalmH τ ids) bytes :=
      shape_dataOk E hl hhdr (fun u hu => (mwire_iff u).1 hu.1.1) hshape hw hcalmH
    exact round_answered_when_ack_handled E τ ids hd m N hstart hconn0 hrun1 hnp1 ha1 hdatA hstepA _ resta hda
      hsrcp rfl hbid hrun2 hnp2

end

/-! ### "an instance that is not defunct answers Ping": the premise `connected afterwards`, discharged -/

section
variable (E : Env) (τ : Id → Nat) (ids : List Id)

/-- **A calm receiver that is not defunct ends up connected.** Exact member bookkeeping (`MsInv`: true of every
    reachable state, `C08H.num_members_exact_always`), calm, not defunct: after successfully handling a calm datagram
    addressed to it the instance is connected — it lists the sender as active. -/
theorem calm_receiver_ends_up_connected (hd : DistinctAddrs ids) {s s' : State} {data : Bytes}
    {orc left : Oracle} {eff : List Effect} (hs : CalmInv E τ ids s) (hms : MsInv s) (hnu : s.conn ≠ .undead)
    (hdat : DataOk E (CalmM τ ids) (CalmH τ ids) data)
    (hstep : Foca.step E s (.data data) orc = .done s' eff .ok left)
    (h : Header) (rest : Bytes) (hdec : E.codec.decHeader data = some (h, rest)) (hdst : h.dst = s.id) :
    s'.conn = .connected := by
  have hrun := step_data_ok E hstep
  have hc0 : CalmSent E τ ids (fun _ => True) (Ctx.mk s [] orc).s (Ctx.mk s [] orc).eff :=
    ⟨hs, by intro e he; simp at he⟩
  exact calm_receiver_connected E τ ids (fun _ => True) hd data _ _ hc0 hms hnu hdat hrun h rest hdec hdst

/-- **An instance that is not defunct answers Ping with an Ack of the same number** — the clause of C12, for the
    fault-free setting, as a statement about the datagram: `probed_instance_answers` with "connected afterwards"
    replaced by "not defunct before". -/
theorem not_defunct_instance_answers_ping (hhdr : HeaderLaw E.codec) (hd : DistinctAddrs ids) {s s' : State}
    {data : Bytes} {orc left : Oracle} {eff : List Effect} (hs : CalmInv E τ ids s) (hms : MsInv s)
    (hnu : s.conn ≠ .undead) (hdat : DataOk E (CalmM τ ids) (CalmH τ ids) data)
    (hstep : Foca.step E s (.data data) orc = .done s' eff .ok left)
    (h : Header) (rest : Bytes) (hdec : E.codec.decHeader data = some (h, rest)) (hdst : h.dst = s.id)
    (n : Nat) (hmsg : h.msg = .ping n) :
    ∃ pre bytes, eff = pre ++ [.send h.src bytes] ∧ bytes.length ≤ s'.cfg.mps ∧
      (E.codec.decHeader bytes).map (·.1) = some ⟨s'.id, s'.inc, h.src, .ack n⟩ :=
  probed_instance_answers E τ ids hhdr hd hs hdat hstep h rest hdec hdst n hmsg
    (calm_receiver_ends_up_connected E τ ids hd hs hms hnu hdat hstep h rest hdec hdst)

/-- **The probe round trip**, with the probed instance merely not defunct (and reachable, hence `MsInv`): B handles
    A's Ping with result `Ok`; A handles the very bytes B sent, with result `Ok`, before its next probe timer; then
    that timer finds the round answered. The only premises left about foca's state are that A was connected when it
    started the round and that both instances hold only Alive records (the fault-free setting). -/
theorem probe_round_trip_not_defunct (hl : CodecLaws E.codec) (hhdr : HeaderLaw E.codec) (hd : DistinctAddrs ids)
    (m : Member) (N : Nat)
    {b b' : State} {ping : Bytes} {orcB leftB : Oracle} {effB : List Effect}
    (hb : CalmInv E τ ids b) (hbreach : Reachable E b) (hbnu : b.conn ≠ .undead)
    (hping : DataOk E (CalmM τ ids) (CalmH τ ids) ping)
    (hstepB : Foca.step E b (.data ping) orcB = .done b' effB .ok leftB)
    (hp : Header) (restp : Bytes) (hdecp : E.codec.decHeader ping = some (hp, restp)) (hdstp : hp.dst = b.id)
    (hmsgp : hp.msg = .ping N) (hbid : b'.id = m.id)
    {a0 a1 a2 a' : State} {ops1 ops2 : List Op}
    (hstart : a0.probe.direct = some m ∧ a0.probe.number = N) (hconn0 : a0.conn = .connected)
    (hsrcp : hp.src = a1.id)
    (hrun1 : Hist E a0 ops1 a1) (hnp1 : ∀ op ∈ ops1, ∀ tok, op ≠ .timer (.probe tok))
    (ha1 : CalmInv E τ ids a1) {ack : Bytes} {orcA leftA : Oracle} {effA : List Effect}
    (hsent : ∃ pre, effB = pre ++ [.send hp.src ack]) (hτ : b'.inc ≤ τ b'.id)
    (hstepA : Foca.step E a1 (.data ack) orcA = .done a2 effA .ok leftA)
    (hrun2 : Hist E a2 ops2 a') (hnp2 : ∀ op ∈ ops2, ∀ tok, op ≠ .timer (.probe tok)) :
    RoundAnswered a' :=
  probe_round_trip E τ ids hl hhdr hd m N hb hping hstepB hp restp hdecp hdstp hmsgp hbid
    (calm_receiver_ends_up_connected E τ ids hd hb (MsInv.reachable E hbreach) hbnu hping hstepB hp restp hdecp hdstp)
    hstart hconn0 hsrcp hrun1 hnp1 ha1 hsent hτ hstepA hrun2 hnp2

end

/-! ### the indirect path -/

section
variable (E : Env) (τ : Id → Nat) (ids : List Id)

/-- **A ForwardedAck from a member that was asked answers the round.** A reachable calm instance that is not defunct
    successfully handles a ForwardedAck numbered `n` addressed to it, from a member it asked to probe indirectly in
    the current round and has not counted yet (`h.src ∈ probe.indirect`), while the probe number is `n`: the round
    counts as answered — the forward direction of C12's "a ForwardedAck carrying [the current probe number] from one
    of the members it asked", for the indirect path that absorbs a lost Ping or Ack (C04). -/
theorem forwarded_ack_from_asked_member_answers_the_round (hd : DistinctAddrs ids) {s s' : State} {data : Bytes}
    {orc left : Oracle} {eff : List Effect} (hs : CalmInv E τ ids s) (hreach : Reachable E s)
    (hnu : s.conn ≠ .undead) (hdat : DataOk E (CalmM τ ids) (CalmH τ ids) data)
    (hstep : Foca.step E s (.data data) orc = .done s' eff .ok left)
    (h : Header) (rest : Bytes) (hdec : E.codec.decHeader data = some (h, rest)) (hdst : h.dst = s.id)
    (o : Id) (n : Nat) (hmsg : h.msg = .forwardedAck o n) (hnum : s.probe.number = n)
    (hasked : h.src ∈ s.probe.indirect) : s'.probe.succeeded = true := by
  have hrun := step_data_ok E hstep
  have hc0 : CalmSent E τ ids (fun _ => True) (Ctx.mk s [] orc).s (Ctx.mk s [] orc).eff :=
    ⟨hs, by intro e he; simp at he⟩
  exact forwarded_ack_answers_round E τ ids (fun _ => True) hd data _ _ hc0 (MsInv.reachable E hreach) hnu hdat hrun
    h rest hdec hdst o n hmsg hnum hasked

end

/-! ### the whole reply table, hop by hop -/

/-- **Every request is answered as the reply table says** — Ping with Ack, PingReq with an IndirectPing to the named
    target, IndirectPing with IndirectAck, IndirectAck with a ForwardedAck to the named origin, Announce with Feed:
    a reachable calm instance that is not defunct and successfully handled such a request addressed to it has sent,
    as the last datagram of the call, at most `max_packet_size` bytes to the table's destination whose header a peer
    reads back as the table's answer from the instance's own identity and incarnation. The relay of C12 ("preserves
    origin, target and probe number end to end") as a statement about the datagrams, hop by hop. -/
theorem request_is_answered_as_the_table_says (E : Env) (τ : Id → Nat) (ids : List Id) (hhdr : HeaderLaw E.codec)
    (hd : DistinctAddrs ids) {s s' : State} {data : Bytes} {orc left : Oracle} {eff : List Effect}
    (hs : CalmInv E τ ids s) (hreach : Reachable E s) (hnu : s.conn ≠ .undead)
    (hdat : DataOk E (CalmM τ ids) (CalmH τ ids) data)
    (hstep : Foca.step E s (.data data) orc = .done s' eff .ok left)
    (h : Header) (rest : Bytes) (hdec : E.codec.decHeader data = some (h, rest)) (hdst : h.dst = s.id)
    (d : Id) (r : Msg) (hreply : C18.replyOf h.src h.msg = some (d, r)) :
    ∃ pre bytes, eff = pre ++ [.send d bytes] ∧ bytes.length ≤ s'.cfg.mps ∧
      (E.codec.decHeader bytes).map (·.1) = some ⟨s'.id, s'.inc, d, r⟩ := by
  have hrun := step_data_ok E hstep
  have hc0 : CalmSent E τ ids (fun _ => True) (Ctx.mk s [] orc).s (Ctx.mk s [] orc).eff :=
    ⟨hs, by intro e he; simp at he⟩
  have hpost := (CalmP.handleData E τ ids (fun _ => True) hd data hdat (fun _ _ _ _ _ _ _ => trivial)).run _ hc0
  rw [hrun] at hpost
  simp only at hpost
  have hconn := calm_receiver_ends_up_connected E τ ids hd hs (MsInv.reachable E hreach) hnu hdat hstep h rest hdec hdst
  obtain ⟨pre, bytes, he, hlen, hshape⟩ :=
    request_is_answered E τ ids (fun _ => True) hd data _ _ hc0 hdat hrun h rest hdec hdst d r hreply hconn
  refine ⟨pre, bytes, he, hlen, ?_⟩
  obtain ⟨hh, _⟩ := hdat h rest hdec
  obtain ⟨hdw, hrw⟩ := reply_wire hh.1 hreply
  have hw : HWire ⟨s'.id, s'.inc, d, r⟩ := by
    refine ⟨hpost.1.1.1, ?_, hdw, hrw⟩
    show s'.inc < 65536
    rw [hpost.1.2.1.1]; omega
  exact shape_header E hhdr hshape hw


/-! ### non-vacuity: the worked example of `C12H` (instance 1 learns member 2, starts a round for it under number 1,
   the Ack numbered 1 from member 2 arrives) meets every premise of `round_answered_when_ack_handled` -/

def exIds : List Id := [⟨1, 0⟩, ⟨2, 0⟩]

theorem exIds_distinct : DistinctAddrs exIds := by
  intro a ha b hb hab
  simp only [exIds, List.mem_cons, List.mem_nil_iff, or_false] at ha hb
  rcases ha with rfl | rfl <;> rcases hb with rfl | rfl <;> simp_all

theorem exS2_calm : CalmInv C08H.exEnv (fun _ => 0) exIds C12H.exS2 := by
  have hms : C12H.exS2.ms = [⟨⟨2, 0⟩, 0, .alive⟩] := by decide
  have hup : C12H.exS2.updates = [] := by decide
  have hcu : C12H.exS2.custom = [] := by decide
  refine ⟨⟨by unfold IdWire; decide, by decide⟩, ⟨by decide, by decide⟩, ?_, ?_, ?_⟩
  · intro m hm
    rw [hms] at hm
    simp only [List.mem_singleton] at hm
    subst hm
    exact ⟨⟨⟨by unfold IdWire; decide, by decide⟩, by decide⟩, rfl, by decide, rfl⟩
  · intro e he; rw [hup] at he; simp at he
  · intro e he; rw [hcu] at he; simp at he

theorem exAck_calm : DataOk C08H.exEnv (CalmM (fun _ => 0) exIds) (CalmH (fun _ => 0) exIds) C12H.exAck := by
  intro h rest hdec
  have hd : C08H.exEnv.codec.decHeader C12H.exAck = some (⟨⟨2, 0⟩, 0, ⟨1, 0⟩, .ack 1⟩, []) := by decide
  rw [hd] at hdec
  simp only [Option.some.injEq, Prod.mk.injEq] at hdec
  obtain ⟨rfl, rfl⟩ := hdec
  refine ⟨⟨⟨by unfold IdWire; decide, by decide, by unfold IdWire; decide, by simp [MsgWire]⟩, by decide, by decide, by simp, rfl⟩, ?_⟩
  intro us tail hp
  have : parseSection C08H.exEnv ⟨⟨2, 0⟩, 0, ⟨1, 0⟩, .ack 1⟩ [] = some ([], []) := by decide
  rw [this] at hp
  simp only [Option.some.injEq, Prod.mk.injEq] at hp
  obtain ⟨rfl, _⟩ := hp
  intro u hu; simp at hu

set_option maxRecDepth 8000 in
example : RoundAnswered C12H.exS3 :=
  round_answered_when_ack_handled C08H.exEnv (fun _ => 0) exIds exIds_distinct ⟨⟨2, 0⟩, 0, .alive⟩ 1
    (s0 := C12H.exS2) (s1 := C12H.exS2) (s2 := C12H.exS3) (ops1 := []) (ops2 := [])
    (by decide) (by decide) (Hist.refl _) (by simp) exS2_calm (orc := ⟨[], []⟩) exAck_calm (by rfl)
    ⟨⟨2, 0⟩, 0, ⟨1, 0⟩, .ack 1⟩ [] (by decide) (by decide) rfl rfl (Hist.refl _) (by simp)

end Foca.C12S
