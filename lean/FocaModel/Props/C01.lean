/-
  C01 — membership knowledge is a join-semilattice (SWIM precedence order).
  Property theorems only; helper lemmas live in Proofs/Lattice.lean and Proofs/View.lean.
  `Gen.canChange` / `Gen.isActive` are regenerated from /repo/src/member.rs on every run.
-/
import FocaModel.Proofs.View
namespace Foca.C01
open Foca

/-- The generated precedence table is the strict order "Down on top, then incarnation, then
    Suspect over Alive" — for the full `u16` incarnation range, boundaries included. -/
theorem precedence_is_rank_order (st st' : St) (inc inc' : Nat) (h : inc ≤ 65535) (h' : inc' ≤ 65535) :
    Gen.canChange st inc inc' st' = true ↔ rank st inc < rank st' inc' :=
  canChange_iff_lt st st' inc inc' h h'

/-- Down overrides everything … -/
theorem down_overrides (st : St) (inc inc' : Nat) (h : st ≠ .down) : Gen.canChange st inc inc' .down = true := by
  cases st <;> simp_all [Gen.canChange]

/-- … and is final: no update changes a Down record of the same identity, under any condition. -/
theorem down_is_final (k u : Member) (cond : Member → Bool) (hk : k.st = .down) (hid : u.id = k.id) :
    (updateKnown k u cond).1 = k := by
  unfold updateKnown
  cases hc : cond k <;> simp [hid, hk, Gen.canChange]

/-- Among identities sharing an address the conflict winner supersedes the other whatever their states. -/
theorem conflict_winner_supersedes (k u : Member) (hne : k.id ≠ u.id) (hw : k.id.wins u.id = false) :
    merge k u = u := by
  unfold merge updateKnown
  simp [hne, hw]

theorem conflict_loser_discarded (k u : Member) (hne : k.id ≠ u.id) (hw : k.id.wins u.id = true) :
    merge k u = k := by
  unfold merge updateKnown
  simp [hne, hw]

/-- One accepted update is a join at its address and touches no other address — for every insertion
    index the RNG may draw. -/
theorem apply_is_join (ms : List Member) (u : Member) (j : Nat) (hw : AllWF ms) (hu : u.WF) (a : Nat) :
    viewKey (applyP ms u j) a = if a = u.id.addr then omax (viewKey ms a) (some (key u)) else viewKey ms a :=
  viewKey_applyP ms u j hw hu a

/-- What equality of views means: same identity, same state, same incarnation unless Down. -/
theorem equal_keys_mean_equal_records (a b : Member) (ha : a.WF) (hb : b.WF) (had : a.id.addr = b.id.addr)
    (h : key a = key b) : a.id = b.id ∧ a.st = b.st ∧ (a.st ≠ .down → a.inc = b.inc) :=
  key_inj a b ha hb had h

/-- The view produced by a collection of updates is the same for every order of delivery
    (and every sequence of RNG draws). -/
theorem order_irrelevant (ms us₁ us₂ : List Member) (js₁ js₂ : List Nat) (hp : us₁.Perm us₂)
    (hw : AllWF ms) (hu : AllWF us₁) (a : Nat) :
    viewKey (applyAll ms us₁ js₁) a = viewKey (applyAll ms us₂ js₂) a := by
  have hu₂ : AllWF us₂ := fun m hm => hu m (hp.mem_iff.2 hm)
  rw [viewKey_applyAll ms us₁ js₁ hw hu, viewKey_applyAll ms us₂ js₂ hw hu₂, viewKey_perm hp]

/-- … and for every multiplicity: only the *set* of updates matters. -/
theorem multiplicity_irrelevant (ms us₁ us₂ : List Member) (js₁ js₂ : List Nat)
    (hs : ∀ m, m ∈ us₁ ↔ m ∈ us₂) (hw : AllWF ms) (hu : AllWF us₁) (a : Nat) :
    viewKey (applyAll ms us₁ js₁) a = viewKey (applyAll ms us₂ js₂) a := by
  have hu₂ : AllWF us₂ := fun m hm => hu m ((hs m).2 hm)
  rw [viewKey_applyAll ms us₁ js₁ hw hu, viewKey_applyAll ms us₂ js₂ hw hu₂, viewKey_set_eq hs]

/-- Views only move forward: an applied batch never lowers the key of any address. -/
theorem monotone (ms us : List Member) (js : List Nat) (hw : AllWF ms) (hu : AllWF us) (a k : Nat)
    (h : viewKey ms a = some k) : ∃ k', viewKey (applyAll ms us js) a = some k' ∧ k ≤ k' := by
  rw [viewKey_applyAll ms us js hw hu, h]
  cases viewKey us a with
  | none => exact ⟨k, rfl, Nat.le_refl _⟩
  | some y => exact ⟨max k y, rfl, Nat.le_max_left _ _⟩

def NodupAddr (ms : List Member) : Prop := (ms.map (·.id.addr)).Nodup

theorem canChange_irrefl (st : St) (inc : Nat) : Gen.canChange st inc inc st = false := by
  cases st <;> simp [Gen.canChange]

theorem applyExisting_self {ms : List Member} (hn : NodupAddr ms) {m : Member} (hm : m ∈ ms) :
    ∃ s, applyExisting ms m (fun _ => true) = some (ms, s) := by
  induction ms with
  | nil => simp at hm
  | cons k rest ih =>
    unfold NodupAddr at hn
    simp only [List.map_cons, List.nodup_cons] at hn
    unfold applyExisting
    by_cases hk : k.id.addr = m.id.addr
    · have hkm : m = k := by
        simp at hm
        rcases hm with h | h
        · exact h
        · exfalso; apply hn.1; rw [hk]; exact List.mem_map.2 ⟨m, h, rfl⟩
      subst hkm
      simp [updateKnown, canChange_irrefl]
    · have hk' : (k.id.addr == m.id.addr) = false := by simpa using hk
      have hm' : m ∈ rest := by
        simp at hm
        rcases hm with h | h
        · subst h; exact absurd rfl hk
        · exact h
      obtain ⟨s, hs⟩ := ih hn.2 hm'
      simp [hk', hs]

/-- Re-applying an instance's own full state changes nothing (records, order, everything). -/
theorem reapply_own_state_is_noop (ms : List Member) (hn : NodupAddr ms) (js : List Nat) :
    applyAll ms ms js = ms := by
  suffices h : ∀ (us : List Member) (js : List Nat), (∀ m ∈ us, m ∈ ms) → applyAll ms us js = ms from
    h ms js (fun _ h => h)
  intro us
  induction us with
  | nil => intros; rfl
  | cons u us ih =>
    intro js hsub
    obtain ⟨s, hs⟩ := applyExisting_self hn (hsub u (by simp))
    simp only [applyAll, applyP, hs]
    exact ih _ (fun m hm => hsub m (by simp [hm]))

/-- After two instances exchange their full membership states in both directions their views
    agree on every address (at this layer; the instance-level wrapper excludes the two own addresses). -/
theorem exchange_agrees (a b : List Member) (ja jb : List Nat) (ha : AllWF a) (hb : AllWF b) (x : Nat) :
    viewKey (applyAll a b ja) x = viewKey (applyAll b a jb) x := by
  rw [viewKey_applyAll a b ja ha hb, viewKey_applyAll b a jb hb ha, omax_comm]

/-! Non-vacuity: concrete states meet every hypothesis, with an address conflict and boundary incarnations. -/
def exA : List Member := [⟨⟨2, 0⟩, 65535, .suspect⟩, ⟨⟨3, 1⟩, 0, .down⟩, ⟨⟨4, 2⟩, 7, .alive⟩]
def exB : List Member := [⟨⟨2, 1⟩, 0, .alive⟩, ⟨⟨3, 1⟩, 9, .alive⟩, ⟨⟨5, 0⟩, 65534, .alive⟩]

example : AllWF exA ∧ AllWF exB ∧ NodupAddr exA := by
  refine ⟨?_, ?_, ?_⟩
  · intro m hm; simp [exA] at hm; rcases hm with h | h | h <;> subst h <;> simp [Member.WF]
  · intro m hm; simp [exB] at hm; rcases hm with h | h | h <;> subst h <;> simp [Member.WF]
  · simp [NodupAddr, exA]

example : viewKey (applyAll exA exB [0, 1]) 2 = some (1 * 262144 + 0)
    ∧ viewKey (applyAll exA exB []) 3 = some (1 * 262144 + 131072) := by decide

end Foca.C01
