/-
  A cluster: several instances, the datagrams they have handed to their runtimes, the timers they have scheduled.
  Delivery is at-least-once-or-never (a datagram stays on the wire: it may be delivered again, to anybody, or
  never), timers fire in any order and any number of times, API calls happen at any time: every behaviour of a
  real network and runtime is a behaviour of this model. `sent` is a log of the headers of all datagrams sent so
  far, as the codec reads them back (a ghost: nothing depends on it).
-/
import FocaModel.Foca
namespace Foca

structure Net where
  nodes : List State
  wire : List (Id × Bytes)
  timers : List (Nat × Timer)
  sent : List Header

def sentDatagrams (eff : List Effect) : List (Id × Bytes) :=
  eff.filterMap (fun e => match e with | .send d b => some (d, b) | _ => none)

def schedTimers (i : Nat) (eff : List Effect) : List (Nat × Timer) :=
  eff.filterMap (fun e => match e with | .timer _ t => some (i, t) | _ => none)

def sentHeaders (E : Env) (eff : List Effect) : List Header :=
  eff.filterMap (fun e => match e with | .send _ b => (E.codec.decHeader b).map (·.1) | _ => none)

/-- the cluster after node `i` made a call that left it in `s'` with effects `eff` -/
def Net.after (E : Env) (n : Net) (i : Nat) (s' : State) (eff : List Effect) : Net :=
  { nodes := n.nodes.set i s', wire := n.wire ++ sentDatagrams eff, timers := n.timers ++ schedTimers i eff,
    sent := n.sent ++ sentHeaders E eff }

/-- the API calls of a running cluster (everything but `apply_many`, whose input is knowledge supplied from
    outside the cluster) -/
def Op.isApi : Op → Bool
  | .applyMany _ _ => false
  | .data _ => false
  | .timer _ => false
  | _ => true

/-- the highest incarnation identity `id` has announced for itself: the largest source incarnation among the
    headers it sent -/
def toldBy (sent : List Header) (id : Id) : Nat :=
  ((sent.filter (fun h => h.src == id)).map (·.srcInc)).foldl max 0

end Foca
