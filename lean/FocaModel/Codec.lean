/-
  L4: byte-level models of the codecs the harness runs:
  * `fixedCodec`   — the harness's hand-written fixed-width codec,
  * `postcardCodec` — `foca::PostcardCodec` on `Header<VId>` / `Member<VId>` (serde derive, LEB128 varints),
  * `bincodeCodec` — `foca::BincodeCodec(bincode::config::standard())` (marker varints, little endian),
  * `packedCodec` — the harness's hand-written variable-width codec with the shortest possible headers.
  The identity type `VId { addr: u16, gen: u16 }` serialises its two fields in order.
-/
import FocaModel.Basic
namespace Foca

def msgTag : Msg → Nat
  | .ping _ => 0 | .ack _ => 1 | .pingReq _ _ => 2 | .indirectPing _ _ => 3
  | .indirectAck _ _ => 4 | .forwardedAck _ _ => 5 | .announce => 6 | .feed => 7
  | .gossip => 8 | .broadcast => 9 | .turnUndead => 10

def stTag : St → Nat
  | .alive => 0 | .suspect => 1 | .down => 2

def stOfTag : Nat → Option St
  | 0 => some .alive | 1 => some .suspect | 2 => some .down | _ => none

/-- The integer primitives a codec is built from: how it writes a `u16`, a `u8`, an enum tag. -/
inductive FailMode | clean | pieces | greedy
deriving DecidableEq, Repr

structure IntCodec where
  /-- what a failed `encode_member` does to the remaining-space counter: nothing (checks up
      front), keeps the primitives that fitted (postcard `try_extend`), or fills the buffer
      (bincode through `io::Write::write_all`) -/
  failMode : FailMode
  encU16 : Nat → Bytes
  decU16 : Bytes → Option (Nat × Bytes)
  encU8 : Nat → Bytes
  decU8 : Bytes → Option (Nat × Bytes)
  encTag : Nat → Bytes
  decTag : Bytes → Option (Nat × Bytes)

section generic
variable (I : IntCodec)

def encId (i : Id) : Bytes := I.encU16 i.addr ++ I.encU16 i.gen

def decId (b : Bytes) : Option (Id × Bytes) :=
  match I.decU16 b with
  | none => none
  | some (a, b1) =>
    match I.decU16 b1 with
    | none => none
    | some (g, b2) => some (⟨a, g⟩, b2)

def encMsg : Msg → Bytes
  | .ping n => I.encTag 0 ++ I.encU8 n
  | .ack n => I.encTag 1 ++ I.encU8 n
  | .pingReq t n => I.encTag 2 ++ encId I t ++ I.encU8 n
  | .indirectPing o n => I.encTag 3 ++ encId I o ++ I.encU8 n
  | .indirectAck t n => I.encTag 4 ++ encId I t ++ I.encU8 n
  | .forwardedAck o n => I.encTag 5 ++ encId I o ++ I.encU8 n
  | .announce => I.encTag 6
  | .feed => I.encTag 7
  | .gossip => I.encTag 8
  | .broadcast => I.encTag 9
  | .turnUndead => I.encTag 10

def decIdNum (b : Bytes) : Option (Id × Nat × Bytes) :=
  match decId I b with
  | none => none
  | some (i, b1) =>
    match I.decU8 b1 with
    | none => none
    | some (n, b2) => some (i, n, b2)

def decMsg (b : Bytes) : Option (Msg × Bytes) :=
  match I.decTag b with
  | none => none
  | some (t, b1) =>
    match t with
    | 0 => (I.decU8 b1).map fun (n, r) => (.ping n, r)
    | 1 => (I.decU8 b1).map fun (n, r) => (.ack n, r)
    | 2 => (decIdNum I b1).map fun (i, n, r) => (.pingReq i n, r)
    | 3 => (decIdNum I b1).map fun (i, n, r) => (.indirectPing i n, r)
    | 4 => (decIdNum I b1).map fun (i, n, r) => (.indirectAck i n, r)
    | 5 => (decIdNum I b1).map fun (i, n, r) => (.forwardedAck i n, r)
    | 6 => some (.announce, b1)
    | 7 => some (.feed, b1)
    | 8 => some (.gossip, b1)
    | 9 => some (.broadcast, b1)
    | 10 => some (.turnUndead, b1)
    | _ => none

def encHeaderG (h : Header) : Bytes :=
  encId I h.src ++ I.encU16 h.srcInc ++ encId I h.dst ++ encMsg I h.msg

def decHeaderG (b : Bytes) : Option (Header × Bytes) :=
  match decId I b with
  | none => none
  | some (src, b1) =>
    match I.decU16 b1 with
    | none => none
    | some (inc, b2) =>
      match decId I b2 with
      | none => none
      | some (dst, b3) =>
        match decMsg I b3 with
        | none => none
        | some (m, b4) => some (⟨src, inc, dst, m⟩, b4)

def encMemberG (m : Member) : Bytes :=
  encId I m.id ++ I.encU16 m.inc ++ I.encTag (stTag m.st)

def decMemberG (b : Bytes) : Option (Member × Bytes) :=
  match decId I b with
  | none => none
  | some (i, b1) =>
    match I.decU16 b1 with
    | none => none
    | some (inc, b2) =>
      match I.decTag b2 with
      | none => none
      | some (t, b3) =>
        match stOfTag t with
        | none => none
        | some st => some (⟨i, inc, st⟩, b3)

/-- space used by the longest prefix of `pieces` that fits -/
def prefixFit : List Bytes → Nat → Nat
  | [], _ => 0
  | p :: ps, rem => if p.length ≤ rem then p.length + prefixFit ps (rem - p.length) else 0

def failUseG (m : Member) (rem : Nat) : Nat :=
  match I.failMode with
  | .clean => 0
  | .pieces => prefixFit [I.encU16 m.id.addr, I.encU16 m.id.gen, I.encU16 m.inc, I.encTag (stTag m.st)] rem
  | .greedy => rem

def mkCodec : Codec :=
  { encHeader := encHeaderG I, decHeader := decHeaderG I, encMember := encMemberG I, decMember := decMemberG I,
    failUse := failUseG I }

end generic

/-! ### fixed width: u16 big endian, u8, tag = u8 -/

def decRawU8 : Bytes → Option (Nat × Bytes)
  | [] => none
  | a :: r => some (a, r)

def decU16be : Bytes → Option (Nat × Bytes)
  | a :: b :: r => some (a * 256 + b, r)
  | _ => none

def fixedInt : IntCodec :=
  { failMode := .clean, encU16 := u16be, decU16 := decU16be, encU8 := fun n => [n % 256], decU8 := decRawU8,
    encTag := fun n => [n % 256], decTag := decRawU8 }

def fixedCodec : Codec := mkCodec fixedInt

/-! ### postcard: LEB128 varints (u16: ≤ 3 bytes, last ≤ 3; u32 tags: ≤ 5 bytes, last ≤ 15), raw u8 -/

/-- LEB128 of `n`, at most `fuel + 1` bytes. -/
def leb (fuel : Nat) (n : Nat) : Bytes :=
  match fuel with
  | 0 => [n % 128]
  | f + 1 => if n < 128 then [n] else (n % 128 + 128) :: leb f (n / 128)

/-- postcard `try_take_varint_*`: at most `maxBytes` bytes, the last one `≤ lastMax`;
    `i` is the index of the byte being read. -/
def unleb (maxBytes lastMax : Nat) : Nat → Nat → Bytes → Option (Nat × Bytes)
  | _, _, [] => none
  | 0, _, _ :: _ => none
  | fuel + 1, i, v :: r =>
    if v < 128 then
      if i + 1 == maxBytes && v > lastMax then none else some (v * 128 ^ i, r)
    else
      match unleb maxBytes lastMax fuel (i + 1) r with
      | none => none
      | some (hi, r') => some ((v - 128) * 128 ^ i + hi, r')

def postcardInt : IntCodec :=
  { failMode := .pieces, encU16 := leb 2, decU16 := fun b => (unleb 3 3 3 0 b).map fun (n, r) => (n % 65536, r),
    encU8 := fun n => [n % 256], decU8 := decRawU8,
    encTag := leb 4, decTag := fun b => unleb 5 15 5 0 b }

def postcardCodec : Codec := mkCodec postcardInt

/-! ### bincode standard(): `< 251` one byte; 251 + u16 LE; 252 + u32 LE (tags are u32); raw u8 -/

def bincodeEnc (n : Nat) : Bytes :=
  if n < 251 then [n]
  else if n < 65536 then [251, n % 256, n / 256 % 256]
  else [252, n % 256, n / 256 % 256, n / 65536 % 256, n / 16777216 % 256]

def bincodeDecU16 : Bytes → Option (Nat × Bytes)
  | [] => none
  | d :: r =>
    if d < 251 then some (d, r)
    else if d == 251 then
      match r with
      | a :: b :: r' => some (a + 256 * b, r')
      | _ => none
    else none

def bincodeDecU32 : Bytes → Option (Nat × Bytes)
  | [] => none
  | d :: r =>
    if d < 251 then some (d, r)
    else if d == 251 then
      match r with
      | a :: b :: r' => some (a + 256 * b, r')
      | _ => none
    else if d == 252 then
      match r with
      | a :: b :: c :: e :: r' => some (a + 256 * b + 65536 * c + 16777216 * e, r')
      | _ => none
    else none

def bincodeInt : IntCodec :=
  { failMode := .greedy, encU16 := bincodeEnc, decU16 := bincodeDecU16, encU8 := fun n => [n % 256], decU8 := decRawU8,
    encTag := bincodeEnc, decTag := bincodeDecU32 }

def bincodeCodec : Codec := mkCodec bincodeInt

/-! ### packed: a hand-written codec with the shortest headers a codec can reasonably have (small identities
    in one byte, small incarnations in one byte): a Feed header is 4 bytes. Exercises everything in the sending
    path that estimates sizes from the header length. -/

def packedEncId (i : Id) : Bytes :=
  if i.addr < 15 && i.gen < 16 then [i.addr * 16 + i.gen] else [255] ++ u16be i.addr ++ u16be i.gen

def packedDecId : Bytes → Option (Id × Bytes)
  | [] => none
  | a :: r =>
    if a == 255 then
      match r with
      | x :: y :: z :: w :: r' => some (⟨x * 256 + y, z * 256 + w⟩, r')
      | _ => none
    else some (⟨a / 16, a % 16⟩, r)

def packedEncInc (n : Nat) : Bytes := if n < 255 then [n] else [255] ++ u16be n

def packedDecInc : Bytes → Option (Nat × Bytes)
  | [] => none
  | a :: r =>
    if a == 255 then
      match r with
      | x :: y :: r' => some (x * 256 + y, r')
      | _ => none
    else some (a, r)

def packedEncMsg : Msg → Bytes
  | .ping n => [0, n % 256]
  | .ack n => [1, n % 256]
  | .pingReq t n => [2] ++ packedEncId t ++ [n % 256]
  | .indirectPing o n => [3] ++ packedEncId o ++ [n % 256]
  | .indirectAck t n => [4] ++ packedEncId t ++ [n % 256]
  | .forwardedAck o n => [5] ++ packedEncId o ++ [n % 256]
  | .announce => [6]
  | .feed => [7]
  | .gossip => [8]
  | .broadcast => [9]
  | .turnUndead => [10]

def packedDecIdNum (b : Bytes) : Option (Id × Nat × Bytes) :=
  match packedDecId b with
  | none => none
  | some (i, b1) =>
    match b1 with
    | [] => none
    | n :: b2 => some (i, n, b2)

def packedDecMsg : Bytes → Option (Msg × Bytes)
  | [] => none
  | t :: b1 =>
    match t with
    | 0 => (decRawU8 b1).map fun (n, r) => (.ping n, r)
    | 1 => (decRawU8 b1).map fun (n, r) => (.ack n, r)
    | 2 => (packedDecIdNum b1).map fun (i, n, r) => (.pingReq i n, r)
    | 3 => (packedDecIdNum b1).map fun (i, n, r) => (.indirectPing i n, r)
    | 4 => (packedDecIdNum b1).map fun (i, n, r) => (.indirectAck i n, r)
    | 5 => (packedDecIdNum b1).map fun (i, n, r) => (.forwardedAck i n, r)
    | 6 => some (.announce, b1)
    | 7 => some (.feed, b1)
    | 8 => some (.gossip, b1)
    | 9 => some (.broadcast, b1)
    | 10 => some (.turnUndead, b1)
    | _ => none

def packedEncHeader (h : Header) : Bytes :=
  packedEncId h.src ++ packedEncInc h.srcInc ++ packedEncId h.dst ++ packedEncMsg h.msg

def packedDecHeader (b : Bytes) : Option (Header × Bytes) :=
  match packedDecId b with
  | none => none
  | some (src, b1) =>
    match packedDecInc b1 with
    | none => none
    | some (inc, b2) =>
      match packedDecId b2 with
      | none => none
      | some (dst, b3) =>
        match packedDecMsg b3 with
        | none => none
        | some (m, b4) => some (⟨src, inc, dst, m⟩, b4)

def packedEncMember (m : Member) : Bytes := packedEncId m.id ++ packedEncInc m.inc ++ [stTag m.st]

def packedDecMember (b : Bytes) : Option (Member × Bytes) :=
  match packedDecId b with
  | none => none
  | some (i, b1) =>
    match packedDecInc b1 with
    | none => none
    | some (inc, b2) =>
      match b2 with
      | [] => none
      | t :: b3 =>
        match stOfTag t with
        | none => none
        | some st => some (⟨i, inc, st⟩, b3)

/-- checks the space up front: a failed `encode_member` writes nothing -/
def packedCodec : Codec :=
  { encHeader := packedEncHeader, decHeader := packedDecHeader, encMember := packedEncMember,
    decMember := packedDecMember, failUse := fun _ _ => 0 }

/-! ### unbounded: a codec for the model's own value space (natural numbers of any size), self-delimiting unary.
    Not a codec anybody would ship; it exists to show that the codec contract the whole-history theorems assume
    ("reads back every header and member it wrote") is satisfiable over *all* model values, so that those theorems
    are not vacuous. -/

def encNat (n : Nat) : Bytes := List.replicate n 1 ++ [0]

def decNat : Bytes → Option (Nat × Bytes)
  | [] => none
  | b :: r => if b == 0 then some (0, r) else (decNat r).map fun (n, r') => (n + 1, r')

def natEncId (i : Id) : Bytes := encNat i.addr ++ encNat i.gen

def natDecId (b : Bytes) : Option (Id × Bytes) :=
  match decNat b with
  | none => none
  | some (a, b1) =>
    match decNat b1 with
    | none => none
    | some (g, b2) => some (⟨a, g⟩, b2)

def natEncMsg : Msg → Bytes
  | .ping n => encNat 0 ++ encNat n
  | .ack n => encNat 1 ++ encNat n
  | .pingReq t n => encNat 2 ++ natEncId t ++ encNat n
  | .indirectPing o n => encNat 3 ++ natEncId o ++ encNat n
  | .indirectAck t n => encNat 4 ++ natEncId t ++ encNat n
  | .forwardedAck o n => encNat 5 ++ natEncId o ++ encNat n
  | .announce => encNat 6
  | .feed => encNat 7
  | .gossip => encNat 8
  | .broadcast => encNat 9
  | .turnUndead => encNat 10

def natDecIdNum (b : Bytes) : Option (Id × Nat × Bytes) :=
  match natDecId b with
  | none => none
  | some (i, b1) =>
    match decNat b1 with
    | none => none
    | some (n, b2) => some (i, n, b2)

def natDecMsg (b : Bytes) : Option (Msg × Bytes) :=
  match decNat b with
  | none => none
  | some (t, b1) =>
    match t with
    | 0 => (decNat b1).map fun (n, r) => (.ping n, r)
    | 1 => (decNat b1).map fun (n, r) => (.ack n, r)
    | 2 => (natDecIdNum b1).map fun (i, n, r) => (.pingReq i n, r)
    | 3 => (natDecIdNum b1).map fun (i, n, r) => (.indirectPing i n, r)
    | 4 => (natDecIdNum b1).map fun (i, n, r) => (.indirectAck i n, r)
    | 5 => (natDecIdNum b1).map fun (i, n, r) => (.forwardedAck i n, r)
    | 6 => some (.announce, b1)
    | 7 => some (.feed, b1)
    | 8 => some (.gossip, b1)
    | 9 => some (.broadcast, b1)
    | 10 => some (.turnUndead, b1)
    | _ => none

def natEncHeader (h : Header) : Bytes := natEncId h.src ++ encNat h.srcInc ++ natEncId h.dst ++ natEncMsg h.msg

def natDecHeader (b : Bytes) : Option (Header × Bytes) :=
  match natDecId b with
  | none => none
  | some (src, b1) =>
    match decNat b1 with
    | none => none
    | some (inc, b2) =>
      match natDecId b2 with
      | none => none
      | some (dst, b3) =>
        match natDecMsg b3 with
        | none => none
        | some (m, b4) => some (⟨src, inc, dst, m⟩, b4)

def natEncMember (m : Member) : Bytes := natEncId m.id ++ encNat m.inc ++ encNat (stTag m.st)

def natDecMember (b : Bytes) : Option (Member × Bytes) :=
  match natDecId b with
  | none => none
  | some (i, b1) =>
    match decNat b1 with
    | none => none
    | some (inc, b2) =>
      match decNat b2 with
      | none => none
      | some (t, b3) =>
        match stOfTag t with
        | none => none
        | some st => some (⟨i, inc, st⟩, b3)

def natCodec : Codec :=
  { encHeader := natEncHeader, decHeader := natDecHeader, encMember := natEncMember, decMember := natDecMember,
    failUse := fun _ _ => 0 }

end Foca
