/-
  L5: model of `lib.rs` — one definition per Rust method, same names, same order of side effects.
  `E : Env` carries what the instance is generic in (codec, broadcast handler, build mode).
-/
import FocaModel.Basic
import FocaModel.Gen.Tables
import FocaModel.Members
import FocaModel.Backlog
namespace Foca

def usizeMax : Nat := 18446744073709551615

/-- `Foca::with_custom_broadcast` -/
def State.init (id : Id) (pol : Policy) (cfg : Config) : State :=
  { id := id, policy := pol, inc := 0, cfg := cfg, conn := .disconnected, token := 0,
    ms := [], cursor := .at 0, numActive := 0, probe := {}, updates := [], custom := [],
    hst := [], sendCap := cfg.mps, epoch := 0 }

/-! ### probe.rs -/

def Probe.clear (p : Probe) : Probe :=
  { p with direct := none, indirect := [], directAckOk := false, indirectAckCount := 0, reached := false }

def Probe.start (p : Probe) (target : Member) : Probe :=
  { p.clear with direct := some target, number := Gen.probeNumberBump p.number }

def Probe.succeeded (p : Probe) : Bool := Gen.probeSucceeded p.directAckOk p.indirectAckCount
def Probe.validate (p : Probe) : Bool := Gen.probeValidate p.direct p.reached

def Probe.isProbing (p : Probe) (id : Id) : Bool :=
  match p.direct with
  | some m => m.id == id
  | none => false

/-- `Probe::take_failed` -/
def Probe.takeFailed (p : Probe) : Option Member × Probe :=
  if !p.succeeded then (p.direct, { p with direct := none }) else (none, p)

/-- `Probe::receive_ack` -/
def Probe.receiveAck (p : Probe) (src : Id) (n : Nat) : Probe :=
  if n == p.number && p.isProbing src then { p with directAckOk := true } else p

/-- `Vec::swap_remove` -/
def swapRemove (l : List α) (i : Nat) : List α := swapRemoveAt l i

/-- `Probe::receive_indirect_ack` -/
def Probe.receiveIndirectAck (p : Probe) (src : Id) (n : Nat) : Probe :=
  if p.number != n then p else
  match p.indirect.findIdx? (· == src) with
  | some pos => { p with indirectAckCount := p.indirectAckCount + 1, indirect := swapRemove p.indirect pos }
  | none => p

section
variable (E : Env)

/-! ### member selection -/

/-- `Members::choose_members` (reservoir sampling); `out` is the output vector, `seen` = `num_seen`. -/
def chooseLoop (wanted : Nat) (pick : Member → Bool) : List Member → List Member → Nat → M (List Member)
  | [], out, _ => pure out
  | m :: rest, out, seen =>
    if !pick m then chooseLoop wanted pick rest out seen
    else if out.length < wanted then chooseLoop wanted pick rest (out ++ [m]) (seen + 1)
    else do
      let r ← drawIdx .range (seen + 1)
      if r < wanted then
        if r < out.length then chooseLoop wanted pick rest (out.set r m) (seen + 1)
        else panicAt .reservoirIndex
      else chooseLoop wanted pick rest out (seen + 1)

/-- `Members::next` -/
def membersNext : M (Option Member) := fun c =>
  if needsShuffle c.s.cursor c.s.ms.length then
    match drawShuffle c.s.ms c with
    | .ok ms c1 =>
      let r := nextPure ms 0
      .ok r.1 { c1 with s := { c1.s with ms := ms, cursor := r.2 } }
    | .err e c1 => .err e c1
    | .stuck x => .stuck x
  else
    let i := match c.s.cursor with | .at i => i | .max => 0
    let r := nextPure c.s.ms i
    .ok r.1 { c with s := { c.s with cursor := r.2 } }

/-- `Members::apply_existing_if` on the instance -/
def membersApplyExistingIf (u : Member) (cond : Member → Bool) : M (Option Summary) := fun c =>
  match applyExisting c.s.ms u cond with
  | some (ms', sm) =>
    .ok (some sm) { c with s := { c.s with ms := ms', numActive := adjustActive c.s.numActive sm } }
  | none => .ok none c

/-- `Members::apply` -/
def membersApply (u : Member) : M Summary := fun c =>
  match applyExisting c.s.ms u (fun _ => true) with
  | some (ms', sm) =>
    .ok sm { c with s := { c.s with ms := ms', numActive := adjustActive c.s.numActive sm } }
  | none =>
    match drawIdx .choose (c.s.ms.length + 1) c with
    | .ok j c1 =>
      let r := applyNew c.s.ms u j
      .ok r.2 { c1 with s := { c1.s with ms := r.1, numActive := if u.active then c.s.numActive + 1 else c.s.numActive } }
    | .err e c1 => .err e c1
    | .stuck x => .stuck x

/-! ### sending -/

/-- `updates.add_or_replace(Addr(id.addr()), serialize_member(m), max_transmissions)` -/
def addUpdate (m : Member) : M Unit :=
  modS fun s =>
    let upd := addOrReplace s.updates Gen.addrInvalidates m.id.addr (E.codec.encMember m) s.cfg.maxTx
    { s with updates := upd }

/-- the Feed loop of `send_message`: encode chosen members until one does not fit -/
def feedLoop : List Member → Nat → Bytes × Nat × Nat
  | [], rem => ([], 0, rem)
  | m :: rest, rem =>
    let b := E.codec.encMember m
    if b.length ≤ rem then
      let r := feedLoop rest (rem - b.length)
      (b ++ r.1, r.2.1 + 1, r.2.2)
    else ([], 0, rem - E.codec.failUse m rem)

/-- the member section of `send_message`: count + (feed members | backlog updates); returns the
    bytes and the space left in the buffer afterwards (`rem0` = space after the header) -/
def memberSection (dst : Id) (msg : Msg) (pick : Pick) (rem0 : Nat) : M (Bytes × Nat) := do
  let s ← getS
  if Gen.needsPiggyback msg && rem0 > Gen.piggybackMinSpace then
    let rem := rem0 - 2
    if Gen.piggybackOnlyActive msg then
      let idLen := (s.cfg.mps - rem) / Gen.feedIdDiv
      if idLen == 0 then panicAt .feedEstimateDiv else
      let cap := max (rem / idLen) Gen.feedMinEstimate
      let chosen ← chooseLoop cap (fun m => m.active && m.id != dst) s.ms [] 0
      let r := feedLoop E chosen.reverse rem
      if E.debug && r.2.1 > 65535 then panicAt .feedCount else
      pure (u16be r.2.1 ++ r.1, r.2.2)
    else
      match fill s.updates rem Gen.fillMaxItems 0 pick.updates with
      | none => badOracle "updates pick"
      | some r =>
        if r.written.length > 65535 then panicAt .fillCount else do
        modS fun s => { s with updates := r.pending ++ r.done }
        pure (u16be r.written.length ++ r.written.flatten, r.space)
  else pure ([], rem0)

/-- the custom-broadcast tail of `send_message` -/
def customTail (dst : Id) (msg : Msg) (pick : Pick) (space : Nat) : M Bytes := do
  let s ← getS
  if space > 0 && Gen.allowCustom msg && E.handler.shouldAdd s.hst dst then
    match fill s.custom space usizeMax Gen.lenPrefix pick.custom with
    | none => badOracle "custom pick"
    | some r =>
      if E.debug && r.written.any (fun d => d.length > 65535) then panicAt .itemLenU16 else do
      modS fun s => { s with custom := r.pending ++ r.done }
      pure (r.written.map (frame Gen.lenPrefix)).flatten
  else pure []

/-- `Foca::send_message` -/
def sendMessage (dst : Id) (msg : Msg) : M Unit := do
  let s ← getS
  if E.debug && s.sendCap != s.cfg.mps then panicAt .sendBufCap else
  let hdr := E.codec.encHeader ⟨s.id, s.inc, dst, msg⟩
  if hdr.length > s.cfg.mps then throwE .encode else
  let pick ← nextPick
  let sect ← memberSection E dst msg pick (s.cfg.mps - hdr.length)
  let tail ← customTail E dst msg pick sect.2
  emit (.send dst (hdr ++ sect.1 ++ tail))

def sendAll (msg : Msg) : List Id → M Unit
  | [] => pure ()
  | d :: rest => do sendMessage E d msg; sendAll msg rest

/-- `Foca::choose_and_send` -/
def chooseAndSend (num : Nat) (msg : Msg) : M Unit := do
  let s ← getS
  let chosen ← chooseLoop num (fun m => m.active) s.ms [] 0
  sendAll E msg (chosen.reverse.map (·.id))

/-- `Foca::gossip` -/
def gossip : M Unit := do
  let s ← getS
  chooseAndSend E s.cfg.k .gossip

/-- `Foca::announce_to_down` -/
def announceToDown (num : Nat) : M Unit := do
  let s ← getS
  let chosen ← chooseLoop num (fun m => !m.active && m.id.addr != s.id.addr) s.ms [] 0
  sendAll E .announce (chosen.reverse.map (·.id))

/-! ### connection state -/

/-- `Foca::reset` -/
def reset : M Unit :=
  modS fun s => { s with conn := .disconnected, inc := 0, token := Gen.tokenBumpReset s.token, probe := s.probe.clear, epoch := s.epoch + 1 }

/-- `Foca::become_disconnected` -/
def becomeDisconnected : M Unit := do
  let s ← getS
  if E.debug && s.numActive != 0 then panicAt .disconnectedMembers else
  modS fun s => { s with conn := .disconnected, token := Gen.tokenBumpDisconnected s.token, probe := s.probe.clear, epoch := s.epoch + 1 }
  emit (.notify .idle)

/-- `Foca::become_undead` -/
def becomeUndead : M Unit := do
  modS fun s => { s with conn := .undead, probe := s.probe.clear, token := Gen.tokenBumpUndead s.token, epoch := s.epoch + 1 }
  emit (.notify .defunct)

/-- `Foca::become_connected` -/
def becomeConnected : M Unit := do
  let s ← getS
  if E.debug && s.numActive == 0 then panicAt .connectedNoMembers else
  modS fun s => { s with conn := .connected }
  emit (.timer s.cfg.probePeriod (.probe s.token))
  match s.cfg.pa with
  | some p => emit (.timer p.freq (.pa s.token))
  | none => pure ()
  match s.cfg.pad with
  | some p => emit (.timer p.freq (.pad s.token))
  | none => pure ()
  match s.cfg.pg with
  | some p => emit (.timer p.freq (.pg s.token))
  | none => pure ()
  emit (.notify .active)

/-- `Foca::adjust_connection_state` -/
def adjustConnectionState : M Unit := do
  let s ← getS
  match s.conn with
  | .disconnected => if s.numActive > 0 then becomeConnected E else pure ()
  | .connected => if s.numActive == 0 then becomeDisconnected E else pure ()
  | .undead => pure ()

/-! ### applying updates -/

/-- `Foca::handle_apply_summary` -/
def handleApplySummary (sm : Summary) (u : Member) (bcast : Bool) : M Unit := do
  if sm.applied then
    if bcast then addUpdate E u
    if !sm.activeNow then
      let s ← getS
      emit (.timer s.cfg.rda (.rm u.id))
  match sm.conflict with
  | .replaced old => emit (.notify (.rename old u.id))
  | _ => pure ()
  if sm.changedActive then
    if sm.activeNow then emit (.notify (.up u.id)) else emit (.notify (.down u.id))

/-- `Foca::apply_update` -/
def applyUpdate (u : Member) (bcast : Bool) : M Bool := do
  let s ← getS
  if E.debug && s.id == u.id then panicAt .applySelf else
  let sm ← membersApply u
  let active := match sm.conflict with
    | .lost => false
    | .failedCondition => false
    | _ => sm.activeNow
  handleApplySummary E sm u bcast
  pure active

/-- `Foca::change_identity` (also the tail of `attempt_rejoin`) -/
def changeIdentity (newId : Id) (pol : Policy) : M Unit := do
  let s ← getS
  if s.id == newId then throwE .sameIdentity else
  let prevDown := s.conn == .undead
  let prev := s.id
  modS fun s => { s with id := newId, policy := pol }
  reset
  if !prevDown then addUpdate E ⟨prev, 0, .down⟩
  gossip E

/-- `Foca::attempt_rejoin` -/
def attemptRejoin : M Bool := do
  let s ← getS
  match renew s.policy s.id with
  | none => pure false
  | some newId =>
    if s.id == newId then pure false
    else if !renewWins s.policy newId s.id then pure false
    else do
      changeIdentity E newId s.policy
      emit (.notify (.rejoin newId))
      pure true

/-- `Foca::handle_self_update` -/
def handleSelfUpdate (inc : Nat) (st : St) : M Unit := do
  match st with
  | .suspect =>
    let s ← getS
    if s.conn == .undead then pure () else
    let increase := Gen.increaseIncarnation s.inc inc
    let inc' := max inc s.inc
    if inc' == 65535 then
      let ok ← attemptRejoin E
      if !ok then becomeUndead
    else
      if increase then modS fun s => { s with inc := Gen.incBump inc' }
      gossip E
  | .alive => pure ()
  | .down =>
    let ok ← attemptRejoin E
    if !ok then becomeUndead

/-- one iteration of the `apply_many` loop -/
def applyOne (u : Member) (bcast : Bool) : M Unit := do
  let s ← getS
  if u.id == s.id then handleSelfUpdate E u.inc u.st
  else if s.id.addr == u.id.addr then do
    let _ ← applyUpdate E ⟨u.id, 0, .down⟩ bcast
  else do
    let _ ← applyUpdate E u bcast

def applyLoop (bcast : Bool) : List Member → M Unit
  | [] => pure ()
  | u :: rest => do applyOne E u bcast; applyLoop bcast rest

/-- `Foca::apply_many` -/
def applyMany (us : List Member) (bcast : Bool) : M Unit := do
  applyLoop E bcast us
  adjustConnectionState E

/-! ### API calls -/

/-- `Foca::broadcast`: loop over the chosen members, stopping once the backlog is drained -/
def broadcastLoop : List Id → M Unit
  | [] => pure ()
  | d :: rest => do
    sendMessage E d .broadcast
    let s ← getS
    if s.custom.length == 0 then pure () else broadcastLoop rest

def broadcastApi : M Unit := do
  let s ← getS
  if s.custom.length == 0 then pure () else
  let chosen ← chooseLoop s.cfg.k (fun m => m.active && E.handler.shouldAdd s.hst m.id) s.ms [] 0
  broadcastLoop E (chosen.reverse.map (·.id))

/-- `Foca::leave_cluster` -/
def leaveCluster : M Unit := do
  let s ← getS
  addUpdate E ⟨s.id, 0, .down⟩
  gossip E
  becomeUndead

/-- `Foca::add_broadcast` -/
def addBroadcast (data : Bytes) : M Bool := do
  let s ← getS
  if data.isEmpty then throwE .malformed
  else if data.length > s.cfg.mps || data.length > 65535 then throwE .dataTooBig
  else
    match E.handler.receive s.hst data none with
    | none => throwE .custom
    | some (none, h') => do modS (fun s => { s with hst := h' }); pure false
    | some (some key, h') => do
      modS fun s => { s with hst := h', custom := addOrReplace s.custom E.handler.invalidates key data s.cfg.maxTx }
      pure true

/-- `Foca::reuse_down_identity` -/
def reuseDownIdentity : M Unit := do
  let s ← getS
  if s.conn != .undead then throwE .notUndead else reset

/-- `Foca::set_config` -/
def setConfig (cfg : Config) : M Unit := do
  let s ← getS
  if Gen.setConfigInvalid s.cfg cfg then throwE .invalidConfig
  else modS fun s => { s with cfg := cfg, sendCap := if s.cfg.mps != cfg.mps then cfg.mps else s.sendCap }

/-- `members.apply_existing_if(update, cond)` followed, when a record was found, by `handle_apply_summary`
    (with broadcasting): the unit in which membership and its notifications change together -/
def applyExistingReport (u : Member) (cond : Member → Bool) : M (Option Summary) := do
  match ← membersApplyExistingIf u cond with
  | some sm => do
    handleApplySummary E sm u true
    pure (some sm)
  | none => pure none

/-- `probe_random_member`, first stage: the previous round's target, if it did not answer, becomes Suspect -/
def probeSuspectFailed : M Unit := do
  let s ← getS
  let tf := s.probe.takeFailed
  modS fun s => { s with probe := tf.2 }
  match tf.1 with
  | some failed =>
    let asSuspect : Member := ⟨failed.id, failed.inc, .suspect⟩
    match ← applyExistingReport E asSuspect (fun _ => true) with
    | some sm =>
      if sm.activeNow then
        let s ← getS
        emit (.timer s.cfg.s2d (.s2d failed.id failed.inc s.token))
    | none => pure ()
  | none => pure ()

/-- `probe_random_member`, second stage: the next member of the round-robin is pinged -/
def probeStartNext : M Unit := do
  match ← membersNext with
  | some member =>
    modS fun s => { s with probe := s.probe.start member }
    let s ← getS
    sendMessage E member.id (.ping s.probe.number)
    emit (.timer s.cfg.probeRtt (.indirect member.id s.token))
  | none => pure ()

/-- `Foca::probe_random_member` -/
def probeRandomMember : M Unit := do
  let s ← getS
  if E.debug && s.conn != .connected then panicAt .probeNotConnected else
  let incomplete := !s.probe.validate
  if incomplete then modS fun s => { s with probe := s.probe.clear }
  probeSuspectFailed E
  probeStartNext E
  let s ← getS
  emit (.timer s.cfg.probePeriod (.probe s.token))
  if incomplete then throwE .incompleteProbe

/-- the `while let Some(chosen) = choice_buf.pop()` loop of `Timer::SendIndirectProbe` -/
def pingReqLoop (probed : Id) : List Id → M Unit
  | [] => pure ()
  | d :: rest => do
    let s ← getS
    if E.debug && !(match s.probe.direct with | some m => m.id != d | none => false) then
      panicAt .expectIndirect
    else
    modS fun s => { s with probe := { s.probe with indirect := s.probe.indirect ++ [d] } }
    sendMessage E d (.pingReq probed s.probe.number)
    pingReqLoop probed rest

/-- `Foca::handle_timer` -/
def handleTimer (t : Timer) : M Unit := do
  let s ← getS
  match t with
  | .indirect probed tok =>
    if tok != s.token then pure () else
    modS fun s => { s with probe := { s.probe with reached := true } }
    if !s.probe.isProbing probed then pure ()
    else if s.probe.succeeded then pure ()
    else if !isActiveId s.ms probed then pure ()
    else
      let chosen ← chooseLoop s.cfg.k (fun m => m.active && m.id != probed) s.ms [] 0
      pingReqLoop E probed (chosen.reverse.map (·.id))
  | .s2d m inc tok =>
    if s.token == tok then
      let asDown : Member := ⟨m, inc, .down⟩
      match ← applyExistingReport E asDown (fun k => k.inc == inc) with
      | some sm =>
        adjustConnectionState E
        if sm.applied && s.cfg.notifyDown then sendMessage E m .turnUndead
      | none => pure ()
    else pure ()
  | .rm down => modS fun s => { s with ms := removeIfDown s.ms down }
  | .probe tok =>
    if tok == s.token then
      if s.conn != .connected then throwE .notConnected else probeRandomMember E
    else pure ()
  | .pa tok =>
    if tok == s.token && s.conn == .connected then
      match s.cfg.pa with
      | some p => do
        emit (.timer p.freq (.pa s.token))
        chooseAndSend E p.num .announce
      | none => pure ()
    else pure ()
  | .pg tok =>
    if tok == s.token && s.conn == .connected then
      match s.cfg.pg with
      | some p => do
        emit (.timer p.freq (.pg s.token))
        if !s.updates.isEmpty || !s.custom.isEmpty then chooseAndSend E p.num .gossip
      | none => pure ()
    else pure ()
  | .pad tok =>
    if tok == s.token && s.conn == .connected then
      match s.cfg.pad with
      | some p => do
        emit (.timer p.freq (.pad s.token))
        announceToDown E p.num
      | none => pure ()
    else pure ()

/-! ### receiving -/

/-- `for _ in 0..num_updates { decode_member? }` -/
def decodeMembers : Nat → Bytes → Option (List Member × Bytes)
  | 0, b => some ([], b)
  | n + 1, b =>
    match E.codec.decMember b with
    | none => none
    | some (m, b') =>
      match decodeMembers n b' with
      | none => none
      | some (ms, b'') => some (m :: ms, b'')

/-- the member section of a datagram (`handle_data`): every kind but Broadcast carries a 16-bit count followed
    by that many members when at least two bytes follow the header; what is left is the custom-broadcast tail -/
def parseSection (h : Header) (rest : Bytes) : Option (List Member × Bytes) :=
  if rest.length ≥ Gen.sectionMinBytes && h.msg != .broadcast then
    match rest with
    | hi :: lo :: r => decodeMembers E (hi * 256 + lo) r
    | _ => none
  else some ([], rest)

/-- the `while data.remaining() > 2` loop of `handle_custom_broadcasts`; `fuel ≥ data.length` -/
def customLoop (sender : Option Id) : Nat → Bytes → M Unit
  | 0, _ => throwE .malformed
  | fuel + 1, data =>
    if data.length > Gen.customLoopBytes then
      match data with
      | hi :: lo :: rest =>
        let len := hi * 256 + lo
        if len == 0 || rest.length < len then throwE .malformed else do
        let pkt := rest.take len
        let s ← getS
        match E.handler.receive s.hst pkt sender with
        | none => throwE .custom
        | some (none, h') => modS fun s => { s with hst := h' }
        | some (some key, h') =>
          modS fun s => { s with hst := h', custom := addOrReplace s.custom E.handler.invalidates key pkt s.cfg.maxTx }
        customLoop sender fuel (rest.drop len)
      | _ => throwE .malformed
    else if data.length > 0 then throwE .malformed
    else pure ()

/-- `Foca::handle_custom_broadcasts` -/
def handleCustomBroadcasts (data : Bytes) (sender : Option Id) : M Unit :=
  if !data.isEmpty && data.length < Gen.customMinBytes then throwE .malformed
  else customLoop E sender (data.length + 1) data

/-- the reply table of `handle_data` (reached only while connected, from an active sender) -/
def reactToMessage (h : Header) : M Unit := do
  let s ← getS
  match h.msg with
  | .ping n => sendMessage E h.src (.ack n)
  | .ack n => modS fun s => { s with probe := s.probe.receiveAck h.src n }
  | .pingReq target n =>
    if target == s.id then throwE .indirectForOurselves
    else sendMessage E target (.indirectPing h.src n)
  | .indirectPing origin n =>
    if origin == s.id then throwE .indirectForOurselves
    else sendMessage E h.src (.indirectAck origin n)
  | .indirectAck target n =>
    if target == s.id then throwE .indirectForOurselves
    else sendMessage E target (.forwardedAck h.src n)
  | .forwardedAck origin n =>
    if origin == s.id then throwE .indirectForOurselves
    else modS fun s => { s with probe := s.probe.receiveIndirectAck h.src n }
  | .announce => sendMessage E h.src .feed
  | .turnUndead => handleSelfUpdate E 0 .down
  | .gossip => pure ()
  | .feed => pure ()
  | .broadcast => pure ()

/-- `handle_data`, sender inactive after its header was applied: the payload is dropped; a TurnUndead is
    still honoured; the sender is told it is down (unless that would be a dead instance answering a TurnUndead) -/
def inactiveSender (h : Header) : M Unit := do
  if h.msg == .turnUndead then handleSelfUpdate E 0 .down
  let s ← getS
  let undeadReplyToUndead := h.msg == .turnUndead && s.conn == .undead
  if s.cfg.notifyDown && !undeadReplyToUndead then sendMessage E h.src .turnUndead

/-- `handle_data`, last stage: react to the message only while connected; report the custom broadcast outcome -/
def replyStage (h : Header) (cres : Option ErrKind) : M Unit := do
  let s ← getS
  if s.conn != .connected then
    match cres with
    | some e => throwE e
    | none => pure ()
  else
    reactToMessage E h
    match cres with
    | some e => throwE e
    | none => pure ()

/-- `Foca::handle_data` -/
def handleData (data : Bytes) : M Unit := do
  let s ← getS
  if data.length > s.cfg.mps then throwE .dataTooBig else
  match E.codec.decHeader data with
  | none => throwE .decode
  | some (h, rest) =>
    if h.src == s.id || h.src.addr == s.id.addr then throwE .fromOurselves else
    let remaining := rest.length
    if remaining == Gen.trailingByteBad || (h.msg == .announce && remaining > 0) then throwE .malformed else
    if !Gen.acceptPayload s.id h.dst h.msg then pure () else
    match parseSection E h rest with
    | none => throwE .decode
    | some (updates, tail) =>
      let senderActive ← applyUpdate E ⟨h.src, h.srcInc, .alive⟩ true
      if !senderActive then inactiveSender E h
      else
        applyMany E updates true
        let cres ← attempt (handleCustomBroadcasts E tail (some h.src))
        replyStage E h cres

/-! ### one public call -/

inductive Op
  | applyMany (us : List Member) (bcast : Bool)
  | data (b : Bytes)
  | timer (t : Timer)
  | announce (dst : Id)
  | gossip | broadcast | leave
  | addBroadcast (b : Bytes)
  | changeIdentity (id : Id) (pol : Policy)
  | reuseDown
  | setConfig (c : Config)
deriving Repr

/-- the return value of a call, errors erased to their kind -/
inductive Res | ok | okBool (b : Bool) | err (e : ErrKind)
deriving DecidableEq, Repr, Inhabited

def runOp : Op → M Res
  | .applyMany us b => do applyMany E us b; pure .ok
  | .data b => do handleData E b; pure .ok
  | .timer t => do handleTimer E t; pure .ok
  | .announce d => do sendMessage E d .announce; pure .ok
  | .gossip => do gossip E; pure .ok
  | .broadcast => do broadcastApi E; pure .ok
  | .leave => do leaveCluster E; pure .ok
  | .addBroadcast b => do let r ← addBroadcast E b; pure (.okBool r)
  | .changeIdentity i p => do changeIdentity E i p; pure .ok
  | .reuseDown => do reuseDownIdentity; pure .ok
  | .setConfig c => do setConfig c; pure .ok

inductive StepOut
  | done (s : State) (eff : List Effect) (res : Res) (left : Oracle)
  | stuck (x : Stuck)

/-- One public call on state `s` with the nondeterminism resolved by `orc`. -/
def step (s : State) (op : Op) (orc : Oracle) : StepOut :=
  match runOp E op ⟨s, [], orc⟩ with
  | .ok r c => .done c.s c.eff r c.orc
  | .err e c => .done c.s c.eff (.err e) c.orc
  | .stuck x => .stuck x

end
end Foca
