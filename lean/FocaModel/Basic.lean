/-
  Basic types of the foca model and the execution monad.
  Mathlib-free; everything here is executable (the compiled driver runs these very definitions).
-/
namespace Foca

/-- Bytes are natural numbers `< 256` (well-formedness is a separate predicate). -/
abbrev Bytes := List Nat

/-- `Identity`: an address plus a generation; `(addr, gen)` is everything `==` looks at. -/
structure Id where
  addr : Nat
  gen : Nat
deriving DecidableEq, Repr, Inhabited

/-- `Identity::win_addr_conflict`: consulted only for distinct identities with the same address. -/
def Id.wins (a b : Id) : Bool := decide (a.gen > b.gen)

/-- `member::State` -/
inductive St | alive | suspect | down
deriving DecidableEq, Repr, Inhabited

/-- `Member<T>` -/
structure Member where
  id : Id
  inc : Nat
  st : St
deriving DecidableEq, Repr, Inhabited

/-- What `Identity::renew` of the instance's own identity does (generations are `u16`: `bump` wraps). -/
inductive Policy | none | bump | same | lose | sameEq | tie
deriving DecidableEq, Repr, Inhabited

def renew (p : Policy) (i : Id) : Option Id :=
  match p with
  | .none => Option.none
  | .bump => some ⟨i.addr, (i.gen + 1) % 65536⟩
  | .same => some i
  | .lose => some ⟨i.addr, i.gen - 1⟩
  | .sameEq => some i
  | .tie => some ⟨i.addr, (i.gen + 1) % 65536⟩

/-- `new_identity.win_addr_conflict(&self.identity)` in `attempt_rejoin`: the identity type decides, and nothing
    obliges it to answer `false` for an identity equal to itself — flavour `sameEq` compares with `≥`. (Between
    *distinct* identities of one address the generations differ, so `≥` and `>` agree there.) Nor need the
    relation be total on distinct identities: flavour `tie` compares half the generation, so that a renewed
    identity can differ from the old one while neither wins. -/
def renewWins (p : Policy) (a b : Id) : Bool :=
  match p with
  | .sameEq => decide (a.gen ≥ b.gen)
  | .tie => decide (a.gen / 2 > b.gen / 2)
  | _ => a.wins b

/-- `members.cursor`; `usize::MAX` is its own constructor. -/
inductive Cursor | at (i : Nat) | max
deriving DecidableEq, Repr, Inhabited

inductive Conn | disconnected | connected | undead
deriving DecidableEq, Repr, Inhabited

/-- `payload::Message<T>` -/
inductive Msg
  | ping (n : Nat) | ack (n : Nat)
  | pingReq (t : Id) (n : Nat) | indirectPing (o : Id) (n : Nat)
  | indirectAck (t : Id) (n : Nat) | forwardedAck (o : Id) (n : Nat)
  | announce | feed | gossip | broadcast | turnUndead
deriving DecidableEq, Repr, Inhabited

structure Header where
  src : Id
  srcInc : Nat
  dst : Id
  msg : Msg
deriving DecidableEq, Repr, Inhabited

/-- `runtime::Timer<T>` -/
inductive Timer
  | probe (tok : Nat) | indirect (p : Id) (tok : Nat) | s2d (m : Id) (inc tok : Nat)
  | pa (tok : Nat) | pad (tok : Nat) | pg (tok : Nat) | rm (m : Id)
deriving DecidableEq, Repr, Inhabited

/-- `runtime::Notification` -/
inductive Notif
  | up (a : Id) | down (a : Id) | rename (a b : Id) | active | idle | defunct | rejoin (a : Id)
deriving DecidableEq, Repr, Inhabited

/-- One call of the `Runtime` trait; all three kinds are kept in one list, in emission order. -/
inductive Effect
  | send (dst : Id) (b : Bytes) | timer (ms : Nat) (t : Timer) | notify (n : Notif)
deriving DecidableEq, Repr, Inhabited

/-- `error::Error` with boxed payloads erased. -/
inductive ErrKind
  | dataTooBig | notUndead | sameIdentity | notConnected | incompleteProbe | fromOurselves
  | indirectForOurselves | malformed | encode | decode | custom | invalidConfig
deriving DecidableEq, Repr, Inhabited

/-- Sites where the Rust can panic (debug assertion, index, overflow check, `expect`). -/
inductive PanicSite
  | sendBufCap        -- lib.rs send_message: debug_assert_eq!(capacity, max_packet_size)
  | applySelf         -- lib.rs apply_update: debug_assert_ne!(identity, update.id)
  | reservoirIndex    -- member.rs choose_members: output[replace_at]
  | feedCount         -- lib.rs send_message: num_items += 1 (u16)
  | itemLenU16        -- broadcast.rs fill_with_len_prefix: debug_assert!(u16::try_from(len).is_ok())
  | fillCount         -- lib.rs send_message: u16::try_from(num_updates).expect
  | txZero            -- broadcast.rs: debug_assert!(node.remaining_tx > 0) / max_tx > 0
  | expectIndirect    -- probe.rs expect_indirect_ack debug_assert
  | connectedNoMembers  -- lib.rs become_connected debug_assert_ne!(0, num_members)
  | disconnectedMembers -- lib.rs become_disconnected debug_assert_eq!(0, num_members)
  | probeNotConnected -- lib.rs probe_random_member debug_assert_eq!(Connected)
  | feedEstimateDiv   -- lib.rs estimate_feed_capacity: remaining / identity_len
deriving DecidableEq, Repr, Inhabited

/-- `config::PeriodicParams` as (frequency in ms, num_members). -/
structure Periodic where
  freq : Nat
  num : Nat
deriving DecidableEq, Repr, Inhabited

/-- `config::Config` (durations in milliseconds). -/
structure Config where
  probePeriod : Nat
  probeRtt : Nat
  k : Nat            -- num_indirect_probes (NonZeroUsize)
  maxTx : Nat        -- max_transmissions (NonZeroU8)
  s2d : Nat          -- suspect_to_down_after
  rda : Nat          -- remove_down_after
  mps : Nat          -- max_packet_size (NonZeroUsize)
  notifyDown : Bool
  pa : Option Periodic
  pad : Option Periodic
  pg : Option Periodic
deriving DecidableEq, Repr, Inhabited

/-- An entry of a `Broadcasts` backlog. -/
structure Entry (κ : Type) where
  key : κ
  tx : Nat
  data : Bytes
deriving DecidableEq, Repr

/-- `probe::Probe<T>` -/
structure Probe where
  direct : Option Member := none
  indirect : List Id := []
  number : Nat := 0
  directAckOk : Bool := false
  indirectAckCount : Nat := 0
  reached : Bool := false
deriving DecidableEq, Repr, Inhabited

/-- Custom broadcast keys and handler state are lists of numbers: every countable key type embeds. -/
abbrev Key := List Nat
abbrev HSt := List (List Nat)

/-- The user-supplied `BroadcastHandler`, as arbitrary functions. `receive = none` is an error. -/
structure Handler where
  receive : HSt → Bytes → Option Id → Option (Option Key × HSt)
  invalidates : Key → Key → Bool
  shouldAdd : HSt → Id → Bool

/-- The user-supplied `Codec`, as arbitrary functions; `dec*` return the value and the unread suffix. -/
structure Codec where
  encHeader : Header → Bytes
  decHeader : Bytes → Option (Header × Bytes)
  encMember : Member → Bytes
  decMember : Bytes → Option (Member × Bytes)
  /-- bytes of the `Limit` budget lost when `encode_member` fails with `rem` bytes of space
      (`send_message` truncates the vector but the limit is not given back) -/
  failUse : Member → Nat → Nat

/-- Everything a Foca instance is generic in. `debug` = built with debug assertions / overflow checks. -/
structure Env where
  codec : Codec
  handler : Handler
  debug : Bool

/-- The whole instance (`lib.rs: struct Foca`). -/
structure State where
  id : Id
  policy : Policy
  inc : Nat
  cfg : Config
  conn : Conn
  token : Nat
  ms : List Member
  cursor : Cursor
  numActive : Nat
  probe : Probe
  updates : List (Entry Nat)
  custom : List (Entry Key)
  hst : HSt
  sendCap : Nat
  /-- ghost (not in the code, never printed by the driver): the number of connection-epoch changes so far; the
      `u8` timer token is this number modulo 256 -/
  epoch : Nat := 0
deriving Repr

/-! ### Nondeterminism -/

/-- One resolved random draw. -/
inductive Draw
  | perm (p : List Nat)   -- `slice.shuffle`: element now at position i came from position p[i]
  | idx (k : Nat)         -- `(0..n).choose` / `random_range(0..n)`
deriving DecidableEq, Repr, Inhabited

inductive DrawKind | shuffle | choose | range
deriving DecidableEq, Repr, Inhabited

/-- What the written member-section blobs and custom items of one emitted datagram were
    (resolves `BinaryHeap` tie order; validated, never trusted). -/
structure Pick where
  updates : List Bytes
  custom : List Bytes
deriving DecidableEq, Repr, Inhabited

structure Oracle where
  draws : List Draw
  picks : List Pick
deriving Repr, Inhabited

inductive Stuck
  | needDraw (k : DrawKind) (n : Nat)
  | needPick
  | badOracle (why : String)
  | panic (site : PanicSite)
deriving Repr, Inhabited

/-! ### Execution monad: state + effect log + oracle, errors keep the state (like `?` in `&mut self` methods) -/

structure Ctx where
  s : State
  eff : List Effect
  orc : Oracle

inductive R (α : Type)
  | ok (a : α) (c : Ctx)
  | err (e : ErrKind) (c : Ctx)
  | stuck (x : Stuck)

abbrev M (α : Type) := Ctx → R α

@[inline] def M.pure (a : α) : M α := fun c => .ok a c
@[inline] def M.bind (m : M α) (f : α → M β) : M β := fun c =>
  match m c with
  | .ok a c' => f a c'
  | .err e c' => .err e c'
  | .stuck x => .stuck x

instance : Monad M where
  pure := M.pure
  bind := M.bind

@[inline] def getS : M State := fun c => .ok c.s c
@[inline] def setS (s : State) : M Unit := fun c => .ok () { c with s := s }
@[inline] def modS (f : State → State) : M Unit := fun c => .ok () { c with s := f c.s }
@[inline] def emit (e : Effect) : M Unit := fun c => .ok () { c with eff := c.eff ++ [e] }
@[inline] def throwE (e : ErrKind) : M α := fun c => .err e c
@[inline] def panicAt (p : PanicSite) : M α := fun _ => .stuck (.panic p)
@[inline] def badOracle (why : String) : M α := fun _ => .stuck (.badOracle why)

/-- Runs `m`, turning an error into a value (state and effects so far are kept). -/
@[inline] def attempt (m : M Unit) : M (Option ErrKind) := fun c =>
  match m c with
  | .ok _ c' => .ok none c'
  | .err e c' => .ok (some e) c'
  | .stuck x => .stuck x

/-- `slice.shuffle(&mut rng)`: the oracle says where each element came from (`p[i]` = old position of the
    element now at position `i`); accepted only if the result is a permutation of the input list
    (what `rand` is assumed to deliver). -/
def drawShuffle {α : Type} [BEq α] (l : List α) : M (List α) := fun c =>
  match c.orc.draws with
  | [] => .stuck (.needDraw .shuffle l.length)
  | .perm p :: rest =>
    let l' := p.filterMap (fun i => l[i]?)
    if l'.isPerm l then .ok l' { c with orc := { c.orc with draws := rest } }
    else .stuck (.badOracle "perm")
  | _ :: _ => .stuck (.badOracle "expected perm")

/-- `(0..n).choose(&mut rng)` / `rng.random_range(0..n)`, `n > 0`. -/
def drawIdx (kind : DrawKind) (n : Nat) : M Nat := fun c =>
  match c.orc.draws with
  | [] => .stuck (.needDraw kind n)
  | .idx k :: rest =>
    if k < n then .ok k { c with orc := { c.orc with draws := rest } }
    else .stuck (.badOracle "idx")
  | _ :: _ => .stuck (.badOracle "expected idx")

def nextPick : M Pick := fun c =>
  match c.orc.picks with
  | [] => .stuck .needPick
  | p :: rest => .ok p { c with orc := { c.orc with picks := rest } }

/-! ### Integer helpers -/

def wrapAdd8 (n : Nat) : Nat := (n + 1) % 256
def satAdd16 (n : Nat) : Nat := if n ≥ 65535 then 65535 else n + 1
def satAdd8 (n : Nat) : Nat := if n ≥ 255 then 255 else n + 1
def wrapAdd16 (n : Nat) : Nat := (n + 1) % 65536
def u16be (n : Nat) : Bytes := [n / 256 % 256, n % 256]

end Foca
