/-
  Helper lemmas for C01: the membership view as "best key per address", one application as a join.
-/
import FocaModel.Proofs.Lattice
namespace Foca

/-- join on optional keys (`none` = nothing known about the address) -/
def omax : Option Nat → Option Nat → Option Nat
  | none, b => b
  | a, none => a
  | some x, some y => some (max x y)

theorem omax_comm (a b : Option Nat) : omax a b = omax b a := by
  cases a <;> cases b <;> simp [omax, Nat.max_comm]

theorem omax_assoc (a b c : Option Nat) : omax (omax a b) c = omax a (omax b c) := by
  cases a <;> cases b <;> cases c <;> simp [omax, Nat.max_assoc]

theorem omax_idem (a : Option Nat) : omax a a = a := by
  cases a <;> simp [omax]

@[simp] theorem omax_none_left (a : Option Nat) : omax none a = a := by cases a <;> rfl
@[simp] theorem omax_none_right (a : Option Nat) : omax a none = a := by cases a <;> rfl

/-- the view: per address the best precedence key among the records bearing it -/
def viewKey : List Member → Nat → Option Nat
  | [], _ => none
  | m :: rest, a => if m.id.addr = a then omax (some (key m)) (viewKey rest a) else viewKey rest a

theorem viewKey_append (l1 l2 : List Member) (a : Nat) :
    viewKey (l1 ++ l2) a = omax (viewKey l1 a) (viewKey l2 a) := by
  induction l1 with
  | nil => simp [viewKey]
  | cons m rest ih =>
    simp only [List.cons_append, viewKey]
    split
    · rw [ih, omax_assoc]
    · exact ih

theorem viewKey_perm {l1 l2 : List Member} (h : l1.Perm l2) (a : Nat) : viewKey l1 a = viewKey l2 a := by
  induction h with
  | nil => rfl
  | cons x _ ih => simp only [viewKey]; rw [ih]
  | swap x y l =>
    simp only [viewKey]
    by_cases hx : x.id.addr = a <;> by_cases hy : y.id.addr = a <;> simp only [hx, hy, if_true, if_false]
    rw [← omax_assoc, ← omax_assoc, omax_comm (some (key y))]
  | trans _ _ ih1 ih2 => rw [ih1, ih2]

def AllWF (ms : List Member) : Prop := ∀ m ∈ ms, m.WF

theorem applyExisting_none {ms : List Member} {u : Member} {c : Member → Bool}
    (h : applyExisting ms u c = none) (a : Nat) (ha : a = u.id.addr) : viewKey ms a = none := by
  induction ms with
  | nil => rfl
  | cons k rest ih =>
    unfold applyExisting at h
    by_cases hk : k.id.addr = u.id.addr
    · simp [hk] at h
    · have hk' : (k.id.addr == u.id.addr) = false := by simpa using hk
      simp only [hk'] at h
      cases hr : applyExisting rest u c with
      | none =>
        subst ha
        simp [viewKey, hk, ih hr]
      | some r => rw [hr] at h; simp at h

/-- one `apply_existing_if` (condition true) is a join at the update's address and nothing elsewhere -/
theorem viewKey_applyExisting {ms ms' : List Member} {u : Member} {s : Summary}
    (h : applyExisting ms u (fun _ => true) = some (ms', s)) (hw : AllWF ms) (hu : u.WF) (a : Nat) :
    viewKey ms' a = if a = u.id.addr then omax (viewKey ms a) (some (key u)) else viewKey ms a := by
  induction ms generalizing ms' s with
  | nil => simp [applyExisting] at h
  | cons k rest ih =>
    unfold applyExisting at h
    by_cases hk : k.id.addr = u.id.addr
    · have hk' : (k.id.addr == u.id.addr) = true := by simpa using hk
      simp only [hk'] at h
      simp at h
      obtain ⟨h1, _⟩ := h
      subst h1
      have hm := merge_key k u (hw k (by simp)) hu hk
      have hma := merge_addr k u hk
      unfold merge at hm hma
      simp only [viewKey]
      by_cases haa : a = u.id.addr
      · subst haa
        simp only [hma, hk, if_true, hm]
        cases viewKey rest u.id.addr <;> simp [omax, Nat.max_comm, Nat.max_assoc, Nat.max_left_comm]
      · have h1 : ¬ (updateKnown k u fun _ => true).1.id.addr = a := by rw [hma]; exact fun e => haa e.symm
        have h2 : ¬ k.id.addr = a := by rw [hk]; exact fun e => haa e.symm
        simp [h1, h2, haa]
    · have hk' : (k.id.addr == u.id.addr) = false := by simpa using hk
      simp only [hk'] at h
      cases hr : applyExisting rest u (fun _ => true) with
      | none => rw [hr] at h; simp at h
      | some r =>
        obtain ⟨rest', s'⟩ := r
        rw [hr] at h
        simp at h
        obtain ⟨h1, _⟩ := h
        subst h1
        have := ih hr (fun m hm => hw m (by simp [hm]))
        simp only [viewKey]
        by_cases haa : a = u.id.addr
        · subst haa
          simp only [hk, if_false, if_true] at *
          exact this
        · simp only [haa, if_false] at *
          rw [this]

theorem applyExisting_wf {ms ms' : List Member} {u : Member} {s : Summary}
    (h : applyExisting ms u (fun _ => true) = some (ms', s)) (hw : AllWF ms) (hu : u.WF) : AllWF ms' := by
  induction ms generalizing ms' s with
  | nil => simp [applyExisting] at h
  | cons k rest ih =>
    unfold applyExisting at h
    by_cases hk : (k.id.addr == u.id.addr) = true
    · simp only [hk] at h
      simp at h
      obtain ⟨h1, _⟩ := h
      subst h1
      intro m hm
      simp at hm
      rcases hm with hm | hm
      · subst hm; exact merge_wf k u (hw k (by simp)) hu
      · exact hw m (by simp [hm])
    · simp only [hk] at h
      cases hr : applyExisting rest u (fun _ => true) with
      | none => rw [hr] at h; simp at h
      | some r =>
        obtain ⟨rest', s'⟩ := r
        rw [hr] at h
        simp at h
        obtain ⟨h1, _⟩ := h
        subst h1
        intro m hm
        simp at hm
        rcases hm with hm | hm
        · subst hm; exact hw m (by simp)
        · exact ih hr (fun m hm => hw m (by simp [hm])) m hm

/-- `Members::apply` with the drawn insertion index made explicit -/
def applyP (ms : List Member) (u : Member) (j : Nat) : List Member :=
  match applyExisting ms u (fun _ => true) with
  | some r => r.1
  | none => (applyNew ms u j).1

theorem applyNew_perm (ms : List Member) (u : Member) (j : Nat) : (applyNew ms u j).1.Perm (u :: ms) := by
  unfold applyNew
  cases hj : ms[j]? with
  | none => simpa using List.perm_append_comm (l₁ := ms) (l₂ := [u])
  | some x =>
    simp only
    have hlt : j < ms.length := by
      rcases List.getElem?_eq_some_iff.1 hj with ⟨h, _⟩; exact h
    have hx : ms[j] = x := by
      rcases List.getElem?_eq_some_iff.1 hj with ⟨_, h⟩; exact h
    have hsplit : ms = ms.take j ++ x :: ms.drop (j + 1) := by
      rw [← hx, ← List.drop_eq_getElem_cons hlt, List.take_append_drop]
    have e : u :: ms = u :: (ms.take j ++ x :: ms.drop (j + 1)) := by rw [← hsplit]
    rw [e]
    -- take j ++ u :: drop ++ [x]  ~  u :: take j ++ x :: drop
    refine List.Perm.trans ?_ (List.Perm.cons u (List.perm_middle.symm))
    -- (A ++ u :: B) ++ [x] ~ u :: x :: (A ++ B)
    have h1 : (ms.take j ++ u :: ms.drop (j + 1) ++ [x]).Perm ([x] ++ (ms.take j ++ u :: ms.drop (j + 1))) :=
      List.perm_append_comm
    refine h1.trans ?_
    simp only [List.singleton_append]
    refine (List.Perm.cons x List.perm_middle).trans ?_
    exact List.Perm.swap u x _

theorem viewKey_applyP (ms : List Member) (u : Member) (j : Nat) (hw : AllWF ms) (hu : u.WF) (a : Nat) :
    viewKey (applyP ms u j) a = if a = u.id.addr then omax (viewKey ms a) (some (key u)) else viewKey ms a := by
  unfold applyP
  cases h : applyExisting ms u (fun _ => true) with
  | some r =>
    obtain ⟨ms', s⟩ := r
    exact viewKey_applyExisting h hw hu a
  | none =>
    simp only
    rw [viewKey_perm (applyNew_perm ms u j) a]
    simp only [viewKey]
    by_cases haa : a = u.id.addr
    · subst haa
      simp [applyExisting_none h _ rfl]
    · have : ¬ u.id.addr = a := fun e => haa e.symm
      simp [this, haa]

theorem applyP_wf (ms : List Member) (u : Member) (j : Nat) (hw : AllWF ms) (hu : u.WF) : AllWF (applyP ms u j) := by
  unfold applyP
  cases h : applyExisting ms u (fun _ => true) with
  | some r => obtain ⟨ms', s⟩ := r; exact applyExisting_wf h hw hu
  | none =>
    intro m hm
    have := (applyNew_perm ms u j).mem_iff.1 hm
    simp at this
    rcases this with h1 | h1
    · subst h1; exact hu
    · exact hw m h1

/-- a batch of updates, each new address inserted at the index the RNG drew (`js`) -/
def applyAll : List Member → List Member → List Nat → List Member
  | ms, [], _ => ms
  | ms, u :: us, js => applyAll (applyP ms u (js.headD 0)) us js.tail

theorem viewKey_cons_self (u : Member) (us : List Member) :
    viewKey (u :: us) u.id.addr = omax (some (key u)) (viewKey us u.id.addr) := by
  simp [viewKey]

/-- closed form: the view after a batch is the join of the old view and the batch's own view -/
theorem viewKey_applyAll (ms us : List Member) (js : List Nat) (hw : AllWF ms) (hu : AllWF us) (a : Nat) :
    viewKey (applyAll ms us js) a = omax (viewKey ms a) (viewKey us a) := by
  induction us generalizing ms js with
  | nil => simp [applyAll, viewKey]
  | cons u us ih =>
    simp only [applyAll]
    rw [ih _ _ (applyP_wf ms u _ hw (hu u (by simp))) (fun m hm => hu m (by simp [hm]))]
    rw [viewKey_applyP ms u _ hw (hu u (by simp))]
    simp only [viewKey]
    by_cases haa : a = u.id.addr
    · subst haa
      simp only [if_true]
      rw [omax_assoc]
    · have : ¬ u.id.addr = a := fun e => haa e.symm
      simp [this, haa]

theorem viewKey_ge {l : List Member} {m : Member} (hm : m ∈ l) :
    ∃ k, viewKey l m.id.addr = some k ∧ key m ≤ k := by
  induction l with
  | nil => simp at hm
  | cons x rest ih =>
    simp at hm
    simp only [viewKey]
    rcases hm with hm | hm
    · subst hm
      simp only [if_true]
      cases viewKey rest m.id.addr with
      | none => exact ⟨_, rfl, Nat.le_refl _⟩
      | some y => exact ⟨_, rfl, Nat.le_max_left _ _⟩
    · obtain ⟨k, hk, hle⟩ := ih hm
      split
      · rw [hk]; exact ⟨_, rfl, Nat.le_trans hle (Nat.le_max_right _ _)⟩
      · exact ⟨k, hk, hle⟩

theorem viewKey_attained {l : List Member} {a k : Nat} (h : viewKey l a = some k) :
    ∃ m ∈ l, m.id.addr = a ∧ key m = k := by
  induction l generalizing k with
  | nil => simp [viewKey] at h
  | cons x rest ih =>
    simp only [viewKey] at h
    split at h
    · rename_i hx
      cases hr : viewKey rest a with
      | none =>
        rw [hr] at h; simp [omax] at h
        exact ⟨x, by simp, hx, h⟩
      | some y =>
        rw [hr] at h; simp [omax] at h
        by_cases hxy : key x ≥ y
        · exact ⟨x, by simp, hx, by omega⟩
        · obtain ⟨m, hm, hma, hmk⟩ := ih hr
          exact ⟨m, by simp [hm], hma, by omega⟩
    · obtain ⟨m, hm, hma, hmk⟩ := ih h
      exact ⟨m, by simp [hm], hma, hmk⟩

/-- the view of a batch depends only on the *set* of updates in it -/
theorem viewKey_set_eq {l1 l2 : List Member} (h : ∀ m, m ∈ l1 ↔ m ∈ l2) (a : Nat) :
    viewKey l1 a = viewKey l2 a := by
  have half : ∀ {p q : List Member}, (∀ m, m ∈ p → m ∈ q) → ∀ k, viewKey p a = some k →
      ∃ k', viewKey q a = some k' ∧ k ≤ k' := by
    intro p q hpq k hk
    obtain ⟨m, hm, hma, hmk⟩ := viewKey_attained hk
    obtain ⟨k', hk', hle⟩ := viewKey_ge (hpq m hm)
    rw [hma] at hk'
    exact ⟨k', hk', by omega⟩
  cases h1 : viewKey l1 a with
  | none =>
    cases h2 : viewKey l2 a with
    | none => rfl
    | some k2 =>
      obtain ⟨k', hk', _⟩ := half (fun m hm => (h m).2 hm) k2 h2
      rw [h1] at hk'; simp at hk'
  | some k1 =>
    obtain ⟨k2, hk2, hle⟩ := half (fun m hm => (h m).1 hm) k1 h1
    obtain ⟨k1', hk1', hle'⟩ := half (fun m hm => (h m).2 hm) k2 hk2
    rw [h1] at hk1'
    simp at hk1'
    rw [hk2]
    congr 1
    omega

end Foca
