/-
  How many datagrams one call can send: `Adds k n m` — started with `num_indirect_probes = k`, the computation `m`
  keeps that parameter and adds at most `n` datagrams to the effects. Used for "every delivered datagram causes at
  most a bounded number of new datagrams" (C18).
-/
import FocaModel.Proofs.Stage
namespace Foca

def sendCount (eff : List Effect) : Nat := eff.countP isSend

theorem sendCount_append (a b : List Effect) : sendCount (a ++ b) = sendCount a + sendCount b := by
  unfold sendCount; rw [List.countP_append]

/-- after the run: `num_indirect_probes` is still `k`, at most `n` more datagrams -/
def AddsPost {α} (k n : Nat) (c : Ctx) (r : R α) : Prop :=
  match r with
  | .ok _ c' => c'.s.cfg.k = k ∧ sendCount c'.eff ≤ sendCount c.eff + n
  | .err _ c' => c'.s.cfg.k = k ∧ sendCount c'.eff ≤ sendCount c.eff + n
  | .stuck _ => True

structure Adds {α} (k n : Nat) (m : M α) : Prop where
  run : ∀ c, c.s.cfg.k = k → AddsPost k n c (m c)

section
variable {k n : Nat}

theorem Adds.mono {α} {m : M α} {n' : Nat} (h : Adds k n m) (hn : n ≤ n') : Adds k n' m := by
  constructor
  intro c hc
  have := h.run c hc
  unfold AddsPost at *
  cases hm : m c with
  | stuck x => trivial
  | err e c' => rw [hm] at this; exact ⟨this.1, by have := this.2; omega⟩
  | ok a c' => rw [hm] at this; exact ⟨this.1, by have := this.2; omega⟩

theorem Adds.pure {α} (a : α) : Adds k n (pure a : M α) := ⟨fun c hc => ⟨hc, by simp [pure_run]⟩⟩
theorem Adds.getS : Adds k n Foca.getS := ⟨fun c hc => ⟨hc, by simp [getS_run]⟩⟩
theorem Adds.throwE {α} (e : ErrKind) : Adds k n (Foca.throwE e : M α) := ⟨fun c hc => ⟨hc, by simp [throwE_run]⟩⟩
theorem Adds.panicAt {α} (p : PanicSite) : Adds k n (Foca.panicAt p : M α) := ⟨fun _ _ => trivial⟩

theorem Adds.bind {α β} {m : M α} {f : α → M β} {n1 n2 : Nat} (hm : Adds k n1 m) (hf : ∀ a, Adds k n2 (f a))
    (hn : n1 + n2 ≤ n) : Adds k n (m >>= f) := by
  constructor
  intro c hc
  have h1 := hm.run c hc
  simp only [bind_run]
  unfold AddsPost at *
  cases hmc : m c with
  | stuck x => trivial
  | err e c' => rw [hmc] at h1; exact ⟨h1.1, by have := h1.2; omega⟩
  | ok a c' =>
    rw [hmc] at h1
    have h2 := (hf a).run c' h1.1
    simp only
    cases hfc : f a c' with
    | stuck x => trivial
    | err e c'' => rw [hfc] at h2; exact ⟨h2.1, by have := h1.2; have := h2.2; omega⟩
    | ok b c'' => rw [hfc] at h2; exact ⟨h2.1, by have := h1.2; have := h2.2; omega⟩

/-- a prefix that sends nothing -/
theorem Adds.bind0 {α β} {m : M α} {f : α → M β} (hm : Adds k 0 m) (hf : ∀ a, Adds k n (f a)) : Adds k n (m >>= f) :=
  Adds.bind hm hf (by omega)

theorem Adds.ite {α} {c : Prop} [Decidable c] {a b : M α} (ha : Adds k n a) (hb : Adds k n b) :
    Adds k n (if c then a else b) := by
  split <;> assumption

/-- reading the state: `num_indirect_probes` of what was read is `k` -/
theorem Adds.getS_with {β} {f : State → M β} (h : ∀ s, s.cfg.k = k → Adds k n (f s)) : Adds k n (Foca.getS >>= f) :=
  ⟨fun c hc => by simp only [bind_run, getS_run]; exact (h c.s hc).run c hc⟩

theorem Adds.modS_of {f : State → State} (h : ∀ s, (f s).cfg.k = s.cfg.k) : Adds k n (Foca.modS f) :=
  ⟨fun c hc => ⟨by simp only [modS_run]; rw [h]; exact hc, by simp [modS_run]⟩⟩

theorem Adds.emit (e : Effect) (he : isSend e = false) : Adds k n (Foca.emit e) :=
  ⟨fun c hc => ⟨hc, by simp only [emit_run]; rw [sendCount_append]; simp [sendCount, he]⟩⟩

theorem Adds.attempt {m : M Unit} (hm : Adds k n m) : Adds k n (Foca.attempt m) := by
  constructor
  intro c hc
  have := hm.run c hc
  unfold Foca.attempt AddsPost at *
  cases h : m c with
  | stuck x => trivial
  | err e c' => rw [h] at this; exact this
  | ok a c' => rw [h] at this; exact this

/-- anything that keeps the configuration and the effects -/
theorem Adds.of_silent_core {α} {m : M α} (hs : Silent m) (hc : ∀ e t cn cf p, PresC (CoreIs e t cn cf p) m) :
    Adds k n m := by
  constructor
  intro c hk
  have h1 := hs c
  have h2 := (hc c.s.epoch c.s.token c.s.conn c.s.cfg c.s.probe).run c ⟨rfl, rfl, rfl, rfl, rfl⟩
  unfold AddsPost
  cases hm : m c with
  | stuck x => trivial
  | err e c' => rw [hm] at h1 h2; simp only at h1 h2; exact ⟨by rw [h2.2.2.2.1]; exact hk, by rw [h1]; omega⟩
  | ok a c' => rw [hm] at h1 h2; simp only at h1 h2; exact ⟨by rw [h2.2.2.2.1]; exact hk, by rw [h1]; omega⟩

theorem Adds.membersApply (u : Member) : Adds k n (Foca.membersApply u) :=
  Adds.of_silent_core (Silent.membersApply u) (fun _ _ _ _ _ => CoreIs.of_memOnly (membersApply_only u))

theorem Adds.membersApplyExistingIf (u : Member) (cond : Member → Bool) : Adds k n (Foca.membersApplyExistingIf u cond) :=
  Adds.of_silent_core (Silent.membersApplyExistingIf u cond)
    (fun _ _ _ _ _ => CoreIs.of_memOnly (membersApplyExistingIf_only u cond))

theorem Adds.drawIdx (kind : DrawKind) (b : Nat) : Adds k n (Foca.drawIdx kind b) := by
  constructor
  intro c hk
  have := drawIdx_frame kind b c
  unfold AddsPost
  cases h : Foca.drawIdx kind b c with
  | stuck x => trivial
  | err e c' => rw [h] at this; simp only at this; exact ⟨by rw [this.1]; exact hk, by rw [this.2]; omega⟩
  | ok a c' => rw [h] at this; simp only at this; exact ⟨by rw [this.1]; exact hk, by rw [this.2]; omega⟩

end

macro "adds_step" : tactic => `(tactic| first
  | exact Adds.pure _
  | exact Adds.getS
  | exact Adds.throwE _
  | exact Adds.panicAt _
  | exact Adds.modS_of (fun _ => rfl)
  | exact Adds.emit _ rfl
  | exact Adds.membersApply _
  | exact Adds.membersApplyExistingIf _ _
  | exact Adds.drawIdx _ _
  | with_reducible apply Adds.ite
  | (intro _; try dsimp only)
  | split)

/-- decomposes a computation whose `bind`s all have a prefix that sends nothing -/
macro "adds0" : tactic => `(tactic| repeat' first
  | adds_step
  | (with_reducible refine Adds.bind0 ?_ ?_))

section
variable (E : Env) {k : Nat}

theorem Adds.sendMessage (d : Id) (m : Msg) : Adds k 1 (Foca.sendMessage E d m) := by
  constructor
  intro c hk
  have := sendMessage_spec E d m c
  unfold AddsPost
  cases h : Foca.sendMessage E d m c with
  | stuck x => trivial
  | err e c' =>
    rw [h] at this
    simp only [SendOK] at this
    exact ⟨by rw [this.2.1]; exact hk, by rw [this.2.2]; omega⟩
  | ok a c' =>
    rw [h] at this
    simp only [SendOK] at this
    obtain ⟨hb, body, heff, _⟩ := this
    refine ⟨by unfold OnlyBacklogs at hb; rw [hb]; exact hk, ?_⟩
    rw [heff, sendCount_append]
    simp [sendCount, isSend]

theorem Adds.sendAll (msg : Msg) (ds : List Id) : Adds k ds.length (Foca.sendAll E msg ds) := by
  induction ds with
  | nil => unfold Foca.sendAll; exact Adds.pure _
  | cons d rest ih =>
    unfold Foca.sendAll
    exact Adds.bind (Adds.sendMessage E d msg) (fun _ => ih) (by simp; omega)

/-- `choose_members` returns at most what was asked for -/
theorem chooseLoop_adds (w : Nat) (pick : Member → Bool) (l : List Member) {β} {n : Nat} {f : List Member → M β}
    (hf : ∀ r : List Member, r.length ≤ w → Adds k n (f r)) : Adds k n (Foca.chooseLoop w pick l [] 0 >>= f) := by
  constructor
  intro c hk
  have := chooseLoop_spec w pick l [] 0 c
  simp only [bind_run]
  cases h : Foca.chooseLoop w pick l [] 0 c with
  | stuck x => trivial
  | err e c' => rw [h] at this; exact this.elim
  | ok r c' =>
    rw [h] at this
    simp only [ChooseOK] at this
    obtain ⟨h1, h2, _, h4⟩ := this
    have hlen : r.length ≤ w := by simpa using h4
    have := (hf r hlen).run c' (by rw [h1]; exact hk)
    simp only
    unfold AddsPost at *
    cases hfr : f r c' with
    | stuck x => trivial
    | err e c'' => rw [hfr] at this; exact ⟨this.1, by rw [← h2]; exact this.2⟩
    | ok b c'' => rw [hfr] at this; exact ⟨this.1, by rw [← h2]; exact this.2⟩

theorem Adds.chooseAndSend (num : Nat) (msg : Msg) : Adds k num (Foca.chooseAndSend E num msg) := by
  unfold Foca.chooseAndSend
  refine Adds.getS_with (fun s _ => ?_)
  refine chooseLoop_adds _ _ _ (fun r hr => ?_)
  exact Adds.mono (Adds.sendAll E msg _) (by simpa using hr)

theorem Adds.gossip : Adds k k (Foca.gossip E) := by
  unfold Foca.gossip
  refine Adds.getS_with (fun s hs => ?_)
  rw [hs]
  exact Adds.chooseAndSend E k .gossip

theorem Adds.addUpdate (u : Member) {n : Nat} : Adds k n (Foca.addUpdate E u) := by
  unfold Foca.addUpdate
  adds0

theorem Adds.reset {n : Nat} : Adds k n Foca.reset := by
  unfold Foca.reset
  adds0

theorem Adds.changeIdentity (i : Id) (p : Policy) : Adds k k (Foca.changeIdentity E i p) := by
  unfold Foca.changeIdentity
  adds0
  all_goals first
    | exact Adds.reset
    | exact Adds.addUpdate E _
    | exact Adds.gossip E

theorem Adds.attemptRejoin : Adds k k (Foca.attemptRejoin E) := by
  unfold Foca.attemptRejoin
  refine Adds.getS_with (fun s _ => ?_)
  split
  · exact Adds.pure _
  · split
    · exact Adds.pure _
    · split
      · exact Adds.pure _
      · exact Adds.bind (Adds.changeIdentity E _ _) (fun _ => Adds.bind0 (Adds.emit _ rfl) (fun _ => Adds.pure (n := 0) _))
          (by omega)

theorem Adds.becomeUndead {n : Nat} : Adds k n Foca.becomeUndead := by
  unfold Foca.becomeUndead
  adds0

theorem Adds.handleSelfUpdate (inc : Nat) (st : St) : Adds k k (Foca.handleSelfUpdate E inc st) := by
  unfold Foca.handleSelfUpdate
  cases st with
  | alive => exact Adds.pure _
  | suspect =>
    dsimp only
    refine Adds.getS_with (fun s _ => ?_)
    split
    · exact Adds.pure _
    · try dsimp only
      split
      · exact Adds.bind (Adds.attemptRejoin E) (fun ok => by split; exact Adds.becomeUndead (n := 0); exact Adds.pure _) (by omega)
      · split
        · exact Adds.bind0 (Adds.modS_of (fun _ => rfl)) (fun _ => Adds.gossip E)
        · exact Adds.gossip E
  | down =>
    dsimp only
    exact Adds.bind (Adds.attemptRejoin E) (fun ok => by split; exact Adds.becomeUndead (n := 0); exact Adds.pure _) (by omega)

theorem Adds.handleApplySummary (sm : Summary) (u : Member) (b : Bool) {n : Nat} :
    Adds k n (Foca.handleApplySummary E sm u b) := by
  unfold Foca.handleApplySummary
  adds0
  all_goals exact Adds.addUpdate E _

theorem Adds.applyUpdate (u : Member) (b : Bool) {n : Nat} : Adds k n (Foca.applyUpdate E u b) := by
  unfold Foca.applyUpdate
  adds0
  all_goals exact Adds.handleApplySummary E _ _ _

theorem Adds.applyOne (u : Member) (b : Bool) : Adds k k (Foca.applyOne E u b) := by
  unfold Foca.applyOne
  refine Adds.getS_with (fun s _ => ?_)
  split
  · exact Adds.handleSelfUpdate E _ _
  · split
    · exact Adds.bind0 (Adds.applyUpdate E _ _) (fun _ => Adds.pure _)
    · exact Adds.bind0 (Adds.applyUpdate E _ _) (fun _ => Adds.pure _)

theorem Adds.applyLoop (b : Bool) (us : List Member) : Adds k (k * us.length) (Foca.applyLoop E b us) := by
  induction us with
  | nil => unfold Foca.applyLoop; exact Adds.pure _
  | cons u rest ih =>
    unfold Foca.applyLoop
    exact Adds.bind (Adds.applyOne E u b) (fun _ => ih) (by simp [Nat.mul_add]; omega)

theorem Adds.adjustConnectionState {n : Nat} : Adds k n (Foca.adjustConnectionState E) := by
  unfold Foca.adjustConnectionState Foca.becomeConnected Foca.becomeDisconnected
  adds0

theorem Adds.applyMany (us : List Member) (b : Bool) : Adds k (k * us.length) (Foca.applyMany E us b) := by
  unfold Foca.applyMany
  exact Adds.bind (Adds.applyLoop E b us) (fun _ => Adds.adjustConnectionState E (n := 0)) (by omega)

theorem Adds.customLoop (sender : Option Id) (fuel : Nat) (data : Bytes) {n : Nat} :
    Adds k n (Foca.customLoop E sender fuel data) := by
  induction fuel generalizing data with
  | zero => unfold Foca.customLoop; exact Adds.throwE _
  | succ f ih =>
    unfold Foca.customLoop
    adds0
    all_goals exact ih _

theorem Adds.handleCustomBroadcasts (data : Bytes) (sender : Option Id) {n : Nat} :
    Adds k n (Foca.handleCustomBroadcasts E data sender) := by
  unfold Foca.handleCustomBroadcasts
  adds0
  exact Adds.customLoop E _ _ _

theorem Adds.reactToMessage (h : Header) : Adds k (k + 1) (Foca.reactToMessage E h) := by
  unfold Foca.reactToMessage
  refine Adds.getS_with (fun s _ => ?_)
  split <;> adds0
  all_goals first
    | exact (Adds.sendMessage (k := k) E _ _).mono (by omega)
    | exact (Adds.handleSelfUpdate (k := k) E _ _).mono (by omega)

theorem Adds.inactiveSender (h : Header) : Adds k (k + 1) (Foca.inactiveSender E h) := by
  unfold Foca.inactiveSender
  have hjp : Adds k 1 (do
      let s ← Foca.getS
      let undeadReplyToUndead := h.msg == Msg.turnUndead && s.conn == Conn.undead
      if (s.cfg.notifyDown && !undeadReplyToUndead) = true then Foca.sendMessage E h.src Msg.turnUndead
      else Pure.pure () : M Unit) := by
    adds0
    exact Adds.sendMessage E _ _
  dsimp only
  split
  · exact Adds.bind (Adds.handleSelfUpdate E _ _) (fun _ => hjp) (Nat.le_refl _)
  · exact hjp.mono (by omega)

theorem Adds.replyStage (h : Header) (cres : Option ErrKind) : Adds k (k + 1) (Foca.replyStage E h cres) := by
  unfold Foca.replyStage
  refine Adds.getS_with (fun s _ => ?_)
  split
  · adds0
  · exact Adds.bind (Adds.reactToMessage E h) (fun _ => by adds0) (Nat.le_refl (k + 1 + 0))

/-- the number of member updates a datagram carries (0 when it does not parse) -/
def updatesIn (data : Bytes) : Nat :=
  match E.codec.decHeader data with
  | none => 0
  | some (h, rest) =>
    match parseSection E h rest with
    | none => 0
    | some (us, _) => us.length

/-- **One delivered datagram causes at most `k · (updates + 1) + 1` new datagrams** (`k` = `num_indirect_probes`):
    at most one direct reply or relay or TurnUndead notice, and one round of gossip (`k` datagrams) for each update
    about the instance itself that makes it refute a suspicion or renew its identity — whatever the bytes, the
    state, the RNG draws. -/
theorem Adds.handleData (data : Bytes) : Adds k (k * (updatesIn E data + 1) + 1) (Foca.handleData E data) := by
  unfold Foca.handleData
  refine Adds.getS_with (fun s _ => ?_)
  split
  · exact Adds.throwE _
  · split
    · exact Adds.throwE _
    · rename_i h rest hdec
      split
      · exact Adds.throwE _
      · dsimp only
        split
        · exact Adds.throwE _
        · split
          · exact Adds.pure _
          · split
            · exact Adds.throwE _
            · rename_i updates tail hparse
              have hlen : updatesIn E data = updates.length := by
                unfold updatesIn
                rw [hdec]
                simp only []
                rw [hparse]
              rw [hlen]
              refine Adds.bind0 (Adds.applyUpdate E _ _) (fun senderActive => ?_)
              split
              · exact (Adds.inactiveSender E _).mono (by rw [Nat.mul_add]; omega)
              · refine Adds.bind (Adds.applyMany E _ _) (fun _ => ?_) (Nat.le_refl (k * updates.length + (k + 1)))
                  |>.mono (by rw [Nat.mul_add]; omega)
                exact Adds.bind0 (Adds.attempt (Adds.handleCustomBroadcasts E _ _)) (fun _ => Adds.replyStage E _ _)

end
end Foca
