/-
  Every datagram of every call has the documented shape: the wire-range invariant and "custom items are never
  empty", together with a condition on the effects emitted so far (each datagram has `DatagramShape`), carried
  through every function by the effect-aware composition `ComposeE`.
-/
import FocaModel.Proofs.ComposeE
import FocaModel.Proofs.Shape
import FocaModel.Proofs.CustomReach
import FocaModel.Proofs.SendInv
namespace Foca
open Foca.C07 Foca.C07H

/-- custom-broadcast items waiting in the backlog are never empty -/
def CustomNE (s : State) : Prop := ∀ e ∈ s.custom, 1 ≤ e.data.length

theorem Pres.and {α} {A B : State → Prop} {m : M α} (h1 : Pres A m) (h2 : Pres B m) : Pres (fun s => A s ∧ B s) m :=
  ⟨fun c hc => by
    have r1 := h1.run c hc.1
    have r2 := h2.run c hc.2
    cases hm : m c with
    | stuck x => trivial
    | err e c' => rw [hm] at r1 r2; exact ⟨r1, r2⟩
    | ok a c' => rw [hm] at r1 r2; exact ⟨r1, r2⟩⟩

theorem PresR.and {α} {A B : State → Prop} {Q : α → Prop} {m : M α} (h1 : PresR A Q m) (h2 : Pres B m) :
    PresR (fun s => A s ∧ B s) Q m :=
  ⟨fun c hc => by
    have r1 := h1.run c hc.1
    have r2 := h2.run c hc.2
    cases hm : m c with
    | stuck x => trivial
    | err e c' => rw [hm] at r1 r2; exact ⟨r1, r2⟩
    | ok a c' => rw [hm] at r1 r2; exact ⟨⟨r1.1, r2⟩, r1.2⟩⟩

section
variable (E : Env) (τ : Id → Nat)

theorem CustomNE.ignoresMembership : IgnoresMembership CustomNE := by
  intro s s' h hs; unfold CustomNE at *; rw [h]; exact hs

theorem CustomNE.leaves : Leaves E CustomNE where
  membersApply := fun u => Pres.of_onlyMembership CustomNE.ignoresMembership (membersApply_only u)
  membersApplyExistingIf := fun u cond => Pres.of_onlyMembership CustomNE.ignoresMembership (membersApplyExistingIf_only u cond)
  membersNext := Pres.of_onlyMembership CustomNE.ignoresMembership membersNext_only
  removeDown := fun id => Pres.modS_of (fun s hs => hs)
  sendMessage := fun d m => ⟨fun c hc => by
    have h1 := sendMessage_custom E d m c
    have h2 := sendMessage_spec E d m c
    cases h : Foca.sendMessage E d m c with
    | stuck x => trivial
    | err e c' => rw [h] at h2; simp only [SendOK] at h2 ⊢; unfold CustomNE at *; rw [h2.2.1]; exact hc
    | ok a c' =>
      rw [h] at h1
      simp only at h1 ⊢
      unfold CustomNE at *
      rcases h1 with h1 | ⟨sp, picks, r, hf, h1⟩
      · rw [h1]; exact hc
      · rw [h1]; exact fill_data (fun d => 1 ≤ d.length) hf hc⟩
  addUpdate := fun m => by
    unfold Foca.addUpdate
    exact Pres.modS_of (fun s hs => hs)
  modCtl := fun f h => Pres.modS_of (fun s hs => by unfold CustomNE at *; rw [(h s).2.2.2.1]; exact hs)
  setHst := fun _ => Pres.modS_of (fun s hs => hs)
  addCustom := fun h' key data hd => Pres.modS_of (fun s hs => by
    unfold CustomNE at *
    intro e he
    simp only [addOrReplace, List.mem_append, List.mem_filter, List.mem_singleton] at he
    rcases he with he | he
    · exact hs e he.1
    · rw [he]; exact hd)

/-- the state part: wire range and non-empty items -/
def Ready (s : State) : Prop := WireInv E τ s ∧ CustomNE s

theorem Ready.sendReady {s : State} (h : Ready E τ s) : SendReady E (MW τ) s :=
  ⟨h.1.2.2.1, h.1.2.2.2.2, h.2⟩

theorem Ready.base : Base E (Ready E τ) (MW τ) where
  ownDown := fun s hs => (WireInv.base E τ).ownDown s hs.1
  membersApply := fun u hu => Pres.and ((WireInv.base E τ).membersApply u hu) ((CustomNE.leaves E).membersApply u)
  membersApplyExistingIf := fun u cond hu =>
    Pres.and ((WireInv.base E τ).membersApplyExistingIf u cond hu) ((CustomNE.leaves E).membersApplyExistingIf u cond)
  membersNext := PresR.and (WireInv.base E τ).membersNext (CustomNE.leaves E).membersNext
  startProbe := fun m hm => Pres.and ((WireInv.base E τ).startProbe m hm) (Pres.modS_of (fun s hs => hs))
  sendMessage := fun d m => Pres.and ((WireInv.base E τ).sendMessage d m) ((CustomNE.leaves E).sendMessage d m)
  addUpdate := fun m hm => Pres.and ((WireInv.base E τ).addUpdate m hm) ((CustomNE.leaves E).addUpdate m)
  modCtl := fun f h => Pres.and ((WireInv.base E τ).modCtl f h)
    (Pres.modS_of (fun s hs => by unfold CustomNE at *; rw [(h s).2.2.2.1]; exact hs))
  setHst := fun h' => Pres.and ((WireInv.base E τ).setHst h') ((CustomNE.leaves E).setHst h')
  addCustom := fun h' key data hd =>
    Pres.and ((WireInv.base E τ).addCustom h' key data hd) ((CustomNE.leaves E).addCustom h' key data hd)

/-! ### with the effects -/

/-- what is required of an emitted effect: a datagram has the documented shape, for a header addressed to the
    identity it is handed over for and with every field within the wire range; a suspicion timer names a member
    the instance holds (within the range, at an incarnation it was told); an indirect-probe timer names an identity
    within the range -/
def EffShape (e : Effect) : Prop :=
  match e with
  | .send d b => ∃ h : Header, h.dst = d ∧ HWire h ∧ DatagramShape E (MW τ) h b
  | .timer _ (.s2d m inc _) => MW τ ⟨m, inc, .down⟩
  | .timer _ (.indirect p _) => IdWire p
  | _ => True

def Sent (s : State) (eff : List Effect) : Prop := Ready E τ s ∧ ∀ e ∈ eff, EffShape E τ e

theorem Sent.silent {α} {m : M α} (h : Pres (Ready E τ) m) (hs : Silent m) : PresE (Sent E τ) m :=
  PresE.of_pres_silent h hs

theorem Sent.modS {f : State → State} (h : Pres (Ready E τ) (Foca.modS f)) : PresE (Sent E τ) (Foca.modS f) :=
  Sent.silent E τ h (Silent.modS f)

theorem Sent.baseE : BaseE E (Sent E τ) (MW τ) IdWire MsgWire where
  ownDown := fun s _ hs => (Ready.base E τ).ownDown s hs.1
  emitNS := fun e he hs2 hi => PresE.emit_of (fun s eff h => ⟨h.1, fun x hx => by
    rcases List.mem_append.1 hx with hx | hx
    · exact h.2 x hx
    · simp only [List.mem_singleton] at hx
      subst hx
      cases x with
      | send d b => simp [isSend] at he
      | notify n => trivial
      | timer a t => cases t <;> first | trivial | simp [isS2d] at hs2 | simp [isIndirectT] at hi⟩)
  emitIndirect := fun p after tok hp => PresE.emit_of (fun s eff h => ⟨h.1, fun x hx => by
    rcases List.mem_append.1 hx with hx | hx
    · exact h.2 x hx
    · simp only [List.mem_singleton] at hx
      subst hx
      exact hp⟩)
  memberDst := fun s eff m h hm => (h.1.1.2.2.1 m hm).1.1
  updDst := fun u hu => hu.1.1
  plainMsg := ⟨trivial, trivial, trivial, trivial, trivial⟩
  pingMsg := fun s eff h => h.1.1.2.1.2
  pingReqMsg := fun s eff p h hp => ⟨hp, h.1.1.2.1.2⟩
  membersApply := fun u hu => Sent.silent E τ ((Ready.base E τ).membersApply u hu) (Silent.membersApply u)
  membersApplyExistingIf := fun u cond hu =>
    Sent.silent E τ ((Ready.base E τ).membersApplyExistingIf u cond hu) (Silent.membersApplyExistingIf u cond)
  membersNext := PresER.of_presR_silent (Ready.base E τ).membersNext Silent.membersNext
  startProbe := fun m hm => Sent.modS E τ ((Ready.base E τ).startProbe m hm)
  sendMessage := fun d m hd hm => ⟨fun c hc => by
    have h1 := ((Ready.base E τ).sendMessage d m).run c hc.1
    have h2 := sendMessage_shape E (MW τ) d m c (Ready.sendReady E τ hc.1)
    have h3 := sendMessage_spec E d m c
    cases h : Foca.sendMessage E d m c with
    | stuck x => trivial
    | err e c' =>
      rw [h] at h1 h3
      simp only [SendOK] at h3 ⊢
      rw [h3.2.2]
      exact ⟨h1, hc.2⟩
    | ok a c' =>
      rw [h] at h1 h2
      simp only [SentShape] at h2 ⊢
      obtain ⟨bytes, heff, _, hshape⟩ := h2
      refine ⟨h1, ?_⟩
      intro x hx
      rw [heff] at hx
      rcases List.mem_append.1 hx with hx | hx
      · exact hc.2 x hx
      · simp only [List.mem_singleton] at hx
        subst hx
        exact ⟨_, rfl, ⟨hc.1.1.1, hc.1.1.2.1.1, hd, hm⟩, hshape⟩⟩
  addUpdate := fun m hm => by
    unfold Foca.addUpdate
    have := (Ready.base E τ).addUpdate m hm
    unfold Foca.addUpdate at this
    exact Sent.modS E τ this
  modCtl := fun f h => Sent.modS E τ ((Ready.base E τ).modCtl f h)
  setHst := fun h' => Sent.modS E τ ((Ready.base E τ).setHst h')
  addCustom := fun h' key data hd => Sent.modS E τ ((Ready.base E τ).addCustom h' key data hd)

theorem Ready.of_wire {s s' : State} (h1 : s'.custom = s.custom) (hw : WireInv E τ s → WireInv E τ s') (h : Ready E τ s) : Ready E τ s' :=
  ⟨hw h.1, by unfold CustomNE; rw [h1]; exact h.2⟩

theorem Sent.reset : PresE (Sent E τ) Foca.reset := by
  unfold Foca.reset
  refine Sent.modS E τ (Pres.modS_of (fun s hs => Ready.of_wire E τ (s := s) rfl (fun hw => ?_) hs))
  have := (WireInv.reset E τ).run ⟨s, [], default⟩ hw
  unfold Foca.reset at this
  exact this

theorem Sent.changeIdentity (newId : Id) (pol : Policy) (hw : IdWire newId) :
    PresE (Sent E τ) (Foca.changeIdentity E newId pol) := by
  have B := Sent.baseE E τ
  unfold Foca.changeIdentity
  refine PresE.getS_with (fun s eff hs => ?_)
  split
  · exact PresE.throwE _
  · dsimp only
    refine PresE.bind (Sent.modS E τ (Pres.modS_of (fun s' hs' => Ready.of_wire E τ (s := s') rfl (fun h => ?_) hs')))
      (fun _ => PresE.bind (Sent.reset E τ) (fun _ => ?_))
    · obtain ⟨_, hinc, ha, hb, hcc⟩ := h
      exact ⟨hw, hinc, ha, hb, hcc⟩
    · split
      · exact PresE.bind (B.addUpdate _ (MW.down0 τ hs.1.1.1)) (fun _ => B.gossip)
      · exact B.gossip

theorem Sent.attemptRejoin : PresE (Sent E τ) (Foca.attemptRejoin E) := by
  have B := Sent.baseE E τ
  unfold Foca.attemptRejoin
  refine PresE.getS_with (fun s eff hs => ?_)
  split
  · exact PresE.pure _
  · rename_i newId hren
    split
    · exact PresE.pure _
    · split
      · exact PresE.pure _
      · exact PresE.bind (Sent.changeIdentity E τ newId s.policy (renew_wire hs.1.1.1 hren))
          (fun _ => PresE.bind (B.emitNS _ rfl rfl rfl) (fun _ => PresE.pure _))

theorem Sent.handleSelfUpdate (inc : Nat) (st : St) : PresE (Sent E τ) (Foca.handleSelfUpdate E inc st) := by
  have B := Sent.baseE E τ
  unfold Foca.handleSelfUpdate
  prese
  all_goals first
    | exact Sent.attemptRejoin E τ
    | exact B.becomeUndead
    | exact B.gossip
    | exact Sent.modS E τ (Pres.modS_of (fun s hs => Ready.of_wire E τ (s := s) rfl
        (fun h => ⟨h.1, ⟨satAdd16_wire _, h.2.1.2⟩, h.2.2.1, h.2.2.2.1, h.2.2.2.2⟩) hs))

theorem Sent.fullE : FullE E (Sent E τ) (MW τ) (MW τ) (fun h => MW τ ⟨h.src, h.srcInc, .alive⟩ ∧ MsgWire h.msg)
    IdWire MsgWire where
  toBaseE := Sent.baseE E τ
  handleSelfUpdate := Sent.handleSelfUpdate E τ
  emitS2d := fun m inc after tok hm => PresE.emit_of (fun s eff h => ⟨h.1, fun x hx => by
    rcases List.mem_append.1 hx with hx | hx
    · exact h.2 x hx
    · simp only [List.mem_singleton] at hx
      subst hx
      exact hm⟩)
  inputDown := fun u hu => MW.down0 τ hu.1.1
  senderOk := fun _ _ _ hh _ _ => hh.1
  applyOk := fun _ _ _ hu _ _ _ => hu
  replyOk := fun h hh => by
    obtain ⟨⟨⟨hsrc, _⟩, _⟩, hmsg⟩ := hh
    refine ⟨hsrc, ?_, ?_, ?_, ?_⟩
    · intro n hn; rw [hn] at hmsg; exact hmsg
    · intro t n hn; rw [hn] at hmsg; exact ⟨hmsg.1, hsrc, hmsg.2⟩
    · intro o n hn; rw [hn] at hmsg; exact hmsg
    · intro t n hn; rw [hn] at hmsg; exact ⟨hmsg.1, hsrc, hmsg.2⟩
  failedOk := fun s0 _ m hp hm => by
    apply hp.1.1.2.2.2.1 m
    unfold Probe.takeFailed at hm
    split at hm
    · exact hm
    · simp at hm

theorem Sent.reuseDownIdentity : PresE (Sent E τ) Foca.reuseDownIdentity := by
  unfold Foca.reuseDownIdentity
  prese
  exact Sent.reset E τ

/-- **One public call with wire-range input**: the state stays ready, and every datagram the call emitted has the
    documented shape. -/
theorem Sent.step (s : State) (op : Op) (orc : Oracle) (h : Ready E τ s) (hin : InputWire E τ op) :
    match Foca.step E s op orc with
    | .done s' eff _ _ => Ready E τ s' ∧ ∀ e ∈ eff, EffShape E τ e
    | .stuck _ => True := by
  have F := Sent.fullE E τ
  have hrun := (F.runOp op
    (fun i p hi => Sent.changeIdentity E τ i p (hin.2.2.2.1 i p hi))
    (fun _ => Sent.reuseDownIdentity E τ)
    (fun m inc tok ht => hin.2.2.1 m inc tok ht)
    (fun p tok ht => hin.2.2.2.2.1 p tok ht)
    (fun d hd => hin.2.2.2.2.2 d hd)
    (fun us b hu => hin.1 us b hu)
    (fun data hd => hin.2.1 data hd)
    (fun id _ => Sent.modS E τ (Pres.and (WireInv.removeDown E τ id) ((CustomNE.leaves E).removeDown id)))).run
      ⟨s, [], orc⟩ ⟨h, by intro e he; simp at he⟩
  unfold Foca.step
  cases hr : Foca.runOp E op ⟨s, [], orc⟩ with
  | stuck x => trivial
  | ok r c => rw [hr] at hrun; exact hrun
  | err e c => rw [hr] at hrun; exact hrun

theorem Ready.mono {τ' : Id → Nat} (hle : ∀ id, τ id ≤ τ' id) {s : State} (h : Ready E τ s) : Ready E τ' s :=
  ⟨WireInv.mono E τ hle h.1, h.2⟩

end

theorem Ready.reachable (E : Env) {s : State} {τ : Id → Nat} (h : WireHistory E s τ) : Ready E τ s := by
  induction h with
  | init id pol cfg τ hw =>
    refine ⟨WireInv.reachable E (WireHistory.init id pol cfg τ hw), ?_⟩
    intro e he; simp [State.init] at he
  | step op orc eff r left _ hle hin hstep ih =>
    have := Sent.step E _ _ op orc (Ready.mono E _ hle ih) hin
    rw [hstep] at this
    exact this.1

end Foca
