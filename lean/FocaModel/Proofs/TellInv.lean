/-
  An instance never holds — in its member list, its probe, or its backlog of updates to gossip — a member at an
  incarnation higher than it was told for that identity (`τ`: the highest incarnation told so far, per identity).
-/
import FocaModel.Proofs.Frames
import FocaModel.Proofs.SendUpd
import FocaModel.Props.C14
import FocaModel.Proofs.MsInv
namespace Foca

/-- a predicate on the bytes of backlog entries survives a fill (entries are only removed or decremented) -/
theorem fillStep_data {κ} {ov : Nat} {r r' : FillResult κ} {d : Bytes} (D : Bytes → Prop)
    (h : fillStep ov r d = some r') (hq : ∀ e ∈ r.pending ++ r.done, D e.data) :
    ∀ e ∈ r'.pending ++ r'.done, D e.data := by
  obtain ⟨e0, _, hp, _, _, _, hdone, _, _, _⟩ := fillStep_spec h
  intro e he
  rw [List.mem_append] at he
  rcases he with he | he
  · exact hq e (List.mem_append_left _ (hp.mem_iff.1 (List.mem_cons_of_mem _ he)))
  · rw [hdone] at he
    split at he
    · rw [List.mem_append] at he
      rcases he with he | he
      · exact hq e (List.mem_append_right _ he)
      · simp at he
        rw [he]
        exact hq e0 (List.mem_append_left _ (hp.mem_iff.1 (by simp)))
    · exact hq e (List.mem_append_right _ he)

theorem fillSteps_data {κ} {ov : Nat} {r r' : FillResult κ} {ds : List Bytes} (D : Bytes → Prop)
    (h : fillSteps ov r ds = some r') (hq : ∀ e ∈ r.pending ++ r.done, D e.data) :
    ∀ e ∈ r'.pending ++ r'.done, D e.data := by
  induction ds generalizing r with
  | nil => simp [fillSteps] at h; subst h; exact hq
  | cons d ds ih =>
    unfold fillSteps at h
    cases hs : fillStep ov r d with
    | none => rw [hs] at h; simp at h
    | some r1 => rw [hs] at h; exact ih h (fillStep_data D hs hq)

theorem fill_data {κ} {b : List (Entry κ)} {space mi ov : Nat} {picks : List Bytes} {r : FillResult κ} (D : Bytes → Prop)
    (h : fill b space mi ov picks = some r) (hq : ∀ e ∈ b, D e.data) : ∀ e ∈ r.pending ++ r.done, D e.data := by
  unfold fill at h
  cases hs : fillSteps ov ⟨b, [], [], space, mi⟩ picks with
  | none => rw [hs] at h; simp at h
  | some r1 =>
    rw [hs] at h
    simp only at h
    by_cases hf : fillFinal ov r1 = true
    · simp only [hf, if_true, Option.some.injEq] at h
      subst h
      exact fillSteps_data D hs (by simpa using hq)
    · simp [hf] at h

/-- after an update the record is the old one, or carries the update's identity and incarnation -/
theorem updateKnown_told (k u : Member) (cond : Member → Bool) :
    (updateKnown k u cond).1 = k ∨
      ((updateKnown k u cond).1.id = u.id ∧ (updateKnown k u cond).1.inc = u.inc) := by
  unfold updateKnown
  by_cases h1 : (k.id != u.id && k.id.wins u.id) = true
  · simp [h1]
  · by_cases h2 : cond k = true
    · by_cases h3 : (k.id != u.id) = true
      · have hw : k.id.wins u.id = false := by
          cases hw : k.id.wins u.id with
          | false => rfl
          | true => simp [h3, hw] at h1
        simp [h1, h2, h3, hw]
      · have heq : k.id = u.id := by simpa using h3
        by_cases h4 : Gen.canChange k.st k.inc u.inc u.st = true <;> simp [h1, h2, h3, h4, heq]
    · simp [h1, h2]

section
variable (E : Env) (τ : Id → Nat)

def okTold (u : Member) : Prop := u.inc ≤ τ u.id

def TellInv (s : State) : Prop :=
  (∀ m ∈ s.ms, m.inc ≤ τ m.id) ∧ (∀ m, s.probe.direct = some m → m.inc ≤ τ m.id) ∧
  (∀ e ∈ s.updates, ∃ u : Member, e.data = E.codec.encMember u ∧ u.inc ≤ τ u.id)

theorem applyExisting_told {ms ms' : List Member} {u : Member} {cond : Member → Bool} {sm : Summary}
    (h : applyExisting ms u cond = some (ms', sm)) (hu : okTold τ u) (hinv : ∀ m ∈ ms, m.inc ≤ τ m.id) :
    ∀ m ∈ ms', m.inc ≤ τ m.id := by
  induction ms generalizing ms' sm with
  | nil => simp [applyExisting] at h
  | cons k rest ih =>
    unfold applyExisting at h
    by_cases hk : (k.id.addr == u.id.addr) = true
    · simp only [hk, if_true] at h
      simp at h
      obtain ⟨h1, _⟩ := h
      subst h1
      intro m hm
      simp only [List.mem_cons] at hm
      rcases hm with hm | hm
      · subst hm
        rcases updateKnown_told k u cond with hs | ⟨hid, hinc⟩
        · rw [hs]; exact hinv k (by simp)
        · rw [hid, hinc]; exact hu
      · exact hinv m (by simp [hm])
    · simp only [hk, Bool.false_eq_true, if_false] at h
      cases hr : applyExisting rest u cond with
      | none => rw [hr] at h; simp at h
      | some r =>
        obtain ⟨rest', s'⟩ := r
        rw [hr] at h
        simp at h
        obtain ⟨h1, _⟩ := h
        subst h1
        intro m hm
        simp only [List.mem_cons] at hm
        rcases hm with hm | hm
        · subst hm; exact hinv m (by simp)
        · exact ih hr (fun x hx => hinv x (by simp [hx])) m hm

theorem TellInv.of_same {s s' : State} (h1 : s'.ms = s.ms) (h2 : s'.updates = s.updates)
    (h3 : ProbeKeep s.probe s'.probe) (h : TellInv E τ s) : TellInv E τ s' := by
  obtain ⟨ha, hb, hc⟩ := h
  refine ⟨by rw [h1]; exact ha, ?_, by rw [h2]; exact hc⟩
  intro m hm
  rcases h3 with h3 | h3
  · exact hb m (by rw [← h3]; exact hm)
  · rw [h3] at hm; simp at hm

theorem TellInv.removeDown (id : Id) : Pres (TellInv E τ) (modS fun s => { s with ms := removeIfDown s.ms id }) :=
  Pres.modS_of (fun s hs => by
    obtain ⟨ha, hb, hcc⟩ := hs
    refine ⟨?_, hb, hcc⟩
    intro m hm
    simp only at hm
    rcases removeIfDown_spec s.ms id with h | ⟨x, _, hp⟩
    · rw [h] at hm; exact ha m hm
    · exact ha m (hp.mem_iff.1 (List.mem_cons_of_mem _ hm)))

theorem TellInv.base : Base E (TellInv E τ) (okTold τ) where
  ownDown := fun _ _ => Nat.zero_le _
  membersApply := fun u hu => ⟨fun c hc => by
    obtain ⟨ha, hb, hcc⟩ := hc
    unfold Foca.membersApply
    cases h : Foca.applyExisting c.s.ms u (fun _ => true) with
    | some r =>
      obtain ⟨ms', sm⟩ := r
      exact ⟨applyExisting_told τ h hu ha, hb, hcc⟩
    | none =>
      simp only
      have hd := drawIdx_frame .choose (c.s.ms.length + 1) c
      cases hdr : Foca.drawIdx .choose (c.s.ms.length + 1) c with
      | stuck x => trivial
      | err e c1 => rw [hdr] at hd; simp only at hd ⊢; rw [hd.1]; exact ⟨ha, hb, hcc⟩
      | ok j c1 =>
        rw [hdr] at hd
        simp only at hd ⊢
        rw [hd.1]
        refine ⟨?_, hb, hcc⟩
        intro m hm
        have := (applyNew_perm c.s.ms u j).mem_iff.1 hm
        simp only [List.mem_cons] at this
        rcases this with h1 | h1
        · subst h1; exact hu
        · exact ha m h1⟩
  membersApplyExistingIf := fun u cond hu => ⟨fun c hc => by
    obtain ⟨ha, hb, hcc⟩ := hc
    unfold Foca.membersApplyExistingIf
    cases h : Foca.applyExisting c.s.ms u cond with
    | some r =>
      obtain ⟨ms', sm⟩ := r
      exact ⟨applyExisting_told τ h hu ha, hb, hcc⟩
    | none => exact ⟨ha, hb, hcc⟩⟩
  membersNext := ⟨fun c hc => by
    obtain ⟨ha, hb, hcc⟩ := hc
    have key : ∀ (l : List Member) (i : Nat), (∀ m ∈ l, m.inc ≤ τ m.id) →
        ∀ m, (nextPure l i).1 = some m → okTold τ ⟨m.id, m.inc, .suspect⟩ := by
      intro l i hl m hm
      exact hl m (Foca.C14.next_returns_an_active_member l i m hm).1
    unfold Foca.membersNext
    by_cases hs : needsShuffle c.s.cursor c.s.ms.length = true
    · simp only [hs, if_true]
      unfold Foca.drawShuffle
      cases hd : c.orc.draws with
      | nil => trivial
      | cons d rest =>
        cases d with
        | idx k => trivial
        | perm p =>
          simp only
          by_cases hperm : (p.filterMap (fun i => c.s.ms[i]?)).isPerm c.s.ms = true
          · simp only [hperm, if_true]
            have hp : (p.filterMap (fun i => c.s.ms[i]?)).Perm c.s.ms := List.isPerm_iff.1 hperm
            have ha' : ∀ m ∈ p.filterMap (fun i => c.s.ms[i]?), m.inc ≤ τ m.id := fun m hm => ha m (hp.mem_iff.1 hm)
            exact ⟨⟨ha', hb, hcc⟩, key _ _ ha'⟩
          · simp [hperm]
    · simp only [hs, Bool.false_eq_true, if_false]
      exact ⟨⟨ha, hb, hcc⟩, key _ _ ha⟩⟩
  startProbe := fun m hm => Pres.modS_of (fun s hs => by
    obtain ⟨ha, _, hcc⟩ := hs
    refine ⟨ha, ?_, hcc⟩
    intro m' hm'
    simp [Probe.start] at hm'
    subst hm'
    exact hm)
  sendMessage := fun d m => ⟨fun c hc => by
    have h1 := sendMessage_upd E d m c
    have h2 := sendMessage_spec E d m c
    cases h : Foca.sendMessage E d m c with
    | stuck x => trivial
    | err e c' => rw [h] at h2; simp only at h2 ⊢; rw [h2.2.1]; exact hc
    | ok a c' =>
      rw [h] at h1 h2
      simp only at h1 h2 ⊢
      obtain ⟨ha, hb, hcc⟩ := hc
      have hob := h2.1
      refine ⟨by rw [hob.ms]; exact ha, by rw [hob]; exact hb, ?_⟩
      rcases h1 with h1 | ⟨sp, picks, r, hf, h1⟩
      · rw [h1]; exact hcc
      · rw [h1]
        exact fill_data (fun d => ∃ u : Member, d = E.codec.encMember u ∧ u.inc ≤ τ u.id) hf hcc⟩
  addUpdate := fun m hm => by
    unfold Foca.addUpdate
    refine Pres.modS_of (fun s hs => ?_)
    obtain ⟨ha, hb, hcc⟩ := hs
    refine ⟨ha, hb, ?_⟩
    intro e he
    simp only [addOrReplace, List.mem_append, List.mem_filter, List.mem_singleton] at he
    rcases he with he | he
    · exact hcc e he.1
    · rw [he]; exact ⟨m, rfl, hm⟩
  modCtl := fun f h => Pres.modS_of (fun s hs =>
    TellInv.of_same E τ (h s).1 (h s).2.2.1 (h s).2.2.2.2.2.2.2.2.1 hs)
  setHst := fun _ => Pres.modS_of (fun s hs => TellInv.of_same E τ (s := s) rfl rfl (Or.inl rfl) hs)
  addCustom := fun _ _ _ _ => Pres.modS_of (fun s hs => TellInv.of_same E τ (s := s) rfl rfl (Or.inl rfl) hs)

theorem TellInv.modId (f : State → State) (h : IdCtl f) : Pres (TellInv E τ) (modS f) :=
  Pres.modS_of (fun s hs => TellInv.of_same E τ (h s).1 (h s).2.2.1 (h s).2.2.2.2.2.1 hs)

theorem TellInv.full : Full E (TellInv E τ) (okTold τ) (okTold τ) (fun h => h.srcInc ≤ τ h.src) where
  toBase := TellInv.base E τ
  handleSelfUpdate := (TellInv.base E τ).handleSelfUpdate_of (TellInv.modId E τ)
  inputDown := fun _ _ => Nat.zero_le _
  senderOk := fun _ _ hh _ _ => hh
  applyOk := fun _ _ hu _ _ _ => hu
  failedOk := fun s0 m hp hm => by
    apply hp.2.1 m
    unfold Probe.takeFailed at hm
    split at hm
    · exact hm
    · simp at hm

/-- what the instance is told by one call: the members of a batch, the header and member section of a datagram,
    the member a suspicion timeout names — all at incarnations not above `τ` -/
def InputTold (op : Op) : Prop :=
  (∀ us b, op = .applyMany us b → ∀ u ∈ us, u.inc ≤ τ u.id) ∧
  (∀ data, op = .data data → DataOk E (okTold τ) (fun h => h.srcInc ≤ τ h.src) data) ∧
  (∀ m inc tok, op = .timer (.s2d m inc tok) → inc ≤ τ m)

/-- One public call whose input is covered by `τ` keeps everything the instance holds within `τ`. -/
theorem TellInv.step (s : State) (op : Op) (orc : Oracle) (h : TellInv E τ s) (hin : InputTold E τ op) :
    match Foca.step E s op orc with
    | .done s' _ _ _ => TellInv E τ s'
    | .stuck _ => True := by
  have F := TellInv.full E τ
  have hrun := (F.runOp op
    (fun i p _ => F.toBase.changeIdentity_of (TellInv.modId E τ) i p)
    (fun _ => F.toBase.reuseDownIdentity_of (TellInv.modId E τ))
    (fun m inc tok ht => hin.2.2 m inc tok ht)
    (fun us b hu => hin.1 us b hu)
    (fun data hd => hin.2.1 data hd)
    (fun id _ => TellInv.removeDown E τ id)).run ⟨s, [], orc⟩ h
  unfold Foca.step
  cases hr : Foca.runOp E op ⟨s, [], orc⟩ with
  | stuck x => trivial
  | ok r c => rw [hr] at hrun; exact hrun
  | err e c => rw [hr] at hrun; exact hrun

theorem TellInv.mono {τ' : Id → Nat} (hle : ∀ id, τ id ≤ τ' id) {s : State} (h : TellInv E τ s) : TellInv E τ' s := by
  obtain ⟨ha, hb, hc⟩ := h
  refine ⟨fun m hm => Nat.le_trans (ha m hm) (hle _), fun m hm => Nat.le_trans (hb m hm) (hle _), ?_⟩
  intro e he
  obtain ⟨u, hu1, hu2⟩ := hc e he
  exact ⟨u, hu1, Nat.le_trans hu2 (hle _)⟩

end
end Foca
