/-
  Generic composition: an invariant `P` whose *leaf* obligations hold (the few primitives that write the
  state) is preserved by every function of the model, by `step`, and holds in every reachable state.
-/
import FocaModel.Proofs.Inv
namespace Foca

/-- `f` leaves membership, counters and both backlogs alone (it may touch connection state, token, probe,
    incarnation, identity, policy, configuration, send buffer, handler state) -/
def CtlOnly (f : State → State) : Prop :=
  ∀ s, (f s).ms = s.ms ∧ (f s).numActive = s.numActive ∧ (f s).updates = s.updates ∧
    (f s).custom = s.custom ∧ (f s).cursor = s.cursor

/-- `f` may also replace the custom-broadcast backlog (and handler state) -/
def CustomOnly (f : State → State) : Prop :=
  ∀ s, (f s).ms = s.ms ∧ (f s).numActive = s.numActive ∧ (f s).updates = s.updates ∧ (f s).cursor = s.cursor ∧
    (f s).id = s.id ∧ (f s).inc = s.inc ∧ (f s).conn = s.conn ∧ (f s).token = s.token ∧ (f s).cfg = s.cfg

/-- the leaf obligations of an invariant -/
structure Leaves (E : Env) (P : State → Prop) : Prop where
  init : ∀ id pol cfg, P (State.init id pol cfg)
  membersApply : ∀ u, Pres P (membersApply u)
  membersApplyExistingIf : ∀ u cond, Pres P (membersApplyExistingIf u cond)
  membersNext : Pres P membersNext
  removeDown : ∀ id, Pres P (modS fun s => { s with ms := removeIfDown s.ms id })
  sendMessage : ∀ d m, Pres P (sendMessage E d m)
  addUpdate : ∀ m, Pres P (addUpdate E m)
  modCtl : ∀ f, CtlOnly f → Pres P (modS f)
  modCustom : ∀ f, CustomOnly f → Pres P (modS f)

section
variable {E : Env} {P : State → Prop} (L : Leaves E P)
include L

theorem Leaves.ctl (f : State → State)
    (h : ∀ s, (f s).ms = s.ms ∧ (f s).numActive = s.numActive ∧ (f s).updates = s.updates ∧
      (f s).custom = s.custom ∧ (f s).cursor = s.cursor := by intro s; exact ⟨rfl, rfl, rfl, rfl, rfl⟩) :
    Pres P (modS f) := L.modCtl f h

theorem Leaves.chooseLoop (w : Nat) (pick : Member → Bool) (l out : List Member) (seen : Nat) :
    Pres P (Foca.chooseLoop w pick l out seen) := by
  constructor
  intro c hc
  have := chooseLoop_spec w pick l out seen c
  cases h : Foca.chooseLoop w pick l out seen c with
  | stuck x => trivial
  | err e c' => rw [h] at this; exact this.elim
  | ok a c' => rw [h] at this; simp only; rw [this.1]; exact hc

theorem Leaves.sendAll (msg : Msg) (ds : List Id) : Pres P (Foca.sendAll E msg ds) := by
  induction ds with
  | nil => unfold Foca.sendAll; exact Pres.pure _
  | cons d rest ih =>
    unfold Foca.sendAll
    exact Pres.bind (L.sendMessage d msg) (fun _ => ih)

theorem Leaves.chooseAndSend (n : Nat) (msg : Msg) : Pres P (Foca.chooseAndSend E n msg) := by
  unfold Foca.chooseAndSend
  pres
  · exact L.chooseLoop _ _ _ _ _
  · exact L.sendAll _ _

theorem Leaves.gossip : Pres P (Foca.gossip E) := by
  unfold Foca.gossip
  pres
  exact L.chooseAndSend _ _

theorem Leaves.announceToDown (n : Nat) : Pres P (Foca.announceToDown E n) := by
  unfold Foca.announceToDown
  pres
  · exact L.chooseLoop _ _ _ _ _
  · exact L.sendAll _ _

theorem Leaves.reset : Pres P Foca.reset := by
  unfold Foca.reset
  exact L.ctl _

theorem Leaves.becomeUndead : Pres P Foca.becomeUndead := by
  unfold Foca.becomeUndead
  pres
  exact L.ctl _

theorem Leaves.becomeDisconnected : Pres P (Foca.becomeDisconnected E) := by
  unfold Foca.becomeDisconnected
  pres
  exact L.ctl _

theorem Leaves.becomeConnected : Pres P (Foca.becomeConnected E) := by
  unfold Foca.becomeConnected
  pres
  exact L.ctl _

theorem Leaves.adjustConnectionState : Pres P (Foca.adjustConnectionState E) := by
  unfold Foca.adjustConnectionState
  pres
  · exact L.becomeConnected
  · exact L.becomeDisconnected

theorem Leaves.handleApplySummary (sm : Summary) (u : Member) (b : Bool) : Pres P (Foca.handleApplySummary E sm u b) := by
  unfold Foca.handleApplySummary
  pres
  all_goals first | exact L.addUpdate _ | skip

theorem Leaves.applyUpdate (u : Member) (b : Bool) : Pres P (Foca.applyUpdate E u b) := by
  unfold Foca.applyUpdate
  pres
  · exact L.membersApply u
  · exact L.handleApplySummary _ _ _

theorem Leaves.changeIdentity (i : Id) (p : Policy) : Pres P (Foca.changeIdentity E i p) := by
  unfold Foca.changeIdentity
  pres
  all_goals first
    | exact L.ctl _
    | exact L.reset
    | exact L.addUpdate _
    | exact L.gossip

theorem Leaves.attemptRejoin : Pres P (Foca.attemptRejoin E) := by
  unfold Foca.attemptRejoin
  pres
  exact L.changeIdentity _ _

theorem Leaves.handleSelfUpdate (inc : Nat) (st : St) : Pres P (Foca.handleSelfUpdate E inc st) := by
  unfold Foca.handleSelfUpdate
  pres
  all_goals first
    | exact L.attemptRejoin
    | exact L.becomeUndead
    | exact L.gossip
    | exact L.ctl _

theorem Leaves.applyOne (u : Member) (b : Bool) : Pres P (Foca.applyOne E u b) := by
  unfold Foca.applyOne
  pres
  all_goals first
    | exact L.handleSelfUpdate _ _
    | exact L.applyUpdate _ _

theorem Leaves.applyLoop (b : Bool) (us : List Member) : Pres P (Foca.applyLoop E b us) := by
  induction us with
  | nil => unfold Foca.applyLoop; exact Pres.pure _
  | cons u rest ih =>
    unfold Foca.applyLoop
    exact Pres.bind (L.applyOne u b) (fun _ => ih)

theorem Leaves.applyMany (us : List Member) (b : Bool) : Pres P (Foca.applyMany E us b) := by
  unfold Foca.applyMany
  pres
  · exact L.applyLoop _ _
  · exact L.adjustConnectionState

theorem Leaves.broadcastLoop (ds : List Id) : Pres P (Foca.broadcastLoop E ds) := by
  induction ds with
  | nil => unfold Foca.broadcastLoop; exact Pres.pure _
  | cons d rest ih =>
    unfold Foca.broadcastLoop
    pres
    · exact L.sendMessage _ _
    · exact ih

theorem Leaves.broadcastApi : Pres P (Foca.broadcastApi E) := by
  unfold Foca.broadcastApi
  pres
  · exact L.chooseLoop _ _ _ _ _
  · exact L.broadcastLoop _

theorem Leaves.leaveCluster : Pres P (Foca.leaveCluster E) := by
  unfold Foca.leaveCluster
  pres
  · exact L.addUpdate _
  · exact L.gossip
  · exact L.becomeUndead

theorem Leaves.addBroadcast (d : Bytes) : Pres P (Foca.addBroadcast E d) := by
  unfold Foca.addBroadcast
  pres
  all_goals exact L.modCustom _ (fun _ => ⟨rfl, rfl, rfl, rfl, rfl, rfl, rfl, rfl, rfl⟩)

theorem Leaves.reuseDownIdentity : Pres P Foca.reuseDownIdentity := by
  unfold Foca.reuseDownIdentity
  pres
  exact L.reset

theorem Leaves.setConfig (cfg : Config) : Pres P (Foca.setConfig cfg) := by
  unfold Foca.setConfig
  pres
  exact L.ctl _

theorem Leaves.probeRandomMember : Pres P (Foca.probeRandomMember E) := by
  unfold Foca.probeRandomMember
  pres
  all_goals first
    | exact L.ctl _
    | exact L.membersApplyExistingIf _ _
    | exact L.handleApplySummary _ _ _
    | exact L.membersNext
    | exact L.sendMessage _ _

theorem Leaves.pingReqLoop (probed : Id) (ds : List Id) : Pres P (Foca.pingReqLoop E probed ds) := by
  induction ds with
  | nil => unfold Foca.pingReqLoop; exact Pres.pure _
  | cons d rest ih =>
    unfold Foca.pingReqLoop
    pres
    · exact L.ctl _
    · exact L.sendMessage _ _
    · exact ih

theorem Leaves.handleTimer (t : Timer) : Pres P (Foca.handleTimer E t) := by
  unfold Foca.handleTimer
  pres
  all_goals first
    | exact L.ctl _
    | exact L.removeDown _
    | exact L.chooseLoop _ _ _ _ _
    | exact L.pingReqLoop _ _
    | exact L.membersApplyExistingIf _ _
    | exact L.handleApplySummary _ _ _
    | exact L.adjustConnectionState
    | exact L.sendMessage _ _
    | exact L.probeRandomMember
    | exact L.chooseAndSend _ _
    | exact L.announceToDown _

theorem Leaves.customLoop (sender : Option Id) (fuel : Nat) (data : Bytes) : Pres P (Foca.customLoop E sender fuel data) := by
  induction fuel generalizing data with
  | zero => unfold Foca.customLoop; exact Pres.throwE _
  | succ f ih =>
    unfold Foca.customLoop
    pres
    all_goals first
      | exact L.modCustom _ (fun _ => ⟨rfl, rfl, rfl, rfl, rfl, rfl, rfl, rfl, rfl⟩)
      | exact ih _

theorem Leaves.handleCustomBroadcasts (data : Bytes) (sender : Option Id) :
    Pres P (Foca.handleCustomBroadcasts E data sender) := by
  unfold Foca.handleCustomBroadcasts
  pres
  exact L.customLoop _ _ _

theorem Leaves.reactToMessage (h : Header) : Pres P (Foca.reactToMessage E h) := by
  unfold Foca.reactToMessage
  pres
  all_goals first
    | exact L.ctl _
    | exact L.sendMessage _ _
    | exact L.handleSelfUpdate _ _

theorem Leaves.inactiveSender (h : Header) : Pres P (Foca.inactiveSender E h) := by
  unfold Foca.inactiveSender
  pres
  all_goals first
    | exact L.handleSelfUpdate _ _
    | exact L.sendMessage _ _

theorem Leaves.replyStage (h : Header) (cres : Option ErrKind) : Pres P (Foca.replyStage E h cres) := by
  unfold Foca.replyStage
  pres
  exact L.reactToMessage _

theorem Leaves.handleData (data : Bytes) : Pres P (Foca.handleData E data) := by
  unfold Foca.handleData
  pres
  all_goals first
    | exact L.applyUpdate _ _
    | exact L.inactiveSender _
    | exact L.applyMany _ _
    | exact Pres.attempt (L.handleCustomBroadcasts _ _)
    | exact L.replyStage _ _

theorem Leaves.runOp (op : Op) : Pres P (Foca.runOp E op) := by
  cases op <;> unfold Foca.runOp <;> pres
  all_goals first
    | exact L.applyMany _ _
    | exact L.handleData _
    | exact L.handleTimer _
    | exact L.sendMessage _ _
    | exact L.gossip
    | exact L.broadcastApi
    | exact L.leaveCluster
    | exact L.addBroadcast _
    | exact L.changeIdentity _ _
    | exact L.reuseDownIdentity
    | exact L.setConfig _

/-- One public call keeps the invariant, whatever the input and the oracle. -/
theorem Leaves.step (s : State) (op : Op) (orc : Oracle) (h : P s) :
    match Foca.step E s op orc with
    | .done s' _ _ _ => P s'
    | .stuck _ => True := by
  have := (L.runOp op).run ⟨s, [], orc⟩ h
  unfold Foca.step
  cases hr : Foca.runOp E op ⟨s, [], orc⟩ with
  | stuck x => trivial
  | ok r c => rw [hr] at this; exact this
  | err e c => rw [hr] at this; exact this

end

/-- every state reachable from a fresh instance by any history of public calls, inputs and oracles -/
inductive Reachable (E : Env) : State → Prop
  | init (id : Id) (pol : Policy) (cfg : Config) : Reachable E (State.init id pol cfg)
  | step {s s' : State} (op : Op) (orc : Oracle) (eff : List Effect) (r : Res) (left : Oracle) :
      Reachable E s → Foca.step E s op orc = .done s' eff r left → Reachable E s'

theorem Leaves.reachable {E : Env} {P : State → Prop} (L : Leaves E P) {s : State} (h : Reachable E s) : P s := by
  induction h with
  | init id pol cfg => exact L.init id pol cfg
  | step op orc eff r left _ hstep ih =>
    have := L.step _ op orc ih
    rw [hstep] at this
    exact this

end Foca
