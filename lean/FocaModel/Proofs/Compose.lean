/-
  Generic composition: an invariant `P` whose *leaf* obligations hold (the few primitives that write the
  state) is preserved by every function of the model, by `step`, and holds in every reachable state.

  Three layers:
  * `Base`  — leaves for everything that does not write identity, incarnation or renew policy;
  * `Full`  — `Base` plus `handle_self_update` (the only internal writer of identity/incarnation);
              yields every function up to `runOp`, the two identity-changing API calls being hypotheses;
  * `Leaves` — for invariants that ignore identity and incarnation altogether: everything, no hypotheses.
-/
import FocaModel.Proofs.Inv
namespace Foca

/-- the probe keeps its target or drops it -/
def ProbeKeep (p p' : Probe) : Prop := p'.direct = p.direct ∨ p'.direct = none

theorem ProbeKeep.receiveAck (p : Probe) (src : Id) (n : Nat) : ProbeKeep p (p.receiveAck src n) := by
  unfold Probe.receiveAck ProbeKeep; split <;> exact Or.inl rfl

theorem ProbeKeep.receiveIndirectAck (p : Probe) (src : Id) (n : Nat) : ProbeKeep p (p.receiveIndirectAck src n) := by
  unfold Probe.receiveIndirectAck ProbeKeep
  split
  · exact Or.inl rfl
  · split <;> exact Or.inl rfl

theorem Probe.takeFailed_number (p : Probe) : p.takeFailed.2.number = p.number := by
  unfold Probe.takeFailed; split <;> rfl

theorem Probe.receiveAck_number (p : Probe) (src : Id) (n : Nat) : (p.receiveAck src n).number = p.number := by
  unfold Probe.receiveAck; split <;> rfl

theorem Probe.receiveIndirectAck_number (p : Probe) (src : Id) (n : Nat) : (p.receiveIndirectAck src n).number = p.number := by
  unfold Probe.receiveIndirectAck
  split
  · rfl
  · split <;> rfl

theorem ProbeKeep.takeFailed (p : Probe) : ProbeKeep p p.takeFailed.2 := by
  unfold Probe.takeFailed ProbeKeep; split
  · exact Or.inr rfl
  · exact Or.inl rfl

/-- `f` leaves membership, counters, both backlogs, identity, incarnation and policy alone, and does not give
    the probe a new target (it may touch connection state, token, the rest of the probe, configuration, send
    buffer, handler state) -/
def CtlKeep (f : State → State) : Prop :=
  ∀ s, (f s).ms = s.ms ∧ (f s).numActive = s.numActive ∧ (f s).updates = s.updates ∧
    (f s).custom = s.custom ∧ (f s).cursor = s.cursor ∧ (f s).id = s.id ∧ (f s).inc = s.inc ∧
    (f s).policy = s.policy ∧ ProbeKeep s.probe (f s).probe ∧ (f s).probe.number = s.probe.number

/-- `f` leaves membership, counters and both backlogs alone (it may also touch identity, incarnation, policy) -/
def CtlOnly (f : State → State) : Prop :=
  ∀ s, (f s).ms = s.ms ∧ (f s).numActive = s.numActive ∧ (f s).updates = s.updates ∧
    (f s).custom = s.custom ∧ (f s).cursor = s.cursor

/-- `f` may replace the custom-broadcast backlog and handler state, nothing else -/
def CustomOnly (f : State → State) : Prop :=
  ∀ s, (f s).ms = s.ms ∧ (f s).numActive = s.numActive ∧ (f s).updates = s.updates ∧ (f s).cursor = s.cursor ∧
    (f s).id = s.id ∧ (f s).inc = s.inc ∧ (f s).conn = s.conn ∧ (f s).token = s.token ∧ (f s).cfg = s.cfg ∧
    (f s).policy = s.policy ∧ (f s).probe = s.probe ∧ (f s).sendCap = s.sendCap

/-- the two custom-backlog leaves, for an invariant that accepts any write confined to handler state and
    custom backlog -/
theorem customLeaves_of {E : Env} {P : State → Prop} (h : ∀ f, CustomOnly f → Pres P (modS f)) :
    (∀ h', Pres P (modS fun s => { s with hst := h' })) ∧
    (∀ h' key data, 1 ≤ data.length → Pres P (modS fun s =>
      { s with hst := h', custom := addOrReplace s.custom E.handler.invalidates key data s.cfg.maxTx })) :=
  ⟨fun _ => h _ (fun _ => ⟨rfl, rfl, rfl, rfl, rfl, rfl, rfl, rfl, rfl, rfl, rfl, rfl⟩),
   fun _ _ _ _ => h _ (fun _ => ⟨rfl, rfl, rfl, rfl, rfl, rfl, rfl, rfl, rfl, rfl, rfl, rfl⟩)⟩

/-- `handle_apply_summary` from its one state-changing leaf -/
theorem handleApplySummary_pres {E : Env} {P : State → Prop} {u : Member} (hadd : Pres P (addUpdate E u))
    (sm : Summary) (b : Bool) : Pres P (handleApplySummary E sm u b) := by
  unfold Foca.handleApplySummary
  pres
  all_goals first | exact hadd | skip

/-- the unit `apply_existing_if` + report from its leaves -/
theorem applyExistingReport_pres {E : Env} {P : State → Prop} {u : Member} {cond : Member → Bool}
    (h1 : Pres P (membersApplyExistingIf u cond)) (hadd : Pres P (addUpdate E u)) :
    Pres P (applyExistingReport E u cond) := by
  unfold Foca.applyExistingReport
  refine Pres.bind h1 (fun r => ?_)
  split
  · exact Pres.bind (handleApplySummary_pres hadd _ _) (fun _ => Pres.pure _)
  · exact Pres.pure _

/-- leaf obligations, identity/incarnation writers excluded. `okU u`: the update `u` may be stored (a pure
    side condition; `fun _ => True` for invariants that accept every update). -/
structure Base (E : Env) (P : State → Prop) (okU : Member → Prop) : Prop where
  /-- the Down-at-incarnation-0 update the instance makes up about its own (previous) identity -/
  ownDown : ∀ s, P s → okU ⟨s.id, 0, .down⟩
  membersApply : ∀ u, okU u → Pres P (membersApply u)
  membersApplyExistingIf : ∀ u cond, okU u → Pres P (membersApplyExistingIf u cond)
  /-- the member `next` returns may become the probe target -/
  membersNext : PresR P (fun r => ∀ m, r = some m → okU ⟨m.id, m.inc, .suspect⟩) membersNext
  startProbe : ∀ m, okU ⟨m.id, m.inc, .suspect⟩ → Pres P (modS fun s => { s with probe := s.probe.start m })
  sendMessage : ∀ d m, Pres P (sendMessage E d m)
  addUpdate : ∀ m, okU m → Pres P (addUpdate E m)
  modCtl : ∀ f, CtlKeep f → Pres P (modS f)
  /-- handler state only -/
  setHst : ∀ h', Pres P (modS fun s => { s with hst := h' })
  /-- a custom broadcast accepted by the handler is enqueued (it is never empty) -/
  addCustom : ∀ h' key data, 1 ≤ data.length → Pres P (modS fun s =>
    { s with hst := h', custom := addOrReplace s.custom E.handler.invalidates key data s.cfg.maxTx })

section
variable {E : Env} {P : State → Prop} {okU : Member → Prop} (B : Base E P okU)
include B

theorem Base.ctl (f : State → State)
    (h : ∀ s, (f s).ms = s.ms ∧ (f s).numActive = s.numActive ∧ (f s).updates = s.updates ∧
      (f s).custom = s.custom ∧ (f s).cursor = s.cursor ∧ (f s).id = s.id ∧ (f s).inc = s.inc ∧
      (f s).policy = s.policy ∧ ProbeKeep s.probe (f s).probe ∧ (f s).probe.number = s.probe.number := by
        intro s; exact ⟨rfl, rfl, rfl, rfl, rfl, rfl, rfl, rfl, by first | exact Or.inl rfl | exact Or.inr rfl, rfl⟩) :
    Pres P (modS f) := B.modCtl f h

theorem Base.chooseLoop (w : Nat) (pick : Member → Bool) (l out : List Member) (seen : Nat) :
    Pres P (Foca.chooseLoop w pick l out seen) := by
  constructor
  intro c hc
  have := chooseLoop_spec w pick l out seen c
  cases h : Foca.chooseLoop w pick l out seen c with
  | stuck x => trivial
  | err e c' => rw [h] at this; exact this.elim
  | ok a c' => rw [h] at this; simp only; rw [this.1]; exact hc

theorem Base.sendAll (msg : Msg) (ds : List Id) : Pres P (Foca.sendAll E msg ds) := by
  induction ds with
  | nil => unfold Foca.sendAll; exact Pres.pure _
  | cons d rest ih =>
    unfold Foca.sendAll
    exact Pres.bind (B.sendMessage d msg) (fun _ => ih)

theorem Base.chooseAndSend (n : Nat) (msg : Msg) : Pres P (Foca.chooseAndSend E n msg) := by
  unfold Foca.chooseAndSend
  pres
  · exact B.chooseLoop _ _ _ _ _
  · exact B.sendAll _ _

theorem Base.gossip : Pres P (Foca.gossip E) := by
  unfold Foca.gossip
  pres
  exact B.chooseAndSend _ _

theorem Base.announceToDown (n : Nat) : Pres P (Foca.announceToDown E n) := by
  unfold Foca.announceToDown
  pres
  · exact B.chooseLoop _ _ _ _ _
  · exact B.sendAll _ _

theorem Base.becomeUndead : Pres P Foca.becomeUndead := by
  unfold Foca.becomeUndead
  pres
  exact B.ctl _

theorem Base.becomeDisconnected : Pres P (Foca.becomeDisconnected E) := by
  unfold Foca.becomeDisconnected
  pres
  exact B.ctl _

theorem Base.becomeConnected : Pres P (Foca.becomeConnected E) := by
  unfold Foca.becomeConnected
  pres
  exact B.ctl _

theorem Base.adjustConnectionState : Pres P (Foca.adjustConnectionState E) := by
  unfold Foca.adjustConnectionState
  pres
  · exact B.becomeConnected
  · exact B.becomeDisconnected

theorem Base.handleApplySummary (sm : Summary) (u : Member) (b : Bool) (hu : okU u) :
    Pres P (Foca.handleApplySummary E sm u b) :=
  handleApplySummary_pres (B.addUpdate u hu) sm b

theorem Base.applyUpdate (u : Member) (b : Bool) (hu : okU u) : Pres P (Foca.applyUpdate E u b) := by
  unfold Foca.applyUpdate
  pres
  · exact B.membersApply u hu
  · exact B.handleApplySummary _ _ _ hu

theorem Base.applyExistingReport (u : Member) (cond : Member → Bool) (hu : okU u) :
    Pres P (Foca.applyExistingReport E u cond) :=
  applyExistingReport_pres (B.membersApplyExistingIf u cond hu) (B.addUpdate u hu)

theorem Base.broadcastLoop (ds : List Id) : Pres P (Foca.broadcastLoop E ds) := by
  induction ds with
  | nil => unfold Foca.broadcastLoop; exact Pres.pure _
  | cons d rest ih =>
    unfold Foca.broadcastLoop
    pres
    · exact B.sendMessage _ _
    · exact ih

theorem Base.broadcastApi : Pres P (Foca.broadcastApi E) := by
  unfold Foca.broadcastApi
  pres
  · exact B.chooseLoop _ _ _ _ _
  · exact B.broadcastLoop _

theorem Base.leaveCluster : Pres P (Foca.leaveCluster E) := by
  unfold Foca.leaveCluster
  refine Pres.getS_with (fun s hs => ?_)
  pres
  · exact B.addUpdate _ (B.ownDown s hs)
  · exact B.gossip
  · exact B.becomeUndead

theorem Base.addBroadcast (d : Bytes) : Pres P (Foca.addBroadcast E d) := by
  unfold Foca.addBroadcast
  refine Pres.bind Pres.getS (fun s => ?_)
  by_cases he : d.isEmpty = true
  · simp only [he, if_true]; exact Pres.throwE _
  · have hlen : 1 ≤ d.length := by
      cases d with
      | nil => simp at he
      | cons x xs => simp
    simp only [he, Bool.false_eq_true, if_false]
    pres
    all_goals first | exact B.setHst _ | exact B.addCustom _ _ _ hlen

theorem Base.setConfig (cfg : Config) : Pres P (Foca.setConfig cfg) := by
  unfold Foca.setConfig
  pres
  exact B.ctl _

theorem Base.pingReqLoop (probed : Id) (ds : List Id) : Pres P (Foca.pingReqLoop E probed ds) := by
  induction ds with
  | nil => unfold Foca.pingReqLoop; exact Pres.pure _
  | cons d rest ih =>
    unfold Foca.pingReqLoop
    pres
    · exact B.ctl _
    · exact B.sendMessage _ _
    · exact ih

theorem Base.customLoop (sender : Option Id) (fuel : Nat) (data : Bytes) : Pres P (Foca.customLoop E sender fuel data) := by
  induction fuel generalizing data with
  | zero => unfold Foca.customLoop; exact Pres.throwE _
  | succ f ih =>
    unfold Foca.customLoop
    split
    · split
      · rename_i hi lo rest _
        dsimp only
        by_cases hbad : (hi * 256 + lo == 0 || decide (rest.length < hi * 256 + lo)) = true
        · simp only [hbad, if_true]; exact Pres.throwE _
        · have hlen : 1 ≤ (rest.take (hi * 256 + lo)).length := by
            simp only [Bool.or_eq_true, beq_iff_eq, decide_eq_true_eq, not_or, Nat.not_lt] at hbad
            rw [List.length_take]
            omega
          simp only [hbad, Bool.false_eq_true, if_false]
          pres
          all_goals first
            | exact B.setHst _
            | exact B.addCustom _ _ _ hlen
            | exact ih _
      · exact Pres.throwE _
    · pres

theorem Base.handleCustomBroadcasts (data : Bytes) (sender : Option Id) :
    Pres P (Foca.handleCustomBroadcasts E data sender) := by
  unfold Foca.handleCustomBroadcasts
  pres
  exact B.customLoop _ _ _

end

/-- `f` leaves membership, counters and both backlogs alone and does not give the probe a new target (it may
    write identity, incarnation, policy, connection state, token, configuration) -/
def IdCtl (f : State → State) : Prop :=
  ∀ s, (f s).ms = s.ms ∧ (f s).numActive = s.numActive ∧ (f s).updates = s.updates ∧
    (f s).custom = s.custom ∧ (f s).cursor = s.cursor ∧ ProbeKeep s.probe (f s).probe ∧ (f s).probe.number = s.probe.number

section
variable {E : Env} {P : State → Prop} {okU : Member → Prop} (B : Base E P okU)
  (modId : ∀ f, IdCtl f → Pres P (modS f))
include B modId

/-! the identity / incarnation writers, for an invariant that does not look at identity or incarnation -/

theorem Base.reset_of : Pres P Foca.reset := by
  unfold Foca.reset
  exact modId _ (fun s => ⟨rfl, rfl, rfl, rfl, rfl, Or.inr rfl, rfl⟩)

theorem Base.changeIdentity_of (i : Id) (p : Policy) : Pres P (Foca.changeIdentity E i p) := by
  unfold Foca.changeIdentity
  refine Pres.getS_with (fun s hs => ?_)
  pres
  all_goals first
    | exact modId _ (fun s => ⟨rfl, rfl, rfl, rfl, rfl, Or.inl rfl, rfl⟩)
    | exact B.reset_of modId
    | exact B.addUpdate _ (B.ownDown s hs)
    | exact B.gossip

theorem Base.attemptRejoin_of : Pres P (Foca.attemptRejoin E) := by
  unfold Foca.attemptRejoin
  pres
  exact B.changeIdentity_of modId _ _

theorem Base.handleSelfUpdate_of (inc : Nat) (st : St) : Pres P (Foca.handleSelfUpdate E inc st) := by
  unfold Foca.handleSelfUpdate
  pres
  all_goals first
    | exact B.attemptRejoin_of modId
    | exact B.becomeUndead
    | exact B.gossip
    | exact modId _ (fun s => ⟨rfl, rfl, rfl, rfl, rfl, Or.inl rfl, rfl⟩)

theorem Base.reuseDownIdentity_of : Pres P Foca.reuseDownIdentity := by
  unfold Foca.reuseDownIdentity
  pres
  exact B.reset_of modId

end

/-- `Base` plus `handle_self_update` and the three places where an update is built from the state that was
    read together with the call's input: the sender of a datagram, an update about another address, the failed
    probe target. `okIn` / `okH`: what is known about the members / the header of the call's input. -/
structure Full (E : Env) (P : State → Prop) (okU okIn : Member → Prop) (okH : Header → Prop) : Prop
    extends Base E P okU where
  handleSelfUpdate : ∀ inc st, Pres P (handleSelfUpdate E inc st)
  /-- another identity of the own address named by the input is stored as Down at incarnation 0 -/
  inputDown : ∀ u, okIn u → okU ⟨u.id, 0, .down⟩
  senderOk : ∀ (s0 : State) (h : Header), okH h → P s0 → (h.src == s0.id || h.src.addr == s0.id.addr) = false →
    okU ⟨h.src, h.srcInc, .alive⟩
  applyOk : ∀ (s0 : State) (u : Member), okIn u → P s0 → (u.id == s0.id) = false →
    (s0.id.addr == u.id.addr) = false → okU u
  failedOk : ∀ (s0 : State) (m : Member), P s0 → s0.probe.takeFailed.1 = some m → okU ⟨m.id, m.inc, .suspect⟩

/-- what a call's datagram must satisfy: its header and every member of its member section are acceptable -/
def DataOk (E : Env) (okIn : Member → Prop) (okH : Header → Prop) (data : Bytes) : Prop :=
  ∀ h rest, E.codec.decHeader data = some (h, rest) →
    okH h ∧ ∀ us tail, parseSection E h rest = some (us, tail) → ∀ u ∈ us, okIn u

section
variable {E : Env} {P : State → Prop} {okU okIn : Member → Prop} {okH : Header → Prop} (F : Full E P okU okIn okH)
include F

theorem Full.probeSuspectFailed : Pres P (Foca.probeSuspectFailed E) := by
  unfold Foca.probeSuspectFailed
  refine Pres.getS_bind (fun s => PresAt.assume (fun hs => ?_))
  dsimp only
  refine PresAt.bind (PresAt.modS (fun _ => ?_)) (fun _ => ?_)
  · exact Pres.modS_at (F.toBase.ctl (fun s => { s with probe := s.probe.takeFailed.2 })
      (fun s => ⟨rfl, rfl, rfl, rfl, rfl, rfl, rfl, rfl, ProbeKeep.takeFailed _, Probe.takeFailed_number _⟩)) s hs
  · split
    · rename_i failed hf
      refine Pres.bind (F.toBase.applyExistingReport _ _ (F.failedOk s failed hs hf)) (fun r => ?_)
      split
      · split
        · exact Pres.bind Pres.getS (fun _ => Pres.emit _)
        · exact Pres.pure _
      · exact Pres.pure _
    · exact Pres.pure _

theorem Full.probeStartNext : Pres P (Foca.probeStartNext E) := by
  unfold Foca.probeStartNext
  refine PresR.bind F.membersNext (fun r hr => ?_)
  split
  · rename_i member
    refine Pres.bind (F.startProbe member (hr member rfl)) (fun _ => ?_)
    exact Pres.bind Pres.getS (fun _ => Pres.bind (F.sendMessage _ _) (fun _ => Pres.emit _))
  · exact Pres.pure _

theorem Full.probeRandomMember : Pres P (Foca.probeRandomMember E) := by
  unfold Foca.probeRandomMember
  pres
  all_goals first
    | exact F.toBase.ctl _
    | exact F.probeSuspectFailed
    | exact F.probeStartNext

/-- `handle_timer`; the one update built from the timer itself (the suspicion timeout) must be storable -/
theorem Full.handleTimer (t : Timer) (ht : ∀ m inc tok, t = .s2d m inc tok → okU ⟨m, inc, .down⟩)
    (hrm : ∀ id, t = .rm id → Pres P (modS fun s => { s with ms := removeIfDown s.ms id })) :
    Pres P (Foca.handleTimer E t) := by
  unfold Foca.handleTimer
  pres
  all_goals first
    | exact F.toBase.ctl _
    | exact hrm _ rfl
    | exact F.toBase.chooseLoop _ _ _ _ _
    | exact F.toBase.pingReqLoop _ _
    | exact F.toBase.applyExistingReport _ _ (ht _ _ _ rfl)
    | exact F.toBase.handleApplySummary _ _ _
    | exact F.toBase.adjustConnectionState
    | exact F.sendMessage _ _
    | exact F.probeRandomMember
    | exact F.toBase.chooseAndSend _ _
    | exact F.toBase.announceToDown _

theorem Full.applyOne (u : Member) (b : Bool) (hu : okIn u) : Pres P (Foca.applyOne E u b) := by
  unfold Foca.applyOne
  refine Pres.getS_with (fun s hs => ?_)
  split
  · exact F.handleSelfUpdate _ _
  · rename_i h1
    split
    · exact Pres.bind (F.toBase.applyUpdate _ _ (F.inputDown u hu)) (fun _ => Pres.pure _)
    · rename_i h2
      exact Pres.bind (F.toBase.applyUpdate _ _ (F.applyOk s u hu hs (by simpa using h1) (by simpa using h2))) (fun _ => Pres.pure _)

theorem Full.applyLoop (b : Bool) (us : List Member) (hus : ∀ u ∈ us, okIn u) : Pres P (Foca.applyLoop E b us) := by
  induction us with
  | nil => unfold Foca.applyLoop; exact Pres.pure _
  | cons u rest ih =>
    unfold Foca.applyLoop
    exact Pres.bind (F.applyOne u b (hus u (by simp))) (fun _ => ih (fun x hx => hus x (by simp [hx])))

theorem Full.applyMany (us : List Member) (b : Bool) (hus : ∀ u ∈ us, okIn u) : Pres P (Foca.applyMany E us b) := by
  unfold Foca.applyMany
  pres
  · exact F.applyLoop _ _ hus
  · exact F.toBase.adjustConnectionState

theorem Full.reactToMessage (h : Header) : Pres P (Foca.reactToMessage E h) := by
  unfold Foca.reactToMessage
  pres
  all_goals first
    | exact F.toBase.ctl _
    | exact F.toBase.ctl _ (fun s => ⟨rfl, rfl, rfl, rfl, rfl, rfl, rfl, rfl, ProbeKeep.receiveAck _ _ _, Probe.receiveAck_number _ _ _⟩)
    | exact F.toBase.ctl _ (fun s => ⟨rfl, rfl, rfl, rfl, rfl, rfl, rfl, rfl, ProbeKeep.receiveIndirectAck _ _ _, Probe.receiveIndirectAck_number _ _ _⟩)
    | exact F.sendMessage _ _
    | exact F.handleSelfUpdate _ _

theorem Full.inactiveSender (h : Header) : Pres P (Foca.inactiveSender E h) := by
  unfold Foca.inactiveSender
  pres
  all_goals first
    | exact F.handleSelfUpdate _ _
    | exact F.sendMessage _ _

theorem Full.replyStage (h : Header) (cres : Option ErrKind) : Pres P (Foca.replyStage E h cres) := by
  unfold Foca.replyStage
  pres
  exact F.reactToMessage _

theorem Full.handleData (data : Bytes) (hdat : DataOk E okIn okH data) : Pres P (Foca.handleData E data) := by
  unfold Foca.handleData
  refine Pres.getS_with (fun s hs => ?_)
  split
  · exact Pres.throwE _
  · split
    · exact Pres.throwE _
    · rename_i h rest hdec
      split
      · exact Pres.throwE _
      · rename_i hsrc
        dsimp only
        split
        · exact Pres.throwE _
        · split
          · exact Pres.pure _
          · split
            · exact Pres.throwE _
            · rename_i updates tail hparse
              obtain ⟨hh, hmem⟩ := hdat h rest hdec
              refine Pres.bind (F.toBase.applyUpdate _ _ (F.senderOk s h hh hs (by simpa using hsrc))) (fun senderActive => ?_)
              split
              · exact F.inactiveSender _
              · exact Pres.bind (F.applyMany _ _ (hmem updates tail hparse)) (fun _ =>
                  Pres.bind (Pres.attempt (F.toBase.handleCustomBroadcasts _ _)) (fun _ => F.replyStage _ _))

/-- every public call; the two identity-changing calls and what is known about the input are hypotheses -/
theorem Full.runOp (op : Op)
    (hchid : ∀ i p, op = .changeIdentity i p → Pres P (Foca.changeIdentity E i p))
    (hreuse : op = .reuseDown → Pres P Foca.reuseDownIdentity)
    (hT : ∀ m inc tok, op = .timer (.s2d m inc tok) → okU ⟨m, inc, .down⟩)
    (hA : ∀ us b, op = .applyMany us b → ∀ u ∈ us, okIn u)
    (hD : ∀ data, op = .data data → DataOk E okIn okH data)
    (hRm : ∀ id, op = .timer (.rm id) → Pres P (modS fun s => { s with ms := removeIfDown s.ms id })) :
    Pres P (Foca.runOp E op) := by
  cases op <;> unfold Foca.runOp <;> pres
  all_goals first
    | exact hchid _ _ rfl
    | exact hreuse rfl
    | exact F.handleTimer _ (fun m inc tok h => hT m inc tok (by rw [h])) (fun id h => hRm id (by rw [h]))
    | exact F.applyMany _ _ (hA _ _ rfl)
    | exact F.handleData _ (hD _ rfl)
    | exact F.sendMessage _ _
    | exact F.toBase.gossip
    | exact F.toBase.broadcastApi
    | exact F.toBase.leaveCluster
    | exact F.toBase.addBroadcast _
    | exact F.toBase.setConfig _

end

/-- the leaf obligations of an invariant that ignores identity and incarnation -/
structure Leaves (E : Env) (P : State → Prop) : Prop where
  membersApply : ∀ u, Pres P (membersApply u)
  membersApplyExistingIf : ∀ u cond, Pres P (membersApplyExistingIf u cond)
  membersNext : Pres P membersNext
  removeDown : ∀ id, Pres P (modS fun s => { s with ms := removeIfDown s.ms id })
  sendMessage : ∀ d m, Pres P (sendMessage E d m)
  addUpdate : ∀ m, Pres P (addUpdate E m)
  modCtl : ∀ f, CtlOnly f → Pres P (modS f)
  /-- handler state only -/
  setHst : ∀ h', Pres P (modS fun s => { s with hst := h' })
  /-- a custom broadcast accepted by the handler is enqueued (it is never empty) -/
  addCustom : ∀ h' key data, 1 ≤ data.length → Pres P (modS fun s =>
    { s with hst := h', custom := addOrReplace s.custom E.handler.invalidates key data s.cfg.maxTx })

section
variable {E : Env} {P : State → Prop} (L : Leaves E P)
include L

theorem Leaves.base : Base E P (fun _ => True) where
  ownDown := fun _ _ => trivial
  membersApply := fun u _ => L.membersApply u
  membersApplyExistingIf := fun u cond _ => L.membersApplyExistingIf u cond
  membersNext := ⟨fun c hc => by
    have := L.membersNext.run c hc
    cases hm : Foca.membersNext c with
    | stuck x => trivial
    | err e c' => rw [hm] at this; exact this
    | ok a c' => rw [hm] at this; exact ⟨this, fun _ _ => trivial⟩⟩
  startProbe := fun m _ => L.modCtl _ (fun s => ⟨rfl, rfl, rfl, rfl, rfl⟩)
  sendMessage := L.sendMessage
  addUpdate := fun m _ => L.addUpdate m
  modCtl := fun f h => L.modCtl f (fun s => ⟨(h s).1, (h s).2.1, (h s).2.2.1, (h s).2.2.2.1, (h s).2.2.2.2.1⟩)
  setHst := L.setHst
  addCustom := L.addCustom

theorem Leaves.ctl (f : State → State)
    (h : ∀ s, (f s).ms = s.ms ∧ (f s).numActive = s.numActive ∧ (f s).updates = s.updates ∧
      (f s).custom = s.custom ∧ (f s).cursor = s.cursor := by intro s; exact ⟨rfl, rfl, rfl, rfl, rfl⟩) :
    Pres P (modS f) := L.modCtl f h

theorem Leaves.modId (f : State → State) (h : IdCtl f) : Pres P (modS f) :=
  L.modCtl f (fun s => ⟨(h s).1, (h s).2.1, (h s).2.2.1, (h s).2.2.2.1, (h s).2.2.2.2.1⟩)

theorem Leaves.reset : Pres P Foca.reset := L.base.reset_of L.modId
theorem Leaves.changeIdentity (i : Id) (p : Policy) : Pres P (Foca.changeIdentity E i p) := L.base.changeIdentity_of L.modId i p
theorem Leaves.attemptRejoin : Pres P (Foca.attemptRejoin E) := L.base.attemptRejoin_of L.modId
theorem Leaves.handleSelfUpdate (inc : Nat) (st : St) : Pres P (Foca.handleSelfUpdate E inc st) :=
  L.base.handleSelfUpdate_of L.modId inc st
theorem Leaves.reuseDownIdentity : Pres P Foca.reuseDownIdentity := L.base.reuseDownIdentity_of L.modId

theorem Leaves.full : Full E P (fun _ => True) (fun _ => True) (fun _ => True) where
  toBase := L.base
  handleSelfUpdate := L.handleSelfUpdate
  inputDown := fun _ _ => trivial
  senderOk := fun _ _ _ _ _ => trivial
  applyOk := fun _ _ _ _ _ _ => trivial
  failedOk := fun _ _ _ _ => trivial

theorem Leaves.runOp (op : Op) : Pres P (Foca.runOp E op) :=
  L.full.runOp op (fun _ _ _ => L.changeIdentity _ _) (fun _ => L.reuseDownIdentity) (fun _ _ _ _ => trivial)
    (fun _ _ _ _ _ => trivial) (fun _ _ _ _ _ => ⟨trivial, fun _ _ _ _ _ => trivial⟩) (fun id _ => L.removeDown id)

/-- One public call keeps the invariant, whatever the input and the oracle. -/
theorem Leaves.step (s : State) (op : Op) (orc : Oracle) (h : P s) :
    match Foca.step E s op orc with
    | .done s' _ _ _ => P s'
    | .stuck _ => True := by
  have := (L.runOp op).run ⟨s, [], orc⟩ h
  unfold Foca.step
  cases hr : Foca.runOp E op ⟨s, [], orc⟩ with
  | stuck x => trivial
  | ok r c => rw [hr] at this; exact this
  | err e c => rw [hr] at this; exact this

end

/-- every state reachable from a fresh instance by any history of public calls, inputs and oracles -/
inductive Reachable (E : Env) : State → Prop
  | init (id : Id) (pol : Policy) (cfg : Config) : Reachable E (State.init id pol cfg)
  | step {s s' : State} (op : Op) (orc : Oracle) (eff : List Effect) (r : Res) (left : Oracle) :
      Reachable E s → Foca.step E s op orc = .done s' eff r left → Reachable E s'

theorem Leaves.reachable {E : Env} {P : State → Prop} (L : Leaves E P)
    (hinit : ∀ id pol cfg, P (State.init id pol cfg)) {s : State} (h : Reachable E s) : P s := by
  induction h with
  | init id pol cfg => exact hinit id pol cfg
  | step op orc eff r left _ hstep ih =>
    have := L.step _ op orc ih
    rw [hstep] at this
    exact this

/-- histories of public calls -/
inductive RunsTo (E : Env) (allowed : Op → Prop) : State → State → Prop
  | refl (s : State) : RunsTo E allowed s s
  | step {s s1 s2 : State} (op : Op) (orc : Oracle) (eff : List Effect) (r : Res) (left : Oracle) :
      RunsTo E allowed s s1 → allowed op → Foca.step E s1 op orc = .done s2 eff r left → RunsTo E allowed s s2


end Foca
