/-
  Establishing `RefInv`: the Alive claim of a datagram header from `x` above incarnation `i`, applied by `handle_data`,
  leaves `x` recorded above `i` (helpers for `C04H.datagram_from_member_refutes`).
-/
import FocaModel.Proofs.RoundTrip
import FocaModel.Proofs.RefInv
namespace Foca

/-- an Alive claim about `x` above incarnation `i`, applied to the record at the address of `x`, leaves a record
    that shows `x` above `i` (or Down), or an identity of a higher generation -/
theorem updateKnown_establishes (x : Id) (i inc' : Nat) (hinc : inc' > i) (k : Member) :
    RefOk x i (updateKnown k ⟨x, inc', .alive⟩ (fun _ => true)).1 := by
  unfold updateKnown
  by_cases hne : k.id = x
  · have h1 : (k.id != x) = false := by simp [hne]
    simp only [h1, Bool.false_and, Bool.false_eq_true, ↓reduceIte, Bool.not_true]
    by_cases hc : Gen.canChange k.st k.inc inc' .alive = true
    · simp only [hc, ↓reduceIte]
      exact Or.inl ⟨hne, Or.inl hinc⟩
    · simp only [hc, Bool.false_eq_true, ↓reduceIte]
      refine Or.inl ⟨hne, ?_⟩
      cases hst : k.st with
      | down => exact Or.inr rfl
      | alive => simp [Gen.canChange, hst] at hc; left; omega
      | suspect => simp [Gen.canChange, hst] at hc; left; omega
  · have h1 : (k.id != x) = true := by simp [hne]
    by_cases hw : k.id.wins x = true
    · simp only [h1, hw, Bool.and_self, ↓reduceIte]
      right
      simpa [Id.wins] using hw
    · simp only [h1, hw, Bool.and_false, Bool.false_eq_true, ↓reduceIte, Bool.not_true]
      exact Or.inl ⟨rfl, Or.inl hinc⟩

theorem updateKnown_addr (k u : Member) (cond : Member → Bool) (h : k.id.addr = u.id.addr) :
    (updateKnown k u cond).1.id.addr = u.id.addr := by
  unfold updateKnown
  by_cases h1 : (k.id != u.id && k.id.wins u.id) = true
  · simp only [h1, ↓reduceIte]; exact h
  · simp only [h1, Bool.false_eq_true, ↓reduceIte]
    by_cases h2 : (!cond k) = true
    · simp only [h2, ↓reduceIte]; exact h
    · simp only [h2, Bool.false_eq_true, ↓reduceIte]
      by_cases h3 : (k.id != u.id) = true
      · simp only [h3, ↓reduceIte]
      · simp only [h3, Bool.false_eq_true, ↓reduceIte]
        by_cases h4 : Gen.canChange k.st k.inc u.inc u.st = true
        · simp only [h4, ↓reduceIte]; exact h
        · simp only [h4, Bool.false_eq_true, ↓reduceIte]; exact h

theorem applyExisting_establishes (x : Id) (i inc' : Nat) (hinc : inc' > i) {ms ms' : List Member} {sm : Summary}
    (h : applyExisting ms ⟨x, inc', .alive⟩ (fun _ => true) = some (ms', sm)) :
    ∃ m ∈ ms', m.id.addr = x.addr ∧ RefOk x i m := by
  induction ms generalizing ms' sm with
  | nil => simp [applyExisting] at h
  | cons k rest ih =>
    unfold applyExisting at h
    by_cases hk : (k.id.addr == x.addr) = true
    · simp only [hk, ↓reduceIte, Option.some.injEq, Prod.mk.injEq] at h
      obtain ⟨rfl, _⟩ := h
      refine ⟨_, by simp, ?_, updateKnown_establishes x i inc' hinc k⟩
      have := updateKnown_addr k ⟨x, inc', .alive⟩ (fun _ => true) (by simpa using hk)
      exact this
    · simp only [hk, Bool.false_eq_true, ↓reduceIte] at h
      cases hr : applyExisting rest ⟨x, inc', .alive⟩ (fun _ => true) with
      | none => rw [hr] at h; simp at h
      | some r =>
        obtain ⟨rest', s'⟩ := r
        rw [hr] at h
        simp only [Option.some.injEq, Prod.mk.injEq] at h
        obtain ⟨rfl, _⟩ := h
        obtain ⟨m, hm, h1, h2⟩ := ih hr
        exact ⟨m, by simp [hm], h1, h2⟩


section
variable (E : Env)

/-- applying the Alive claim of a header from `x` above incarnation `i` establishes `RefInv x i` -/
theorem applyUpdate_establishes (x : Id) (i inc' : Nat) (hinc : inc' > i) (b : Bool) (c c1 : Ctx) (act : Bool)
    (h : Foca.applyUpdate E ⟨x, inc', .alive⟩ b c = .ok act c1) : RefInv x i c1.s := by
  unfold Foca.applyUpdate at h
  simp only [bind_run, getS_run] at h
  by_cases hdbg : (E.debug && c.s.id == x) = true
  · simp [hdbg, panicAt] at h
  · simp only [hdbg, Bool.false_eq_true, ↓reduceIte, bind_run] at h
    cases hm : Foca.membersApply ⟨x, inc', .alive⟩ c with
    | stuck y => rw [hm] at h; simp at h
    | err e c2 => rw [hm] at h; simp at h
    | ok sm c2 =>
      rw [hm] at h
      simp only at h
      have hest : RefInv x i c2.s := by
        unfold Foca.membersApply at hm
        cases hx : applyExisting c.s.ms ⟨x, inc', .alive⟩ (fun _ => true) with
        | some r =>
          obtain ⟨ms', sm'⟩ := r
          rw [hx] at hm
          simp only [R.ok.injEq] at hm
          rw [← hm.2]
          exact applyExisting_establishes x i inc' hinc hx
        | none =>
          rw [hx] at hm
          simp only at hm
          cases hd : drawIdx .choose (c.s.ms.length + 1) c with
          | stuck y => rw [hd] at hm; simp at hm
          | err e c3 => rw [hd] at hm; simp at hm
          | ok j c3 =>
            rw [hd] at hm
            simp only [R.ok.injEq] at hm
            rw [← hm.2]
            refine ⟨⟨x, inc', .alive⟩, ?_, rfl, Or.inl ⟨rfl, Or.inl hinc⟩⟩
            exact (applyNew_perm c.s.ms ⟨x, inc', .alive⟩ j).mem_iff.2 (by simp)
      have hp := (handleApplySummary_pres (E := E) (P := RefInv x i) (u := ⟨x, inc', .alive⟩)
        (by unfold Foca.addUpdate; exact Pres.modS_of (fun s hs => RefInv.of_same x i rfl hs)) sm b).run c2 hest
      cases hh : Foca.handleApplySummary E sm ⟨x, inc', .alive⟩ b c2 with
      | stuck y => rw [hh] at h; simp at h
      | err e c3 => rw [hh] at h; simp at h
      | ok u3 c3 =>
        rw [hh] at h hp
        simp only [pure_run, R.ok.injEq] at h
        rw [← h.2]
        exact hp

end
end Foca
