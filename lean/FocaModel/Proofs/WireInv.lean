/-
  Everything an instance holds — its identity and incarnation, its member records, its probe target and every
  update waiting in the backlog (the bytes of an encoded member) — stays within the range of the wire types
  (`u16` address, generation, incarnation), provided its inputs are. This is what lets a peer's codec read back
  what the instance sends (C07).
-/
import FocaModel.Proofs.TellInv
namespace Foca

def IdWire (i : Id) : Prop := i.addr < 65536 ∧ i.gen < 65536
def MWire (m : Member) : Prop := IdWire m.id ∧ m.inc < 65536

/-- within the wire range, and at an incarnation the instance was told for that identity (`τ`, as in `TellInv`;
    `fun _ => 65535` when only the range matters) -/
def MW (τ : Id → Nat) (m : Member) : Prop := MWire m ∧ m.inc ≤ τ m.id

theorem MW.mono {τ τ' : Id → Nat} (h : ∀ id, τ id ≤ τ' id) {m : Member} (hm : MW τ m) : MW τ' m :=
  ⟨hm.1, Nat.le_trans hm.2 (h _)⟩

theorem MW.down0 (τ : Id → Nat) {i : Id} (hi : IdWire i) : MW τ ⟨i, 0, .down⟩ := ⟨⟨hi, by simp⟩, Nat.zero_le _⟩

/-- the identities and the `u8` probe numbers inside a message are within the wire range -/
def MsgWire : Msg → Prop
  | .ping n | .ack n => n < 256
  | .pingReq t n | .indirectPing t n | .indirectAck t n | .forwardedAck t n => IdWire t ∧ n < 256
  | _ => True

/-- every field of a header is within the wire range -/
def HWire (h : Header) : Prop := IdWire h.src ∧ h.srcInc < 65536 ∧ IdWire h.dst ∧ MsgWire h.msg

/-- the codec reads back every wire-range header it wrote, whatever follows -/
def HeaderLaw (c : Codec) : Prop :=
  ∀ (h : Header) (rest : Bytes), HWire h → c.decHeader (c.encHeader h ++ rest) = some (h, rest)

theorem renew_wire {p : Policy} {i j : Id} (hi : IdWire i) (h : renew p i = some j) : IdWire j := by
  cases p <;> simp [renew] at h <;> subst h
  · exact ⟨hi.1, Nat.mod_lt _ (by omega)⟩
  · exact hi
  · exact ⟨hi.1, by have := hi.2; simp only; omega⟩
  · exact hi
  · exact ⟨hi.1, Nat.mod_lt _ (by omega)⟩

/-- after an update the record is the old one or the update itself -/
theorem updateKnown_mem (k u : Member) (cond : Member → Bool) :
    (updateKnown k u cond).1 = k ∨ (updateKnown k u cond).1 = u := by
  unfold updateKnown
  by_cases h1 : (k.id != u.id && k.id.wins u.id) = true
  · simp [h1]
  · by_cases h2 : cond k = true
    · by_cases h3 : (k.id != u.id) = true
      · have hw : k.id.wins u.id = false := by
          cases hw : k.id.wins u.id with
          | false => rfl
          | true => simp [h3, hw] at h1
        simp [h1, h2, h3, hw]
      · have heq : k.id = u.id := by simpa using h3
        by_cases h4 : Gen.canChange k.st k.inc u.inc u.st = true <;> simp [h1, h2, h3, h4, heq]
    · simp [h1, h2]

theorem applyExisting_all {Q : Member → Prop} {ms ms' : List Member} {u : Member} {cond : Member → Bool} {sm : Summary}
    (h : applyExisting ms u cond = some (ms', sm)) (hu : Q u) (hinv : ∀ m ∈ ms, Q m) : ∀ m ∈ ms', Q m := by
  induction ms generalizing ms' sm with
  | nil => simp [applyExisting] at h
  | cons k rest ih =>
    unfold applyExisting at h
    by_cases hk : (k.id.addr == u.id.addr) = true
    · simp only [hk, if_true] at h
      simp at h
      obtain ⟨h1, _⟩ := h
      subst h1
      intro m hm
      simp only [List.mem_cons] at hm
      rcases hm with hm | hm
      · subst hm
        rcases updateKnown_mem k u cond with hs | hs
        · rw [hs]; exact hinv k (by simp)
        · rw [hs]; exact hu
      · exact hinv m (by simp [hm])
    · simp only [hk, Bool.false_eq_true, if_false] at h
      cases hr : applyExisting rest u cond with
      | none => rw [hr] at h; simp at h
      | some r =>
        obtain ⟨rest', s'⟩ := r
        rw [hr] at h
        simp at h
        obtain ⟨h1, _⟩ := h
        subst h1
        intro m hm
        simp only [List.mem_cons] at hm
        rcases hm with hm | hm
        · subst hm; exact hinv m (by simp)
        · exact ih hr (fun x hx => hinv x (by simp [hx])) m hm

section
variable (E : Env) (τ : Id → Nat)

def WireInv (s : State) : Prop :=
  IdWire s.id ∧ (s.inc < 65536 ∧ s.probe.number < 256) ∧ (∀ m ∈ s.ms, MW τ m) ∧ (∀ m, s.probe.direct = some m → MW τ m) ∧
  (∀ e ∈ s.updates, ∃ u : Member, e.data = E.codec.encMember u ∧ MW τ u)

theorem WireInv.of_same {s s' : State} (h0 : s'.id = s.id) (hi : s'.inc = s.inc) (h1 : s'.ms = s.ms)
    (h2 : s'.updates = s.updates) (h3 : ProbeKeep s.probe s'.probe) (h4 : s'.probe.number = s.probe.number)
    (h : WireInv E τ s) : WireInv E τ s' := by
  obtain ⟨hid, hinc, ha, hb, hc⟩ := h
  refine ⟨by rw [h0]; exact hid, by rw [hi, h4]; exact hinc, by rw [h1]; exact ha, ?_, by rw [h2]; exact hc⟩
  intro m hm
  rcases h3 with h3 | h3
  · exact hb m (by rw [← h3]; exact hm)
  · rw [h3] at hm; simp at hm

theorem WireInv.removeDown (id : Id) : Pres (WireInv E τ) (modS fun s => { s with ms := removeIfDown s.ms id }) :=
  Pres.modS_of (fun s hs => by
    obtain ⟨hid, hinc, ha, hb, hcc⟩ := hs
    refine ⟨hid, hinc, ?_, hb, hcc⟩
    intro m hm
    simp only at hm
    rcases removeIfDown_spec s.ms id with h | ⟨x, _, hp⟩
    · rw [h] at hm; exact ha m hm
    · exact ha m (hp.mem_iff.1 (List.mem_cons_of_mem _ hm)))

theorem WireInv.base : Base E (WireInv E τ) (MW τ) where
  ownDown := fun s hs => MW.down0 τ hs.1
  membersApply := fun u hu => ⟨fun c hc => by
    obtain ⟨hid, hinc, ha, hb, hcc⟩ := hc
    unfold Foca.membersApply
    cases h : Foca.applyExisting c.s.ms u (fun _ => true) with
    | some r =>
      obtain ⟨ms', sm⟩ := r
      exact ⟨hid, hinc, applyExisting_all h hu ha, hb, hcc⟩
    | none =>
      simp only
      have hd := drawIdx_frame .choose (c.s.ms.length + 1) c
      cases hdr : Foca.drawIdx .choose (c.s.ms.length + 1) c with
      | stuck x => trivial
      | err e c1 => rw [hdr] at hd; simp only at hd ⊢; rw [hd.1]; exact ⟨hid, hinc, ha, hb, hcc⟩
      | ok j c1 =>
        rw [hdr] at hd
        simp only at hd ⊢
        rw [hd.1]
        refine ⟨hid, hinc, ?_, hb, hcc⟩
        intro m hm
        have := (applyNew_perm c.s.ms u j).mem_iff.1 hm
        simp only [List.mem_cons] at this
        rcases this with h1 | h1
        · subst h1; exact hu
        · exact ha m h1⟩
  membersApplyExistingIf := fun u cond hu => ⟨fun c hc => by
    obtain ⟨hid, hinc, ha, hb, hcc⟩ := hc
    unfold Foca.membersApplyExistingIf
    cases h : Foca.applyExisting c.s.ms u cond with
    | some r =>
      obtain ⟨ms', sm⟩ := r
      exact ⟨hid, hinc, applyExisting_all h hu ha, hb, hcc⟩
    | none => exact ⟨hid, hinc, ha, hb, hcc⟩⟩
  membersNext := ⟨fun c hc => by
    obtain ⟨hid, hinc, ha, hb, hcc⟩ := hc
    have key : ∀ (l : List Member) (i : Nat), (∀ m ∈ l, MW τ m) →
        ∀ m, (nextPure l i).1 = some m → MW τ ⟨m.id, m.inc, .suspect⟩ := by
      intro l i hl m hm
      exact hl m (Foca.C14.next_returns_an_active_member l i m hm).1
    unfold Foca.membersNext
    by_cases hs : needsShuffle c.s.cursor c.s.ms.length = true
    · simp only [hs, if_true]
      unfold Foca.drawShuffle
      cases hd : c.orc.draws with
      | nil => trivial
      | cons d rest =>
        cases d with
        | idx k => trivial
        | perm p =>
          simp only
          by_cases hperm : (p.filterMap (fun i => c.s.ms[i]?)).isPerm c.s.ms = true
          · simp only [hperm, if_true]
            have hp : (p.filterMap (fun i => c.s.ms[i]?)).Perm c.s.ms := List.isPerm_iff.1 hperm
            have ha' : ∀ m ∈ p.filterMap (fun i => c.s.ms[i]?), MW τ m := fun m hm => ha m (hp.mem_iff.1 hm)
            exact ⟨⟨hid, hinc, ha', hb, hcc⟩, key _ _ ha'⟩
          · simp [hperm]
    · simp only [hs, Bool.false_eq_true, if_false]
      exact ⟨⟨hid, hinc, ha, hb, hcc⟩, key _ _ ha⟩⟩
  startProbe := fun m hm => Pres.modS_of (fun s hs => by
    obtain ⟨hid, hinc, ha, _, hcc⟩ := hs
    refine ⟨hid, ⟨hinc.1, by simp only [Probe.start, Gen.probeNumberBump, wrapAdd8]; omega⟩, ha, ?_, hcc⟩
    intro m' hm'
    simp [Probe.start] at hm'
    subst hm'
    exact hm)
  sendMessage := fun d m => ⟨fun c hc => by
    have h1 := sendMessage_upd E d m c
    have h2 := sendMessage_spec E d m c
    cases h : Foca.sendMessage E d m c with
    | stuck x => trivial
    | err e c' => rw [h] at h2; simp only at h2 ⊢; rw [h2.2.1]; exact hc
    | ok a c' =>
      rw [h] at h1 h2
      simp only at h1 h2 ⊢
      obtain ⟨hid, hinc, ha, hb, hcc⟩ := hc
      have hob := h2.1
      refine ⟨by rw [hob.id]; exact hid, by rw [hob]; exact hinc, by rw [hob.ms]; exact ha, by rw [hob]; exact hb, ?_⟩
      rcases h1 with h1 | ⟨sp, picks, r, hf, h1⟩
      · rw [h1]; exact hcc
      · rw [h1]
        exact fill_data (fun d => ∃ u : Member, d = E.codec.encMember u ∧ MW τ u) hf hcc⟩
  addUpdate := fun m hm => by
    unfold Foca.addUpdate
    refine Pres.modS_of (fun s hs => ?_)
    obtain ⟨hid, hinc, ha, hb, hcc⟩ := hs
    refine ⟨hid, hinc, ha, hb, ?_⟩
    intro e he
    simp only [addOrReplace, List.mem_append, List.mem_filter, List.mem_singleton] at he
    rcases he with he | he
    · exact hcc e he.1
    · rw [he]; exact ⟨m, rfl, hm⟩
  modCtl := fun f h => Pres.modS_of (fun s hs =>
    WireInv.of_same E τ (h s).2.2.2.2.2.1 (h s).2.2.2.2.2.2.1 (h s).1 (h s).2.2.1 (h s).2.2.2.2.2.2.2.2.1 (h s).2.2.2.2.2.2.2.2.2 hs)
  setHst := fun _ => Pres.modS_of (fun s hs => WireInv.of_same E τ (s := s) rfl rfl rfl rfl (Or.inl rfl) rfl hs)
  addCustom := fun _ _ _ _ => Pres.modS_of (fun s hs => WireInv.of_same E τ (s := s) rfl rfl rfl rfl (Or.inl rfl) rfl hs)

theorem WireInv.reset : Pres (WireInv E τ) Foca.reset := by
  unfold Foca.reset
  exact Pres.modS_of (fun s hs => by
    obtain ⟨hid, hinc, ha, _, hcc⟩ := hs
    exact ⟨hid, ⟨by simp, hinc.2⟩, ha, by intro m hm; simp [Probe.clear] at hm, hcc⟩)

/-- `change_identity` to an identity within the wire range -/
theorem WireInv.changeIdentity (newId : Id) (pol : Policy) (hw : IdWire newId) :
    Pres (WireInv E τ) (Foca.changeIdentity E newId pol) := by
  have B := WireInv.base E τ
  unfold Foca.changeIdentity
  refine Pres.getS_with (fun s hs => ?_)
  split
  · exact Pres.throwE _
  · dsimp only
    refine Pres.bind (Pres.modS_of (fun s' hs' => ?_)) (fun _ => Pres.bind (WireInv.reset E τ) (fun _ => ?_))
    · obtain ⟨_, hinc, ha, hb, hcc⟩ := hs'
      exact ⟨hw, hinc, ha, hb, hcc⟩
    · split
      · exact Pres.bind (B.addUpdate _ (MW.down0 τ hs.1)) (fun _ => B.gossip)
      · exact B.gossip

theorem WireInv.attemptRejoin : Pres (WireInv E τ) (Foca.attemptRejoin E) := by
  unfold Foca.attemptRejoin
  refine Pres.getS_with (fun s hs => ?_)
  split
  · exact Pres.pure _
  · rename_i newId hren
    split
    · exact Pres.pure _
    · split
      · exact Pres.pure _
      · exact Pres.bind (WireInv.changeIdentity E τ newId s.policy (renew_wire hs.1 hren))
          (fun _ => Pres.bind (Pres.emit _) (fun _ => Pres.pure _))

theorem satAdd16_wire (n : Nat) : satAdd16 n < 65536 := by
  unfold satAdd16; split <;> omega

theorem WireInv.handleSelfUpdate (inc : Nat) (st : St) : Pres (WireInv E τ) (Foca.handleSelfUpdate E inc st) := by
  have B := WireInv.base E τ
  unfold Foca.handleSelfUpdate
  pres
  all_goals first
    | exact WireInv.attemptRejoin E τ
    | exact B.becomeUndead
    | exact B.gossip
    | exact Pres.modS_of (fun s hs => ⟨hs.1, ⟨satAdd16_wire _, hs.2.1.2⟩, hs.2.2.1, hs.2.2.2.1, hs.2.2.2.2⟩)

theorem WireInv.full : Full E (WireInv E τ) (MW τ) (MW τ) (fun h => MW τ ⟨h.src, h.srcInc, .alive⟩ ∧ MsgWire h.msg) where
  toBase := WireInv.base E τ
  handleSelfUpdate := WireInv.handleSelfUpdate E τ
  inputDown := fun u hu => MW.down0 τ hu.1.1
  senderOk := fun _ _ hh _ _ => hh.1
  applyOk := fun _ _ hu _ _ _ => hu
  failedOk := fun s0 m hp hm => by
    apply hp.2.2.2.1 m
    unfold Probe.takeFailed at hm
    split at hm
    · exact hm
    · simp at hm

/-- the inputs of a call are within the wire range: the members of a batch, the header and member section of a
    datagram (what any `u16`-typed codec decodes), the member a suspicion or indirect-probe timer names, a new
    identity, the destination of an explicit announce -/
def InputWire (op : Op) : Prop :=
  (∀ us b, op = .applyMany us b → ∀ u ∈ us, MW τ u) ∧
  (∀ data, op = .data data → DataOk E (MW τ) (fun h => MW τ ⟨h.src, h.srcInc, .alive⟩ ∧ MsgWire h.msg) data) ∧
  (∀ m inc tok, op = .timer (.s2d m inc tok) → MW τ ⟨m, inc, .down⟩) ∧
  (∀ i p, op = .changeIdentity i p → IdWire i) ∧
  (∀ p tok, op = .timer (.indirect p tok) → IdWire p) ∧
  (∀ d, op = .announce d → IdWire d)

theorem WireInv.reuseDownIdentity : Pres (WireInv E τ) Foca.reuseDownIdentity := by
  unfold Foca.reuseDownIdentity
  pres
  exact WireInv.reset E τ

/-- One public call with wire-range input keeps everything the instance holds within the wire range. -/
theorem WireInv.step (s : State) (op : Op) (orc : Oracle) (h : WireInv E τ s) (hin : InputWire E τ op) :
    match Foca.step E s op orc with
    | .done s' _ _ _ => WireInv E τ s'
    | .stuck _ => True := by
  have F := WireInv.full E τ
  have hrun := (F.runOp op
    (fun i p hi => WireInv.changeIdentity E τ i p (hin.2.2.2.1 i p hi))
    (fun _ => WireInv.reuseDownIdentity E τ)
    (fun m inc tok ht => hin.2.2.1 m inc tok ht)
    (fun us b hu => hin.1 us b hu)
    (fun data hd => hin.2.1 data hd)
    (fun id _ => WireInv.removeDown E τ id)).run ⟨s, [], orc⟩ h
  unfold Foca.step
  cases hr : Foca.runOp E op ⟨s, [], orc⟩ with
  | stuck x => trivial
  | ok r c => rw [hr] at hrun; exact hrun
  | err e c => rw [hr] at hrun; exact hrun

theorem WireInv.mono {τ' : Id → Nat} (hle : ∀ id, τ id ≤ τ' id) {s : State} (h : WireInv E τ s) : WireInv E τ' s := by
  obtain ⟨hid, hinc, ha, hb, hc⟩ := h
  refine ⟨hid, hinc, fun m hm => MW.mono hle (ha m hm), fun m hm => MW.mono hle (hb m hm), ?_⟩
  intro e he
  obtain ⟨u, hu1, hu2⟩ := hc e he
  exact ⟨u, hu1, MW.mono hle hu2⟩

end

/-- histories whose inputs are within the wire range (and within a running bound `τ` of the incarnations told,
    which only grows), from an instance created with such an identity -/
inductive WireHistory (E : Env) : State → (Id → Nat) → Prop
  | init (id : Id) (pol : Policy) (cfg : Config) (τ : Id → Nat) : IdWire id → WireHistory E (State.init id pol cfg) τ
  | step {s s' : State} {τ τ' : Id → Nat} (op : Op) (orc : Oracle) (eff : List Effect) (r : Res) (left : Oracle) :
      WireHistory E s τ → (∀ id, τ id ≤ τ' id) → InputWire E τ' op →
      Foca.step E s op orc = .done s' eff r left → WireHistory E s' τ'

theorem WireInv.reachable (E : Env) {s : State} {τ : Id → Nat} (h : WireHistory E s τ) : WireInv E τ s := by
  induction h with
  | init id pol cfg τ hw =>
    refine ⟨hw, by simp [State.init], ?_, ?_, ?_⟩ <;> intro x hx <;> simp [State.init] at hx
  | step op orc eff r left _ hle hin hstep ih =>
    have := WireInv.step E _ _ op orc (WireInv.mono E _ hle ih) hin
    rw [hstep] at this
    exact this

end Foca
