/-
  Whole-history invariant: no record bearing the instance's own address is ever active, and the probe never
  targets the own address — under the documented use of `change_identity` (to the same address, or to an
  address with no active record).
-/
import FocaModel.Proofs.Frames
import FocaModel.Proofs.MsInv
import FocaModel.Proofs.IncInv
import FocaModel.Props.C14
namespace Foca

/-- updates that may be stored while the own address is `a`: about another address, or Down -/
def okOwn (a : Nat) (u : Member) : Prop := u.id.addr ≠ a ∨ u.st = .down

/-- the invariant, for own address `a` -/
def OwnInvA (a : Nat) (s : State) : Prop :=
  s.id.addr = a ∧ (∀ m ∈ s.ms, m.id.addr = a → m.active = false) ∧
    (∀ m, s.probe.direct = some m → m.id.addr ≠ a)

theorem down_inactive {m : Member} (h : m.st = .down) : m.active = false := by
  simp [Member.active, h, Gen.isActive]

theorem okOwn_inactive {a : Nat} {u : Member} (h : okOwn a u) (ha : u.id.addr = a) : u.active = false := by
  rcases h with h | h
  · exact absurd ha h
  · exact down_inactive h

/-- what one record looks like after an update -/
theorem updateKnown_shape (k u : Member) (cond : Member → Bool) :
    (updateKnown k u cond).1 = k ∨ ((updateKnown k u cond).1.id = u.id ∧ (updateKnown k u cond).1.st = u.st) ∨
      ((updateKnown k u cond).1.id = k.id ∧ (updateKnown k u cond).1.st = u.st) := by
  unfold updateKnown
  by_cases h1 : (k.id != u.id && k.id.wins u.id) = true
  · simp [h1]
  · by_cases h2 : cond k = true
    · by_cases h3 : (k.id != u.id) = true
      · have hw : k.id.wins u.id = false := by
          cases hw : k.id.wins u.id with
          | false => rfl
          | true => simp [h3, hw] at h1
        simp [h1, h2, h3, hw]
      · by_cases h4 : Gen.canChange k.st k.inc u.inc u.st = true <;> simp [h1, h2, h3, h4]
    · simp [h1, h2]

theorem applyExisting_own {a : Nat} {ms ms' : List Member} {u : Member} {cond : Member → Bool} {sm : Summary}
    (h : applyExisting ms u cond = some (ms', sm)) (hu : okOwn a u)
    (hinv : ∀ m ∈ ms, m.id.addr = a → m.active = false) : ∀ m ∈ ms', m.id.addr = a → m.active = false := by
  induction ms generalizing ms' sm with
  | nil => simp [applyExisting] at h
  | cons k rest ih =>
    unfold applyExisting at h
    by_cases hk : (k.id.addr == u.id.addr) = true
    · simp only [hk, if_true] at h
      simp at h
      obtain ⟨h1, _⟩ := h
      subst h1
      have hka : k.id.addr = u.id.addr := by simpa using hk
      intro m hm hma
      simp only [List.mem_cons] at hm
      rcases hm with hm | hm
      · subst hm
        rcases updateKnown_shape k u cond with hs | ⟨hid, hst⟩ | ⟨hid, hst⟩
        · rw [hs] at hma ⊢; exact hinv k (by simp) hma
        · rw [hid] at hma
          have := okOwn_inactive hu hma
          simp only [Member.active] at this ⊢; rw [hst]; exact this
        · rw [hid, hka] at hma
          have := okOwn_inactive hu hma
          simp only [Member.active] at this ⊢; rw [hst]; exact this
      · exact hinv m (by simp [hm]) hma
    · simp only [hk, Bool.false_eq_true, if_false] at h
      cases hr : applyExisting rest u cond with
      | none => rw [hr] at h; simp at h
      | some r =>
        obtain ⟨rest', s'⟩ := r
        rw [hr] at h
        simp at h
        obtain ⟨h1, _⟩ := h
        subst h1
        intro m hm hma
        simp only [List.mem_cons] at hm
        rcases hm with hm | hm
        · subst hm; exact hinv m (by simp) hma
        · exact ih hr (fun x hx => hinv x (by simp [hx])) m hm hma

section
variable (E : Env) (a : Nat)

theorem OwnInvA.of_same {s s' : State} (h1 : s'.id = s.id) (h2 : s'.ms = s.ms) (h3 : ProbeKeep s.probe s'.probe)
    (h : OwnInvA a s) : OwnInvA a s' := by
  obtain ⟨ha, hj, hk⟩ := h
  refine ⟨by rw [h1]; exact ha, by rw [h2]; exact hj, ?_⟩
  intro m hm
  rcases h3 with h3 | h3
  · exact hk m (by rw [← h3]; exact hm)
  · rw [h3] at hm; simp at hm

theorem OwnInvA.membersApply (u : Member) (hu : okOwn a u) : Pres (OwnInvA a) (membersApply u) := by
  constructor
  intro c hc
  obtain ⟨ha, hj, hk⟩ := hc
  unfold Foca.membersApply
  cases h : Foca.applyExisting c.s.ms u (fun _ => true) with
  | some r =>
    obtain ⟨ms', sm⟩ := r
    exact ⟨ha, applyExisting_own h hu hj, hk⟩
  | none =>
    simp only
    have hd := drawIdx_frame .choose (c.s.ms.length + 1) c
    cases hdr : Foca.drawIdx .choose (c.s.ms.length + 1) c with
    | stuck x => trivial
    | err e c1 => rw [hdr] at hd; simp only at hd ⊢; rw [hd.1]; exact ⟨ha, hj, hk⟩
    | ok j c1 =>
      rw [hdr] at hd
      simp only at hd ⊢
      rw [hd.1]
      refine ⟨ha, ?_, hk⟩
      intro m hm hma
      have := (applyNew_perm c.s.ms u j).mem_iff.1 hm
      simp only [List.mem_cons] at this
      rcases this with h1 | h1
      · subst h1; exact okOwn_inactive hu hma
      · exact hj m h1 hma

theorem OwnInvA.membersApplyExistingIf (u : Member) (cond : Member → Bool) (hu : okOwn a u) :
    Pres (OwnInvA a) (membersApplyExistingIf u cond) := by
  constructor
  intro c hc
  obtain ⟨ha, hj, hk⟩ := hc
  unfold Foca.membersApplyExistingIf
  cases h : Foca.applyExisting c.s.ms u cond with
  | some r =>
    obtain ⟨ms', sm⟩ := r
    exact ⟨ha, applyExisting_own h hu hj, hk⟩
  | none => exact ⟨ha, hj, hk⟩

theorem OwnInvA.membersNext :
    PresR (OwnInvA a) (fun r => ∀ m, r = some m → okOwn a ⟨m.id, m.inc, .suspect⟩) membersNext := by
  constructor
  intro c hc
  obtain ⟨ha, hj, hk⟩ := hc
  have key : ∀ (l : List Member) (i : Nat), (∀ m ∈ l, m.id.addr = a → m.active = false) →
      ∀ m, (nextPure l i).1 = some m → okOwn a ⟨m.id, m.inc, .suspect⟩ := by
    intro l i hl m hm
    obtain ⟨hmem, hact⟩ := Foca.C14.next_returns_an_active_member l i m hm
    left
    intro heq
    have := hl m hmem heq
    rw [this] at hact
    exact Bool.false_ne_true hact
  unfold Foca.membersNext
  by_cases hs : needsShuffle c.s.cursor c.s.ms.length = true
  · simp only [hs, if_true]
    unfold Foca.drawShuffle
    cases hd : c.orc.draws with
    | nil => trivial
    | cons d rest =>
      cases d with
      | idx k => trivial
      | perm p =>
        simp only
        by_cases hperm : (p.filterMap (fun i => c.s.ms[i]?)).isPerm c.s.ms = true
        · simp only [hperm, if_true]
          have hp : (p.filterMap (fun i => c.s.ms[i]?)).Perm c.s.ms := List.isPerm_iff.1 hperm
          have hj' : ∀ m ∈ p.filterMap (fun i => c.s.ms[i]?), m.id.addr = a → m.active = false :=
            fun m hm => hj m (hp.mem_iff.1 hm)
          exact ⟨⟨ha, hj', hk⟩, key _ _ hj'⟩
        · simp [hperm]
  · simp only [hs, Bool.false_eq_true, if_false]
    exact ⟨⟨ha, hj, hk⟩, key _ _ hj⟩

theorem OwnInvA.removeDown (id : Id) : Pres (OwnInvA a) (modS fun s => { s with ms := removeIfDown s.ms id }) :=
  Pres.modS_of (fun s hs => by
    obtain ⟨ha, hj, hk⟩ := hs
    refine ⟨ha, ?_, hk⟩
    intro m hm hma
    simp only at hm
    rcases removeIfDown_spec s.ms id with h | ⟨x, _, hp⟩
    · rw [h] at hm; exact hj m hm hma
    · exact hj m (hp.mem_iff.1 (List.mem_cons_of_mem _ hm)) hma)

theorem OwnInvA.base : Base E (OwnInvA a) (okOwn a) where
  ownDown := fun _ _ => Or.inr rfl
  membersApply := OwnInvA.membersApply a
  membersApplyExistingIf := OwnInvA.membersApplyExistingIf a
  membersNext := OwnInvA.membersNext a
  startProbe := fun m hm => Pres.modS_of (fun s hs => by
    obtain ⟨ha, hj, _⟩ := hs
    refine ⟨ha, hj, ?_⟩
    intro m' hm'
    simp [Probe.start] at hm'
    subst hm'
    rcases hm with hm | hm
    · exact hm
    · simp at hm)
  sendMessage := Pres.sendMessage E (by intro s s' h hs; exact OwnInvA.of_same a (by rw [h]) (by rw [h]) (Or.inl (by rw [h])) hs)
  addUpdate := fun m _ => by
    unfold Foca.addUpdate
    exact Pres.modS_of (fun s hs => OwnInvA.of_same a (s := s) rfl rfl (Or.inl rfl) hs)
  modCtl := fun f h => Pres.modS_of (fun s hs =>
    OwnInvA.of_same a (h s).2.2.2.2.2.1 (h s).1 (h s).2.2.2.2.2.2.2.2.1 hs)
  setHst := fun _ => Pres.modS_of (fun s hs => OwnInvA.of_same a (s := s) rfl rfl (Or.inl rfl) hs)
  addCustom := fun _ _ _ _ => Pres.modS_of (fun s hs => OwnInvA.of_same a (s := s) rfl rfl (Or.inl rfl) hs)

theorem renew_addr {p : Policy} {i j : Id} (h : renew p i = some j) : j.addr = i.addr := by
  cases p <;> simp [renew] at h <;> subst h <;> rfl

theorem OwnInvA.reset : Pres (OwnInvA a) Foca.reset := by
  unfold Foca.reset
  exact Pres.modS_of (fun s hs => OwnInvA.of_same a (s := s) rfl rfl (Or.inr rfl) hs)

/-- `change_identity` to another identity of the same address -/
theorem OwnInvA.changeIdentity_same (newId : Id) (pol : Policy) (hadr : newId.addr = a) :
    Pres (OwnInvA a) (Foca.changeIdentity E newId pol) := by
  have B := OwnInvA.base E a
  unfold Foca.changeIdentity
  refine Pres.getS_with (fun s hs => ?_)
  split
  · exact Pres.throwE _
  · dsimp only
    refine Pres.bind (Pres.modS_of (fun s hs => ?_)) (fun _ => Pres.bind (OwnInvA.reset a) (fun _ => ?_))
    · obtain ⟨_, hj, hk⟩ := hs
      exact ⟨hadr, hj, hk⟩
    · split
      · exact Pres.bind (B.addUpdate _ (Or.inr rfl)) (fun _ => B.gossip)
      · exact B.gossip

theorem OwnInvA.attemptRejoin : Pres (OwnInvA a) (Foca.attemptRejoin E) := by
  unfold Foca.attemptRejoin
  refine Pres.getS_with (fun s hs => ?_)
  split
  · exact Pres.pure _
  · rename_i newId hren
    split
    · exact Pres.pure _
    · split
      · exact Pres.pure _
      · have : newId.addr = a := by rw [renew_addr hren]; exact hs.1
        exact Pres.bind (OwnInvA.changeIdentity_same E a newId s.policy this)
          (fun _ => Pres.bind (Pres.emit _) (fun _ => Pres.pure _))

theorem OwnInvA.handleSelfUpdate (inc : Nat) (st : St) : Pres (OwnInvA a) (Foca.handleSelfUpdate E inc st) := by
  have B := OwnInvA.base E a
  unfold Foca.handleSelfUpdate
  pres
  all_goals first
    | exact OwnInvA.attemptRejoin E a
    | exact B.becomeUndead
    | exact B.gossip
    | exact Pres.modS_of (fun s hs => OwnInvA.of_same a (s := s) rfl rfl (Or.inl rfl) hs)

theorem OwnInvA.full : Full E (OwnInvA a) (okOwn a) (fun _ => True) (fun _ => True) where
  toBase := OwnInvA.base E a
  handleSelfUpdate := OwnInvA.handleSelfUpdate E a
  inputDown := fun _ _ => Or.inr rfl
  senderOk := fun s0 h _ hp hsrc => by
    left
    simp only [Bool.or_eq_false_iff, beq_eq_false_iff_ne] at hsrc
    rw [← hp.1]; exact hsrc.2
  applyOk := fun s0 u _ hp _ h2 => by
    left
    simp only [beq_eq_false_iff_ne] at h2
    rw [← hp.1]; exact fun h => h2 h.symm
  failedOk := fun s0 m hp hm => by
    left
    apply hp.2.2 m
    unfold Probe.takeFailed at hm
    split at hm
    · exact hm
    · simp at hm

end

/-- the invariant for the instance's current address -/
def OwnInv (s : State) : Prop := OwnInvA s.id.addr s

/-- documented use of `change_identity`: same address, or an address that has no active record -/
def ChidOk (s : State) (op : Op) : Prop :=
  ∀ i p, op = .changeIdentity i p → i.addr = s.id.addr ∨ ∀ m ∈ s.ms, m.id.addr = i.addr → m.active = false


/-! a minimal pre/post rule set, for the one place where the invariant changes its parameter
    (`change_identity` to another address) -/

structure Tr {α} (Pre Post : State → Prop) (m : M α) : Prop where
  run : ∀ c, Pre c.s → match m c with
    | .ok _ c' => Post c'.s
    | .err _ c' => Post c'.s
    | .stuck _ => True

theorem Tr.of_pres {α} {P : State → Prop} {m : M α} (h : Pres P m) : Tr P P m := ⟨h.run⟩

theorem Tr.weaken {α} {A B C : State → Prop} {m : M α} (h : Tr A B m) (hw : ∀ s, B s → C s) : Tr A C m :=
  ⟨fun c hc => by
    have := h.run c hc
    cases hm : m c with
    | stuck x => trivial
    | err e c' => rw [hm] at this; exact hw _ this
    | ok a c' => rw [hm] at this; exact hw _ this⟩

theorem Tr.getS_with {β} {A C : State → Prop} {f : State → M β} (h : ∀ s, A s → Tr (fun s' => s' = s) C (f s)) :
    Tr A C (Foca.getS >>= f) :=
  ⟨fun c hc => by simp only [bind_run, getS_run]; exact (h c.s hc).run c rfl⟩

theorem Tr.modS_bind {β} {A B C : State → Prop} {f : State → State} {k : M β}
    (h1 : ∀ s, A s → B (f s)) (h2 : Tr B C k) : Tr A C (Foca.modS f >>= fun _ => k) :=
  ⟨fun c hc => by simp only [bind_run, modS_run]; exact h2.run _ (h1 c.s hc)⟩

theorem Tr.throwE {α} {A C : State → Prop} (e : ErrKind) (h : ∀ s, A s → C s) : Tr A C (Foca.throwE e : M α) :=
  ⟨fun c hc => h c.s hc⟩

/-- `change_identity` to an identity of another address that has no active record: afterwards the invariant
    holds for the new address (or nothing happened: `SameIdentity`) -/
theorem changeIdentity_other (E : Env) (s0 : State) (i : Id) (p : Policy)
    (hJ : ∀ m ∈ s0.ms, m.id.addr = i.addr → m.active = false) :
    Tr (fun s => s = s0) (fun s' => OwnInvA i.addr s' ∨ s' = s0) (Foca.changeIdentity E i p) := by
  have B := OwnInvA.base E i.addr
  unfold Foca.changeIdentity
  refine Tr.getS_with (fun s hs => ?_)
  subst hs
  split
  · exact Tr.throwE _ (fun s h => Or.inr h)
  · dsimp only
    unfold Foca.reset
    refine Tr.modS_bind (B := fun s' => s'.id.addr = i.addr ∧ ∀ m ∈ s'.ms, m.id.addr = i.addr → m.active = false) ?_ ?_
    · intro s' hs'; subst hs'; exact ⟨rfl, hJ⟩
    · refine Tr.modS_bind (B := OwnInvA i.addr) ?_ ?_
      · intro s' hs'
        refine ⟨hs'.1, hs'.2, ?_⟩
        intro m hm
        simp [Probe.clear] at hm
      · refine Tr.weaken (Tr.of_pres ?_) (fun _ h => Or.inl h)
        split
        · exact Pres.bind (B.addUpdate _ (Or.inr rfl)) (fun _ => B.gossip)
        · exact B.gossip

theorem OwnInvA.reuseDownIdentity (a : Nat) : Pres (OwnInvA a) Foca.reuseDownIdentity := by
  unfold Foca.reuseDownIdentity
  pres
  exact OwnInvA.reset a

/-- One public call keeps the invariant — whatever the input, the datagram bytes, the timer, the RNG — provided
    `change_identity` is used as documented. -/
theorem OwnInv.step (E : Env) (s : State) (op : Op) (orc : Oracle) (h : OwnInv s) (hop : ChidOk s op) :
    match Foca.step E s op orc with
    | .done s' _ _ _ => OwnInv s'
    | .stuck _ => True := by
  by_cases hother : ∃ i p, op = .changeIdentity i p ∧ i.addr ≠ s.id.addr
  · obtain ⟨i, p, hopeq, hne⟩ := hother
    subst hopeq
    have hJ : ∀ m ∈ s.ms, m.id.addr = i.addr → m.active = false := by
      rcases hop i p rfl with h1 | h1
      · exact absurd h1 hne
      · exact h1
    have := (changeIdentity_other E s i p hJ).run ⟨s, [], orc⟩ rfl
    unfold Foca.step Foca.runOp
    simp only [bind_run]
    cases hr : Foca.changeIdentity E i p ⟨s, [], orc⟩ with
    | stuck x => trivial
    | err e c' =>
      rw [hr] at this
      simp only
      rcases this with h1 | h1
      · exact ⟨h1.1 ▸ rfl, h1.1 ▸ h1.2.1, h1.1 ▸ h1.2.2⟩
      · rw [h1]; exact h
    | ok u c' =>
      rw [hr] at this
      simp only [pure_run]
      rcases this with h1 | h1
      · exact ⟨h1.1 ▸ rfl, h1.1 ▸ h1.2.1, h1.1 ▸ h1.2.2⟩
      · rw [h1]; exact h
  · have F := OwnInvA.full E s.id.addr
    have hrun := (F.runOp op
      (fun i p hi => by
        have : i.addr = s.id.addr := by
          cases hq : decide (i.addr = s.id.addr) with
          | true => exact of_decide_eq_true hq
          | false => exact absurd ⟨i, p, hi, of_decide_eq_false hq⟩ hother
        exact OwnInvA.changeIdentity_same E s.id.addr i p this)
      (fun _ => OwnInvA.reuseDownIdentity s.id.addr)
      (fun _ _ _ _ => Or.inr rfl) (fun _ _ _ _ _ => trivial)
      (fun _ _ _ _ _ => ⟨trivial, fun _ _ _ _ _ => trivial⟩)
      (fun id _ => OwnInvA.removeDown s.id.addr id)).run ⟨s, [], orc⟩ h
    unfold Foca.step
    cases hr : Foca.runOp E op ⟨s, [], orc⟩ with
    | stuck x => trivial
    | ok r c => rw [hr] at hrun; exact ⟨hrun.1 ▸ rfl, hrun.1 ▸ hrun.2.1, hrun.1 ▸ hrun.2.2⟩
    | err e c => rw [hr] at hrun; exact ⟨hrun.1 ▸ rfl, hrun.1 ▸ hrun.2.1, hrun.1 ▸ hrun.2.2⟩

/-- states reachable with `change_identity` used as documented -/
inductive ReachableDoc (E : Env) : State → Prop
  | init (id : Id) (pol : Policy) (cfg : Config) : ReachableDoc E (State.init id pol cfg)
  | step {s s' : State} (op : Op) (orc : Oracle) (eff : List Effect) (r : Res) (left : Oracle) :
      ReachableDoc E s → ChidOk s op → Foca.step E s op orc = .done s' eff r left → ReachableDoc E s'

theorem ReachableDoc.reachable {E : Env} {s : State} (h : ReachableDoc E s) : Reachable E s := by
  induction h with
  | init id pol cfg => exact Reachable.init id pol cfg
  | step op orc eff r left _ _ hstep ih => exact Reachable.step op orc eff r left ih hstep

theorem OwnInv.reachable {E : Env} {s : State} (h : ReachableDoc E s) : OwnInv s := by
  induction h with
  | init id pol cfg =>
    refine ⟨rfl, ?_, ?_⟩
    · intro m hm; simp [State.init] at hm
    · intro m hm; simp [State.init] at hm
  | step op orc eff r left _ hop hstep ih =>
    have := OwnInv.step E _ op orc ih hop
    rw [hstep] at this
    exact this

end Foca
