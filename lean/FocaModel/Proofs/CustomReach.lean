/-
  The custom-broadcast backlog evolves by backlog operations only (enqueue of an item the handler accepted, fill
  with length prefixes); with `LifetimeG`: an item is written at most `max_transmissions` times before an item
  of the same key is accepted again.
-/
import FocaModel.Proofs.LifetimeG
import FocaModel.Proofs.UpdInv
namespace Foca

section
variable (E : Env)

/-- the custom backlog after a send: untouched, or one framed fill of it -/
def CFillOf (b b' : List (Entry Key)) : Prop :=
  b' = b ∨ ∃ sp picks r, fill b sp usizeMax Gen.lenPrefix picks = some r ∧ b' = r.pending ++ r.done

theorem memberSection_custom (dst : Id) (msg : Msg) (pick : Pick) (rem0 : Nat) (c : Ctx) :
    match memberSection E dst msg pick rem0 c with
    | .ok _ c' => c'.s.custom = c.s.custom
    | _ => True := by
  have := memberSection_spec E dst msg pick rem0 c
  unfold SectionOK at this
  have h2 := memberSection_upd E dst msg pick rem0 c
  unfold memberSection at *
  simp only [bind_run, getS_run] at *
  by_cases h1 : (Gen.needsPiggyback msg && decide (rem0 > Gen.piggybackMinSpace)) = true
  · simp only [h1, if_true] at *
    by_cases h2' : Gen.piggybackOnlyActive msg = true
    · simp only [h2', if_true] at *
      by_cases h3 : ((c.s.cfg.mps - (rem0 - 2)) / 2 == 0) = true
      · simp [h3, panicAt]
      · simp only [h3, Bool.false_eq_true, if_false, bind_run] at *
        have hc := chooseLoop_spec (max ((rem0 - 2) / ((c.s.cfg.mps - (rem0 - 2)) / 2)) Gen.feedMinEstimate)
          (fun m => m.active && m.id != dst) c.s.ms [] 0 c
        generalize chooseLoop (max ((rem0 - 2) / ((c.s.cfg.mps - (rem0 - 2)) / 2)) Gen.feedMinEstimate)
          (fun m => m.active && m.id != dst) c.s.ms [] 0 c = res at hc ⊢
        cases res with
        | ok r c' =>
          obtain ⟨hs, _, _, _⟩ := hc
          simp only []
          by_cases h4 : (E.debug && decide ((feedLoop E r.reverse (rem0 - 2)).2.1 > 65535)) = true
          · simp [h4, panicAt]
          · simp only [h4, Bool.false_eq_true, if_false, pure_run]
            rw [hs]
        | err e c' => trivial
        | stuck x => trivial
    · simp only [h2', Bool.false_eq_true, if_false] at *
      cases hf : fill c.s.updates (rem0 - 2) Gen.fillMaxItems 0 pick.updates with
      | none => simp [badOracle]
      | some r =>
        simp only []
        by_cases h5 : r.written.length > 65535
        · simp [h5, panicAt]
        · simp only [h5, if_false, bind_run, modS_run, pure_run]
  · simp only [h1, Bool.false_eq_true, if_false, pure_run]

theorem customTail_custom (dst : Id) (msg : Msg) (pick : Pick) (space : Nat) (c : Ctx) :
    match customTail E dst msg pick space c with
    | .ok _ c' => CFillOf c.s.custom c'.s.custom
    | _ => True := by
  unfold customTail
  simp only [bind_run, getS_run]
  by_cases h1 : (decide (space > 0) && Gen.allowCustom msg && E.handler.shouldAdd c.s.hst dst) = true
  · simp only [h1, if_true]
    cases hf : fill c.s.custom space usizeMax Gen.lenPrefix pick.custom with
    | none => simp [badOracle]
    | some r =>
      simp only []
      by_cases h5 : (E.debug && r.written.any (fun d => decide (d.length > 65535))) = true
      · simp [h5, panicAt]
      · simp only [h5, Bool.false_eq_true, if_false, bind_run, modS_run, pure_run]
        exact Or.inr ⟨_, _, r, hf, rfl⟩
  · simp only [h1, Bool.false_eq_true, if_false, pure_run]
    exact Or.inl rfl

theorem sendMessage_custom (dst : Id) (msg : Msg) (c : Ctx) :
    match sendMessage E dst msg c with
    | .ok _ c' => CFillOf c.s.custom c'.s.custom
    | _ => True := by
  unfold sendMessage
  simp only [bind_run, getS_run]
  by_cases h0 : (E.debug && c.s.sendCap != c.s.cfg.mps) = true
  · simp [h0, panicAt]
  · simp only [h0, Bool.false_eq_true, if_false]
    by_cases h1 : (E.codec.encHeader ⟨c.s.id, c.s.inc, dst, msg⟩).length > c.s.cfg.mps
    · simp [h1, throwE]
    · simp only [h1, if_false, bind_run]
      have hp := nextPick_spec c
      generalize nextPick c = rp at hp ⊢
      cases rp with
      | err e c1 => trivial
      | stuck x => trivial
      | ok pick c1 =>
        obtain ⟨hs1, _⟩ := hp
        simp only []
        have hm := memberSection_custom E dst msg pick (c.s.cfg.mps - (E.codec.encHeader ⟨c.s.id, c.s.inc, dst, msg⟩).length) c1
        generalize memberSection E dst msg pick (c.s.cfg.mps - (E.codec.encHeader ⟨c.s.id, c.s.inc, dst, msg⟩).length) c1 = rm at hm ⊢
        cases rm with
        | err e c2 => trivial
        | stuck x => trivial
        | ok sect c2 =>
          simp only [] at hm ⊢
          have ht := customTail_custom E dst msg pick sect.2 c2
          generalize customTail E dst msg pick sect.2 c2 = rt at ht ⊢
          cases rt with
          | err e c3 => trivial
          | stuck x => trivial
          | ok tail c3 =>
            simp only [emit_run] at ht ⊢
            rw [← hs1, ← hm]; exact ht

/-- `s.custom` is reachable from `b0` by backlog operations (with the handler's invalidation relation) -/
def CustomReach (b0 : List (Entry Key)) (s : State) : Prop :=
  ∃ ops, G.runOps E.handler.invalidates usizeMax Gen.lenPrefix b0 ops = some s.custom

theorem G.runOps_append {κ : Type} (inv : κ → κ → Bool) (mi ov : Nat) (b : List (Entry κ)) (ops1 ops2 : List (G.BOp κ))
    (b1 : List (Entry κ)) (h : G.runOps inv mi ov b ops1 = some b1) :
    G.runOps inv mi ov b (ops1 ++ ops2) = G.runOps inv mi ov b1 ops2 := by
  induction ops1 generalizing b with
  | nil => simp [G.runOps] at h; subst h; rfl
  | cons op ops ih =>
    simp only [List.cons_append]
    rw [G.runOps] at h
    rw [G.runOps]
    cases hr : G.BOp.run inv mi ov b op with
    | none => rw [hr] at h; simp at h
    | some b' => rw [hr] at h; simp only at h ⊢; exact ih b' h

theorem CustomReach.leaves (b0 : List (Entry Key)) : Leaves E (CustomReach E b0) where
  membersApply := fun u => Pres.of_onlyMembership (by intro s s' h hs; unfold CustomReach at *; rw [h]; exact hs) (membersApply_only u)
  membersApplyExistingIf := fun u cond => Pres.of_onlyMembership (by intro s s' h hs; unfold CustomReach at *; rw [h]; exact hs) (membersApplyExistingIf_only u cond)
  membersNext := Pres.of_onlyMembership (by intro s s' h hs; unfold CustomReach at *; rw [h]; exact hs) membersNext_only
  removeDown := fun id => Pres.modS_of (fun s hs => hs)
  sendMessage := fun d m => ⟨fun c hc => by
    have h1 := sendMessage_custom E d m c
    have h2 := sendMessage_spec E d m c
    cases h : Foca.sendMessage E d m c with
    | stuck x => trivial
    | err e c' => rw [h] at h2; simp only at h2 ⊢; rw [h2.2.1]; exact hc
    | ok a c' =>
      rw [h] at h1
      simp only at h1 ⊢
      obtain ⟨ops, hops⟩ := hc
      rcases h1 with h1 | ⟨sp, picks, r, hf, h1⟩
      · exact ⟨ops, by rw [h1]; exact hops⟩
      · refine ⟨ops ++ [.fill sp picks], ?_⟩
        rw [G.runOps_append _ _ _ _ _ _ _ hops, h1]
        simp [G.runOps, G.BOp.run, hf]⟩
  addUpdate := fun m => by
    unfold Foca.addUpdate
    exact Pres.modS_of (fun s hs => hs)
  modCtl := fun f h => Pres.modS_of (fun s hs => by unfold CustomReach at *; rw [(h s).2.2.2.1]; exact hs)
  setHst := fun _ => Pres.modS_of (fun s hs => hs)
  addCustom := fun h' key data _ => Pres.modS_of (fun s hs => by
    obtain ⟨ops, hops⟩ := hs
    refine ⟨ops ++ [.enqueue key data s.cfg.maxTx], ?_⟩
    rw [G.runOps_append _ _ _ _ _ _ _ hops]
    simp [G.runOps, G.BOp.run])

/-- One public call — any input, any handler, any RNG, any tie order — changes the custom-broadcast backlog only
    by backlog operations. -/
theorem custom_evolves_by_backlog_ops (s : State) (op : Op) (orc : Oracle) :
    match step E s op orc with
    | .done s' _ _ _ => ∃ ops, G.runOps E.handler.invalidates usizeMax Gen.lenPrefix s.custom ops = some s'.custom
    | .stuck _ => True :=
  (CustomReach.leaves E s.custom).step s op orc ⟨[], rfl⟩

end
end Foca
