/-
  Reasoning toolkit for the execution monad `M`: how each primitive runs on a context.
-/
import FocaModel.Foca
namespace Foca

@[simp] theorem pure_run {α} (a : α) (c : Ctx) : (pure a : M α) c = .ok a c := rfl

@[simp] theorem bind_run {α β} (m : M α) (f : α → M β) (c : Ctx) :
    (m >>= f) c = match m c with
      | .ok a c' => f a c'
      | .err e c' => .err e c'
      | .stuck x => .stuck x := rfl

@[simp] theorem getS_run (c : Ctx) : getS c = .ok c.s c := rfl
@[simp] theorem setS_run (s : State) (c : Ctx) : setS s c = .ok () { c with s := s } := rfl
@[simp] theorem modS_run (f : State → State) (c : Ctx) : modS f c = .ok () { c with s := f c.s } := rfl
@[simp] theorem emit_run (e : Effect) (c : Ctx) : emit e c = .ok () { c with eff := c.eff ++ [e] } := rfl
@[simp] theorem throwE_run {α} (e : ErrKind) (c : Ctx) : (throwE e : M α) c = .err e c := rfl
@[simp] theorem panicAt_run {α} (p : PanicSite) (c : Ctx) : (panicAt p : M α) c = .stuck (.panic p) := rfl

/-- a computation that neither changes the state nor emits effects (it may consume oracle draws) -/
def Frame {α} (m : M α) : Prop :=
  ∀ c, match m c with
    | .ok _ c' => c'.s = c.s ∧ c'.eff = c.eff
    | .err _ c' => c'.s = c.s ∧ c'.eff = c.eff
    | .stuck _ => True

theorem drawIdx_frame (k : DrawKind) (n : Nat) : Frame (drawIdx k n) := by
  intro c
  unfold drawIdx
  cases h : c.orc.draws with
  | nil => simp
  | cons d rest =>
    cases d with
    | perm p => simp
    | idx k' => by_cases hk : k' < n <;> simp [hk]

end Foca
