/-
  Where datagrams go, over whole calls: the invariant of `OwnInv` (no active record and no probe target bears the
  own address) together with a condition on every effect emitted so far — each datagram goes to another address
  (or to a destination the call's input named: a relay target, the destination of an explicit `announce`, the
  member of a suspicion timer), and each suspicion timer scheduled names another address.
-/
import FocaModel.Proofs.InvE
import FocaModel.Proofs.OwnInv
namespace Foca

/-- effects acceptable while the own address is `a`; `ex`: destinations named by the call's input -/
def effOk (a : Nat) (ex : Id → Prop) : Effect → Prop
  | .send d _ => d.addr ≠ a ∨ ex d
  | .timer _ (.s2d m _ _) => m.addr ≠ a
  | _ => True

def SendInv (a : Nat) (ex : Id → Prop) (s : State) (eff : List Effect) : Prop :=
  OwnInvA a s ∧ ∀ e ∈ eff, effOk a ex e

/-- `m` emits nothing -/
def Silent {α} (m : M α) : Prop :=
  ∀ c, match m c with | .ok _ c' => c'.eff = c.eff | .err _ c' => c'.eff = c.eff | .stuck _ => True

theorem Silent.modS (f : State → State) : Silent (Foca.modS f) := fun _ => rfl

theorem Silent.membersApply (u : Member) : Silent (Foca.membersApply u) := by
  intro c
  unfold Foca.membersApply
  cases h : Foca.applyExisting c.s.ms u (fun _ => true) with
  | some r => rfl
  | none =>
    simp only
    have hd := drawIdx_frame .choose (c.s.ms.length + 1) c
    cases hdr : Foca.drawIdx .choose (c.s.ms.length + 1) c with
    | stuck x => trivial
    | err e c1 => rw [hdr] at hd; exact hd.2
    | ok j c1 => rw [hdr] at hd; exact hd.2

theorem Silent.membersApplyExistingIf (u : Member) (cond : Member → Bool) : Silent (Foca.membersApplyExistingIf u cond) := by
  intro c
  unfold Foca.membersApplyExistingIf
  cases h : Foca.applyExisting c.s.ms u cond with
  | some r => rfl
  | none => rfl

theorem Silent.membersNext : Silent Foca.membersNext := by
  intro c
  unfold Foca.membersNext
  by_cases hs : needsShuffle c.s.cursor c.s.ms.length = true
  · simp only [hs, if_true]
    unfold Foca.drawShuffle
    cases hd : c.orc.draws with
    | nil => trivial
    | cons d rest =>
      cases d with
      | idx k => trivial
      | perm p =>
        simp only
        by_cases hperm : (p.filterMap (fun i => c.s.ms[i]?)).isPerm c.s.ms = true
        · simp only [hperm, if_true]
        · simp [hperm]
  · simp only [hs, Bool.false_eq_true, if_false]

section
variable (E : Env) (a : Nat) (ex : Id → Prop)

/-- destinations a datagram may be sent to -/
def okDst (d : Id) : Prop := d.addr ≠ a ∨ ex d

variable {E a ex}

theorem SendInv.silent {α} {m : M α} (h : Pres (OwnInvA a) m) (hs : Silent m) : PresE (SendInv a ex) m :=
  PresE.of_pres_silent h hs

theorem SendInv.modS {f : State → State} (h : Pres (OwnInvA a) (Foca.modS f)) : PresE (SendInv a ex) (Foca.modS f) :=
  SendInv.silent h (Silent.modS f)

theorem SendInv.emit (e : Effect) (he : effOk a ex e) : PresE (SendInv a ex) (Foca.emit e) :=
  PresE.emit_of (fun s eff h => ⟨h.1, fun x hx => by
    rcases List.mem_append.1 hx with hx | hx
    · exact h.2 x hx
    · simp only [List.mem_singleton] at hx; subst hx; exact he⟩)

theorem SendInv.sendMessage (d : Id) (m : Msg) (hd : okDst a ex d) : PresE (SendInv a ex) (Foca.sendMessage E d m) := by
  constructor
  intro c hc
  have := sendMessage_spec E d m c
  cases h : Foca.sendMessage E d m c with
  | stuck x => trivial
  | err e c' => rw [h] at this; simp only [SendOK] at this ⊢; rw [this.2.1, this.2.2]; exact hc
  | ok u c' =>
    rw [h] at this
    simp only [SendOK] at this ⊢
    obtain ⟨hb, body, heff, _⟩ := this
    refine ⟨OwnInvA.of_same a (by rw [hb]) (by rw [hb]) (Or.inl (by rw [hb])) hc.1, ?_⟩
    intro x hx
    rw [heff] at hx
    rcases List.mem_append.1 hx with hx | hx
    · exact hc.2 x hx
    · simp only [List.mem_singleton] at hx; subst hx; exact hd

/-- an active record's identity is an acceptable destination -/
theorem SendInv.activeOk {s : State} {eff : List Effect} (h : SendInv a ex s eff) {m : Member} (hm : m ∈ s.ms)
    (ha : m.active = true) : okDst a ex m.id := by
  left
  intro hadr
  have := h.1.2.1 m hm hadr
  rw [ha] at this
  exact Bool.noConfusion this

end

/-- closes the goals `prese` leaves about emitted notifications and timers -/
macro "emit_ok" : tactic => `(tactic| exact SendInv.emit _ (by first | trivial | simp [effOk]))

section
variable {E : Env} {a : Nat} {ex : Id → Prop}

local notation "P" => SendInv a ex

theorem SendInv.ctl (f : State → State)
    (h : CtlKeep f := by
        intro s; exact ⟨rfl, rfl, rfl, rfl, rfl, rfl, rfl, rfl, by first | exact Or.inl rfl | exact Or.inr rfl, rfl⟩) :
    PresE P (Foca.modS f) :=
  SendInv.modS (Pres.modS_of (fun s hs => OwnInvA.of_same a (h s).2.2.2.2.2.1 (h s).1 (h s).2.2.2.2.2.2.2.2.1 hs))

theorem SendInv.addUpdate (u : Member) : PresE P (Foca.addUpdate E u) := by
  unfold Foca.addUpdate
  exact SendInv.modS (Pres.modS_of (fun s hs => OwnInvA.of_same a (s := s) rfl rfl (Or.inl rfl) hs))

theorem SendInv.sendAll (msg : Msg) (ds : List Id) (hds : ∀ d ∈ ds, okDst a ex d) : PresE P (Foca.sendAll E msg ds) := by
  induction ds with
  | nil => unfold Foca.sendAll; exact PresE.pure _
  | cons d rest ih =>
    unfold Foca.sendAll
    exact PresE.bind (SendInv.sendMessage d msg (hds d (by simp))) (fun _ => ih (fun x hx => hds x (by simp [hx])))

theorem SendInv.chooseAndSend (n : Nat) (msg : Msg) : PresE P (Foca.chooseAndSend E n msg) := by
  unfold Foca.chooseAndSend
  refine PresE.getS_with (fun s eff hs => ?_)
  refine PresER.bind (PresER.chooseLoop _ _ _) (fun chosen hch => ?_)
  refine SendInv.sendAll _ _ (fun d hd => ?_)
  simp only [List.mem_map, List.mem_reverse] at hd
  obtain ⟨m, hm, rfl⟩ := hd
  exact SendInv.activeOk hs (hch m hm).1 (hch m hm).2

theorem SendInv.gossip : PresE P (Foca.gossip E) := by
  unfold Foca.gossip
  prese
  exact SendInv.chooseAndSend _ _

theorem SendInv.announceToDown (n : Nat) : PresE P (Foca.announceToDown E n) := by
  unfold Foca.announceToDown
  refine PresE.getS_with (fun s eff hs => ?_)
  refine PresER.bind (PresER.chooseLoop _ _ _) (fun chosen hch => ?_)
  refine SendInv.sendAll _ _ (fun d hd => ?_)
  simp only [List.mem_map, List.mem_reverse] at hd
  obtain ⟨m, hm, rfl⟩ := hd
  left
  have := (hch m hm).2
  simp only [Bool.and_eq_true, bne_iff_ne, ne_eq] at this
  rw [← hs.1.1]
  exact this.2

theorem SendInv.becomeUndead : PresE P Foca.becomeUndead := by
  unfold Foca.becomeUndead
  prese
  · exact SendInv.ctl _
  · emit_ok

theorem SendInv.becomeDisconnected : PresE P (Foca.becomeDisconnected E) := by
  unfold Foca.becomeDisconnected
  prese
  · exact SendInv.ctl _
  · emit_ok

theorem SendInv.becomeConnected : PresE P (Foca.becomeConnected E) := by
  unfold Foca.becomeConnected
  prese
  all_goals first
    | exact SendInv.ctl _
    | emit_ok

theorem SendInv.adjustConnectionState : PresE P (Foca.adjustConnectionState E) := by
  unfold Foca.adjustConnectionState
  prese
  · exact SendInv.becomeConnected
  · exact SendInv.becomeDisconnected

theorem SendInv.handleApplySummary (sm : Summary) (u : Member) (b : Bool) :
    PresE P (Foca.handleApplySummary E sm u b) := by
  unfold Foca.handleApplySummary
  prese
  all_goals first
    | exact SendInv.addUpdate _
    | emit_ok

theorem SendInv.applyUpdate (u : Member) (b : Bool) (hu : okOwn a u) : PresE P (Foca.applyUpdate E u b) := by
  unfold Foca.applyUpdate
  prese
  · exact SendInv.silent (OwnInvA.membersApply a u hu) (Silent.membersApply u)
  · exact SendInv.handleApplySummary _ _ _

theorem SendInv.applyExistingReport (u : Member) (cond : Member → Bool) (hu : okOwn a u) :
    PresE P (Foca.applyExistingReport E u cond) := by
  unfold Foca.applyExistingReport
  refine PresE.bind (SendInv.silent (OwnInvA.membersApplyExistingIf a u cond hu) (Silent.membersApplyExistingIf u cond)) (fun r => ?_)
  split
  · exact PresE.bind (SendInv.handleApplySummary _ _ _) (fun _ => PresE.pure _)
  · exact PresE.pure _

theorem SendInv.broadcastLoop (ds : List Id) (hds : ∀ d ∈ ds, okDst a ex d) : PresE P (Foca.broadcastLoop E ds) := by
  induction ds with
  | nil => unfold Foca.broadcastLoop; exact PresE.pure _
  | cons d rest ih =>
    unfold Foca.broadcastLoop
    prese
    · exact SendInv.sendMessage _ _ (hds d (by simp))
    · exact ih (fun x hx => hds x (by simp [hx]))

theorem SendInv.broadcastApi : PresE P (Foca.broadcastApi E) := by
  unfold Foca.broadcastApi
  refine PresE.getS_with (fun s eff hs => ?_)
  split
  · exact PresE.pure _
  · refine PresER.bind (PresER.chooseLoop _ _ _) (fun chosen hch => ?_)
    refine SendInv.broadcastLoop _ (fun d hd => ?_)
    simp only [List.mem_map, List.mem_reverse] at hd
    obtain ⟨m, hm, rfl⟩ := hd
    have := (hch m hm).2
    simp only [Bool.and_eq_true] at this
    exact SendInv.activeOk hs (hch m hm).1 this.1

theorem SendInv.leaveCluster : PresE P (Foca.leaveCluster E) := by
  unfold Foca.leaveCluster
  prese
  · exact SendInv.addUpdate _
  · exact SendInv.gossip
  · exact SendInv.becomeUndead

theorem SendInv.setHst (h' : HSt) : PresE P (Foca.modS fun s => { s with hst := h' }) :=
  SendInv.modS (Pres.modS_of (fun s hs => OwnInvA.of_same a (s := s) rfl rfl (Or.inl rfl) hs))

theorem SendInv.addCustom (h' : HSt) (key : Key) (data : Bytes) : PresE P (Foca.modS fun s =>
    { s with hst := h', custom := addOrReplace s.custom E.handler.invalidates key data s.cfg.maxTx }) :=
  SendInv.modS (Pres.modS_of (fun s hs => OwnInvA.of_same a (s := s) rfl rfl (Or.inl rfl) hs))

theorem SendInv.addBroadcast (d : Bytes) : PresE P (Foca.addBroadcast E d) := by
  unfold Foca.addBroadcast
  prese
  all_goals first | exact SendInv.setHst _ | exact SendInv.addCustom _ _ _

theorem SendInv.setConfig (cfg : Config) : PresE P (Foca.setConfig cfg) := by
  unfold Foca.setConfig
  prese
  exact SendInv.ctl _

theorem SendInv.pingReqLoop (probed : Id) (ds : List Id) (hds : ∀ d ∈ ds, okDst a ex d) :
    PresE P (Foca.pingReqLoop E probed ds) := by
  induction ds with
  | nil => unfold Foca.pingReqLoop; exact PresE.pure _
  | cons d rest ih =>
    unfold Foca.pingReqLoop
    prese
    · exact SendInv.ctl _
    · exact SendInv.sendMessage _ _ (hds d (by simp))
    · exact ih (fun x hx => hds x (by simp [hx]))

theorem SendInv.customLoop (sender : Option Id) (fuel : Nat) (data : Bytes) :
    PresE P (Foca.customLoop E sender fuel data) := by
  induction fuel generalizing data with
  | zero => unfold Foca.customLoop; exact PresE.throwE _
  | succ f ih =>
    unfold Foca.customLoop
    prese
    all_goals first
      | exact SendInv.setHst _
      | exact SendInv.addCustom _ _ _
      | exact ih _

theorem SendInv.handleCustomBroadcasts (data : Bytes) (sender : Option Id) :
    PresE P (Foca.handleCustomBroadcasts E data sender) := by
  unfold Foca.handleCustomBroadcasts
  prese
  exact SendInv.customLoop _ _ _

theorem SendInv.reset : PresE P Foca.reset := by
  unfold Foca.reset
  exact SendInv.modS (Pres.modS_of (fun s hs => OwnInvA.of_same a (s := s) rfl rfl (Or.inr rfl) hs))

/-- `change_identity` to another identity of the same address -/
theorem SendInv.changeIdentity_same (newId : Id) (pol : Policy) (hadr : newId.addr = a) :
    PresE P (Foca.changeIdentity E newId pol) := by
  unfold Foca.changeIdentity
  refine PresE.getS_with (fun s eff hs => ?_)
  split
  · exact PresE.throwE _
  · dsimp only
    refine PresE.bind (SendInv.modS (Pres.modS_of (fun s hs => ?_))) (fun _ => PresE.bind SendInv.reset (fun _ => ?_))
    · obtain ⟨_, hj, hk⟩ := hs
      exact ⟨hadr, hj, hk⟩
    · split
      · exact PresE.bind (SendInv.addUpdate _) (fun _ => SendInv.gossip)
      · exact SendInv.gossip

theorem SendInv.attemptRejoin : PresE P (Foca.attemptRejoin E) := by
  unfold Foca.attemptRejoin
  refine PresE.getS_with (fun s eff hs => ?_)
  split
  · exact PresE.pure _
  · rename_i newId hren
    split
    · exact PresE.pure _
    · split
      · exact PresE.pure _
      · have : newId.addr = a := by rw [renew_addr hren]; exact hs.1.1
        exact PresE.bind (SendInv.changeIdentity_same newId s.policy this)
          (fun _ => PresE.bind (SendInv.emit _ trivial) (fun _ => PresE.pure _))

theorem SendInv.handleSelfUpdate (inc : Nat) (st : St) : PresE P (Foca.handleSelfUpdate E inc st) := by
  unfold Foca.handleSelfUpdate
  prese
  all_goals first
    | exact SendInv.attemptRejoin
    | exact SendInv.becomeUndead
    | exact SendInv.gossip
    | exact SendInv.modS (Pres.modS_of (fun s hs => OwnInvA.of_same a (s := s) rfl rfl (Or.inl rfl) hs))

theorem SendInv.reuseDownIdentity : PresE P Foca.reuseDownIdentity := by
  unfold Foca.reuseDownIdentity
  prese
  exact SendInv.reset

theorem SendInv.probeSuspectFailed : PresE P (Foca.probeSuspectFailed E) := by
  unfold Foca.probeSuspectFailed
  refine PresE.getS_modS_bind (g := fun s s' => { s' with probe := s.probe.takeFailed.2 }) (fun s eff hs => ?_) (fun s eff hs => ?_)
  · exact ⟨OwnInvA.of_same a (s := s) rfl rfl (ProbeKeep.takeFailed _) hs.1, hs.2⟩
  · have hF : ∀ m, s.probe.takeFailed.1 = some m → m.id.addr ≠ a := by
      intro m hm
      apply hs.1.2.2 m
      unfold Probe.takeFailed at hm
      split at hm
      · exact hm
      · simp at hm
    split
    · rename_i failed hf
      refine PresE.bind (SendInv.applyExistingReport _ _ (Or.inl (hF failed hf))) (fun r => ?_)
      split
      · split
        · exact PresE.bind PresE.getS (fun _ => SendInv.emit _ (hF failed hf))
        · exact PresE.pure _
      · exact PresE.pure _
    · exact PresE.pure _

theorem SendInv.probeStartNext : PresE P (Foca.probeStartNext E) := by
  unfold Foca.probeStartNext
  refine PresER.bind (PresER.of_presR_silent (OwnInvA.membersNext a) Silent.membersNext) (fun r hr => ?_)
  split
  · rename_i member
    have hm : member.id.addr ≠ a := by
      rcases hr member rfl with h | h
      · exact h
      · simp at h
    refine PresE.bind (SendInv.modS ((OwnInvA.base E a).startProbe member (Or.inl hm))) (fun _ => ?_)
    exact PresE.bind PresE.getS (fun _ => PresE.bind (SendInv.sendMessage _ _ (Or.inl hm)) (fun _ => SendInv.emit _ trivial))
  · exact PresE.pure _

theorem SendInv.probeRandomMember : PresE P (Foca.probeRandomMember E) := by
  unfold Foca.probeRandomMember
  prese
  all_goals first
    | exact SendInv.ctl _
    | exact SendInv.probeSuspectFailed
    | exact SendInv.probeStartNext
    | emit_ok

/-- `handle_timer`; the member a suspicion timer names is a destination named by the input -/
theorem SendInv.handleTimer (t : Timer) (ht : ∀ m inc tok, t = .s2d m inc tok → ex m) :
    PresE P (Foca.handleTimer E t) := by
  unfold Foca.handleTimer
  refine PresE.getS_with (fun s eff hs => ?_)
  cases t with
  | indirect probed tok =>
    dsimp only
    repeat' first
      | exact PresE.pure _
      | exact SendInv.ctl _
      | refine PresER.bind (PresER.chooseLoop _ _ _) (fun chosen hch => ?_)
      | with_reducible apply PresE.bind
      | with_reducible apply PresE.ite
      | (intro _; try dsimp only)
    · refine SendInv.pingReqLoop _ _ (fun d hd => ?_)
      simp only [List.mem_map, List.mem_reverse] at hd
      obtain ⟨m, hm, rfl⟩ := hd
      have := (hch m hm).2
      simp only [Bool.and_eq_true] at this
      exact SendInv.activeOk hs (hch m hm).1 this.1
  | s2d m inc tok =>
    dsimp only
    prese
    all_goals first
      | exact SendInv.applyExistingReport _ _ (Or.inr rfl)
      | exact SendInv.adjustConnectionState
      | exact SendInv.sendMessage _ _ (Or.inr (ht _ _ _ rfl))
  | rm down => exact SendInv.modS (OwnInvA.removeDown a down)
  | probe tok =>
    dsimp only
    prese
    exact SendInv.probeRandomMember
  | pa tok =>
    dsimp only
    prese
    all_goals first
      | exact SendInv.chooseAndSend _ _
      | emit_ok
  | pad tok =>
    dsimp only
    prese
    all_goals first
      | exact SendInv.announceToDown _
      | emit_ok
  | pg tok =>
    dsimp only
    prese
    all_goals first
      | exact SendInv.chooseAndSend _ _
      | exact SendInv.gossip
      | emit_ok

theorem SendInv.applyOne (u : Member) (b : Bool) : PresE P (Foca.applyOne E u b) := by
  unfold Foca.applyOne
  refine PresE.getS_with (fun s eff hs => ?_)
  split
  · exact SendInv.handleSelfUpdate _ _
  · split
    · exact PresE.bind (SendInv.applyUpdate _ _ (Or.inr rfl)) (fun _ => PresE.pure _)
    · rename_i h2
      refine PresE.bind (SendInv.applyUpdate _ _ (Or.inl ?_)) (fun _ => PresE.pure _)
      have h2' : ¬ s.id.addr = u.id.addr := by simpa using h2
      rw [← hs.1.1]
      exact fun h => h2' h.symm

theorem SendInv.applyLoop (b : Bool) (us : List Member) : PresE P (Foca.applyLoop E b us) := by
  induction us with
  | nil => unfold Foca.applyLoop; exact PresE.pure _
  | cons u rest ih =>
    unfold Foca.applyLoop
    exact PresE.bind (SendInv.applyOne u b) (fun _ => ih)

theorem SendInv.applyMany (us : List Member) (b : Bool) : PresE P (Foca.applyMany E us b) := by
  unfold Foca.applyMany
  prese
  · exact SendInv.applyLoop _ _
  · exact SendInv.adjustConnectionState

/-- the target a relayed message names -/
def relayTarget : Msg → Option Id
  | .pingReq t _ => some t
  | .indirectAck t _ => some t
  | _ => none

theorem SendInv.reactToMessage (h : Header) (hsrc : h.src.addr ≠ a) (hrel : ∀ t, relayTarget h.msg = some t → ex t) :
    PresE P (Foca.reactToMessage E h) := by
  unfold Foca.reactToMessage
  refine PresE.getS_with (fun s eff hs => ?_)
  cases hm : h.msg with
  | pingReq t n =>
    dsimp only
    prese
    exact SendInv.sendMessage _ _ (Or.inr (hrel t (by rw [hm]; rfl)))
  | indirectAck t n =>
    dsimp only
    prese
    exact SendInv.sendMessage _ _ (Or.inr (hrel t (by rw [hm]; rfl)))
  | _ =>
    dsimp only
    prese
    all_goals first
      | exact SendInv.sendMessage _ _ (Or.inl hsrc)
      | exact SendInv.handleSelfUpdate _ _
      | exact SendInv.ctl _ (fun s => ⟨rfl, rfl, rfl, rfl, rfl, rfl, rfl, rfl, ProbeKeep.receiveAck _ _ _, Probe.receiveAck_number _ _ _⟩)
      | exact SendInv.ctl _ (fun s => ⟨rfl, rfl, rfl, rfl, rfl, rfl, rfl, rfl, ProbeKeep.receiveIndirectAck _ _ _, Probe.receiveIndirectAck_number _ _ _⟩)

theorem SendInv.inactiveSender (h : Header) (hsrc : h.src.addr ≠ a) : PresE P (Foca.inactiveSender E h) := by
  unfold Foca.inactiveSender
  prese
  all_goals first
    | exact SendInv.handleSelfUpdate _ _
    | exact SendInv.sendMessage _ _ (Or.inl hsrc)

theorem SendInv.replyStage (h : Header) (cres : Option ErrKind) (hsrc : h.src.addr ≠ a)
    (hrel : ∀ t, relayTarget h.msg = some t → ex t) : PresE P (Foca.replyStage E h cres) := by
  unfold Foca.replyStage
  prese
  exact SendInv.reactToMessage _ hsrc hrel

/-- the relay targets a datagram names are destinations named by the input -/
def RelayOk (E : Env) (ex : Id → Prop) (data : Bytes) : Prop :=
  ∀ h rest, E.codec.decHeader data = some (h, rest) → ∀ t, relayTarget h.msg = some t → ex t

theorem SendInv.handleData (data : Bytes) (hdat : RelayOk E ex data) : PresE P (Foca.handleData E data) := by
  unfold Foca.handleData
  refine PresE.getS_with (fun s eff hs => ?_)
  split
  · exact PresE.throwE _
  · split
    · exact PresE.throwE _
    · rename_i h rest hdec
      split
      · exact PresE.throwE _
      · rename_i hsrc
        have hsrc' : h.src.addr ≠ a := by
          simp only [Bool.or_eq_true, beq_iff_eq, not_or] at hsrc
          rw [← hs.1.1]; exact hsrc.2
        dsimp only
        split
        · exact PresE.throwE _
        · split
          · exact PresE.pure _
          · split
            · exact PresE.throwE _
            · refine PresE.bind (SendInv.applyUpdate _ _ (Or.inl hsrc')) (fun senderActive => ?_)
              split
              · exact SendInv.inactiveSender _ hsrc'
              · exact PresE.bind (SendInv.applyMany _ _) (fun _ =>
                  PresE.bind (PresE.attempt (SendInv.handleCustomBroadcasts _ _)) (fun _ =>
                    SendInv.replyStage _ _ hsrc' (hdat h rest hdec)))

/-- every public call but `change_identity` to another address; destinations the input names are exempt -/
theorem SendInv.runOp (op : Op)
    (hchid : ∀ i p, op = .changeIdentity i p → i.addr = a)
    (hT : ∀ m inc tok, op = .timer (.s2d m inc tok) → ex m)
    (hD : ∀ data, op = .data data → RelayOk E ex data)
    (hAnn : ∀ d, op = .announce d → ex d) :
    PresE P (Foca.runOp E op) := by
  cases op <;> unfold Foca.runOp <;> prese
  all_goals first
    | exact SendInv.changeIdentity_same _ _ (hchid _ _ rfl)
    | exact SendInv.reuseDownIdentity
    | exact SendInv.handleTimer _ (fun m inc tok h => hT m inc tok (by rw [h]))
    | exact SendInv.applyMany _ _
    | exact SendInv.handleData _ (hD _ rfl)
    | exact SendInv.sendMessage _ _ (Or.inr (hAnn _ rfl))
    | exact SendInv.gossip
    | exact SendInv.broadcastApi
    | exact SendInv.leaveCluster
    | exact SendInv.addBroadcast _
    | exact SendInv.setConfig _

/-- `change_identity` to an identity of another address that has no active record: afterwards the invariant
    holds for the new address — the datagrams of this very call already avoid it — or nothing happened -/
theorem SendInv.changeIdentity_other (i : Id) (p : Policy) (c : Ctx)
    (hJ : ∀ m ∈ c.s.ms, m.id.addr = i.addr → m.active = false) (heff : ∀ e ∈ c.eff, effOk i.addr ex e) :
    PostOr (SendInv i.addr ex) (fun c' => c'.s = c.s ∧ c'.eff = c.eff) (Foca.changeIdentity E i p c) := by
  unfold Foca.changeIdentity
  simp only [bind_run, getS_run]
  by_cases hsame : (c.s.id == i) = true
  · simp only [hsame, if_true]
    exact Or.inr ⟨rfl, rfl⟩
  · simp only [hsame, Bool.false_eq_true, if_false]
    unfold Foca.reset
    simp only [bind_run, modS_run]
    have hrest : PresE (SendInv i.addr ex)
        (if (!(c.s.conn == Conn.undead)) = true then (Foca.addUpdate E ⟨c.s.id, 0, .down⟩ >>= fun _ => Foca.gossip E)
          else Foca.gossip E) := by
      split
      · exact PresE.bind (SendInv.addUpdate _) (fun _ => SendInv.gossip)
      · exact SendInv.gossip
    exact hrest.run_left (fun c' => c'.s = c.s ∧ c'.eff = c.eff)
      ⟨{ c.s with id := i, policy := p, conn := .disconnected, inc := 0, token := wrapAdd8 c.s.token, probe := c.s.probe.clear, epoch := c.s.epoch + 1 }, c.eff, c.orc⟩
      ⟨⟨rfl, hJ, by intro m hm; simp [Probe.clear] at hm⟩, heff⟩

end
end Foca
