/-
  Detection, forwards: what the probe timer after an unanswered round and the suspicion timeout after an unrefuted
  suspicion leave behind, whatever the call returns (helpers for `Props/C03H.lean`).
-/
import FocaModel.Proofs.RoundTrip
import FocaModel.Proofs.Replay
import FocaModel.Props.C11
import FocaModel.Props.C12
namespace Foca.C03H
open Foca

section
variable (E : Env)

/-- a listed record is where `apply_existing_if` lands -/
theorem applyExisting_lands {ms : List Member} (hn : NodupAddr ms) {k : Member} (hk : k ∈ ms) (u : Member)
    (cond : Member → Bool) (ha : k.id.addr = u.id.addr) :
    ∃ pre post, ms = pre ++ k :: post ∧
      applyExisting ms u cond = some (pre ++ (updateKnown k u cond).1 :: post, (updateKnown k u cond).2) := by
  induction ms with
  | nil => simp at hk
  | cons x rest ih =>
    unfold NodupAddr at hn
    simp only [List.map_cons, List.nodup_cons] at hn
    unfold applyExisting
    simp only [List.mem_cons] at hk
    rcases hk with rfl | hk
    · refine ⟨[], rest, rfl, ?_⟩
      simp [ha]
    · have hx : (x.id.addr == u.id.addr) = false := by
        apply beq_false_of_ne
        intro hxa
        apply hn.1
        rw [hxa, ← ha]
        exact List.mem_map.2 ⟨k, hk, rfl⟩
      obtain ⟨pre, post, h1, h2⟩ := ih hn.2 hk
      refine ⟨x :: pre, post, by rw [h1]; rfl, ?_⟩
      simp only [hx, Bool.false_eq_true, ↓reduceIte, h2, List.cons_append]


/-- the member list is this, and these effects have been emitted -/
def Kept (ms : List Member) (base : List Effect) (s : State) (eff : List Effect) : Prop :=
  s.ms = ms ∧ ∀ e ∈ base, e ∈ eff

theorem Kept.modS_of {ms : List Member} {base : List Effect} {f : State → State} (h : ∀ s, (f s).ms = s.ms) :
    PresC (Kept ms base) (Foca.modS f) :=
  ⟨fun c hc => by simp only [modS_run]; exact ⟨by rw [h]; exact hc.1, hc.2⟩⟩

theorem Kept.emit {ms : List Member} {base : List Effect} (x : Effect) : PresC (Kept ms base) (Foca.emit x) :=
  ⟨fun c hc => by
    simp only [emit_run]
    exact ⟨hc.1, fun e he => List.mem_append.2 (Or.inl (hc.2 e he))⟩⟩

theorem Kept.sendMessage {ms : List Member} {base : List Effect} (d : Id) (m : Msg) :
    PresC (Kept ms base) (Foca.sendMessage E d m) :=
  ⟨fun c hc => by
    have := sendMessage_spec E d m c
    cases h : Foca.sendMessage E d m c with
    | stuck x => trivial
    | err k c' => rw [h] at this; simp only [SendOK] at this ⊢; exact ⟨by rw [this.2.1]; exact hc.1, by rw [this.2.2]; exact hc.2⟩
    | ok a c' =>
      rw [h] at this
      simp only [SendOK] at this ⊢
      obtain ⟨hb, body, he, _⟩ := this
      unfold OnlyBacklogs at hb
      exact ⟨by rw [hb]; exact hc.1, fun e hx => by rw [he]; exact List.mem_append.2 (Or.inl (hc.2 e hx))⟩⟩

theorem Kept.adjust {ms : List Member} {base : List Effect} : PresC (Kept ms base) (Foca.adjustConnectionState E) := by
  unfold Foca.adjustConnectionState Foca.becomeConnected Foca.becomeDisconnected
  presc
  all_goals first
    | exact Kept.modS_of (fun _ => rfl)
    | exact Kept.emit _

/-- a probed member that did not answer, still active and not known at a higher incarnation: its record becomes
    exactly the Suspect claim of the round -/
theorem suspect_update (k : Member) (inc : Nat) (hact : k.active = true) (hle : k.inc ≤ inc) :
    (updateKnown k ⟨k.id, inc, .suspect⟩ (fun _ => true)).1 = ⟨k.id, inc, .suspect⟩ := by
  unfold updateKnown
  cases hst : k.st with
  | down => simp [Member.active, hst, Gen.isActive] at hact
  | alive =>
    have : decide (inc ≥ k.inc) = true := by simpa using hle
    simp [Gen.canChange, hst, this]
  | suspect =>
    by_cases hgt : inc > k.inc
    · simp [Gen.canChange, hst, hgt]
    · have : k.inc = inc := by omega
      simp [Gen.canChange, hst, hgt]
      cases k
      simp_all

/-- this record is listed, and this effect has been emitted -/
def Listed (x : Member) (t : Effect) (s : State) (eff : List Effect) : Prop := x ∈ s.ms ∧ t ∈ eff

theorem Listed.modS_of {x : Member} {t : Effect} {f : State → State} (h : ∀ s, (f s).ms = s.ms) :
    PresC (Listed x t) (Foca.modS f) :=
  ⟨fun c hc => by simp only [modS_run]; exact ⟨by rw [h]; exact hc.1, hc.2⟩⟩

theorem Listed.emit {x : Member} {t : Effect} (e : Effect) : PresC (Listed x t) (Foca.emit e) :=
  ⟨fun c hc => by simp only [emit_run]; exact ⟨hc.1, List.mem_append.2 (Or.inl hc.2)⟩⟩

theorem Listed.sendMessage {x : Member} {t : Effect} (d : Id) (m : Msg) : PresC (Listed x t) (Foca.sendMessage E d m) :=
  ⟨fun c hc => by
    have := sendMessage_spec E d m c
    cases h : Foca.sendMessage E d m c with
    | stuck x => trivial
    | err k c' => rw [h] at this; simp only [SendOK] at this ⊢; exact ⟨by rw [this.2.1]; exact hc.1, by rw [this.2.2]; exact hc.2⟩
    | ok a c' =>
      rw [h] at this
      simp only [SendOK] at this ⊢
      obtain ⟨hb, body, he, _⟩ := this
      unfold OnlyBacklogs at hb
      exact ⟨by rw [hb]; exact hc.1, by rw [he]; exact List.mem_append.2 (Or.inl hc.2)⟩⟩

theorem Listed.membersNext {x : Member} {t : Effect} : PresC (Listed x t) Foca.membersNext := by
  constructor
  intro c hc
  unfold Foca.membersNext
  by_cases hs : needsShuffle c.s.cursor c.s.ms.length = true
  · simp only [hs, if_true]
    unfold Foca.drawShuffle
    cases hd : c.orc.draws with
    | nil => trivial
    | cons d rest =>
      cases d with
      | idx k => trivial
      | perm p =>
        simp only
        by_cases hperm : (p.filterMap (fun i => c.s.ms[i]?)).isPerm c.s.ms = true
        · simp only [hperm, if_true]
          have hp : (p.filterMap (fun i => c.s.ms[i]?)).Perm c.s.ms := List.isPerm_iff.1 hperm
          exact ⟨hp.mem_iff.2 hc.1, hc.2⟩
        · simp [hperm]
  · simp only [hs, Bool.false_eq_true, if_false]
    exact hc

theorem Listed.probeStartNext {x : Member} {t : Effect} : PresC (Listed x t) (Foca.probeStartNext E) := by
  unfold Foca.probeStartNext
  presc
  all_goals first
    | exact Listed.membersNext
    | exact Listed.modS_of (fun _ => rfl)
    | exact Listed.sendMessage E _ _
    | exact Listed.emit _

end
end Foca.C03H
