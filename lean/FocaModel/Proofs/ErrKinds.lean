/-
  Which errors a computation can end with: `ErrOnly K m` — every error `m` returns satisfies `K`.
  Used for "a timer delivery fails only with the `Encode` error of a send" (C13).
-/
import FocaModel.Proofs.Timers
namespace Foca

structure ErrOnly {α} (K : ErrKind → Prop) (m : M α) : Prop where
  run : ∀ c e c', m c = .err e c' → K e

section
variable {K : ErrKind → Prop}

theorem ErrOnly.pure {α} (a : α) : ErrOnly K (pure a : M α) := by
  constructor; intro c e c' h; simp [pure_run] at h

theorem ErrOnly.bind {α β} {m : M α} {f : α → M β} (hm : ErrOnly K m) (hf : ∀ a, ErrOnly K (f a)) :
    ErrOnly K (m >>= f) := by
  constructor
  intro c e c' h
  simp only [bind_run] at h
  cases hmc : m c with
  | stuck x => rw [hmc] at h; simp at h
  | err e2 c2 =>
    rw [hmc] at h
    simp only [R.err.injEq] at h
    rw [← h.1]
    exact hm.run c e2 c2 hmc
  | ok a c2 =>
    rw [hmc] at h
    exact (hf a).run c2 e c' h

theorem ErrOnly.getS : ErrOnly K Foca.getS := by constructor; intro c e c' h; simp [getS_run] at h
theorem ErrOnly.modS (f : State → State) : ErrOnly K (Foca.modS f) := by constructor; intro c e c' h; simp [modS_run] at h
theorem ErrOnly.emit (x : Effect) : ErrOnly K (Foca.emit x) := by constructor; intro c e c' h; simp [emit_run] at h
theorem ErrOnly.throwE {α} (e : ErrKind) (he : K e) : ErrOnly K (Foca.throwE e : M α) := by
  constructor
  intro c e' c' h
  simp only [throwE_run, R.err.injEq] at h
  rw [← h.1]; exact he
theorem ErrOnly.panicAt {α} (p : PanicSite) : ErrOnly K (Foca.panicAt p : M α) := by
  constructor; intro c e c' h; simp [panicAt_run] at h

theorem ErrOnly.ite {α} {c : Prop} [Decidable c] {a b : M α} (ha : ErrOnly K a) (hb : ErrOnly K b) :
    ErrOnly K (if c then a else b) := by
  split <;> assumption

theorem ErrOnly.chooseLoop (w : Nat) (pick : Member → Bool) (l out : List Member) (seen : Nat) :
    ErrOnly K (Foca.chooseLoop w pick l out seen) := by
  constructor
  intro c e c' h
  have := chooseLoop_spec w pick l out seen c
  rw [h] at this
  exact this.elim

theorem ErrOnly.of_memOnly_noerr {α} {m : M α} (h : ∀ c e c', m c ≠ .err e c') : ErrOnly K m :=
  ⟨fun c e c' hm => absurd hm (h c e c')⟩

theorem ErrOnly.membersNext : ErrOnly K Foca.membersNext := ErrOnly.of_memOnly_noerr membersNext_no_err

theorem ErrOnly.membersApplyExistingIf (u : Member) (cond : Member → Bool) :
    ErrOnly K (Foca.membersApplyExistingIf u cond) := by
  constructor
  intro c e c' h
  unfold Foca.membersApplyExistingIf at h
  cases ha : Foca.applyExisting c.s.ms u cond with
  | some r => rw [ha] at h; simp at h
  | none => rw [ha] at h; simp at h

theorem ErrOnly.sendMessage (E : Env) (hK : K .encode) (d : Id) (m : Msg) : ErrOnly K (Foca.sendMessage E d m) := by
  constructor
  intro c e c' h
  have := sendMessage_spec E d m c
  rw [h] at this
  simp only [SendOK] at this
  rw [this.1]; exact hK

end

macro "erronly_step" : tactic => `(tactic| first
  | exact ErrOnly.pure _
  | exact ErrOnly.getS
  | exact ErrOnly.modS _
  | exact ErrOnly.emit _
  | exact ErrOnly.panicAt _
  | exact ErrOnly.chooseLoop _ _ _ _ _
  | exact ErrOnly.membersNext
  | exact ErrOnly.membersApplyExistingIf _ _
  | with_reducible apply ErrOnly.bind
  | with_reducible apply ErrOnly.ite
  | (intro _; try dsimp only)
  | split)

macro "erronly" : tactic => `(tactic| repeat' erronly_step)

section
variable (E : Env) {K : ErrKind → Prop} (hK : K .encode)
include hK

theorem ErrOnly.sendAll (msg : Msg) (ds : List Id) : ErrOnly K (Foca.sendAll E msg ds) := by
  induction ds with
  | nil => unfold Foca.sendAll; exact ErrOnly.pure _
  | cons d rest ih => unfold Foca.sendAll; exact ErrOnly.bind (ErrOnly.sendMessage E hK d msg) (fun _ => ih)

theorem ErrOnly.chooseAndSend (n : Nat) (msg : Msg) : ErrOnly K (Foca.chooseAndSend E n msg) := by
  unfold Foca.chooseAndSend
  erronly
  exact ErrOnly.sendAll E hK _ _

theorem ErrOnly.announceToDown (n : Nat) : ErrOnly K (Foca.announceToDown E n) := by
  unfold Foca.announceToDown
  erronly
  exact ErrOnly.sendAll E hK _ _

theorem ErrOnly.pingReqLoop (probed : Id) (ds : List Id) : ErrOnly K (Foca.pingReqLoop E probed ds) := by
  induction ds with
  | nil => unfold Foca.pingReqLoop; exact ErrOnly.pure _
  | cons d rest ih =>
    unfold Foca.pingReqLoop
    erronly
    · exact ErrOnly.sendMessage E hK _ _
    · exact ih

omit hK in
theorem ErrOnly.handleApplySummary (sm : Summary) (u : Member) (b : Bool) : ErrOnly K (Foca.handleApplySummary E sm u b) := by
  unfold Foca.handleApplySummary Foca.addUpdate
  erronly

omit hK in
theorem ErrOnly.applyExistingReport (u : Member) (cond : Member → Bool) : ErrOnly K (Foca.applyExistingReport E u cond) := by
  unfold Foca.applyExistingReport
  erronly
  exact ErrOnly.handleApplySummary E _ _ _

omit hK in
theorem ErrOnly.adjustConnectionState : ErrOnly K (Foca.adjustConnectionState E) := by
  unfold Foca.adjustConnectionState Foca.becomeConnected Foca.becomeDisconnected
  erronly

/-- **A timer that is not a probe timer fails only when a send does** (`Encode`: a header larger than the packet) -/
theorem ErrOnly.handleTimer_other (t : Timer) (ht : ∀ tok, t ≠ .probe tok) : ErrOnly K (Foca.handleTimer E t) := by
  cases t with
  | probe tok => exact absurd rfl (ht tok)
  | indirect p tok =>
    unfold Foca.handleTimer
    erronly
    exact ErrOnly.pingReqLoop E hK _ _
  | s2d m inc tok =>
    unfold Foca.handleTimer
    erronly
    all_goals first
      | exact ErrOnly.applyExistingReport E _ _
      | exact ErrOnly.adjustConnectionState E
      | exact ErrOnly.sendMessage E hK _ _
  | rm m =>
    unfold Foca.handleTimer
    erronly
  | pa tok =>
    unfold Foca.handleTimer
    erronly
    exact ErrOnly.chooseAndSend E hK _ _
  | pad tok =>
    unfold Foca.handleTimer
    erronly
    exact ErrOnly.announceToDown E hK _
  | pg tok =>
    unfold Foca.handleTimer
    erronly
    exact ErrOnly.chooseAndSend E hK _ _

end
/-! ### everything `handle_data` does once a datagram is parsed -/

section
variable (E : Env) {K : ErrKind → Prop}

theorem ErrOnly.membersApply (u : Member) : ErrOnly K (Foca.membersApply u) := by
  constructor
  intro c e c' h
  unfold Foca.membersApply at h
  cases ha : Foca.applyExisting c.s.ms u (fun _ => true) with
  | some r => rw [ha] at h; simp at h
  | none =>
    rw [ha] at h
    simp only at h
    have hd : ∀ e1 c1, Foca.drawIdx .choose (c.s.ms.length + 1) c ≠ .err e1 c1 := by
      intro e1 c1 hh
      unfold Foca.drawIdx at hh
      cases hdr : c.orc.draws with
      | nil => rw [hdr] at hh; simp at hh
      | cons d rest =>
        rw [hdr] at hh
        cases d with
        | perm p => simp at hh
        | idx k => simp only at hh; split at hh <;> simp at hh
    cases hr : Foca.drawIdx .choose (c.s.ms.length + 1) c with
    | stuck x => rw [hr] at h; simp at h
    | err e1 c1 => exact absurd hr (hd e1 c1)
    | ok j c1 => rw [hr] at h; simp at h

theorem ErrOnly.applyUpdate (u : Member) (b : Bool) : ErrOnly K (Foca.applyUpdate E u b) := by
  unfold Foca.applyUpdate
  erronly
  · exact ErrOnly.membersApply u
  · exact ErrOnly.handleApplySummary E _ _ _

/-- `attempt` never fails; what it hands on is an error of the computation it wrapped -/
theorem ErrOnly.attempt_bind {β} {m : M Unit} {f : Option ErrKind → M β} (hm : ErrOnly K m)
    (hf : ∀ r, (∀ e, r = some e → K e) → ErrOnly K (f r)) : ErrOnly K (Foca.attempt m >>= f) := by
  constructor
  intro c e c' h
  simp only [bind_run] at h
  unfold Foca.attempt at h
  cases hmc : m c with
  | stuck x => rw [hmc] at h; simp at h
  | ok u c2 =>
    rw [hmc] at h
    exact (hf none (fun _ he => by cases he)).run c2 e c' h
  | err e2 c2 =>
    rw [hmc] at h
    exact (hf (some e2) (fun e3 he => by cases he; exact hm.run c e2 c2 hmc)).run c2 e c' h

end

section
variable (E : Env) {K : ErrKind → Prop} (hEnc : K .encode) (hSame : K .sameIdentity) (hInd : K .indirectForOurselves)
include hEnc hSame

theorem ErrOnly.gossip : ErrOnly K (Foca.gossip E) := by
  unfold Foca.gossip
  erronly
  exact ErrOnly.chooseAndSend E hEnc _ _

theorem ErrOnly.changeIdentity (i : Id) (p : Policy) : ErrOnly K (Foca.changeIdentity E i p) := by
  unfold Foca.changeIdentity Foca.reset Foca.addUpdate
  erronly
  all_goals first
    | exact ErrOnly.throwE _ hSame
    | exact ErrOnly.gossip E hEnc hSame

theorem ErrOnly.attemptRejoin : ErrOnly K (Foca.attemptRejoin E) := by
  unfold Foca.attemptRejoin
  erronly
  exact ErrOnly.changeIdentity E hEnc hSame _ _

theorem ErrOnly.handleSelfUpdate (inc : Nat) (st : St) : ErrOnly K (Foca.handleSelfUpdate E inc st) := by
  unfold Foca.handleSelfUpdate Foca.becomeUndead
  erronly
  all_goals first
    | exact ErrOnly.attemptRejoin E hEnc hSame
    | exact ErrOnly.gossip E hEnc hSame

theorem ErrOnly.applyOne (u : Member) (b : Bool) : ErrOnly K (Foca.applyOne E u b) := by
  unfold Foca.applyOne
  erronly
  all_goals first
    | exact ErrOnly.handleSelfUpdate E hEnc hSame _ _
    | exact ErrOnly.applyUpdate E _ _

theorem ErrOnly.applyLoop (b : Bool) (us : List Member) : ErrOnly K (Foca.applyLoop E b us) := by
  induction us with
  | nil => unfold Foca.applyLoop; exact ErrOnly.pure _
  | cons u rest ih => unfold Foca.applyLoop; exact ErrOnly.bind (ErrOnly.applyOne E hEnc hSame u b) (fun _ => ih)

theorem ErrOnly.applyMany (us : List Member) (b : Bool) : ErrOnly K (Foca.applyMany E us b) := by
  unfold Foca.applyMany
  erronly
  · exact ErrOnly.applyLoop E hEnc hSame _ _
  · exact ErrOnly.adjustConnectionState E

theorem ErrOnly.inactiveSender (h : Header) : ErrOnly K (Foca.inactiveSender E h) := by
  unfold Foca.inactiveSender
  erronly
  all_goals first
    | exact ErrOnly.handleSelfUpdate E hEnc hSame _ _
    | exact ErrOnly.sendMessage E hEnc _ _

include hInd in
theorem ErrOnly.reactToMessage (h : Header) : ErrOnly K (Foca.reactToMessage E h) := by
  unfold Foca.reactToMessage
  erronly
  all_goals first
    | exact ErrOnly.throwE _ hInd
    | exact ErrOnly.sendMessage E hEnc _ _
    | exact ErrOnly.handleSelfUpdate E hEnc hSame _ _

include hInd in
theorem ErrOnly.replyStage (h : Header) (cres : Option ErrKind) (hc : ∀ e, cres = some e → K e) :
    ErrOnly K (Foca.replyStage E h cres) := by
  unfold Foca.replyStage
  erronly
  all_goals first
    | exact ErrOnly.throwE _ (hc _ rfl)
    | exact ErrOnly.reactToMessage E hEnc hSame hInd _

end
end Foca
