/-
  Which errors a computation can end with: `ErrOnly K m` — every error `m` returns satisfies `K`.
  Used for "a timer delivery fails only with the `Encode` error of a send" (C13).
-/
import FocaModel.Proofs.Timers
namespace Foca

structure ErrOnly {α} (K : ErrKind → Prop) (m : M α) : Prop where
  run : ∀ c e c', m c = .err e c' → K e

section
variable {K : ErrKind → Prop}

theorem ErrOnly.pure {α} (a : α) : ErrOnly K (pure a : M α) := by
  constructor; intro c e c' h; simp [pure_run] at h

theorem ErrOnly.bind {α β} {m : M α} {f : α → M β} (hm : ErrOnly K m) (hf : ∀ a, ErrOnly K (f a)) :
    ErrOnly K (m >>= f) := by
  constructor
  intro c e c' h
  simp only [bind_run] at h
  cases hmc : m c with
  | stuck x => rw [hmc] at h; simp at h
  | err e2 c2 =>
    rw [hmc] at h
    simp only [R.err.injEq] at h
    rw [← h.1]
    exact hm.run c e2 c2 hmc
  | ok a c2 =>
    rw [hmc] at h
    exact (hf a).run c2 e c' h

theorem ErrOnly.getS : ErrOnly K Foca.getS := by constructor; intro c e c' h; simp [getS_run] at h
theorem ErrOnly.modS (f : State → State) : ErrOnly K (Foca.modS f) := by constructor; intro c e c' h; simp [modS_run] at h
theorem ErrOnly.emit (x : Effect) : ErrOnly K (Foca.emit x) := by constructor; intro c e c' h; simp [emit_run] at h
theorem ErrOnly.throwE {α} (e : ErrKind) (he : K e) : ErrOnly K (Foca.throwE e : M α) := by
  constructor
  intro c e' c' h
  simp only [throwE_run, R.err.injEq] at h
  rw [← h.1]; exact he
theorem ErrOnly.panicAt {α} (p : PanicSite) : ErrOnly K (Foca.panicAt p : M α) := by
  constructor; intro c e c' h; simp [panicAt_run] at h

theorem ErrOnly.ite {α} {c : Prop} [Decidable c] {a b : M α} (ha : ErrOnly K a) (hb : ErrOnly K b) :
    ErrOnly K (if c then a else b) := by
  split <;> assumption

theorem ErrOnly.chooseLoop (w : Nat) (pick : Member → Bool) (l out : List Member) (seen : Nat) :
    ErrOnly K (Foca.chooseLoop w pick l out seen) := by
  constructor
  intro c e c' h
  have := chooseLoop_spec w pick l out seen c
  rw [h] at this
  exact this.elim

theorem ErrOnly.of_memOnly_noerr {α} {m : M α} (h : ∀ c e c', m c ≠ .err e c') : ErrOnly K m :=
  ⟨fun c e c' hm => absurd hm (h c e c')⟩

theorem ErrOnly.membersNext : ErrOnly K Foca.membersNext := ErrOnly.of_memOnly_noerr membersNext_no_err

theorem ErrOnly.membersApplyExistingIf (u : Member) (cond : Member → Bool) :
    ErrOnly K (Foca.membersApplyExistingIf u cond) := by
  constructor
  intro c e c' h
  unfold Foca.membersApplyExistingIf at h
  cases ha : Foca.applyExisting c.s.ms u cond with
  | some r => rw [ha] at h; simp at h
  | none => rw [ha] at h; simp at h

theorem ErrOnly.sendMessage (E : Env) (hK : K .encode) (d : Id) (m : Msg) : ErrOnly K (Foca.sendMessage E d m) := by
  constructor
  intro c e c' h
  have := sendMessage_spec E d m c
  rw [h] at this
  simp only [SendOK] at this
  rw [this.1]; exact hK

end

macro "erronly_step" : tactic => `(tactic| first
  | exact ErrOnly.pure _
  | exact ErrOnly.getS
  | exact ErrOnly.modS _
  | exact ErrOnly.emit _
  | exact ErrOnly.panicAt _
  | exact ErrOnly.chooseLoop _ _ _ _ _
  | exact ErrOnly.membersNext
  | exact ErrOnly.membersApplyExistingIf _ _
  | with_reducible apply ErrOnly.bind
  | with_reducible apply ErrOnly.ite
  | (intro _; try dsimp only)
  | split)

macro "erronly" : tactic => `(tactic| repeat' erronly_step)

section
variable (E : Env) {K : ErrKind → Prop} (hK : K .encode)
include hK

theorem ErrOnly.sendAll (msg : Msg) (ds : List Id) : ErrOnly K (Foca.sendAll E msg ds) := by
  induction ds with
  | nil => unfold Foca.sendAll; exact ErrOnly.pure _
  | cons d rest ih => unfold Foca.sendAll; exact ErrOnly.bind (ErrOnly.sendMessage E hK d msg) (fun _ => ih)

theorem ErrOnly.chooseAndSend (n : Nat) (msg : Msg) : ErrOnly K (Foca.chooseAndSend E n msg) := by
  unfold Foca.chooseAndSend
  erronly
  exact ErrOnly.sendAll E hK _ _

theorem ErrOnly.announceToDown (n : Nat) : ErrOnly K (Foca.announceToDown E n) := by
  unfold Foca.announceToDown
  erronly
  exact ErrOnly.sendAll E hK _ _

theorem ErrOnly.pingReqLoop (probed : Id) (ds : List Id) : ErrOnly K (Foca.pingReqLoop E probed ds) := by
  induction ds with
  | nil => unfold Foca.pingReqLoop; exact ErrOnly.pure _
  | cons d rest ih =>
    unfold Foca.pingReqLoop
    erronly
    · exact ErrOnly.sendMessage E hK _ _
    · exact ih

omit hK in
theorem ErrOnly.handleApplySummary (sm : Summary) (u : Member) (b : Bool) : ErrOnly K (Foca.handleApplySummary E sm u b) := by
  unfold Foca.handleApplySummary Foca.addUpdate
  erronly

omit hK in
theorem ErrOnly.applyExistingReport (u : Member) (cond : Member → Bool) : ErrOnly K (Foca.applyExistingReport E u cond) := by
  unfold Foca.applyExistingReport
  erronly
  exact ErrOnly.handleApplySummary E _ _ _

omit hK in
theorem ErrOnly.adjustConnectionState : ErrOnly K (Foca.adjustConnectionState E) := by
  unfold Foca.adjustConnectionState Foca.becomeConnected Foca.becomeDisconnected
  erronly

/-- **A timer that is not a probe timer fails only when a send does** (`Encode`: a header larger than the packet) -/
theorem ErrOnly.handleTimer_other (t : Timer) (ht : ∀ tok, t ≠ .probe tok) : ErrOnly K (Foca.handleTimer E t) := by
  cases t with
  | probe tok => exact absurd rfl (ht tok)
  | indirect p tok =>
    unfold Foca.handleTimer
    erronly
    exact ErrOnly.pingReqLoop E hK _ _
  | s2d m inc tok =>
    unfold Foca.handleTimer
    erronly
    all_goals first
      | exact ErrOnly.applyExistingReport E _ _
      | exact ErrOnly.adjustConnectionState E
      | exact ErrOnly.sendMessage E hK _ _
  | rm m =>
    unfold Foca.handleTimer
    erronly
  | pa tok =>
    unfold Foca.handleTimer
    erronly
    exact ErrOnly.chooseAndSend E hK _ _
  | pad tok =>
    unfold Foca.handleTimer
    erronly
    exact ErrOnly.announceToDown E hK _
  | pg tok =>
    unfold Foca.handleTimer
    erronly
    exact ErrOnly.chooseAndSend E hK _ _

end
end Foca
