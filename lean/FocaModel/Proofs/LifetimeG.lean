/-
  Lifetime accounting for any backlog (`Broadcasts<V>` with an arbitrary key type and invalidation relation,
  `fill` or `fill_with_len_prefix`): writing an entry costs it one transmission; enqueueing an item can only
  remove entries of other keys; so over histories of any length the entries of key `k` are written at most as
  many times as they had transmissions.
-/
import FocaModel.Proofs.Fill
namespace Foca.G
open Foca

variable {κ : Type} [DecidableEq κ]

/-- transmissions left for the entries of key `k` -/
def txOf (b : List (Entry κ)) (k : κ) : Nat := ((b.filter (fun e => decide (e.key = k))).map (·.tx)).sum

theorem txOf_append (a b : List (Entry κ)) (k : κ) : txOf (a ++ b) k = txOf a k + txOf b k := by
  simp [txOf, List.filter_append, List.sum_append_nat]

theorem txOf_cons (e : Entry κ) (l : List (Entry κ)) (k : κ) :
    txOf (e :: l) k = (if e.key = k then e.tx else 0) + txOf l k := by
  unfold txOf
  by_cases h : e.key = k
  · simp [List.filter_cons, h]
  · simp [List.filter_cons, h]

theorem txOf_perm {a b : List (Entry κ)} (h : a.Perm b) (k : κ) : txOf a k = txOf b k :=
  ((h.filter _).map _).sum_nat

theorem txOf_nil (k : κ) : txOf ([] : List (Entry κ)) k = 0 := rfl

theorem txOf_filter_le (b : List (Entry κ)) (p : Entry κ → Bool) (k : κ) : txOf (b.filter p) k ≤ txOf b k := by
  induction b with
  | nil => simp [txOf_nil]
  | cons e l ih =>
    rw [List.filter_cons]
    split
    · rw [txOf_cons, txOf_cons]; omega
    · rw [txOf_cons]; omega

/-- occurrences of `k` (stated with `decide (· = k)` so that no `BEq` instance is involved) -/
def cnt (l : List κ) (k : κ) : Nat := (l.filter (fun x => decide (x = k))).length

theorem cnt_cons (x : κ) (l : List κ) (k : κ) : cnt (x :: l) k = (if x = k then 1 else 0) + cnt l k := by
  unfold cnt
  by_cases h : x = k <;> simp [List.filter_cons, h] <;> omega

theorem cnt_nil (k : κ) : cnt ([] : List κ) k = 0 := rfl

/-- keys of the entries a run of fill steps takes, one per written item -/
def fillTaken (ov : Nat) : FillResult κ → List Bytes → List κ
  | _, [] => []
  | r, d :: ds =>
    match takeByData r.pending d, fillStep ov r d with
    | some (e, _), some r' => e.key :: fillTaken ov r' ds
    | _, _ => []

theorem fillStep_tx {ov : Nat} {r r' : FillResult κ} {d : Bytes} (h : fillStep ov r d = some r') (k : κ) :
    ∃ e rest, takeByData r.pending d = some (e, rest) ∧ e.data = d ∧
      txOf (r'.pending ++ r'.done) k + (if e.key = k then 1 else 0) = txOf (r.pending ++ r.done) k := by
  unfold fillStep at h
  by_cases h0 : (r.space == 0 || r.items == 0) = true
  · simp [h0] at h
  · simp only [h0, Bool.false_eq_true, if_false] at h
    cases ht : takeByData r.pending d with
    | none => rw [ht] at h; simp at h
    | some p =>
      obtain ⟨e, rest⟩ := p
      rw [ht] at h
      simp only at h
      obtain ⟨hd, hp⟩ := takeByData_spec ht
      by_cases hf : e.fits r.space ov = true
      · simp only [hf, Bool.not_true, Bool.false_eq_true, if_false] at h
        by_cases ha : rest.any (fun e' => e'.gt e && e'.fits r.space ov) = true
        · simp [ha] at h
        · simp only [ha, Bool.false_eq_true, if_false] at h
          by_cases hz : (e.tx == 0) = true
          · simp [hz] at h
          · simp only [hz, Bool.false_eq_true, if_false] at h
            simp at h
            subst h
            have hz' : e.tx ≠ 0 := by simpa using hz
            refine ⟨e, rest, rfl, hd, ?_⟩
            simp only [txOf_append]
            rw [← txOf_perm hp k, txOf_cons]
            by_cases ht1 : e.tx - 1 > 0
            · simp only [ht1, if_true, txOf_append, txOf_cons, txOf_nil]
              by_cases hk : e.key = k <;> simp [hk] <;> omega
            · simp only [ht1, if_false]
              by_cases hk : e.key = k <;> simp [hk] <;> omega
      · simp [hf] at h

theorem fillSteps_tx {ov : Nat} {r r' : FillResult κ} {ds : List Bytes} (h : fillSteps ov r ds = some r') (k : κ) :
    txOf (r'.pending ++ r'.done) k + cnt (fillTaken ov r ds) k = txOf (r.pending ++ r.done) k ∧
    (fillTaken ov r ds).length = ds.length := by
  induction ds generalizing r with
  | nil => simp [fillSteps] at h; subst h; simp [fillTaken, cnt_nil]
  | cons d ds ih =>
    unfold fillSteps at h
    cases hs : fillStep ov r d with
    | none => rw [hs] at h; simp at h
    | some r1 =>
      rw [hs] at h
      obtain ⟨e, rest, ht, _, htx⟩ := fillStep_tx hs k
      obtain ⟨h1, h2⟩ := ih h
      unfold fillTaken
      simp only [ht, hs, cnt_cons, List.length_cons]
      refine ⟨?_, by omega⟩
      by_cases hk : e.key = k
      · simp [hk] at htx ⊢; omega
      · simp [hk] at htx ⊢; omega

section
variable (inv : κ → κ → Bool) (mi ov : Nat)

def fillKeys (b : List (Entry κ)) (space : Nat) (picks : List Bytes) : List κ :=
  fillTaken ov ⟨b, [], [], space, mi⟩ picks

theorem fill_tx {b : List (Entry κ)} {space : Nat} {picks : List Bytes} {r : FillResult κ}
    (h : fill b space mi ov picks = some r) (k : κ) :
    txOf (r.pending ++ r.done) k + cnt (fillKeys mi ov b space picks) k = txOf b k ∧
    (fillKeys mi ov b space picks).length = r.written.length := by
  unfold fill at h
  cases hs : fillSteps ov ⟨b, [], [], space, mi⟩ picks with
  | none => rw [hs] at h; simp at h
  | some r1 =>
    rw [hs] at h
    simp only at h
    by_cases hf : fillFinal ov r1 = true
    · simp only [hf, if_true, Option.some.injEq] at h
      subst h
      obtain ⟨h1, h2⟩ := fillSteps_tx hs k
      refine ⟨by simpa [txOf_append, txOf_nil, fillKeys] using h1, ?_⟩
      unfold fillKeys
      rw [h2]
      have := (fillSteps_space hs)
      exact this.1.symm ▸ (by simp)
    · simp [hf] at h

/-- the two things that ever happen to a backlog -/
inductive BOp (κ : Type)
  | enqueue (k : κ) (d : Bytes) (maxTx : Nat)
  | fill (space : Nat) (picks : List Bytes)

def BOp.run (b : List (Entry κ)) : BOp κ → Option (List (Entry κ))
  | .enqueue k d m => some (addOrReplace b inv k d m)
  | .fill space picks => (Foca.fill b space mi ov picks).map (fun r => r.pending ++ r.done)

def BOp.writes (b : List (Entry κ)) (k : κ) : BOp κ → Nat
  | .enqueue _ _ _ => 0
  | .fill space picks => cnt (fillKeys mi ov b space picks) k

def BOp.enqueues (k : κ) : BOp κ → Bool
  | .enqueue k' _ _ => decide (k' = k)
  | .fill _ _ => false

def runOps : List (Entry κ) → List (BOp κ) → Option (List (Entry κ))
  | b, [] => some b
  | b, op :: ops => match BOp.run inv mi ov b op with
    | none => none
    | some b' => runOps b' ops

def writesOver : List (Entry κ) → κ → List (BOp κ) → Nat
  | _, _, [] => 0
  | b, k, op :: ops => BOp.writes mi ov b k op +
      (match BOp.run inv mi ov b op with | some b' => writesOver b' k ops | none => 0)

theorem enqueue_other_le (b : List (Entry κ)) (k j : κ) (d : Bytes) (m : Nat) (h : j ≠ k) :
    txOf (addOrReplace b inv j d m) k ≤ txOf b k := by
  unfold addOrReplace
  rw [txOf_append, txOf_cons, txOf_nil]
  simp only [h, if_false, Nat.add_zero]
  exact txOf_filter_le _ _ _

/-- **Lifetime, any backlog.** Over any sequence of operations that enqueues no item of key `k`, the entries of
    key `k` are written at most as many times as they had transmissions left (an item of another key may only
    remove them sooner). -/
theorem lifetime_bound (b b' : List (Entry κ)) (k : κ) (ops : List (BOp κ))
    (hno : ∀ op ∈ ops, BOp.enqueues k op = false) (h : runOps inv mi ov b ops = some b') :
    txOf b' k + writesOver inv mi ov b k ops ≤ txOf b k := by
  induction ops generalizing b with
  | nil => simp [runOps] at h; subst h; simp [writesOver]
  | cons op ops ih =>
    rw [runOps] at h
    cases hr : BOp.run inv mi ov b op with
    | none => rw [hr] at h; simp at h
    | some b1 =>
      rw [hr] at h
      simp only at h
      have ih' := ih b1 (fun o ho => hno o (by simp [ho])) h
      rw [writesOver, hr]
      simp only
      have hop := hno op (by simp)
      cases op with
      | enqueue j d m =>
        simp [BOp.run] at hr
        subst hr
        simp [BOp.enqueues] at hop
        simp only [BOp.writes]
        have := enqueue_other_le inv b k j d m hop
        omega
      | fill space picks =>
        simp only [BOp.run, Option.map_eq_some_iff] at hr
        obtain ⟨r, hf, hb1⟩ := hr
        subst hb1
        have := (fill_tx mi ov hf k).1
        simp only [BOp.writes]
        omega

/-- an item that invalidates its own key (`inv k k`, the usual case) starts with exactly `m` transmissions … -/
theorem enqueue_sets_tx (b : List (Entry κ)) (k : κ) (d : Bytes) (m : Nat)
    (hinv : ∀ e ∈ b, e.key = k → inv k e.key = true) : txOf (addOrReplace b inv k d m) k = m := by
  unfold addOrReplace
  rw [txOf_append, txOf_cons, txOf_nil]
  simp only [if_true, Nat.add_zero]
  have : txOf (b.filter (fun e => !inv k e.key)) k = 0 := by
    unfold txOf
    rw [List.filter_filter]
    have : (b.filter (fun e => decide (e.key = k) && !inv k e.key)) = [] := by
      rw [List.filter_eq_nil_iff]
      intro e he
      by_cases hek : e.key = k
      · have := hinv e he hek
        simp only [hek, decide_true, Bool.true_and, Bool.not_eq_true', Bool.not_eq_false]
        rw [hek] at this
        simp [this]
      · simp [hek]
    rw [this]; rfl
  omega

/-- … and is written into at most `m` datagrams before an item of the same key is accepted again -/
theorem written_at_most_max_transmissions (b b' : List (Entry κ)) (k : κ) (d : Bytes) (m : Nat) (ops : List (BOp κ))
    (hinv : ∀ e ∈ b, e.key = k → inv k e.key = true)
    (hno : ∀ op ∈ ops, BOp.enqueues k op = false)
    (h : runOps inv mi ov (addOrReplace b inv k d m) ops = some b') :
    writesOver inv mi ov (addOrReplace b inv k d m) k ops ≤ m := by
  have := lifetime_bound inv mi ov _ b' k ops hno h
  rw [enqueue_sets_tx inv b k d m hinv] at this
  omega

end
end Foca.G
