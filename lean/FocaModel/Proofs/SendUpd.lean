/-
  What `send_message` does to the cluster-update backlog, exactly: nothing, or one `fill` of it.
  Plus: a `fill` keeps "one entry per key".
-/
import FocaModel.Proofs.Send
namespace Foca

def bkeys {κ} (b : List (Entry κ)) : List κ := b.map (·.key)

theorem fillStep_keys {κ} {ov : Nat} {r r' : FillResult κ} {d : Bytes} (h : fillStep ov r d = some r')
    (hn : (bkeys (r.pending ++ r.done)).Nodup) : (bkeys (r'.pending ++ r'.done)).Nodup := by
  obtain ⟨e, _, hp, _, _, _, hdone, _, _, _⟩ := fillStep_spec h
  have hp2 : ((e :: r'.pending) ++ r.done).Perm (r.pending ++ r.done) := hp.append_right _
  have hn2 : (bkeys ((e :: r'.pending) ++ r.done)).Nodup := (hp2.map _).nodup_iff.2 hn
  rw [hdone]
  by_cases ht : e.tx - 1 > 0
  · simp only [ht, if_true]
    have : (bkeys (r'.pending ++ (r.done ++ [{ e with tx := e.tx - 1 }]))).Perm (bkeys ((e :: r'.pending) ++ r.done)) := by
      unfold bkeys
      simp only [List.map_append, List.map_cons, List.map_nil, List.cons_append]
      rw [← List.append_assoc]
      exact List.perm_append_singleton _ _
    exact this.nodup_iff.2 hn2
  · simp only [ht, if_false]
    refine hn2.sublist ?_
    unfold bkeys
    simp only [List.cons_append, List.map_cons]
    exact List.sublist_cons_self _ _

theorem fillSteps_keys {κ} {ov : Nat} {r r' : FillResult κ} {ds : List Bytes} (h : fillSteps ov r ds = some r')
    (hn : (bkeys (r.pending ++ r.done)).Nodup) : (bkeys (r'.pending ++ r'.done)).Nodup := by
  induction ds generalizing r with
  | nil => simp [fillSteps] at h; subst h; exact hn
  | cons d ds ih =>
    unfold fillSteps at h
    cases hs : fillStep ov r d with
    | none => rw [hs] at h; simp at h
    | some r1 => rw [hs] at h; exact ih h (fillStep_keys hs hn)

/-- a fill keeps "one entry per key" -/
theorem fill_keys {κ} {b : List (Entry κ)} {space mi ov : Nat} {picks : List Bytes} {r : FillResult κ}
    (h : fill b space mi ov picks = some r) (hn : (bkeys b).Nodup) : (bkeys (r.pending ++ r.done)).Nodup := by
  unfold fill at h
  cases hs : fillSteps ov ⟨b, [], [], space, mi⟩ picks with
  | none => rw [hs] at h; simp at h
  | some r1 =>
    rw [hs] at h
    simp only at h
    by_cases hf : fillFinal ov r1 = true
    · simp only [hf, if_true, Option.some.injEq] at h
      subst h
      exact fillSteps_keys hs (by simpa using hn)
    · simp [hf] at h

/-- the update backlog after a send: untouched, or one fill of it -/
def FillOf (b b' : List (Entry Nat)) : Prop :=
  b' = b ∨ ∃ sp picks r, fill b sp Gen.fillMaxItems 0 picks = some r ∧ b' = r.pending ++ r.done

section
variable (E : Env)

theorem memberSection_upd (dst : Id) (msg : Msg) (pick : Pick) (rem0 : Nat) (c : Ctx) :
    match memberSection E dst msg pick rem0 c with
    | .ok _ c' => FillOf c.s.updates c'.s.updates
    | _ => True := by
  unfold memberSection
  simp only [bind_run, getS_run]
  by_cases h1 : (Gen.needsPiggyback msg && decide (rem0 > Gen.piggybackMinSpace)) = true
  · simp only [h1, if_true]
    by_cases h2 : Gen.piggybackOnlyActive msg = true
    · simp only [h2, if_true]
      by_cases h3 : ((c.s.cfg.mps - (rem0 - 2)) / 2 == 0) = true
      · simp [h3, panicAt]
      · simp only [h3, Bool.false_eq_true, if_false, bind_run]
        have hc := chooseLoop_spec (max ((rem0 - 2) / ((c.s.cfg.mps - (rem0 - 2)) / 2)) Gen.feedMinEstimate)
          (fun m => m.active && m.id != dst) c.s.ms [] 0 c
        generalize chooseLoop (max ((rem0 - 2) / ((c.s.cfg.mps - (rem0 - 2)) / 2)) Gen.feedMinEstimate)
          (fun m => m.active && m.id != dst) c.s.ms [] 0 c = res at hc ⊢
        cases res with
        | ok r c' =>
          obtain ⟨hs, _, _, _⟩ := hc
          simp only []
          by_cases h4 : (E.debug && decide ((feedLoop E r.reverse (rem0 - 2)).2.1 > 65535)) = true
          · simp [h4, panicAt]
          · simp only [h4, Bool.false_eq_true, if_false, pure_run]
            rw [hs]; exact Or.inl rfl
        | err e c' => trivial
        | stuck x => trivial
    · simp only [h2, Bool.false_eq_true, if_false]
      cases hf : fill c.s.updates (rem0 - 2) Gen.fillMaxItems 0 pick.updates with
      | none => simp [badOracle]
      | some r =>
        simp only []
        by_cases h5 : r.written.length > 65535
        · simp [h5, panicAt]
        · simp only [h5, if_false, bind_run, modS_run, pure_run]
          exact Or.inr ⟨_, _, r, hf, rfl⟩
  · simp only [h1, Bool.false_eq_true, if_false, pure_run]
    exact Or.inl rfl

theorem customTail_upd (dst : Id) (msg : Msg) (pick : Pick) (space : Nat) (c : Ctx) :
    match customTail E dst msg pick space c with
    | .ok _ c' => c'.s.updates = c.s.updates
    | _ => True := by
  unfold customTail
  simp only [bind_run, getS_run]
  by_cases h1 : (decide (space > 0) && Gen.allowCustom msg && E.handler.shouldAdd c.s.hst dst) = true
  · simp only [h1, if_true]
    cases hf : fill c.s.custom space usizeMax Gen.lenPrefix pick.custom with
    | none => simp [badOracle]
    | some r =>
      simp only []
      by_cases h5 : (E.debug && r.written.any (fun d => decide (d.length > 65535))) = true
      · simp [h5, panicAt]
      · simp only [h5, Bool.false_eq_true, if_false, bind_run, modS_run, pure_run]
  · simp only [h1, Bool.false_eq_true, if_false, pure_run]

theorem sendMessage_upd (dst : Id) (msg : Msg) (c : Ctx) :
    match sendMessage E dst msg c with
    | .ok _ c' => FillOf c.s.updates c'.s.updates
    | _ => True := by
  unfold sendMessage
  simp only [bind_run, getS_run]
  by_cases h0 : (E.debug && c.s.sendCap != c.s.cfg.mps) = true
  · simp [h0, panicAt]
  · simp only [h0, Bool.false_eq_true, if_false]
    by_cases h1 : (E.codec.encHeader ⟨c.s.id, c.s.inc, dst, msg⟩).length > c.s.cfg.mps
    · simp [h1, throwE]
    · simp only [h1, if_false, bind_run]
      have hp := nextPick_spec c
      generalize nextPick c = rp at hp ⊢
      cases rp with
      | err e c1 => trivial
      | stuck x => trivial
      | ok pick c1 =>
        obtain ⟨hs1, _⟩ := hp
        simp only []
        have hm := memberSection_upd E dst msg pick (c.s.cfg.mps - (E.codec.encHeader ⟨c.s.id, c.s.inc, dst, msg⟩).length) c1
        generalize memberSection E dst msg pick (c.s.cfg.mps - (E.codec.encHeader ⟨c.s.id, c.s.inc, dst, msg⟩).length) c1 = rm at hm ⊢
        cases rm with
        | err e c2 => trivial
        | stuck x => trivial
        | ok sect c2 =>
          simp only [] at hm ⊢
          have ht := customTail_upd E dst msg pick sect.2 c2
          generalize customTail E dst msg pick sect.2 c2 = rt at ht ⊢
          cases rt with
          | err e c3 => trivial
          | stuck x => trivial
          | ok tail c3 =>
            simp only [emit_run] at ht ⊢
            rw [ht, ← hs1]; exact hm

end
end Foca
