/-
  Replaying the membership notifications (MemberUp / MemberDown / Rename) of a call on the set of active
  identities before the call gives the set of active identities after it — for every public call.
-/
import FocaModel.Proofs.ComposeC
import FocaModel.Proofs.MsInv
namespace Foca

/-- how a consumer that mirrors the cluster reads one notification (`A` = "is listed as active") -/
def applyNote (A : Id → Bool) : Notif → Id → Bool
  | .up a => fun x => x == a || A x
  | .down a => fun x => x != a && A x
  | .rename old new => fun x => if A old then (x == new || (x != old && A x)) else A x
  | _ => A

def notes (eff : List Effect) : List Notif :=
  eff.filterMap (fun e => match e with | .notify n => some n | _ => none)

def replay (A : Id → Bool) (ns : List Notif) : Id → Bool := ns.foldl applyNote A

theorem replay_append (A : Id → Bool) (a b : List Notif) : replay A (a ++ b) = replay (replay A a) b := by
  simp [replay, List.foldl_append]

theorem notes_append (a b : List Effect) : notes (a ++ b) = notes a ++ notes b := by
  simp [notes, List.filterMap_append]

theorem notes_other (e : Effect) (h : memberNote e = false) :
    ∀ A, replay A (notes [e]) = A := by
  intro A
  cases e with
  | send d b => rfl
  | timer ms t => rfl
  | notify n => cases n <;> first | rfl | simp [memberNote] at h

/-- the notifications `handle_apply_summary` emits for a summary -/
def summaryNotes (sm : Summary) (u : Member) : List Notif :=
  (match sm.conflict with | .replaced old => [.rename old u.id] | _ => []) ++
  (if sm.changedActive then (if sm.activeNow then [.up u.id] else [.down u.id]) else [])

def NodupAddr (ms : List Member) : Prop := (ms.map (·.id.addr)).Nodup

theorem isActiveId_append (a b : List Member) (x : Id) :
    isActiveId (a ++ b) x = (isActiveId a x || isActiveId b x) := by simp [isActiveId]

theorem isActiveId_cons (m : Member) (l : List Member) (x : Id) :
    isActiveId (m :: l) x = ((m.id == x && m.active) || isActiveId l x) := by simp [isActiveId]

theorem isActiveId_false_of_addr {l : List Member} {x : Id} (h : ∀ m ∈ l, m.id.addr ≠ x.addr) : isActiveId l x = false := by
  unfold isActiveId
  rw [List.any_eq_false]
  intro m hm
  have := h m hm
  have hne : m.id ≠ x := fun e => this (by rw [e])
  simp [hne]

/-- where `apply_existing_if` lands: the one record with the update's address -/
theorem applyExisting_split {ms ms' : List Member} {u : Member} {cond : Member → Bool} {sm : Summary}
    (h : applyExisting ms u cond = some (ms', sm)) (hn : NodupAddr ms) :
    ∃ pre k post, ms = pre ++ k :: post ∧ k.id.addr = u.id.addr ∧
      ms' = pre ++ (updateKnown k u cond).1 :: post ∧ sm = (updateKnown k u cond).2 ∧
      (∀ m ∈ pre, m.id.addr ≠ u.id.addr) ∧ (∀ m ∈ post, m.id.addr ≠ u.id.addr) := by
  induction ms generalizing ms' sm with
  | nil => simp [applyExisting] at h
  | cons k rest ih =>
    unfold applyExisting at h
    unfold NodupAddr at hn
    simp only [List.map_cons, List.nodup_cons] at hn
    by_cases hk : (k.id.addr == u.id.addr) = true
    · simp only [hk, if_true] at h
      simp at h
      obtain ⟨h1, h2⟩ := h
      have hka : k.id.addr = u.id.addr := by simpa using hk
      refine ⟨[], k, rest, rfl, hka, by simp [← h1], h2.symm, by simp, ?_⟩
      intro m hm heq
      apply hn.1
      rw [hka, ← heq]
      exact List.mem_map_of_mem hm
    · simp only [hk, Bool.false_eq_true, if_false] at h
      cases hr : applyExisting rest u cond with
      | none => rw [hr] at h; simp at h
      | some r =>
        obtain ⟨rest', s'⟩ := r
        rw [hr] at h
        simp at h
        obtain ⟨h1, h2⟩ := h
        obtain ⟨pre, k', post, e1, e2, e3, e4, e5, e6⟩ := ih hr hn.2
        refine ⟨k :: pre, k', post, by rw [e1]; rfl, e2, by rw [← h1, e3]; rfl, by rw [← h2]; exact e4, ?_, e6⟩
        intro m hm
        simp only [List.mem_cons] at hm
        rcases hm with hm | hm
        · subst hm; simpa using hk
        · exact e5 m hm

/-- the pure core: one record changes as `updateKnown` says, and the emitted notifications replay that change -/
theorem updateKnown_replay (k u : Member) (cond : Member → Bool) (B : Id → Bool) (hka : k.id.addr = u.id.addr)
    (hBk : B k.id = false) (hBu : B u.id = false) (x : Id) :
    (((updateKnown k u cond).1.id == x && (updateKnown k u cond).1.active) || B x) =
      replay (fun y => (k.id == y && k.active) || B y) (summaryNotes (updateKnown k u cond).2 u) x := by
  unfold updateKnown
  by_cases h1 : (k.id != u.id && k.id.wins u.id) = true
  · simp [h1, summaryNotes, replay]
  · by_cases h2 : cond k = true
    · by_cases h3 : (k.id != u.id) = true
      · have hw : k.id.wins u.id = false := by
          cases hw : k.id.wins u.id with
          | false => rfl
          | true => simp [h3, hw] at h1
        have hne : k.id ≠ u.id := by simpa using h3
        simp only [h3, hw, Bool.and_false, Bool.false_eq_true, if_false, h2, Bool.not_true, if_true, summaryNotes]
        cases hka' : k.active <;> cases hua : (⟨u.id, u.inc, u.st⟩ : Member).active <;>
          simp [replay, applyNote, hka', hua, hBk, hBu, hne, Ne.symm hne]
        all_goals
          have e1 : (k.id == u.id) = false := beq_eq_false_iff_ne.2 hne
          have e2 : (u.id == k.id) = false := beq_eq_false_iff_ne.2 (Ne.symm hne)
          by_cases hxu : x = u.id
          · rw [hxu] <;> simp [hBu, e1, e2, bne]
          · have f1 : (x == u.id) = false := beq_eq_false_iff_ne.2 hxu
            have f2 : (u.id == x) = false := beq_eq_false_iff_ne.2 (Ne.symm hxu)
            by_cases hxk : x = k.id
            · rw [hxk] <;> simp [hBk, e1, e2, bne]
            · have g1 : (x == k.id) = false := beq_eq_false_iff_ne.2 hxk
              have g2 : (k.id == x) = false := beq_eq_false_iff_ne.2 (Ne.symm hxk)
              simp [f1, f2, g1, g2, bne]
      · have heq : k.id = u.id := by simpa using h3
        by_cases h4 : Gen.canChange k.st k.inc u.inc u.st = true
        · simp only [h3, Bool.false_and, Bool.false_eq_true, if_false, h2, Bool.not_true, h4, if_true, summaryNotes]
          cases hka' : k.active <;> cases hua : (⟨k.id, u.inc, u.st⟩ : Member).active <;>
            simp [replay, applyNote, hka', hua, hBk, hBu, heq]
          all_goals
            by_cases hxu : x = u.id
            · rw [hxu] <;> simp [hBu, bne]
            · have f1 : (x == u.id) = false := beq_eq_false_iff_ne.2 hxu
              have f2 : (u.id == x) = false := beq_eq_false_iff_ne.2 (Ne.symm hxu)
              simp [f1, f2, bne]
        · simp [h1, h2, h3, h4, summaryNotes, replay]
    · simp only [h1, Bool.false_eq_true, if_false, h2, Bool.not_false, if_true, summaryNotes]
      by_cases h3 : (k.id != u.id) = true <;> simp [h3, replay]

theorem applyExisting_replay {ms ms' : List Member} {u : Member} {cond : Member → Bool} {sm : Summary}
    (h : applyExisting ms u cond = some (ms', sm)) (hn : NodupAddr ms) (x : Id) :
    isActiveId ms' x = replay (isActiveId ms) (summaryNotes sm u) x := by
  obtain ⟨pre, k, post, e1, hka, e3, e4, e5, e6⟩ := applyExisting_split h hn
  subst e1; subst e3; subst e4
  have hB : ∀ y : Id, y.addr = u.id.addr → (isActiveId pre y || isActiveId post y) = false := by
    intro y hy
    rw [isActiveId_false_of_addr (fun m hm => by rw [hy]; exact e5 m hm),
      isActiveId_false_of_addr (fun m hm => by rw [hy]; exact e6 m hm)]
    rfl
  have key := updateKnown_replay k u cond (fun y => isActiveId pre y || isActiveId post y) hka
    (hB k.id hka) (hB u.id rfl) x
  have hfun : (isActiveId (pre ++ k :: post)) = (fun y => (k.id == y && k.active) || (isActiveId pre y || isActiveId post y)) := by
    funext y
    rw [isActiveId_append, isActiveId_cons]
    cases isActiveId pre y <;> cases isActiveId post y <;> cases (k.id == y && k.active) <;> rfl
  rw [hfun, ← key, isActiveId_append, isActiveId_cons]
  cases isActiveId pre x <;> cases isActiveId post x <;>
    cases ((updateKnown k u cond).1.id == x && (updateKnown k u cond).1.active) <;> rfl

theorem applyExisting_nodup {ms ms' : List Member} {u : Member} {cond : Member → Bool} {sm : Summary}
    (h : applyExisting ms u cond = some (ms', sm)) (hn : NodupAddr ms) : NodupAddr ms' := by
  have := C09.known_address_keeps_addresses h
  unfold C09.addrs at this
  unfold NodupAddr
  rw [this]; exact hn


theorem isActiveId_perm {a b : List Member} (h : a.Perm b) (x : Id) : isActiveId a x = isActiveId b x := by
  unfold isActiveId
  rw [Bool.eq_iff_iff]
  simp only [List.any_eq_true]
  exact ⟨fun ⟨m, hm, hp⟩ => ⟨m, h.mem_iff.1 hm, hp⟩, fun ⟨m, hm, hp⟩ => ⟨m, h.mem_iff.2 hm, hp⟩⟩

theorem st_down_inactive {m : Member} (h : m.st = .down) : m.active = false := by
  simp [Member.active, h, Gen.isActive]

theorem NodupAddr.perm {a b : List Member} (h : a.Perm b) (hn : NodupAddr b) : NodupAddr a :=
  (h.map _).nodup_iff.2 hn

section
variable (E : Env)

theorem handleApplySummary_run (sm : Summary) (u : Member) (b : Bool) (c : Ctx) :
    ∃ c', handleApplySummary E sm u b c = .ok () c' ∧ c'.s.ms = c.s.ms ∧
      notes c'.eff = notes c.eff ++ summaryNotes sm u := by
  unfold handleApplySummary
  cases hc : sm.conflict <;> cases h1 : sm.applied <;> cases h2 : sm.activeNow <;> cases h3 : sm.changedActive <;>
    cases b <;> simp [addUpdate, notes, summaryNotes, hc, h2, h3, List.filterMap_append]

/-- the invariant inside one call that started in a state with active set `A0` -/
def RepInv (A0 : Id → Bool) (s : State) (eff : List Effect) : Prop :=
  NodupAddr s.ms ∧ ∀ x, isActiveId s.ms x = replay A0 (notes eff) x

theorem RepInv.after_unit {A0 : Id → Bool} {s : State} {eff eff' : List Effect} {ms' : List Member} {ns : List Notif}
    (h : RepInv A0 s eff) (hn : NodupAddr ms') (hnotes : notes eff' = notes eff ++ ns)
    (hrep : ∀ x, isActiveId ms' x = replay (isActiveId s.ms) ns x) (s' : State) (hs' : s'.ms = ms') :
    RepInv A0 s' eff' := by
  refine ⟨by rw [hs']; exact hn, fun x => ?_⟩
  rw [hs', hrep x, hnotes, replay_append]
  have : isActiveId s.ms = replay A0 (notes eff) := funext h.2
  rw [this]

theorem RepInv.applyExistingReport (A0 : Id → Bool) (u : Member) (cond : Member → Bool) :
    PresC (RepInv A0) (applyExistingReport E u cond) := by
  constructor
  intro c hc
  unfold Foca.applyExistingReport Foca.membersApplyExistingIf
  simp only [bind_run]
  cases h : Foca.applyExisting c.s.ms u cond with
  | none => simp only [pure_run]; exact hc
  | some r =>
    obtain ⟨ms', sm⟩ := r
    simp only
    obtain ⟨c', hrun, hms, hnotes⟩ := handleApplySummary_run E sm u true
      { c with s := { c.s with ms := ms', numActive := adjustActive c.s.numActive sm } }
    simp only [bind_run, hrun, pure_run]
    exact RepInv.after_unit hc (applyExisting_nodup h hc.1) hnotes (fun x => applyExisting_replay h hc.1 x) c'.s hms

/-- `Members::apply`, as a membership change and the notifications its summary will produce -/
def ApplyOK (u : Member) (c : Ctx) (r : R Summary) : Prop :=
  match r with
  | .ok sm c1 => NodupAddr c1.s.ms ∧ c1.eff = c.eff ∧
      ∀ x, isActiveId c1.s.ms x = replay (isActiveId c.s.ms) (summaryNotes sm u) x
  | .err _ c1 => c1.s = c.s ∧ c1.eff = c.eff
  | .stuck _ => True

theorem membersApply_replay (u : Member) (c : Ctx) (hn : NodupAddr c.s.ms) : ApplyOK u c (membersApply u c) := by
  unfold Foca.membersApply ApplyOK
  cases h : Foca.applyExisting c.s.ms u (fun _ => true) with
  | some r =>
    obtain ⟨ms', sm⟩ := r
    exact ⟨applyExisting_nodup h hn, rfl, fun x => applyExisting_replay h hn x⟩
  | none =>
    simp only
    have hd' := drawIdx_frame .choose (c.s.ms.length + 1) c
    cases hdr : Foca.drawIdx .choose (c.s.ms.length + 1) c with
    | stuck x => trivial
    | err e c1 => rw [hdr] at hd'; exact hd'
    | ok j c1 =>
      rw [hdr] at hd'
      simp only at hd' ⊢
      have hp := applyNew_perm c.s.ms u j
      refine ⟨?_, hd'.2, fun x => ?_⟩
      · apply NodupAddr.perm hp
        unfold NodupAddr
        simp only [List.map_cons, List.nodup_cons]
        exact ⟨C09.unknown_address_not_listed h, hn⟩
      · rw [isActiveId_perm hp, isActiveId_cons]
        unfold applyNew summaryNotes
        cases hua : u.active <;> simp [replay, applyNote]
        by_cases hxu : x = u.id
        · rw [hxu] <;> simp
        · have f1 : (x == u.id) = false := beq_eq_false_iff_ne.2 hxu
          have f2 : (u.id == x) = false := beq_eq_false_iff_ne.2 (Ne.symm hxu)
          simp [f1, f2]

theorem RepInv.applyUpdate (A0 : Id → Bool) (u : Member) (b : Bool) : PresC (RepInv A0) (applyUpdate E u b) := by
  constructor
  intro c hc
  unfold Foca.applyUpdate
  simp only [bind_run, getS_run]
  by_cases hd : (E.debug && c.s.id == u.id) = true
  · simp [hd, panicAt]
  · simp only [hd, Bool.false_eq_true, if_false, bind_run]
    have key := membersApply_replay u c hc.1
    unfold ApplyOK at key
    cases hm : Foca.membersApply u c with
    | stuck x => trivial
    | err e c1 => rw [hm] at key; simp only at key ⊢; rw [key.1, key.2]; exact hc
    | ok sm c1 =>
      rw [hm] at key
      simp only at key ⊢
      obtain ⟨c', hrun, hms, hnotes⟩ := handleApplySummary_run E sm u b c1
      simp only [hrun, pure_run]
      rw [key.2.1] at hnotes
      exact RepInv.after_unit hc key.1 hnotes key.2.2 c'.s hms

theorem RepInv.keepMs (A0 : Id → Bool) (f : State → State) (h : ∀ s, (f s).ms = s.ms) : PresC (RepInv A0) (modS f) :=
  ⟨fun c hc => by
    simp only [modS_run]
    exact ⟨by rw [h]; exact hc.1, fun x => by rw [h]; exact hc.2 x⟩⟩

theorem RepInv.emitNM (A0 : Id → Bool) (e : Effect) (he : memberNote e = false) : PresC (RepInv A0) (emit e) :=
  ⟨fun c hc => by
    simp only [emit_run]
    refine ⟨hc.1, fun x => ?_⟩
    rw [notes_append, replay_append, notes_other e he]
    exact hc.2 x⟩

theorem RepInv.leaves (A0 : Id → Bool) : LeavesC E (RepInv A0) memberNote where
  plain := fun _ h _ => h
  keep := fun f h => RepInv.keepMs A0 f (fun s => (h s).1)
  emitOther := RepInv.emitNM A0
  reset := by unfold Foca.reset; exact RepInv.keepMs A0 _ (fun _ => rfl)
  becomeUndead := by
    unfold Foca.becomeUndead
    presc
    all_goals first | exact RepInv.keepMs A0 _ (fun _ => rfl) | exact RepInv.emitNM A0 _ rfl
  adjustConnectionState := by
    unfold Foca.adjustConnectionState Foca.becomeConnected Foca.becomeDisconnected
    presc
    all_goals first | exact RepInv.keepMs A0 _ (fun _ => rfl) | exact RepInv.emitNM A0 _ rfl
  setConfig := fun cfg => by
    unfold Foca.setConfig
    presc
    exact RepInv.keepMs A0 _ (fun _ => rfl)
  removeDown := fun id => ⟨fun c hc => by
    simp only [modS_run]
    rcases removeIfDown_spec c.s.ms id with h | ⟨m, hm, hp⟩
    · rw [h]; exact hc
    · refine ⟨?_, fun x => ?_⟩
      · have := NodupAddr.perm hp hc.1
        unfold NodupAddr at this ⊢
        simp only [List.map_cons, List.nodup_cons] at this
        exact this.2
      · rw [← hc.2 x, ← isActiveId_perm hp x, isActiveId_cons]
        simp [st_down_inactive hm]⟩
  membersNext := ⟨fun c hc => by
    unfold Foca.membersNext
    by_cases hs : needsShuffle c.s.cursor c.s.ms.length = true
    · simp only [hs, if_true]
      unfold Foca.drawShuffle
      cases hd : c.orc.draws with
      | nil => trivial
      | cons d rest =>
        cases d with
        | idx k => trivial
        | perm p =>
          simp only
          by_cases hperm : (p.filterMap (fun i => c.s.ms[i]?)).isPerm c.s.ms = true
          · simp only [hperm, if_true]
            have hp : (p.filterMap (fun i => c.s.ms[i]?)).Perm c.s.ms := List.isPerm_iff.1 hperm
            exact ⟨NodupAddr.perm hp hc.1, fun x => by rw [isActiveId_perm hp]; exact hc.2 x⟩
          · simp [hperm]
    · simp only [hs, Bool.false_eq_true, if_false]
      exact hc⟩
  sendMessage := fun d m => ⟨fun c hc => by
    have := sendMessage_spec E d m c
    cases h : Foca.sendMessage E d m c with
    | stuck x => trivial
    | err e c' => rw [h] at this; simp only at this ⊢; rw [this.2.1, this.2.2]; exact hc
    | ok a c' =>
      rw [h] at this
      obtain ⟨hob, body, heff, _⟩ := this
      simp only
      refine ⟨by rw [hob.ms]; exact hc.1, fun x => ?_⟩
      rw [hob.ms, heff, notes_append]
      simp only [notes, List.filterMap_cons, List.filterMap_nil, List.append_nil]
      exact hc.2 x⟩
  applyUpdate := RepInv.applyUpdate E A0
  applyExistingReport := RepInv.applyExistingReport E A0

/-- **Replay.** For every public call from a state with one record per address — any input, any datagram bytes,
    any timer, any RNG — replaying the MemberUp / MemberDown / Rename notifications the call emitted, in order, on
    the set of identities that were active before the call gives exactly the set that is active after it; also
    when the call returns an error. -/
theorem notifications_replay (s : State) (op : Op) (orc : Oracle) (hn : NodupAddr s.ms) :
    match step E s op orc with
    | .done s' eff _ _ => ∀ x, isActiveId s'.ms x = replay (isActiveId s.ms) (notes eff) x
    | .stuck _ => True := by
  have L := RepInv.leaves E (isActiveId s.ms)
  have := (L.runOp op (fun t _ ht => L.loopBranch t ht (fun _ _ _ => RepInv.emitNM _ _ rfl))).run ⟨s, [], orc⟩ ⟨hn, fun x => rfl⟩
  unfold Foca.step
  cases hr : Foca.runOp E op ⟨s, [], orc⟩ with
  | stuck x => trivial
  | ok r c => rw [hr] at this; exact this.2
  | err e c => rw [hr] at this; exact this.2

end
end Foca
