/-
  Lifetime accounting of the update backlog: every time an entry is written into a datagram it pays one
  transmission, nothing but a (re-)enqueue gives transmissions back — so between its enqueue and its
  replacement an update is written at most `max_transmissions` times, over histories of any length.
-/
import FocaModel.Proofs.SendUpd
namespace Foca

/-- transmissions left for key `k` (0 when no entry has that key) -/
def txOf (b : List (Entry Nat)) (k : Nat) : Nat := ((b.filter (fun e => e.key == k)).map (·.tx)).sum

theorem txOf_append (a b : List (Entry Nat)) (k : Nat) : txOf (a ++ b) k = txOf a k + txOf b k := by
  simp [txOf, List.filter_append, List.sum_append_nat]

theorem txOf_cons (e : Entry Nat) (l : List (Entry Nat)) (k : Nat) :
    txOf (e :: l) k = (if e.key = k then e.tx else 0) + txOf l k := by
  unfold txOf
  by_cases h : e.key = k
  · simp [List.filter_cons, h]
  · simp [List.filter_cons, h]

theorem txOf_perm {a b : List (Entry Nat)} (h : a.Perm b) (k : Nat) : txOf a k = txOf b k :=
  ((h.filter _).map _).sum_nat

theorem txOf_nil (k : Nat) : txOf [] k = 0 := rfl

/-- the keys of the entries a run of fill steps takes out of the backlog, one per written item, in order -/
def fillTaken (ov : Nat) : FillResult Nat → List Bytes → List Nat
  | _, [] => []
  | r, d :: ds =>
    match takeByData r.pending d, fillStep ov r d with
    | some (e, _), some r' => e.key :: fillTaken ov r' ds
    | _, _ => []

/-- one written item costs the entry that was taken exactly one transmission, and nobody else anything -/
theorem fillStep_tx {ov : Nat} {r r' : FillResult Nat} {d : Bytes} (h : fillStep ov r d = some r') (k : Nat) :
    ∃ e rest, takeByData r.pending d = some (e, rest) ∧ e.data = d ∧
      txOf (r'.pending ++ r'.done) k + (if e.key = k then 1 else 0) = txOf (r.pending ++ r.done) k := by
  unfold fillStep at h
  by_cases h0 : (r.space == 0 || r.items == 0) = true
  · simp [h0] at h
  · simp only [h0, Bool.false_eq_true, if_false] at h
    cases ht : takeByData r.pending d with
    | none => rw [ht] at h; simp at h
    | some p =>
      obtain ⟨e, rest⟩ := p
      rw [ht] at h
      simp only at h
      obtain ⟨hd, hp⟩ := takeByData_spec ht
      by_cases hf : e.fits r.space ov = true
      · simp only [hf, Bool.not_true, Bool.false_eq_true, if_false] at h
        by_cases ha : rest.any (fun e' => e'.gt e && e'.fits r.space ov) = true
        · simp [ha] at h
        · simp only [ha, Bool.false_eq_true, if_false] at h
          by_cases hz : (e.tx == 0) = true
          · simp [hz] at h
          · simp only [hz, Bool.false_eq_true, if_false] at h
            simp at h
            subst h
            have hz' : e.tx ≠ 0 := by simpa using hz
            refine ⟨e, rest, rfl, hd, ?_⟩
            simp only [txOf_append]
            rw [← txOf_perm hp k, txOf_cons]
            by_cases ht1 : e.tx - 1 > 0
            · simp only [ht1, if_true, txOf_append, txOf_cons, txOf_nil]
              by_cases hk : e.key = k <;> simp [hk] <;> omega
            · simp only [ht1, if_false]
              by_cases hk : e.key = k <;> simp [hk] <;> omega
      · simp [hf] at h

theorem fillSteps_tx {ov : Nat} {r r' : FillResult Nat} {ds : List Bytes} (h : fillSteps ov r ds = some r') (k : Nat) :
    txOf (r'.pending ++ r'.done) k + (fillTaken ov r ds).count k = txOf (r.pending ++ r.done) k ∧
    (fillTaken ov r ds).length = ds.length := by
  induction ds generalizing r with
  | nil => simp [fillSteps] at h; subst h; simp [fillTaken]
  | cons d ds ih =>
    unfold fillSteps at h
    cases hs : fillStep ov r d with
    | none => rw [hs] at h; simp at h
    | some r1 =>
      rw [hs] at h
      obtain ⟨e, rest, ht, _, htx⟩ := fillStep_tx hs k
      obtain ⟨h1, h2⟩ := ih h
      unfold fillTaken
      simp only [ht, hs, List.count_cons, List.length_cons]
      refine ⟨?_, by omega⟩
      by_cases hk : e.key = k
      · simp [hk] at htx ⊢; omega
      · simp [hk] at htx ⊢; omega

/-- the keys written by one `fill` of backlog `b` -/
def fillKeys (b : List (Entry Nat)) (space : Nat) (picks : List Bytes) : List Nat :=
  fillTaken 0 ⟨b, [], [], space, Gen.fillMaxItems⟩ picks

/-- **Per datagram.** A fill writes one item per taken entry, and the transmissions left for any key drop by
    exactly the number of times an entry of that key was written. -/
theorem fill_tx {b : List (Entry Nat)} {space : Nat} {picks : List Bytes} {r : FillResult Nat}
    (h : fill b space Gen.fillMaxItems 0 picks = some r) (k : Nat) :
    txOf (r.pending ++ r.done) k + (fillKeys b space picks).count k = txOf b k ∧
    (fillKeys b space picks).length = r.written.length := by
  unfold fill at h
  cases hs : fillSteps 0 ⟨b, [], [], space, Gen.fillMaxItems⟩ picks with
  | none => rw [hs] at h; simp at h
  | some r1 =>
    rw [hs] at h
    simp only at h
    by_cases hf : fillFinal 0 r1 = true
    · simp only [hf, if_true, Option.some.injEq] at h
      subst h
      obtain ⟨h1, h2⟩ := fillSteps_tx hs k
      refine ⟨by simpa [txOf_append, txOf_nil, fillKeys] using h1, ?_⟩
      unfold fillKeys
      rw [h2]
      have := (fillSteps_space hs)
      exact this.1.symm ▸ (by simp)
    · simp [hf] at h

/-- the two things that ever happen to the update backlog -/
inductive BOp
  | enqueue (k : Nat) (d : Bytes) (maxTx : Nat)   -- `add_or_replace`: a newly accepted update about address `k`
  | fill (space : Nat) (picks : List Bytes)        -- one piggybacking datagram

def BOp.run (b : List (Entry Nat)) : BOp → Option (List (Entry Nat))
  | .enqueue k d m => some (addOrReplace b Gen.addrInvalidates k d m)
  | .fill space picks => (Foca.fill b space Gen.fillMaxItems 0 picks).map (fun r => r.pending ++ r.done)

/-- how many times an entry of key `k` is written by the operation -/
def BOp.writes (b : List (Entry Nat)) (k : Nat) : BOp → Nat
  | .enqueue _ _ _ => 0
  | .fill space picks => (fillKeys b space picks).count k

def BOp.enqueues (k : Nat) : BOp → Bool
  | .enqueue k' _ _ => k' == k
  | .fill _ _ => false

def runOps : List (Entry Nat) → List BOp → Option (List (Entry Nat))
  | b, [] => some b
  | b, op :: ops => match op.run b with
    | none => none
    | some b' => runOps b' ops

/-- total number of times an entry of key `k` is written over a sequence of operations -/
def writesOver : List (Entry Nat) → Nat → List BOp → Nat
  | _, _, [] => 0
  | b, k, op :: ops => op.writes b k + (match op.run b with | some b' => writesOver b' k ops | none => 0)

theorem enqueue_other_keeps_tx (b : List (Entry Nat)) (k j : Nat) (d : Bytes) (m : Nat) (h : j ≠ k) :
    txOf (addOrReplace b Gen.addrInvalidates j d m) k = txOf b k := by
  unfold addOrReplace
  rw [txOf_append, txOf_cons, txOf_nil]
  simp only [h, if_false, Nat.zero_add, Nat.add_zero]
  unfold txOf
  rw [List.filter_filter]
  congr 2
  apply List.filter_congr
  intro e _
  by_cases hek : e.key = k
  · have : e.key ≠ j := fun h' => h (h'.symm.trans hek)
    simp [hek, Gen.addrInvalidates, h]
  · simp [hek]

theorem enqueue_sets_tx (b : List (Entry Nat)) (k : Nat) (d : Bytes) (m : Nat) :
    txOf (addOrReplace b Gen.addrInvalidates k d m) k = m := by
  unfold addOrReplace
  rw [txOf_append, txOf_cons, txOf_nil]
  simp only [if_true, Nat.add_zero]
  have : txOf (b.filter (fun e => !Gen.addrInvalidates k e.key)) k = 0 := by
    unfold txOf
    rw [List.filter_filter]
    have : (b.filter (fun e => (e.key == k) && !Gen.addrInvalidates k e.key)) = [] := by
      rw [List.filter_eq_nil_iff]
      intro e _
      by_cases hek : e.key = k <;> simp [hek, Gen.addrInvalidates]
    rw [this]; rfl
  omega

/-- **Lifetime.** Over any sequence of backlog operations that does not enqueue a new update for `k`, of any
    length, the number of times `k`'s update is written plus the transmissions it has left equals the
    transmissions it had: it is written at most that many times. -/
theorem lifetime_account (b b' : List (Entry Nat)) (k : Nat) (ops : List BOp)
    (hno : ∀ op ∈ ops, BOp.enqueues k op = false) (h : runOps b ops = some b') :
    txOf b' k + writesOver b k ops = txOf b k := by
  induction ops generalizing b with
  | nil => simp [runOps] at h; subst h; simp [writesOver]
  | cons op ops ih =>
    unfold runOps at h
    cases hr : op.run b with
    | none => rw [hr] at h; simp at h
    | some b1 =>
      rw [hr] at h
      have ih' := ih b1 (fun o ho => hno o (by simp [ho])) h
      unfold writesOver
      rw [hr]
      have hop := hno op (by simp)
      cases op with
      | enqueue j d m =>
        simp [BOp.run] at hr
        subst hr
        simp [BOp.enqueues] at hop
        simp only [BOp.writes]
        rw [enqueue_other_keeps_tx b k j d m hop] at ih'
        omega
      | fill space picks =>
        simp only [BOp.run, Option.map_eq_some_iff] at hr
        obtain ⟨r, hf, hb1⟩ := hr
        subst hb1
        have := (fill_tx hf k).1
        simp only [BOp.writes]
        omega

/-- … in particular an update enqueued with `m` transmissions is written at most `m` times before it is replaced -/
theorem written_at_most_max_transmissions (b b' : List (Entry Nat)) (k : Nat) (d : Bytes) (m : Nat) (ops : List BOp)
    (hno : ∀ op ∈ ops, BOp.enqueues k op = false)
    (h : runOps (addOrReplace b Gen.addrInvalidates k d m) ops = some b') :
    writesOver (addOrReplace b Gen.addrInvalidates k d m) k ops ≤ m := by
  have := lifetime_account _ b' k ops hno h
  rw [enqueue_sets_tx] at this
  omega

end Foca
