/-
  `ComposeC`'s probe-aware composition once more, with the two writes that record probe evidence (`receive_ack`,
  `receive_indirect_ack`) told apart from the other probe writes: the leaf `probeQuiet` covers only writes that keep
  the evidence and the probe number (or drop the target); what the two evidence writes do is a hypothesis about the header
  of the datagram being handled (`RecvOk`). Generated from the `LeavesP` part of `ComposeC.lean` by a mechanical
  rewriting. Used for "a round ends without suspicion only on genuine evidence" over whole histories (C12).
-/
import FocaModel.Proofs.ComposeC
namespace Foca

/-- a probe write that keeps the probe number and keeps the evidence — or drops the target altogether -/
def ProbeQuiet (g : Probe → Probe) : Prop :=
  ∀ p, (g p).number = p.number ∧
    (((g p).directAckOk = p.directAckOk ∧ (g p).indirectAckCount = p.indirectAckCount) ∨ (g p).direct = none)

theorem ProbeQuiet.clear : ProbeQuiet Probe.clear := fun _ => ⟨rfl, Or.inr rfl⟩

theorem ProbeQuiet.takeFailed : ProbeQuiet (fun p => p.takeFailed.2) := by
  intro p
  have h : p.takeFailed.2 = p ∨ p.takeFailed.2 = { p with direct := none } := by
    unfold Probe.takeFailed
    split
    · exact Or.inr rfl
    · exact Or.inl rfl
  show p.takeFailed.2.number = p.number ∧
    ((p.takeFailed.2.directAckOk = p.directAckOk ∧ p.takeFailed.2.indirectAckCount = p.indirectAckCount) ∨
     p.takeFailed.2.direct = none)
  rcases h with h | h <;> rw [h] <;> exact ⟨rfl, Or.inl ⟨rfl, rfl⟩⟩

structure LeavesQ (E : Env) (P : State → List Effect → Prop) (special : Effect → Bool) : Prop where
  plain : ∀ e, memberNote e = false → loopTimer e = false → special e = false
  keep : ∀ f, Keep5 f → PresC P (modS f)
  probeQuiet : ∀ g : Probe → Probe, ProbeMono g → ProbeQuiet g → PresC P (modS fun s => { s with probe := g s.probe })
  emitOther : ∀ e, special e = false → PresC P (emit e)
  removeDown : ∀ id, PresC P (modS fun s => { s with ms := removeIfDown s.ms id })
  membersNext : PresC P membersNext
  sendMessage : ∀ d m, PresC P (sendMessage E d m)
  applyUpdate : ∀ u b, PresC P (applyUpdate E u b)
  applyExistingReport : ∀ u cond, PresC P (applyExistingReport E u cond)
  reset : PresC P Foca.reset
  becomeUndead : PresC P Foca.becomeUndead
  adjustConnectionState : PresC P (Foca.adjustConnectionState E)
  setConfig : ∀ cfg, PresC P (Foca.setConfig cfg)

/-- what the two evidence writes do when the datagram being handled has header `h` -/
def RecvOk (P : State → List Effect → Prop) (h : Header) : Prop :=
  (∀ n, h.msg = .ack n → PresC P (modS fun s => { s with probe := s.probe.receiveAck h.src n })) ∧
  (∀ o n, h.msg = .forwardedAck o n → PresC P (modS fun s => { s with probe := s.probe.receiveIndirectAck h.src n }))

section
variable {E : Env} {P : State → List Effect → Prop} {special : Effect → Bool} (L : LeavesQ E P special)
include L

theorem LeavesQ.sendAll (msg : Msg) (ds : List Id) : PresC P (Foca.sendAll E msg ds) := by
  induction ds with
  | nil => unfold Foca.sendAll; exact PresC.pure _
  | cons d rest ih =>
    unfold Foca.sendAll
    exact PresC.bind (L.sendMessage d msg) (fun _ => ih)

theorem LeavesQ.chooseAndSend (n : Nat) (msg : Msg) : PresC P (Foca.chooseAndSend E n msg) := by
  unfold Foca.chooseAndSend
  presc
  exact L.sendAll _ _

theorem LeavesQ.gossip : PresC P (Foca.gossip E) := by
  unfold Foca.gossip
  presc
  exact L.chooseAndSend _ _

theorem LeavesQ.announceToDown (n : Nat) : PresC P (Foca.announceToDown E n) := by
  unfold Foca.announceToDown
  presc
  exact L.sendAll _ _

theorem LeavesQ.addUpdate (m : Member) : PresC P (Foca.addUpdate E m) := by
  unfold Foca.addUpdate
  exact L.keep _ (fun _ => ⟨rfl, rfl, rfl, rfl, rfl, rfl⟩)

theorem LeavesQ.changeIdentity (i : Id) (p : Policy) : PresC P (Foca.changeIdentity E i p) := by
  unfold Foca.changeIdentity
  presc
  all_goals first
    | exact L.keep _ (fun _ => ⟨rfl, rfl, rfl, rfl, rfl, rfl⟩)
    | exact L.reset
    | exact L.addUpdate _
    | exact L.gossip

theorem LeavesQ.attemptRejoin : PresC P (Foca.attemptRejoin E) := by
  unfold Foca.attemptRejoin
  presc
  all_goals first
    | exact L.changeIdentity _ _
    | exact L.emitOther _ (L.plain _ rfl rfl)

theorem LeavesQ.handleSelfUpdate (inc : Nat) (st : St) : PresC P (Foca.handleSelfUpdate E inc st) := by
  unfold Foca.handleSelfUpdate
  presc
  all_goals first
    | exact L.attemptRejoin
    | exact L.becomeUndead
    | exact L.gossip
    | exact L.keep _ (fun _ => ⟨rfl, rfl, rfl, rfl, rfl, rfl⟩)

theorem LeavesQ.applyOne (u : Member) (b : Bool) : PresC P (Foca.applyOne E u b) := by
  unfold Foca.applyOne
  presc
  all_goals first
    | exact L.handleSelfUpdate _ _
    | exact L.applyUpdate _ _

theorem LeavesQ.applyLoop (b : Bool) (us : List Member) : PresC P (Foca.applyLoop E b us) := by
  induction us with
  | nil => unfold Foca.applyLoop; exact PresC.pure _
  | cons u rest ih =>
    unfold Foca.applyLoop
    exact PresC.bind (L.applyOne u b) (fun _ => ih)

theorem LeavesQ.applyMany (us : List Member) (b : Bool) : PresC P (Foca.applyMany E us b) := by
  unfold Foca.applyMany
  presc
  · exact L.applyLoop _ _
  · exact L.adjustConnectionState

theorem LeavesQ.broadcastLoop (ds : List Id) : PresC P (Foca.broadcastLoop E ds) := by
  induction ds with
  | nil => unfold Foca.broadcastLoop; exact PresC.pure _
  | cons d rest ih =>
    unfold Foca.broadcastLoop
    presc
    · exact L.sendMessage _ _
    · exact ih

theorem LeavesQ.broadcastApi : PresC P (Foca.broadcastApi E) := by
  unfold Foca.broadcastApi
  presc
  exact L.broadcastLoop _

theorem LeavesQ.leaveCluster : PresC P (Foca.leaveCluster E) := by
  unfold Foca.leaveCluster
  presc
  · exact L.addUpdate _
  · exact L.gossip
  · exact L.becomeUndead

theorem LeavesQ.addBroadcast (d : Bytes) : PresC P (Foca.addBroadcast E d) := by
  unfold Foca.addBroadcast
  presc
  all_goals exact L.keep _ (fun _ => ⟨rfl, rfl, rfl, rfl, rfl, rfl⟩)

theorem LeavesQ.reuseDownIdentity : PresC P Foca.reuseDownIdentity := by
  unfold Foca.reuseDownIdentity
  presc
  exact L.reset

theorem LeavesQ.probeSuspectFailed : PresC P (Foca.probeSuspectFailed E) := by
  unfold Foca.probeSuspectFailed
  refine PresC.getS_modS_bind (g := fun s s' => { s' with probe := s.probe.takeFailed.2 })
    (fun s eff hs => PresC.modS_at (L.probeQuiet _ ProbeMono.takeFailed ProbeQuiet.takeFailed) s eff hs) (fun s => ?_)
  presc
  all_goals first
    | exact L.applyExistingReport _ _
    | exact L.emitOther _ (L.plain _ rfl rfl)

theorem LeavesQ.probeStartNext (hstart : ∀ m, PresC P (modS fun s => { s with probe := s.probe.start m })) :
    PresC P (Foca.probeStartNext E) := by
  unfold Foca.probeStartNext
  presc
  all_goals first
    | exact L.membersNext
    | exact hstart _
    | exact L.sendMessage _ _
    | exact L.emitOther _ (L.plain _ rfl rfl)

theorem LeavesQ.pingReqLoop (probed : Id) (ds : List Id) : PresC P (Foca.pingReqLoop E probed ds) := by
  induction ds with
  | nil => unfold Foca.pingReqLoop; exact PresC.pure _
  | cons d rest ih =>
    unfold Foca.pingReqLoop
    presc
    · exact L.probeQuiet (fun p => { p with indirect := p.indirect ++ [_] }) (fun _ => Or.inr ⟨rfl, id⟩) (fun _ => ⟨rfl, Or.inl ⟨rfl, rfl⟩⟩)
    · exact L.sendMessage _ _
    · exact ih

/-- the probe branch of `handle_timer`, for an invariant that lets probe timers be re-armed freely -/
theorem LeavesQ.probeBranch (tok : Nat) (hstart : ∀ m, PresC P (modS fun s => { s with probe := s.probe.start m }))
    (hemit : ∀ p t', t'.loopNo = some 0 → PresC P (emit (.timer p t'))) : PresC P (Foca.handleTimer E (.probe tok)) := by
  unfold Foca.handleTimer
  presc
  unfold Foca.probeRandomMember
  presc
  all_goals first
    | exact L.probeQuiet _ ProbeMono.clear ProbeQuiet.clear
    | exact L.probeSuspectFailed
    | exact L.probeStartNext hstart
    | exact hemit _ _ rfl
    | exact L.emitOther _ (L.plain _ rfl rfl)

/-- the branch of `handle_timer` for a periodic task -/
theorem LeavesQ.periodicBranch (t : Timer) (ht : t.isLoop = true) (hnp : t.loopNo ≠ some 0)
    (hemit : ∀ p t', t'.loopNo = t.loopNo → PresC P (emit (.timer p t'))) : PresC P (Foca.handleTimer E t) := by
  cases t with
  | probe tok => exact absurd rfl hnp
  | pa tok =>
    unfold Foca.handleTimer
    presc
    all_goals first
      | exact hemit _ _ rfl
      | exact L.chooseAndSend _ _
  | pad tok =>
    unfold Foca.handleTimer
    presc
    all_goals first
      | exact hemit _ _ rfl
      | exact L.announceToDown _
  | pg tok =>
    unfold Foca.handleTimer
    presc
    all_goals first
      | exact hemit _ _ rfl
      | exact L.chooseAndSend _ _
  | indirect p tok => simp [Timer.isLoop] at ht
  | s2d m inc tok => simp [Timer.isLoop] at ht
  | rm m => simp [Timer.isLoop] at ht

/-- the branch of `handle_timer` for a loop timer `t`, for an invariant that lets the timers of that loop be
    re-armed freely -/
theorem LeavesQ.loopBranch (t : Timer) (ht : t.isLoop = true)
    (hstart : ∀ m, PresC P (modS fun s => { s with probe := s.probe.start m }))
    (hemit : ∀ p t', t'.loopNo = t.loopNo → PresC P (emit (.timer p t'))) : PresC P (Foca.handleTimer E t) := by
  by_cases hp : t.loopNo = some 0
  · cases t with
    | probe tok => exact L.probeBranch tok hstart (fun p t' h => hemit p t' h)
    | pa tok => simp [Timer.loopNo] at hp
    | pad tok => simp [Timer.loopNo] at hp
    | pg tok => simp [Timer.loopNo] at hp
    | indirect p tok => simp [Timer.isLoop] at ht
    | s2d m inc tok => simp [Timer.isLoop] at ht
    | rm m => simp [Timer.isLoop] at ht
  · exact L.periodicBranch t ht hp hemit

/-- `handle_timer`; the branches of the loop timers are a hypothesis -/
theorem LeavesQ.handleTimer (t : Timer) (hloop : t.isLoop = true → PresC P (Foca.handleTimer E t)) :
    PresC P (Foca.handleTimer E t) := by
  cases t with
  | probe tok => exact hloop rfl
  | pa tok => exact hloop rfl
  | pad tok => exact hloop rfl
  | pg tok => exact hloop rfl
  | indirect p tok =>
    unfold Foca.handleTimer
    presc
    all_goals first
      | exact L.probeQuiet (fun p => { p with reached := true }) (fun _ => Or.inr ⟨rfl, fun _ => rfl⟩) (fun _ => ⟨rfl, Or.inl ⟨rfl, rfl⟩⟩)
      | exact L.pingReqLoop _ _
  | s2d m inc tok =>
    unfold Foca.handleTimer
    presc
    all_goals first
      | exact L.applyExistingReport _ _
      | exact L.adjustConnectionState
      | exact L.sendMessage _ _
  | rm m =>
    unfold Foca.handleTimer
    presc
    exact L.removeDown _

theorem LeavesQ.customLoop (sender : Option Id) (fuel : Nat) (data : Bytes) : PresC P (Foca.customLoop E sender fuel data) := by
  induction fuel generalizing data with
  | zero => unfold Foca.customLoop; exact PresC.throwE _
  | succ f ih =>
    unfold Foca.customLoop
    presc
    all_goals first
      | exact L.keep _ (fun _ => ⟨rfl, rfl, rfl, rfl, rfl, rfl⟩)
      | exact ih _

theorem LeavesQ.handleCustomBroadcasts (data : Bytes) (sender : Option Id) :
    PresC P (Foca.handleCustomBroadcasts E data sender) := by
  unfold Foca.handleCustomBroadcasts
  presc
  exact L.customLoop _ _ _

theorem LeavesQ.reactToMessage (h : Header) (hrecv : RecvOk P h) : PresC P (Foca.reactToMessage E h) := by
  unfold Foca.reactToMessage
  presc
  all_goals first
    | exact hrecv.1 _ (by assumption)
    | exact hrecv.2 _ _ (by assumption)
    | exact L.sendMessage _ _
    | exact L.handleSelfUpdate _ _

theorem LeavesQ.inactiveSender (h : Header) : PresC P (Foca.inactiveSender E h) := by
  unfold Foca.inactiveSender
  presc
  all_goals first
    | exact L.handleSelfUpdate _ _
    | exact L.sendMessage _ _

theorem LeavesQ.replyStage (h : Header) (cres : Option ErrKind) (hrecv : RecvOk P h) : PresC P (Foca.replyStage E h cres) := by
  unfold Foca.replyStage
  presc
  exact L.reactToMessage _ hrecv

theorem LeavesQ.handleData (data : Bytes) (hrecv : ∀ h rest, E.codec.decHeader data = some (h, rest) → RecvOk P h) :
    PresC P (Foca.handleData E data) := by
  unfold Foca.handleData
  presc
  all_goals first
    | exact L.applyUpdate _ _
    | exact L.inactiveSender _
    | exact L.applyMany _ _
    | exact PresC.attempt (L.handleCustomBroadcasts _ _)
    | exact L.replyStage _ _ (hrecv _ _ (by assumption))

theorem LeavesQ.runOp (op : Op)
    (hloop : ∀ t, op = .timer t → t.isLoop = true → PresC P (Foca.handleTimer E t))
    (hdata : ∀ b, op = .data b → ∀ h rest, E.codec.decHeader b = some (h, rest) → RecvOk P h) :
    PresC P (Foca.runOp E op) := by
  cases op <;> unfold Foca.runOp <;> presc
  all_goals first
    | exact L.handleTimer _ (fun h => hloop _ rfl h)
    | exact L.applyMany _ _
    | exact L.handleData _ (hdata _ rfl)
    | exact L.sendMessage _ _
    | exact L.gossip
    | exact L.broadcastApi
    | exact L.leaveCluster
    | exact L.addBroadcast _
    | exact L.changeIdentity _ _
    | exact L.reuseDownIdentity
    | exact L.setConfig _

end
end Foca
