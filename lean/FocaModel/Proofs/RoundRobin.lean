/-
  Round-robin probing (`Members::next`) on a stable member list: from *any* cursor position and for *any*
  permutations the shuffles produce, an active member is returned within `2n − 1` rounds.
-/
import FocaModel.Props.C14
namespace Foca.RR
open Foca Foca.C14

/-- the active members, in list order -/
def acts (l : List Member) : List Member := l.filter Member.active
/-- the active members at or after position `c`: those still to come in this pass -/
def pend (l : List Member) (c : Nat) : List Member := (l.drop c).filter Member.active

theorem acts_split (l : List Member) (c : Nat) : acts l = acts (l.take c) ++ pend l c := by
  unfold acts pend
  rw [← List.filter_append, List.take_append_drop]

theorem pend_zero (l : List Member) : pend l 0 = acts l := by simp [pend, acts]

theorem pend_beyond (l : List Member) (c : Nat) (h : c ≥ l.length) : pend l c = [] := by
  simp [pend, List.drop_eq_nil_of_le h]

/-- skipping inactive positions -/
theorem pend_skip (l : List Member) (c p : Nat) (hp : p < l.length) (hcp : c ≤ p)
    (hin : ∀ k (hk : k < l.length), c ≤ k → k < p → l[k].active = false) (ha : l[p].active = true) :
    pend l c = l[p] :: pend l (p + 1) := by
  induction hd : p - c generalizing c with
  | zero =>
    have : c = p := by omega
    subst this
    unfold pend
    rw [List.drop_eq_getElem_cons hp, List.filter_cons, if_pos ha]
  | succ d ih =>
    have hc : c < l.length := by omega
    have h1 := ih (c + 1) (by omega) (fun k hk h1 h2 => hin k hk (by omega) h2) (by omega)
    unfold pend at h1 ⊢
    rw [List.drop_eq_getElem_cons hc, List.filter_cons]
    have : l[c].active = false := hin c hc (Nat.le_refl _) (by omega)
    simp only [this, Bool.false_eq_true, if_false]
    exact h1

theorem find_some {l : List Member} {c p : Nat} (h : findActiveFrom l c 0 = some p) :
    ∃ hp : p < l.length, c ≤ p ∧ l[p].active = true ∧ pend l c = l[p] :: pend l (p + 1) := by
  obtain ⟨_, hcp, m, hm, ha⟩ := findActiveFrom_some h
  simp only [Nat.sub_zero] at hm
  obtain ⟨hp, hpm⟩ := List.getElem?_eq_some_iff.1 hm
  have hact : l[p].active = true := by rw [hpm]; exact ha
  refine ⟨hp, hcp, hact, pend_skip l c p hp hcp ?_ hact⟩
  intro k hk h1 h2
  exact findActiveFrom_first h k hk (by omega) (by omega)

theorem find_none {l : List Member} {c : Nat} (h : findActiveFrom l c 0 = none) : pend l c = [] := by
  unfold pend
  rw [List.filter_eq_nil_iff]
  intro m hm
  obtain ⟨k, hk, hkm⟩ := List.getElem_of_mem hm
  simp only [List.getElem_drop] at hkm
  simp only [List.length_drop] at hk
  have := findActiveFrom_none h (c + k) (by omega) (by omega)
  rw [hkm] at this
  simp [this]

/-- a pass continues: the next pending active member is returned, the rest stays pending -/
theorem next_cons {l : List Member} {c : Nat} {y : Member} {rest : List Member} (h : pend l c = y :: rest) :
    ∃ p, c ≤ p ∧ p < l.length ∧ nextPure l c = (some y, .at (p + 1)) ∧ pend l (p + 1) = rest := by
  cases hf : findActiveFrom l c 0 with
  | none => rw [find_none hf] at h; simp at h
  | some p =>
    obtain ⟨hp, hcp, _, hpd⟩ := find_some hf
    rw [hpd] at h
    simp only [List.cons.injEq] at h
    refine ⟨p, hcp, hp, ?_, h.2⟩
    unfold nextPure
    simp only [hf]
    rw [List.getElem?_eq_getElem hp, h.1]

/-- a pass is exhausted before the end of the list: wrap to the first active member, request a reshuffle -/
theorem next_nil {l : List Member} {c : Nat} {a0 : Member} {t : List Member} (h : pend l c = [])
    (ha : acts l = a0 :: t) : nextPure l c = (some a0, .max) := by
  have hf : findActiveFrom l c 0 = none := by
    cases hf : findActiveFrom l c 0 with
    | none => rfl
    | some p => obtain ⟨_, _, _, hpd⟩ := find_some hf; rw [hpd] at h; simp at h
  have htk : acts (l.take c) = a0 :: t := by
    have := acts_split l c
    rw [h, List.append_nil] at this
    rw [← this]; exact ha
  unfold nextPure
  simp only [hf]
  cases hf2 : findActiveFrom (l.take c) 0 0 with
  | none =>
    have := find_none hf2
    rw [pend_zero, htk] at this
    simp at this
  | some p =>
    obtain ⟨hp, _, _, hpd⟩ := find_some hf2
    rw [pend_zero, htk] at hpd
    simp only [List.cons.injEq] at hpd
    simp only
    have hpc : p < c := by simp at hp; omega
    have : l[p]? = some a0 := by
      have h1 : (l.take c)[p]? = some (l.take c)[p] := List.getElem?_eq_getElem hp
      rw [List.getElem?_take, if_pos hpc] at h1
      rw [h1, ← hpd.1]
    rw [this]

def Cursor.idx : Cursor → Nat
  | .at i => i
  | .max => 0

/-- One probe round on a stable member list: the reshuffle when it is due (`perm` is what the RNG makes of the
    list), then `nextPure`. Returns the member to ping, the list and the cursor afterwards. -/
def rrStep (l : List Member) (cur : Cursor) (perm : List Member) : Option Member × List Member × Cursor :=
  if needsShuffle cur l.length then ((nextPure perm 0).1, perm, (nextPure perm 0).2)
  else ((nextPure l (Cursor.idx cur)).1, l, (nextPure l (Cursor.idx cur)).2)

/-- consecutive rounds; `perms` are the RNG's permutations, one offered per round -/
def rrRun : List Member → Cursor → List (List Member) → List (Option Member)
  | _, _, [] => []
  | l, cur, perm :: perms =>
    (rrStep l cur perm).1 :: rrRun (rrStep l cur perm).2.1 (rrStep l cur perm).2.2 perms

/-- the state after some rounds -/
def rrAfter : List Member → Cursor → List (List Member) → List Member × Cursor
  | l, cur, [] => (l, cur)
  | l, cur, perm :: perms => rrAfter (rrStep l cur perm).2.1 (rrStep l cur perm).2.2 perms

/-- rounds until `x` is returned, at most -/
def bound (l : List Member) (cur : Cursor) (x : Member) : Nat :=
  if needsShuffle cur l.length then (acts l).length
  else if x ∈ pend l (Cursor.idx cur) then (pend l (Cursor.idx cur)).idxOf x + 1
  else (pend l (Cursor.idx cur)).length + (if (acts l).head? = some x then (acts l).length else (acts l).length + 1)

theorem mem_acts {l : List Member} {x : Member} (hx : x ∈ l) (ha : x.active = true) : x ∈ acts l := by
  simp [acts, hx, ha]

theorem acts_perm {l l' : List Member} (h : l'.Perm l) : (acts l').Perm (acts l) := h.filter _

theorem bound_pos {l : List Member} {cur : Cursor} {x : Member} (hx : x ∈ l) (ha : x.active = true) :
    bound l cur x ≥ 1 := by
  have hN : (acts l).length ≥ 1 := List.length_pos_of_mem (mem_acts hx ha)
  unfold bound
  split
  · exact hN
  · split
    · omega
    · split <;> omega

theorem bound_le {l : List Member} {cur : Cursor} {x : Member} (hx : x ∈ l) (ha : x.active = true) :
    bound l cur x ≤ 2 * (acts l).length - 1 := by
  have hxa := mem_acts hx ha
  have hN : (acts l).length ≥ 1 := List.length_pos_of_mem hxa
  unfold bound
  split
  · omega
  · split
    · rename_i hmem
      have h1 := List.idxOf_lt_length_of_mem hmem
      have h2 : (pend l (Cursor.idx cur)).length ≤ (acts l).length := by
        rw [acts_split l (Cursor.idx cur)]; simp
      omega
    · rename_i hmem
      have hsplit := acts_split l (Cursor.idx cur)
      have hxt : x ∈ acts (l.take (Cursor.idx cur)) := by
        rw [hsplit, List.mem_append] at hxa
        rcases hxa with h | h
        · exact h
        · exact absurd h hmem
      have hlen : (acts l).length = (acts (l.take (Cursor.idx cur))).length + (pend l (Cursor.idx cur)).length := by
        rw [hsplit, List.length_append]
      split
      · have : (acts (l.take (Cursor.idx cur))).length ≥ 1 := List.length_pos_of_mem hxt
        omega
      · rename_i hhead
        have : (acts (l.take (Cursor.idx cur))).length ≥ 2 := by
          cases hq : acts (l.take (Cursor.idx cur)) with
          | nil => rw [hq] at hxt; simp at hxt
          | cons a0 t =>
            cases t with
            | nil =>
              rw [hq] at hxt
              simp at hxt
              rw [hsplit, hq] at hhead
              simp at hhead
              exact absurd hxt.symm hhead
            | cons b t' => simp
        omega

/-- one round either returns `x` or brings it strictly closer — whatever the shuffle produces -/
theorem step_progress {l : List Member} {cur : Cursor} {perm : List Member} {x : Member}
    (hperm : perm.Perm l) (hx : x ∈ l) (ha : x.active = true) :
    (rrStep l cur perm).1 = some x ∨
      bound (rrStep l cur perm).2.1 (rrStep l cur perm).2.2 x + 1 ≤ bound l cur x := by
  have hxa := mem_acts hx ha
  unfold rrStep
  by_cases hs : needsShuffle cur l.length = true
  · -- a fresh pass over the reshuffled list
    simp only [hs, if_true]
    have hxp : x ∈ acts perm := (acts_perm hperm).mem_iff.2 hxa
    have hNeq : (acts perm).length = (acts l).length := (acts_perm hperm).length_eq
    cases hq : acts perm with
    | nil => rw [hq] at hxp; simp at hxp
    | cons a0 t =>
      obtain ⟨p, _, hp, hnext, hrest⟩ := next_cons (l := perm) (c := 0) (by rw [pend_zero]; exact hq)
      rw [hnext]
      simp only
      by_cases hxa0 : x = a0
      · left; rw [hxa0]
      · right
        have hxt : x ∈ t := by
          rw [hq] at hxp
          simp only [List.mem_cons] at hxp
          rcases hxp with h | h
          · exact absurd h hxa0
          · exact h
        have hnf : needsShuffle (.at (p + 1)) perm.length = false := by
          cases hn : needsShuffle (.at (p + 1)) perm.length with
          | false => rfl
          | true =>
            simp [needsShuffle] at hn
            rw [pend_beyond perm (p + 1) hn] at hrest
            rw [← hrest] at hxt; simp at hxt
        have hb : bound l cur x = (acts l).length := by unfold bound; simp [hs]
        rw [hb]
        unfold bound
        simp only [hnf, Bool.false_eq_true, if_false, Cursor.idx, hrest, hxt, if_true]
        have := List.idxOf_lt_length_of_mem hxt
        rw [← hNeq, hq]
        simp only [List.length_cons]
        omega
  · simp only [hs, Bool.false_eq_true, if_false]
    have hb0 : bound l cur x = (if x ∈ pend l (Cursor.idx cur) then (pend l (Cursor.idx cur)).idxOf x + 1
        else (pend l (Cursor.idx cur)).length +
          (if (acts l).head? = some x then (acts l).length else (acts l).length + 1)) := by
      unfold bound; simp [hs]
    cases hq : pend l (Cursor.idx cur) with
    | cons y rest =>
      obtain ⟨p, _, hp, hnext, hrest⟩ := next_cons hq
      rw [hnext]
      simp only
      by_cases hxy : x = y
      · left; rw [hxy]
      · right
        rw [hb0, hq]
        have hmem : x ∈ y :: rest ↔ x ∈ rest := by
          simp only [List.mem_cons]; exact ⟨fun h => h.resolve_left hxy, Or.inr⟩
        by_cases hnf : needsShuffle (.at (p + 1)) l.length = true
        · have hre : rest = [] := by
            simp [needsShuffle] at hnf
            rw [pend_beyond l (p + 1) hnf] at hrest; exact hrest.symm
          subst hre
          have : bound l (.at (p + 1)) x = (acts l).length := by unfold bound; simp [hnf]
          rw [this]
          simp only [List.mem_cons, List.not_mem_nil, or_false, hxy, if_false, List.length_cons, List.length_nil]
          split <;> omega
        · have : bound l (.at (p + 1)) x = (if x ∈ rest then rest.idxOf x + 1
              else rest.length + (if (acts l).head? = some x then (acts l).length else (acts l).length + 1)) := by
            unfold bound; simp [hnf, Cursor.idx, hrest]
          rw [this]
          by_cases hxr : x ∈ rest
          · have hxyr : x ∈ y :: rest := hmem.2 hxr
            simp only [hxr, hxyr, if_true]
            rw [List.idxOf_cons]
            have : (y == x) = false := by simp; exact fun h => hxy h.symm
            simp only [this, cond_false]
            omega
          · have hxyr : ¬ x ∈ y :: rest := fun h => hxr (hmem.1 h)
            simp only [hxr, hxyr, if_false, List.length_cons]
            omega
    | nil =>
      cases hacts : acts l with
      | nil => rw [hacts] at hxa; simp at hxa
      | cons a0 t =>
        rw [next_nil hq hacts]
        simp only
        by_cases hxa0 : x = a0
        · left; rw [hxa0]
        · right
          rw [hb0, hq]
          have : bound l .max x = (acts l).length := by unfold bound; simp [needsShuffle]
          rw [this, hacts]
          simp only [List.not_mem_nil, if_false, List.length_nil, List.head?_cons, Option.some.injEq]
          rw [if_neg (fun h => hxa0 h.symm)]
          omega

theorem step_perm {l : List Member} {cur : Cursor} {perm : List Member} (hperm : perm.Perm l) :
    (rrStep l cur perm).2.1.Perm l := by
  unfold rrStep
  split
  · exact hperm
  · exact List.Perm.refl _

/-- from any state, `x` is returned within `bound` rounds -/
theorem within_bound (k : Nat) : ∀ (l : List Member) (cur : Cursor) (perms : List (List Member)) (x : Member),
    x ∈ l → x.active = true → (∀ p ∈ perms, p.Perm l) → bound l cur x ≤ k → perms.length ≥ k →
    some x ∈ rrRun l cur perms := by
  induction k with
  | zero =>
    intro l cur perms x hx ha _ hb _
    have := bound_pos (cur := cur) hx ha
    omega
  | succ k ih =>
    intro l cur perms x hx ha hp hb hl
    cases perms with
    | nil => simp at hl
    | cons perm rest =>
      unfold rrRun
      have hperm := hp perm (by simp)
      rcases step_progress (cur := cur) hperm hx ha with h | h
      · rw [h]; simp
      · have hl' := step_perm (cur := cur) hperm
        refine List.mem_cons_of_mem _ (ih _ _ rest x (hl'.mem_iff.2 hx) ha ?_ (by omega) (by simpa using hl))
        intro p hp'
        exact (hp p (by simp [hp'])).trans hl'.symm

end Foca.RR
