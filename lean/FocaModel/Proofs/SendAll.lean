/-
  Lifting the `send_message` contract to the loops that call it.
-/
import FocaModel.Proofs.Send
namespace Foca

/-- every effect appended is a datagram to a destination satisfying `P`, of at most
    `max_packet_size` bytes; only the backlogs change; the only possible error is `Encode` -/
def SendsTo {α} (P : Id → Prop) (c : Ctx) (res : R α) : Prop :=
  match res with
  | .ok _ c' => OnlyBacklogs c.s c'.s ∧ ∃ new, c'.eff = c.eff ++ new ∧
      ∀ e ∈ new, ∃ d b, e = .send d b ∧ P d ∧ b.length ≤ c.s.cfg.mps
  | .err k c' => k = .encode ∧ OnlyBacklogs c.s c'.s ∧ ∃ new, c'.eff = c.eff ++ new ∧
      ∀ e ∈ new, ∃ d b, e = .send d b ∧ P d ∧ b.length ≤ c.s.cfg.mps
  | .stuck _ => True

theorem OnlyBacklogs.cfg {s s' : State} (h : OnlyBacklogs s s') : s'.cfg = s.cfg := by
  unfold OnlyBacklogs at h; rw [h]
theorem OnlyBacklogs.id {s s' : State} (h : OnlyBacklogs s s') : s'.id = s.id := by
  unfold OnlyBacklogs at h; rw [h]
theorem OnlyBacklogs.ms {s s' : State} (h : OnlyBacklogs s s') : s'.ms = s.ms := by
  unfold OnlyBacklogs at h; rw [h]

section
variable (E : Env)

theorem sendAll_spec (P : Id → Prop) (msg : Msg) (ds : List Id) (hP : ∀ d ∈ ds, P d) (c : Ctx) :
    SendsTo P c (sendAll E msg ds c) := by
  induction ds generalizing c with
  | nil =>
    unfold sendAll
    simp only [pure_run, SendsTo]
    exact ⟨OnlyBacklogs.refl _, [], by simp, by simp⟩
  | cons d rest ih =>
    unfold sendAll
    simp only [bind_run]
    have hs := sendMessage_spec E d msg c
    generalize sendMessage E d msg c = r1 at hs ⊢
    cases r1 with
    | stuck x => simp [SendsTo]
    | err e c1 =>
      obtain ⟨he, hss, hee⟩ := hs
      simp only [SendsTo]
      exact ⟨he, by rw [hss]; exact OnlyBacklogs.refl _, [], by simp [hee], by simp⟩
    | ok u c1 =>
      obtain ⟨hob, body, heff, hlen⟩ := hs
      simp only []
      have h2 := ih (fun x hx => hP x (by simp [hx])) c1
      generalize sendAll E msg rest c1 = r2 at h2 ⊢
      have hd : ∃ d' b, Effect.send d (E.codec.encHeader ⟨c.s.id, c.s.inc, d, msg⟩ ++ body) = Effect.send d' b ∧ P d' ∧ b.length ≤ c.s.cfg.mps :=
        ⟨d, _, rfl, hP d (by simp), hlen⟩
      cases r2 with
      | stuck x => simp [SendsTo]
      | ok u2 c2 =>
        obtain ⟨hob2, new, heff2, hall⟩ := h2
        refine ⟨hob.trans hob2, Effect.send d (E.codec.encHeader ⟨c.s.id, c.s.inc, d, msg⟩ ++ body) :: new, by rw [heff2, heff]; simp, ?_⟩
        intro e he
        simp at he
        rcases he with he | he
        · subst he; exact hd
        · obtain ⟨d', b, h1, h2, h3⟩ := hall e he
          exact ⟨d', b, h1, h2, by rw [← hob.cfg]; exact h3⟩
      | err k c2 =>
        obtain ⟨hk, hob2, new, heff2, hall⟩ := h2
        refine ⟨hk, hob.trans hob2, Effect.send d (E.codec.encHeader ⟨c.s.id, c.s.inc, d, msg⟩ ++ body) :: new, by rw [heff2, heff]; simp, ?_⟩
        intro e he
        simp at he
        rcases he with he | he
        · subst he; exact hd
        · obtain ⟨d', b, h1, h2, h3⟩ := hall e he
          exact ⟨d', b, h1, h2, by rw [← hob.cfg]; exact h3⟩

/-- `choose_and_send`: every datagram goes to an active listed member -/
theorem chooseAndSend_spec (num : Nat) (msg : Msg) (c : Ctx) :
    SendsTo (fun d => ∃ m ∈ c.s.ms, m.id = d ∧ m.active = true) c (chooseAndSend E num msg c) := by
  unfold chooseAndSend
  simp only [bind_run, getS_run]
  have hc := chooseLoop_spec num (fun m => m.active) c.s.ms [] 0 c
  generalize chooseLoop num (fun m => m.active) c.s.ms [] 0 c = rc at hc ⊢
  cases rc with
  | stuck x => simp [SendsTo]
  | err e c1 => exact hc.elim
  | ok chosen c1 =>
    obtain ⟨hs, he, hmem, _⟩ := hc
    simp only []
    have := sendAll_spec E (fun d => ∃ m ∈ c.s.ms, m.id = d ∧ m.active = true) msg (chosen.reverse.map (·.id))
      (by
        intro d hd
        simp at hd
        obtain ⟨m, hm, hmd⟩ := hd
        rcases hmem m hm with h | ⟨h1, h2⟩
        · simp at h
        · exact ⟨m, h1, hmd, h2⟩) c1
    generalize sendAll E msg (chosen.reverse.map (·.id)) c1 = r at this ⊢
    cases r with
    | stuck x => simp [SendsTo]
    | ok u c2 =>
      obtain ⟨hob, new, heff, hall⟩ := this
      exact ⟨by rw [← hs]; exact hob, new, by rw [heff, he], fun e he' => by
        obtain ⟨d', b, h1, h2, h3⟩ := hall e he'
        exact ⟨d', b, h1, h2, by rw [← hs]; exact h3⟩⟩
    | err k c2 =>
      obtain ⟨hk, hob, new, heff, hall⟩ := this
      exact ⟨hk, by rw [← hs]; exact hob, new, by rw [heff, he], fun e he' => by
        obtain ⟨d', b, h1, h2, h3⟩ := hall e he'
        exact ⟨d', b, h1, h2, by rw [← hs]; exact h3⟩⟩

/-- `announce_to_down`: every Announce goes to a Down record of another address -/
theorem announceToDown_spec (num : Nat) (c : Ctx) :
    SendsTo (fun d => d.addr ≠ c.s.id.addr ∧ ∃ m ∈ c.s.ms, m.id = d ∧ m.active = false) c (announceToDown E num c) := by
  unfold announceToDown
  simp only [bind_run, getS_run]
  have hc := chooseLoop_spec num (fun m => !m.active && m.id.addr != c.s.id.addr) c.s.ms [] 0 c
  generalize chooseLoop num (fun m => !m.active && m.id.addr != c.s.id.addr) c.s.ms [] 0 c = rc at hc ⊢
  cases rc with
  | stuck x => simp [SendsTo]
  | err e c1 => exact hc.elim
  | ok chosen c1 =>
    obtain ⟨hs, he, hmem, _⟩ := hc
    simp only []
    have := sendAll_spec E (fun d => d.addr ≠ c.s.id.addr ∧ ∃ m ∈ c.s.ms, m.id = d ∧ m.active = false) .announce
      (chosen.reverse.map (·.id))
      (by
        intro d hd
        simp at hd
        obtain ⟨m, hm, hmd⟩ := hd
        rcases hmem m hm with h | ⟨h1, h2⟩
        · simp at h
        · simp at h2
          subst hmd
          exact ⟨h2.2, m, h1, rfl, h2.1⟩) c1
    generalize sendAll E .announce (chosen.reverse.map (·.id)) c1 = r at this ⊢
    cases r with
    | stuck x => simp [SendsTo]
    | ok u c2 =>
      obtain ⟨hob, new, heff, hall⟩ := this
      exact ⟨by rw [← hs]; exact hob, new, by rw [heff, he], fun e he' => by
        obtain ⟨d', b, h1, h2, h3⟩ := hall e he'
        exact ⟨d', b, h1, h2, by rw [← hs]; exact h3⟩⟩
    | err k c2 =>
      obtain ⟨hk, hob, new, heff, hall⟩ := this
      exact ⟨hk, by rw [← hs]; exact hob, new, by rw [heff, he], fun e he' => by
        obtain ⟨d', b, h1, h2, h3⟩ := hall e he'
        exact ⟨d', b, h1, h2, by rw [← hs]; exact h3⟩⟩

/-- `gossip` only appends datagrams (to listed active members); identity, incarnation, connection state,
    token, members and configuration are untouched. Implication form, convenient after `split`. -/
theorem gossip_ok {c c' : Ctx} {u : Unit} (h : gossip E c = .ok u c') :
    OnlyBacklogs c.s c'.s ∧ ∃ new, c'.eff = c.eff ++ new ∧
      ∀ e ∈ new, ∃ d b, e = Effect.send d b ∧ ∃ m ∈ c.s.ms, m.id = d ∧ m.active = true := by
  unfold gossip at h
  simp only [bind_run, getS_run] at h
  have hs := chooseAndSend_spec E c.s.cfg.k .gossip c
  rw [h] at hs
  obtain ⟨hob, new, heff, hall⟩ := hs
  exact ⟨hob, new, heff, fun e he => by
    obtain ⟨d, b, h1, h2, _⟩ := hall e he
    exact ⟨d, b, h1, h2⟩⟩

theorem gossip_err {c c' : Ctx} {k : ErrKind} (h : gossip E c = .err k c') : k = .encode := by
  unfold gossip at h
  simp only [bind_run, getS_run] at h
  have hs := chooseAndSend_spec E c.s.cfg.k .gossip c
  rw [h] at hs
  exact hs.1

end
end Foca
