/-
  With timers held, every exchange in a calm cluster ends: each delivery that takes its datagram off the wire puts
  back at most one datagram, of strictly lower rank, so the summed weight of the wire (rank + 1 per datagram) goes
  down with every delivery. (C18 for fault-free clusters; the general case needs the knowledge argument of
  DESIGN.md Appendix B.)
-/
import FocaModel.Proofs.CalmNet
import FocaModel.Proofs.FanOutSelf
namespace Foca
open Foca.C07 Foca.C07H

section
variable (E : Env)

/-- rank of the kind + 1 (1 for bytes without a readable header: they cause nothing) -/
def weight (b : Bytes) : Nat :=
  match E.codec.decHeader b with
  | some (h, _) => C18.rank h.msg + 1
  | none => 1

def wireWeight (w : List (Id × Bytes)) : Nat := (w.map (fun p => weight E p.2)).sum

/-- the cluster after node `i` took datagram `p` off the wire and handled it -/
def Net.consume (n : Net) (p : Id × Bytes) (i : Nat) (s' : State) (eff : List Effect) : Net :=
  ({ n with wire := n.wire.erase p } : Net).after E i s' eff

theorem sum_map_erase {α} [BEq α] [LawfulBEq α] (f : α → Nat) (l : List α) (p : α) (h : p ∈ l) :
    ((l.erase p).map f).sum + f p = (l.map f).sum := by
  induction l with
  | nil => simp at h
  | cons x rest ih =>
    by_cases hx : x = p
    · subst hx; simp [Nat.add_comm]
    · have hp : p ∈ rest := by
        simp only [List.mem_cons] at h
        rcases h with h | h
        · exact absurd h.symm hx
        · exact h
      rw [List.erase_cons_tail (by simpa using hx)]
      simp only [List.map_cons, List.sum_cons]
      have := ih hp
      omega

theorem sentDatagrams_length (eff : List Effect) : (sentDatagrams eff).length = sendCount eff := by
  unfold sentDatagrams sendCount
  induction eff with
  | nil => rfl
  | cons e rest ih =>
    cases e with
    | send d b => simp [List.filterMap_cons, List.countP_cons, isSend, ih]
    | notify x => simp [List.filterMap_cons, List.countP_cons, isSend, ih]
    | timer a t => simp [List.filterMap_cons, List.countP_cons, isSend, ih]

end

section
variable (E : Env) (ids : List Id) (hl : CodecLaws E.codec) (hhdr : HeaderLaw E.codec) (hdist : DistinctAddrs ids)
include hl hhdr hdist

/-- what a calm instance sends in answer to a datagram off the wire: at most one datagram, lighter than it -/
theorem calm_delivery_answer (n : Net) (hinv : CalmNet E ids n) (s s' : State) (hs : s ∈ n.nodes) (d : Id) (b : Bytes)
    (hw : (d, b) ∈ n.wire) (orc left : Oracle) (eff : List Effect) (r : Res)
    (hstep : Foca.step E s (.data b) orc = .done s' eff r left) :
    sendCount eff ≤ 1 ∧ ∀ p ∈ sentDatagrams eff, weight E p.2 < weight E b := by
  obtain ⟨h1, h2, _⟩ := hinv
  obtain ⟨h0, hm, q1, q2, q3, q4, q5⟩ := h2 d b hw
  have hdat : DataOk E (CalmM (toldBy n.sent) ids) (CalmH (toldBy n.sent) ids) b :=
    shape_dataOk E hl hhdr (fun u hu => (mwire_iff u).1 hu.1.1) q5 q2 ⟨q2, q3.1, toldBy_mem hm, q4, q3.2⟩
  have hdec0 := shape_header E hhdr q5 q2
  obtain ⟨rest0, hdec⟩ : ∃ rest0, E.codec.decHeader b = some (h0, rest0) := by
    cases hd : E.codec.decHeader b with
    | none => rw [hd] at hdec0; simp at hdec0
    | some pr =>
      rw [hd] at hdec0
      simp only [Option.map_some, Option.some.injEq] at hdec0
      exact ⟨pr.2, by rw [← hdec0]⟩
  have hwb : weight E b = C18.rank h0.msg + 1 := by unfold weight; rw [hdec]
  refine ⟨?_, ?_⟩
  · have := step_selfCount E s b orc
    rw [hstep] at this
    have hu0 : selfUpdatesIn E s.id.addr b = 0 := by
      unfold selfUpdatesIn
      rw [hdec]
      simp only []
      cases hp : parseSection E h0 rest0 with
      | none => rfl
      | some pr =>
        obtain ⟨us, tl⟩ := pr
        simp only [selfUpdates]
        rw [List.countP_eq_zero]
        intro u hu
        have := ((hdat h0 rest0 hdec).2 us tl hp u hu).2.1
        simp [this]
    have ht0 : isTurnUndead E b = 0 := by
      unfold isTurnUndead
      rw [hdec]
      simp [q4]
    rw [hu0, ht0] at this
    simpa using this
  · have hk := CalmSent.deliver E (toldBy n.sent) ids (fun m => C18.rank m < C18.rank h0.msg) hdist s b orc (h1 s hs) hdat
      (by
        intro h rest hd src dd rr hr
        rw [hdec] at hd
        simp only [Option.some.injEq, Prod.mk.injEq] at hd
        rw [← hd.1] at hr
        exact C18.replies_descend src h0.msg dd rr hr)
    rw [hstep] at hk
    intro p hp
    unfold sentDatagrams at hp
    rw [List.mem_filterMap] at hp
    obtain ⟨e, hmem, hq⟩ := hp
    cases e with
    | timer a t => simp at hq
    | notify x => simp at hq
    | send d' b' =>
      simp only [Option.some.injEq] at hq
      subst hq
      obtain ⟨h', _, hw', _, hk', hsh'⟩ := hk.2 _ hmem
      have hd' := shape_header E hhdr hsh' hw'
      have : weight E b' = C18.rank h'.msg + 1 := by
        unfold weight
        cases hd2 : E.codec.decHeader b' with
        | none => rw [hd2] at hd'; simp at hd'
        | some pr =>
          rw [hd2] at hd'
          simp only [Option.map_some, Option.some.injEq] at hd'
          simp only [hd']
      simp only
      rw [this, hwb]
      omega

omit hl hhdr hdist in
theorem CalmNet.erase {n : Net} (hinv : CalmNet E ids n) (p : Id × Bytes) :
    CalmNet E ids ({ n with wire := n.wire.erase p } : Net) :=
  ⟨hinv.1, fun d b h => hinv.2.1 d b (List.mem_of_mem_erase h), hinv.2.2⟩

/-- **One consuming delivery in a calm cluster**: the invariant is kept and the wire gets lighter. -/
theorem calm_consume (n : Net) (hinv : CalmNet E ids n) (i : Nat) (s s' : State) (hs : n.nodes[i]? = some s) (d : Id)
    (b : Bytes) (hw : (d, b) ∈ n.wire) (orc left : Oracle) (eff : List Effect) (r : Res)
    (hstep : Foca.step E s (.data b) orc = .done s' eff r left) :
    CalmNet E ids (n.consume E (d, b) i s' eff) ∧
    wireWeight E (n.consume E (d, b) i s' eff).wire < wireWeight E n.wire := by
  have hsmem : s ∈ n.nodes := List.mem_of_getElem? hs
  have hdat : CalmOp E (toldBy n.sent) ids s (.data b) := by
    obtain ⟨h0, hm, q1, q2, q3, q4, q5⟩ := hinv.2.1 d b hw
    exact shape_dataOk E hl hhdr (fun u hu => (mwire_iff u).1 hu.1.1) q5 q2 ⟨q2, q3.1, toldBy_mem hm, q4, q3.2⟩
  refine ⟨?_, ?_⟩
  · exact CalmNet.after E ids hhdr hdist ({ n with wire := n.wire.erase (d, b) } : Net) i s s' (.data b) orc eff r left
      (CalmNet.erase E ids hinv (d, b)) hs hdat hstep
  · obtain ⟨hc, hlt⟩ := calm_delivery_answer E ids hl hhdr hdist n hinv s s' hsmem d b hw orc left eff r hstep
    have hsum : ((n.wire.erase (d, b)).map (fun p : Id × Bytes => weight E p.2)).sum + weight E b =
        (n.wire.map (fun p : Id × Bytes => weight E p.2)).sum :=
      sum_map_erase (fun p : Id × Bytes => weight E p.2) n.wire (d, b) hw
    have hwire : (n.consume E (d, b) i s' eff).wire = n.wire.erase (d, b) ++ sentDatagrams eff := rfl
    rw [hwire]
    unfold wireWeight
    rw [List.map_append, List.sum_append]
    have hlen : (sentDatagrams eff).length ≤ 1 := by rw [sentDatagrams_length]; exact hc
    have hnew : ((sentDatagrams eff).map (fun p => weight E p.2)).sum < weight E b := by
      cases hsd : sentDatagrams eff with
      | nil =>
        simp only [List.map_nil, List.sum_nil]
        unfold weight
        split <;> omega
      | cons p rest =>
        rw [hsd] at hlen hlt
        have hr : rest = [] := by
          cases rest with
          | nil => rfl
          | cons x xs => simp at hlen
        subst hr
        simpa using hlt p (by simp)
    omega

/-- exchanges with timers and API calls held: datagrams are taken off the wire one at a time, each by any node -/
inductive Drains : Net → Nat → Net → Prop
  | refl (n : Net) : Drains n 0 n
  | step {n n1 : Net} {k : Nat} (i : Nat) (s s' : State) (d : Id) (b : Bytes) (orc left : Oracle) (eff : List Effect)
      (r : Res) : Drains n k n1 → n1.nodes[i]? = some s → (d, b) ∈ n1.wire →
      Foca.step E s (.data b) orc = .done s' eff r left → Drains n (k + 1) (n1.consume E (d, b) i s' eff)

/-- **Every exchange in a calm cluster ends**: after `k` consuming deliveries the wire is lighter by at least `k`. -/
theorem calm_drain_bounded {n n' : Net} {k : Nat} (hinv : CalmNet E ids n) (h : Drains E n k n') :
    CalmNet E ids n' ∧ k + wireWeight E n'.wire ≤ wireWeight E n.wire := by
  induction h with
  | refl => exact ⟨hinv, by omega⟩
  | step i s s' d b orc left eff r _ hs hw hstep ih =>
    obtain ⟨hi, hle⟩ := ih
    obtain ⟨h1, h2⟩ := calm_consume E ids hl hhdr hdist _ hi i s s' hs d b hw orc left eff r hstep
    exact ⟨h1, by omega⟩

end
end Foca
